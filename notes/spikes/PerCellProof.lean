import Model
import Mathlib.Algebra.Order.Field.Rat
import Mathlib.Tactic.Linarith

theorem argmaxFirst_none {cs : List Cand} : argmaxFirst cs = none ↔ cs = [] := by
  cases cs with
  | nil => simp [argmaxFirst]
  | cons c cs =>
    simp only [argmaxFirst]
    cases h : argmaxFirst cs with
    | none => simp
    | some m => simp; split <;> simp

/-- bestOf from `none` equals argmaxFirst -/
theorem bestOf_some_eq (i : Cand) (cs : List Cand) :
    bestOf (some i) cs = some (match argmaxFirst cs with
      | none => i
      | some m => if i.obj < m.obj then m else i) := by
  induction cs generalizing i with
  | nil => simp [bestOf, argmaxFirst]
  | cons c cs ih =>
    simp only [bestOf, List.foldl_cons, better] at *
    by_cases h : i.obj < c.obj
    · simp only [h, ite_true]
      rw [ih c]
      simp only [argmaxFirst]
      cases hm : argmaxFirst cs with
      | none => simp [h]
      | some m =>
        simp only
        by_cases h2 : c.obj < m.obj
        · simp [h2, lt_trans h h2]
        · simp [h2, h]
    · simp only [h, ite_false]
      rw [ih i]
      simp only [argmaxFirst]
      cases hm : argmaxFirst cs with
      | none => simp [h]
      | some m =>
        simp only
        by_cases h2 : c.obj < m.obj
        · simp [h2]
        · simp only [h2, ite_false, h]
          have : ¬ i.obj < m.obj := by
            intro h3; exact h (lt_of_lt_of_le h3 (not_lt.mp h2))
          simp [this]

/-- objective of argmaxFirst is an upper bound and is attained by a member -/
theorem argmaxFirst_spec {cs : List Cand} {m : Cand} (h : argmaxFirst cs = some m) :
    m ∈ cs ∧ ∀ c ∈ cs, c.obj ≤ m.obj := by
  induction cs generalizing m with
  | nil => simp [argmaxFirst] at h
  | cons c cs ih =>
    simp only [argmaxFirst] at h
    cases hm : argmaxFirst cs with
    | none =>
      rw [hm] at h; simp at h; subst h
      have : cs = [] := argmaxFirst_none.mp hm
      subst this; simp
    | some m' =>
      rw [hm] at h
      obtain ⟨hmem, hub⟩ := ih hm
      by_cases h2 : c.obj < m'.obj
      · simp [h2] at h; subst h
        refine ⟨List.mem_cons_of_mem _ hmem, ?_⟩
        intro x hx; rcases List.mem_cons.mp hx with rfl | hx
        · exact le_of_lt h2
        · exact hub x hx
      · simp [h2] at h; subst h
        refine ⟨List.mem_cons_self, ?_⟩
        intro x hx; rcases List.mem_cons.mp hx with rfl | hx
        · exact le_refl _
        · exact le_trans (hub x hx) (not_lt.mp h2)

/-- filtering by a strict lower bound commutes with first-argmax -/
theorem argmaxFirst_filter (t : Rat) (cs : List Cand) :
    argmaxFirst (cs.filter (fun c => decide (t < c.obj))) =
      match argmaxFirst cs with
      | none => none
      | some m => if t < m.obj then some m else none := by
  induction cs with
  | nil => simp [argmaxFirst]
  | cons c cs ih =>
    simp only [List.filter_cons]
    by_cases hc : t < c.obj
    · simp only [hc, decide_true, ite_true, argmaxFirst]
      rw [ih]
      cases hm : argmaxFirst cs with
      | none => simp [hc]
      | some m =>
        simp only
        by_cases h1 : t < m.obj
        · simp only [h1, ite_true]
          by_cases h2 : c.obj < m.obj
          · simp [h2, h1]
          · simp [h2, hc]
        · simp only [h1, ite_false]
          have h2 : ¬ c.obj < m.obj := fun h => h1 (lt_trans hc h)
          simp [h2, hc]
    · simp only [hc, decide_false, argmaxFirst, Bool.false_eq_true, ite_false]
      rw [ih]
      cases hm : argmaxFirst cs with
      | none => simp [hc]
      | some m =>
        simp only
        by_cases h1 : t < m.obj
        · have h2 : c.obj < m.obj := lt_of_le_of_lt (not_lt.mp hc) h1
          simp [h1, h2]
        · simp only [h1, ite_false]
          by_cases h2 : c.obj < m.obj
          · simp [h2, h1]
          · simp [h2, hc]

/-- the code-shaped batch step equals the sequential strict-improvement fold (per cell) -/
theorem batch_eq_bestOf (inc : Option Cand) (cs : List Cand) : batch inc cs = bestOf inc cs := by
  cases inc with
  | none =>
    cases cs with
    | nil => simp [batch, accepted, argmaxFirst, bestOf]
    | cons c cs =>
      have hacc : accepted none (c :: cs) = c :: cs := by simp [accepted]
      simp only [batch, hacc, bestOf, List.foldl_cons, better]
      have := bestOf_some_eq c cs
      simp only [bestOf] at this
      rw [this]
      simp only [argmaxFirst]
      cases hm : argmaxFirst cs with
      | none => simp
      | some m => simp only; by_cases h : c.obj < m.obj <;> simp [h]
  | some i =>
    have hacc : accepted (some i) cs = cs.filter (fun c => decide (i.obj < c.obj)) := by simp [accepted]
    simp only [batch, hacc, argmaxFirst_filter, bestOf_some_eq]
    cases hm : argmaxFirst cs with
    | none => simp
    | some m => simp only; by_cases h : i.obj < m.obj <;> simp [h]

#print axioms batch_eq_bestOf
