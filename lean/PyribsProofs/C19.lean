import PyribsModel.Dqd
import PyribsProofs.C08
import Mathlib.Tactic.Linarith
import Mathlib.Tactic.Ring
import Mathlib.Algebra.Order.Field.Rat
/-!
# C19 — DQD emitters branch along the supplied gradients and step toward better branches

Theorems about `PyribsModel.Dqd`, for every dimension, every Jacobian (zero and rank-deficient ones
included), every coefficient row, every selection / restart rule, every feedback and every call sequence.

* T19.1 `branch_in_span`, `branch_zero_jacobian`, `branch_rank_one`, `gae_ask_rows`, `normaliseRow_dir`,
        `normaliseRow_zero`
* T19.2 `objective_coeff_nonneg`, `gopCoeffs_rest`, `gopBranch_in_span`, `gopObjOnly_in_span`,
        `gop_askDqd_returns_stored`, `gop_parents_preserved`, `gop_ask_from_returned`, `gop_ask_rows_spec`,
        `gop_ask_unbounded`, `gop_ask_in_bounds`, `gop_refuses_ask_nonempty`, `gop_startup_ask`,
        `gop_startup_askDqd`, `gop_no_initial_on_nonempty`, `gop_empty_batch`
* T19.3 `gae_refuses_ask`, `gae_refuses_tell`, `gae_allows_ask`, `gae_allows_tell`, `gae_tellDqd_sets`,
        `gae_before_gradients`, `gae_jac_persistent`, `gop_refuses_ask`, `gop_allows_ask`, `gop_ask_pure`,
        `gop_tell_noop`, `gop_before_gradients`, `gop_jac_persistent`
* T19.4 `zero_parents_fixpoint`, `zero_parents_defect_witness`
* T19.5 `step_toward_mean`, `step_on_segment`, `step_full_lr`, `mean_in_hull`
* T19.5 (Adam) `effGrad_no_l2`, `l2_pulls_toward_origin`, `effGrad_sub`, `adam_first_step_dir`, `adam_first_tell`
* T19.6 `restart_recentres`, `no_restart_keeps_counters`, `restart_iff`
-/
namespace Pyribs.C19
open Pyribs Dqd

/-! ## sums -/

theorem sumTo_congr (n : Nat) (f g : Nat → Rat) (h : ∀ j, j < n → f j = g j) : sumTo n f = sumTo n g := by
  induction n with
  | zero => rfl
  | succ n ih =>
    simp only [sumTo]
    rw [ih (fun j hj => h j (by omega)), h n (by omega)]

theorem sumTo_zero (n : Nat) : sumTo n (fun _ => 0) = 0 := by
  induction n with
  | zero => rfl
  | succ n ih => simp [sumTo, ih]

theorem sumTo_mul_left (n : Nat) (a : Rat) (f : Nat → Rat) :
    sumTo n (fun j => a * f j) = a * sumTo n f := by
  induction n with
  | zero => simp [sumTo]
  | succ n ih => simp only [sumTo, ih]; ring

theorem vsum_apply (m : Nat) (f : Nat → Vec) (k : Nat) : vsum m f k = sumTo m (fun j => f j k) := by
  induction m with
  | zero => rfl
  | succ m ih => simp only [vsum, vadd, sumTo, ih]

/-! ## T19.1 every emitted solution is θ plus a linear combination of the stored gradients -/

/-- T19.1 `branch_in_span` : the row computed the way NumPy does it (broadcast product, sum over the
gradient axis, coordinate by coordinate) **is** `θ + Σⱼ cⱼ • Jⱼ`. No hypothesis on the Jacobian. -/
theorem branch_in_span (m : Nat) (θ : Vec) (J : Mat) (c : Nat → Rat) :
    branch m θ J c = vadd θ (linComb m J c) := by
  funext k
  simp only [branch, vadd, linComb, vsum_apply, offset, smul]
  congr 1
  exact sumTo_congr m _ _ (fun j _ => by ring)

/-- the difference to the solution point is exactly that linear combination -/
theorem branch_sub_theta (m : Nat) (θ : Vec) (J : Mat) (c : Nat → Rat) :
    vsub (branch m θ J c) θ = linComb m J c := by
  rw [branch_in_span]
  funext k
  simp only [vsub, vadd]
  ring

/-- zero Jacobian ⇒ every emitted solution is the solution point itself -/
theorem branch_zero_jacobian (m : Nat) (θ : Vec) (J : Mat) (c : Nat → Rat)
    (h : ∀ j, j < m → ∀ k, J j k = 0) : branch m θ J c = θ := by
  funext k
  simp only [branch, offset]
  rw [sumTo_congr m _ (fun _ => 0) (fun j hj => by rw [h j hj k]; ring), sumTo_zero]
  ring

/-- rank-deficient Jacobian (every gradient a multiple of one vector `g`): the solutions stay on the
line through θ in direction `g` -/
theorem branch_rank_one (m : Nat) (θ g : Vec) (a : Nat → Rat) (J : Mat) (c : Nat → Rat)
    (h : ∀ j, j < m → J j = smul (a j) g) :
    branch m θ J c = vadd θ (smul (sumTo m (fun j => a j * c j)) g) := by
  funext k
  simp only [branch, offset, vadd, smul]
  congr 1
  rw [sumTo_congr m _ (fun j => g k * (a j * c j))
    (fun j hj => by rw [h j hj]; simp only [smul]; ring), sumTo_mul_left]
  ring

/-- `GradientArborescenceEmitter.ask` once gradients are stored: one row per coefficient row, each
`θ + Σⱼ cⱼ • Jⱼ`; the state does not change -/
theorem gae_ask_rows (c : Gae.Cfg) (s : Gae.St) (J : Mat) (cs : List (Nat → Rat)) (h : s.jac = some J) :
    Gae.step c s (.ask cs) = (s, .rows (cs.map (fun co => vadd s.θ (linComb c.m J co)))) := by
  simp only [Gae.step, h]
  congr 2
  apply List.map_congr_left
  intro co _
  exact branch_in_span c.m s.θ J co

/-- normalisation keeps the direction: the stored gradient is the supplied one times `1 / (‖g‖ + ε)` -/
theorem normaliseRow_dir (g : Vec) (nrm ε : Rat) (r : Vec) (h : normaliseRow g nrm ε = some r) :
    nrm + ε ≠ 0 ∧ r = smul (1 / (nrm + ε)) g := by
  unfold normaliseRow at h
  by_cases h0 : nrm + ε = 0
  · rw [if_pos h0] at h; cases h
  · rw [if_neg h0] at h
    cases h
    refine ⟨h0, ?_⟩
    funext k
    simp only [smul]
    rw [div_eq_mul_inv, one_div, mul_comm]

/-- with a non-negative norm and ε > 0 the factor is positive -/
theorem normalise_factor_pos (nrm ε : Rat) (h1 : 0 ≤ nrm) (h2 : 0 < ε) : 0 < 1 / (nrm + ε) := by
  apply div_pos one_pos; linarith

/-- a zero gradient stays zero (whatever norm is supplied) -/
theorem normaliseRow_zero (g : Vec) (nrm ε : Rat) (r : Vec) (h : normaliseRow g nrm ε = some r)
    (hg : ∀ k, g k = 0) : ∀ k, r k = 0 := by
  obtain ⟨_, rfl⟩ := normaliseRow_dir g nrm ε r h
  intro k
  simp [smul, hg k]

/-! ## T19.2 GradientOperatorEmitter -/

theorem absQ_nonneg (x : Rat) : 0 ≤ absQ x := by
  unfold absQ
  by_cases h : x < 0
  · rw [if_pos h]; linarith
  · rw [if_neg h]; exact not_lt.mp h

/-- T19.2 `objective_coeff_nonneg` -/
theorem objective_coeff_nonneg (c : Nat → Rat) : 0 ≤ gopCoeffs c 0 := by
  simp only [gopCoeffs, if_true]
  exact absQ_nonneg _

theorem gopCoeffs_obj (c : Nat → Rat) : gopCoeffs c 0 = c 0 ∨ gopCoeffs c 0 = -(c 0) := by
  simp only [gopCoeffs, if_true, absQ]
  by_cases h : c 0 < 0
  · right; rw [if_pos h]
  · left; rw [if_neg h]

/-- the measure-gradient coefficients are used as drawn -/
theorem gopCoeffs_rest (c : Nat → Rat) (j : Nat) (h : j ≠ 0) : gopCoeffs c j = c j := by
  simp [gopCoeffs, h]

/-- with measure gradients: parent + |c₀|·∇f + Σ_{j≥1} cⱼ·∇mⱼ -/
theorem gopBranch_in_span (m : Nat) (p : Vec) (J : Mat) (c : Nat → Rat) :
    gopBranch m p J c = vadd p (linComb m J (gopCoeffs c)) := branch_in_span m p J (gopCoeffs c)

/-- without measure gradients: parent + σ_g·∇f, the objective gradient only -/
theorem gopObjOnly_in_span (p : Vec) (J : Mat) (σg : Rat) :
    gopObjOnly p J σg = vadd p (smul σg (J 0)) ∧ gopObjOnly p J σg = branch 1 p J (fun _ => σg) := by
  constructor
  · funext k; simp only [gopObjOnly, vadd, smul]; ring
  · funext k; simp only [gopObjOnly, branch, offset, sumTo]; ring

/-! ## T19.3 the refusal automaton -/

/-- before gradients: `ask` raises RuntimeError and nothing changes -/
theorem gae_refuses_ask (c : Gae.Cfg) (s : Gae.St) (cs : List (Nat → Rat)) (h : s.jac = none) :
    Gae.step c s (.ask cs) = (s, .error .runtime) := by
  simp [Gae.step, h]

/-- before gradients: `tell` raises RuntimeError and nothing changes (not even the iteration counter) -/
theorem gae_refuses_tell (c : Gae.Cfg) (s : Gae.St) (t : Gae.TellIn) (h : s.jac = none) :
    Gae.step c s (.tell t) = (s, .error .runtime) := by
  simp [Gae.step, h]

theorem gae_allows_ask (c : Gae.Cfg) (s : Gae.St) (cs : List (Nat → Rat)) (h : s.jac ≠ none) :
    ∃ rs, Gae.step c s (.ask cs) = (s, .rows rs) ∧ rs.length = cs.length := by
  cases hj : s.jac with
  | none => exact absurd hj h
  | some J => exact ⟨cs.map (branch c.m s.θ J), by simp [Gae.step, hj], by simp⟩

/-- after gradients `tell` is never refused for want of gradients -/
theorem gae_allows_tell (c : Gae.Cfg) (s : Gae.St) (t : Gae.TellIn) (h : s.jac ≠ none) :
    (Gae.step c s (.tell t)).2 ≠ .error .runtime := by
  cases hj : s.jac with
  | none => exact absurd hj h
  | some J =>
    simp only [Gae.step, hj]
    split
    · simp
    · split
      · split <;> simp
      · simp

/-- a well-shaped `tell_dqd` stores gradients (normalised if requested); a mis-shaped one is a
ValueError that changes nothing -/
theorem gae_tellDqd_sets (c : Gae.Cfg) (s : Gae.St) (rows : List (List Rat)) (norms : Nat → Rat) :
    (Gae.shapeOk c rows = false → Gae.step c s (.tellDqd rows norms) = (s, .error .value)) ∧
    (Gae.shapeOk c rows = true → c.norm = false →
      (Gae.step c s (.tellDqd rows norms)).1.jac = some (matOfLists rows)) ∧
    (Gae.shapeOk c rows = true → c.norm = true → ∀ Jn, normalise c.m (matOfLists rows) norms c.ε = some Jn →
      (Gae.step c s (.tellDqd rows norms)).1.jac = some Jn) := by
  refine ⟨?_, ?_, ?_⟩
  · intro h; simp [Gae.step, h]
  · intro h hn; simp [Gae.step, h, hn]
  · intro h hn Jn hJ; simp [Gae.step, h, hn, hJ]

def isTellDqd : Gae.Op → Bool
  | .tellDqd _ _ => true
  | _ => false

/-- **every call sequence** without `tell_dqd`, started without gradients, leaves the emitter exactly
where it was: every `ask` and `tell` in it was refused -/
theorem gae_before_gradients (c : Gae.Cfg) : ∀ (ops : List Gae.Op) (s : Gae.St), s.jac = none →
    (∀ op ∈ ops, isTellDqd op = false) → Gae.run c s ops = s
  | [], s, _, _ => rfl
  | op :: ops, s, h, hops => by
    have hstep : (Gae.step c s op).1 = s := by
      cases op with
      | askDqd => rfl
      | tellDqd r n => have := hops (.tellDqd r n) (by simp); simp [isTellDqd] at this
      | ask cs => rw [gae_refuses_ask c s cs h]
      | tell t => rw [gae_refuses_tell c s t h]
    simp only [Gae.run, hstep]
    exact gae_before_gradients c ops s h (fun o ho => hops o (by simp [ho]))

theorem gae_step_jac (c : Gae.Cfg) (s : Gae.St) (op : Gae.Op) (h : s.jac ≠ none) :
    (Gae.step c s op).1.jac ≠ none := by
  cases op with
  | askDqd => exact h
  | tellDqd rows norms =>
    simp only [Gae.step]
    split
    · exact h
    · split
      · split
        · simp
        · exact h
      · simp
  | ask cs =>
    simp only [Gae.step]
    split <;> exact h
  | tell t =>
    simp only [Gae.step]
    split
    · exact h
    · split
      · exact h
      · split
        · split <;> exact h
        · exact h

/-- gradients, once supplied, are never forgotten: after the first accepted `tell_dqd` no later call
sequence makes `ask` / `tell` refuse again -/
theorem gae_jac_persistent (c : Gae.Cfg) : ∀ (ops : List Gae.Op) (s : Gae.St), s.jac ≠ none →
    (Gae.run c s ops).jac ≠ none
  | [], _, h => h
  | op :: ops, s, h => gae_jac_persistent c ops _ (gae_step_jac c s op h)

/-- before gradients `ask` raises RuntimeError and nothing changes — **unless** this is the documented
start-up call (the archive is empty *at this call* and initial_solutions are configured). In particular it is
refused on every non-empty archive (`gop_refuses_ask_nonempty`). -/
theorem gop_refuses_ask (c : Gop.Cfg) (s : Gop.St) (z : List (Nat → Rat)) (h : s.jac = none)
    (hs : Gop.startup c s = false) : Gop.step c s (.ask z) = (s, .error .runtime) := by
  simp [Gop.step, h, hs]

theorem gop_refuses_ask_nonempty (c : Gop.Cfg) (s : Gop.St) (z : List (Nat → Rat)) (h : s.jac = none)
    (he : s.empty = false) : Gop.step c s (.ask z) = (s, .error .runtime) :=
  gop_refuses_ask c s z h (by simp [Gop.startup, he])

/-- the start-up call: the archive is empty now and initial_solutions are configured ⇒ `ask` returns them,
clipped, with or without gradients, and changes nothing -/
theorem gop_startup_ask (c : Gop.Cfg) (s : Gop.St) (z : List (Nat → Rat)) (I : List Vec)
    (he : s.empty = true) (hi : c.init = some I) :
    Gop.step c s (.ask z) = (s, .rows (I.map (Gop.clipV c))) := by
  simp [Gop.step, Gop.startup, he, hi]

/-- … and `ask_dqd` then returns no solutions and stores nothing -/
theorem gop_startup_askDqd (c : Gop.Cfg) (s : Gop.St) (raw : List Vec) (hs : Gop.startup c s = true) :
    Gop.step c s (.askDqd raw) = (s, .rows []) := by
  simp [Gop.step, hs]

/-- **on a non-empty archive `ask` never hands out the initial solutions**, whatever happened before (every call
sequence leads to some state `s`): it is refused (no gradients) or it emits exactly the rows branched from the
stored parents along the stored gradients — none at all when the last `tell_dqd` supplied an empty batch -/
theorem gop_no_initial_on_nonempty (c : Gop.Cfg) (s : Gop.St) (z : List (Nat → Rat)) (he : s.empty = false) :
    (s.jac = none ∧ (Gop.step c s (.ask z)).2 = .error .runtime) ∨
    (∃ Js, s.jac = some Js ∧
      ((c.mg = true ∧ z.length ≠ s.parents.length ∧ (Gop.step c s (.ask z)).2 = .error .value) ∨
       (c.mg = true ∧ (Gop.step c s (.ask z)).2 = .rows (Gop.askRows c s.parents Js z)) ∨
       (c.mg = false ∧ (Gop.step c s (.ask z)).2 = .rows (Gop.askRowsObj c s.parents Js)))) := by
  have hs : Gop.startup c s = false := by simp [Gop.startup, he]
  cases hj : s.jac with
  | none => left; simp [Gop.step, hs, hj]
  | some Js =>
    right
    refine ⟨Js, rfl, ?_⟩
    cases hmg : c.mg with
    | false => right; right; simp [Gop.step, hs, hj, hmg]
    | true =>
      by_cases hl : z.length ≠ s.parents.length
      · left; simp [Gop.step, hs, hj, hmg, hl]
      · right; left; simp [Gop.step, hs, hj, hmg, hl]

/-- an empty batch of gradients yields an empty batch of solutions -/
theorem gop_empty_batch (c : Gop.Cfg) (ps : List Vec) (zs : List (Nat → Rat)) :
    Gop.askRows c ps [] zs = [] ∧ Gop.askRowsObj c ps [] = [] := by
  constructor
  · cases ps <;> simp [Gop.askRows]
  · cases ps <;> simp [Gop.askRowsObj]

/-- once gradients are stored `ask` is not refused for want of gradients, and it does **not** change the
state — so it can be called again with the same right (the unchanged tree overwrites its Jacobian in the
objective-only branch and a second `ask` raises IndexError) -/
theorem gop_ask_pure (c : Gop.Cfg) (s : Gop.St) (z : List (Nat → Rat)) :
    (Gop.step c s (.ask z)).1 = s := by
  simp only [Gop.step]
  split
  · rfl
  · split
    · rfl
    · split
      · split <;> rfl
      · rfl

theorem gop_allows_ask (c : Gop.Cfg) (s : Gop.St) (z : List (Nat → Rat)) (h : s.jac ≠ none) :
    (Gop.step c s (.ask z)).2 ≠ .error .runtime := by
  cases hj : s.jac with
  | none => exact absurd hj h
  | some Js =>
    simp only [Gop.step, hj]
    split
    · simp
    · split
      · split <;> simp
      · simp

/-- `GradientOperatorEmitter` inherits the no-op `tell`: it never refuses and never changes anything -/
theorem gop_tell_noop (c : Gop.Cfg) (s : Gop.St) : Gop.step c s .tell = (s, .done) := rfl

def isGopTellDqd : Gop.Op → Bool
  | .tellDqd _ _ => true
  | _ => false

theorem gop_before_gradients (c : Gop.Cfg) : ∀ (ops : List Gop.Op) (s : Gop.St), s.jac = none →
    (∀ op ∈ ops, isGopTellDqd op = false) → (Gop.run c s ops).jac = none
  | [], _, h, _ => h
  | op :: ops, s, h, hops => by
    have hstep : (Gop.step c s op).1.jac = none := by
      cases op with
      | askDqd ps => simp only [Gop.step]; split <;> exact h
      | tellDqd r n => have := hops (.tellDqd r n) (by simp); simp [isGopTellDqd] at this
      | ask z => rw [gop_ask_pure]; exact h
      | tell => exact h
      | observe b => exact h
    simp only [Gop.run]
    exact gop_before_gradients c ops _ hstep (fun o ho => hops o (by simp [ho]))

theorem gop_step_jac (c : Gop.Cfg) (s : Gop.St) (op : Gop.Op) (h : s.jac ≠ none) :
    (Gop.step c s op).1.jac ≠ none := by
  cases op with
  | askDqd ps => simp only [Gop.step]; split <;> exact h
  | tellDqd jacs norms =>
    simp only [Gop.step]
    split
    · exact h
    · split
      · split
        · simp
        · exact h
      · simp
  | ask z => rw [gop_ask_pure]; exact h
  | tell => exact h
  | observe b => exact h

theorem gop_jac_persistent (c : Gop.Cfg) : ∀ (ops : List Gop.Op) (s : Gop.St), s.jac ≠ none →
    (Gop.run c s ops).jac ≠ none
  | [], _, h => h
  | op :: ops, s, h => gop_jac_persistent c ops _ (gop_step_jac c s op h)

/-! ## T19.2 (emitter level) `ask` branches from the rows `ask_dqd` **returned** -/

/-- `ask_dqd` clips the perturbed parents, and what it stores is exactly what it returns (so the caller's
gradients are evaluated at the points `ask` will branch from) -/
theorem gop_askDqd_returns_stored (c : Gop.Cfg) (s : Gop.St) (raw : List Vec) (hs : Gop.startup c s = false) :
    Gop.step c s (.askDqd raw) = ({ s with parents := raw.map (Gop.clipV c) }, .rows (raw.map (Gop.clipV c))) ∧
    (Gop.step c s (.askDqd raw)).2 = .rows (Gop.step c s (.askDqd raw)).1.parents := by
  simp [Gop.step, hs]

def isGopAskDqd : Gop.Op → Bool
  | .askDqd _ => true
  | _ => false

/-- nothing but `ask_dqd` changes the stored parents -/
theorem gop_parents_preserved (c : Gop.Cfg) (s : Gop.St) (op : Gop.Op) (h : isGopAskDqd op = false) :
    (Gop.step c s op).1.parents = s.parents := by
  cases op with
  | askDqd raw => simp [isGopAskDqd] at h
  | tellDqd jacs norms =>
    simp only [Gop.step]
    split
    · rfl
    · split
      · split <;> rfl
      · rfl
  | ask z => rw [gop_ask_pure]
  | tell => rfl
  | observe b => rfl

/-- positional description of the rows of `ask` (measure gradients on) -/
theorem gop_ask_rows_spec (c : Gop.Cfg) : ∀ (ps : List Vec) (Js : List Mat) (zs : List (Nat → Rat)),
    ps.length = zs.length → Js.length = zs.length →
    (Gop.askRows c ps Js zs).length = zs.length ∧
    ∀ i (hp : i < ps.length) (hJ : i < Js.length) (hz : i < zs.length) (hr : i < (Gop.askRows c ps Js zs).length),
      (Gop.askRows c ps Js zs)[i] = Gop.clipV c (vadd ps[i] (linComb c.m Js[i] (gopCoeffs zs[i])))
  | [], [], [], _, _ => ⟨rfl, fun i hp => absurd hp (by simp)⟩
  | [], _, _ :: _, h, _ => by simp at h
  | _ :: _, _, [], h, _ => by simp at h
  | _, [], _ :: _, _, h => by simp at h
  | _, _ :: _, [], _, h => by simp at h
  | p :: ps, J :: Js, z :: zs, h1, h2 => by
    obtain ⟨hl, hi⟩ := gop_ask_rows_spec c ps Js zs (by simpa using h1) (by simpa using h2)
    refine ⟨by simp [Gop.askRows, hl], ?_⟩
    intro i hp hJ hz hr
    cases i with
    | zero => simp [Gop.askRows, gopBranch_in_span]
    | succ i =>
      simp only [Gop.askRows, List.getElem_cons_succ]
      exact hi i (by simpa using hp) (by simpa using hJ) (by simpa using hz) (by simpa [Gop.askRows] using hr)

/-- positional description of the rows of `ask` (measure gradients off): `clip(parent + σ_g·∇f)` -/
theorem gop_ask_rows_obj_spec (c : Gop.Cfg) : ∀ (ps : List Vec) (Js : List Mat), Js.length = ps.length →
    (Gop.askRowsObj c ps Js).length = ps.length ∧
    ∀ i (hp : i < ps.length) (hJ : i < Js.length) (hr : i < (Gop.askRowsObj c ps Js).length),
      (Gop.askRowsObj c ps Js)[i] = Gop.clipV c (vadd ps[i] (smul c.σg (Js[i] 0)))
  | [], [], _ => ⟨rfl, fun i hp => absurd hp (by simp)⟩
  | [], _ :: _, h => by simp at h
  | _ :: _, [], h => by simp at h
  | p :: ps, J :: Js, h => by
    obtain ⟨hl, hi⟩ := gop_ask_rows_obj_spec c ps Js (by simpa using h)
    refine ⟨by simp [Gop.askRowsObj, hl], ?_⟩
    intro i hp hJ hr
    cases i with
    | zero => simp [Gop.askRowsObj, (gopObjOnly_in_span p J c.σg).1]
    | succ i =>
      simp only [Gop.askRowsObj, List.getElem_cons_succ]
      exact hi i (by simpa using hp) (by simpa using hJ) (by simpa [Gop.askRowsObj] using hr)

/-- **the caller's view**: after `ask_dqd` returned `ps`, any calls other than `ask_dqd` (here: the
`tell_dqd` that stored `Js`), `ask` emits, row by row, `clip(psᵢ + combination of the gradients)` — it
branches from the rows that were *returned*, not from any other point -/
theorem gop_ask_from_returned (c : Gop.Cfg) (s : Gop.St) (raw : List Vec) (ops : List Gop.Op)
    (hs : Gop.startup c s = false)
    (hops : ∀ op ∈ ops, isGopAskDqd op = false) (Js : List Mat) (zs : List (Nat → Rat))
    (hJ : (Gop.run c (Gop.step c s (.askDqd raw)).1 ops).jac = some Js)
    (hs' : Gop.startup c (Gop.run c (Gop.step c s (.askDqd raw)).1 ops) = false) :
    let ps := raw.map (Gop.clipV c)
    let s' := Gop.run c (Gop.step c s (.askDqd raw)).1 ops
    (Gop.step c s (.askDqd raw)).2 = .rows ps ∧ s'.parents = ps ∧
    (c.mg = true → zs.length = ps.length → (Gop.step c s' (.ask zs)).2 = .rows (Gop.askRows c ps Js zs)) ∧
    (c.mg = false → (Gop.step c s' (.ask zs)).2 = .rows (Gop.askRowsObj c ps Js)) := by
  have hpar : ∀ (ops : List Gop.Op) (t : Gop.St), (∀ op ∈ ops, isGopAskDqd op = false) →
      (Gop.run c t ops).parents = t.parents := by
    intro ops
    induction ops with
    | nil => intro t _; rfl
    | cons op ops ih =>
      intro t h
      simp only [Gop.run]
      rw [ih _ (fun o ho => h o (by simp [ho])), gop_parents_preserved c t op (h op (by simp))]
  have hstored := gop_askDqd_returns_stored c s raw hs
  have hp := hpar ops (Gop.step c s (.askDqd raw)).1 hops
  have hp' : (Gop.run c (Gop.step c s (.askDqd raw)).1 ops).parents = raw.map (Gop.clipV c) := by
    rw [hp, hstored.1]
  refine ⟨by rw [hstored.1], hp', ?_, ?_⟩
  · intro hmg hlen
    generalize Gop.run c (Gop.step c s (.askDqd raw)).1 ops = t at hJ hp' hs' ⊢
    simp only [Gop.step, hJ, hmg, if_true, hs']
    simp only [Bool.false_eq_true, if_false]
    rw [hp', if_neg (not_not.mpr hlen)]
  · intro hmg
    generalize Gop.run c (Gop.step c s (.askDqd raw)).1 ops = t at hJ hp' hs' ⊢
    simp [Gop.step, hJ, hmg, hp', hs']

/-- without bounds the final clip is the identity: the row is parent + combination itself -/
theorem gop_ask_unbounded (c : Gop.Cfg) (hlo : ∀ k, c.lo k = none) (hhi : ∀ k, c.hi k = none) (v : Vec) :
    Gop.clipV c v = v := by
  funext k
  simp [Gop.clipV, hlo k, hhi k, Emit.clip1, Emit.minHi, Emit.maxLo]

/-- with bounds every coordinate of every emitted row (and of every returned parent) is inside them -/
theorem gop_ask_in_bounds (c : Gop.Cfg) (v : Vec) (k : Nat) (h : C08.Ordered (c.lo k) (c.hi k)) :
    C08.InB (c.lo k) (c.hi k) (Gop.clipV c v k) := C08.clip_in_bounds _ _ _ h

/-- a parent that `ask_dqd` returned is a fixed point of the clip (clipping is idempotent), so feeding the
returned rows back through the model's `ask_dqd` reproduces them -/
theorem gop_clip_idempotent (c : Gop.Cfg) (v : Vec) (h : ∀ k, C08.Ordered (c.lo k) (c.hi k)) :
    Gop.clipV c (Gop.clipV c v) = Gop.clipV c v := by
  funext k
  exact C08.clip_of_inB _ _ _ (C08.clip_in_bounds _ _ _ (h k))

/-! ## T19.4 no selected solution ⇒ the solution point stays -/

theorem wmean_zero_parents (w : Nat → Rat) (P : Nat → Vec) : wmean 0 w P = vzero := rfl

/-- T19.4 `zero_parents_fixpoint` : when no solution is selected and there is no restart, `tell`
leaves θ where it is — for every gradient optimizer, ranking, weights and restart rule. -/
theorem zero_parents_fixpoint (c : Gae.Cfg) (s : Gae.St) (t : Gae.TellIn) (J : Mat) (hj : s.jac = some J)
    (hnp : numParents c.sel c.batch t.status = 0)
    (hr : (t.stop || ruleFires c.rule (s.itrs + 1) t.status) = false) :
    (Gae.step c s (.tell t)).1.θ = s.θ ∧ (Gae.step c s (.tell t)).2 = .done false 0 := by
  have hrk : Gae.rankingOk t 0 = true := by simp [Gae.rankingOk]
  simp [Gae.step, hj, hnp, hrk, hr, Gae.stepTheta]

/-- D11 (negative example): the unrepaired step with zero parents moves θ towards the origin:
θ = (1, 1, 1), lr = 1/10 ↦ (9/10, 9/10, 9/10) -/
theorem zero_parents_defect_witness :
    toList 3 (Gae.stepThetaCurrent ⟨3, 3, 4, .filter, .basic, false, 0, .ascent (1 / 10)⟩
      (fun _ => 1) ⟨[], [0, 0, 0, 0], [0, 1, 2, 3], fun _ => 0, false, none⟩ 0) = [9 / 10, 9 / 10, 9 / 10] := by
  decide +kernel

/-- in general the unrepaired zero-parent step with gradient ascent scales θ by `1 − lr` -/
theorem zero_parents_defect (c : Gae.Cfg) (lr : Rat) (hopt : c.opt = .ascent lr) (θ : Vec) (t : Gae.TellIn) :
    Gae.stepThetaCurrent c θ t 0 = smul (1 - lr) θ := by
  funext k
  simp only [Gae.stepThetaCurrent, hopt, GradOpt.step, Gae.tellGrad, vsub, wmean, sumTo, smul]
  ring

/-! ## T19.5 the gradient-ascent step goes towards the weighted mean of the selected solutions -/

/-- T19.5 `step_toward_mean` : with gradient ascent and at least one selected solution,
`θ' = θ + lr · (mean − θ)` where `mean` is the weighted mean of the selected solutions. -/
theorem step_toward_mean (c : Gae.Cfg) (lr : Rat) (hopt : c.opt = .ascent lr) (θ : Vec) (t : Gae.TellIn)
    (np : Nat) (hnp : np ≠ 0) (k : Nat) :
    Gae.stepTheta c θ t np k = θ k + lr * (wmean np t.weights (Gae.parent t) k - θ k) := by
  simp only [Gae.stepTheta, hnp, if_false, hopt, GradOpt.step, Gae.tellGrad, vsub]

/-- … which lies on the segment between θ and the mean for `0 < lr ≤ 1` (coordinate-wise between) -/
theorem step_on_segment (θk mk lr : Rat) (h0 : 0 < lr) (h1 : lr ≤ 1) :
    (θk ≤ mk → θk ≤ θk + lr * (mk - θk) ∧ θk + lr * (mk - θk) ≤ mk) ∧
    (mk ≤ θk → mk ≤ θk + lr * (mk - θk) ∧ θk + lr * (mk - θk) ≤ θk) := by
  constructor
  · intro h
    have : 0 ≤ mk - θk := by linarith
    constructor
    · nlinarith [mul_nonneg (le_of_lt h0) this]
    · nlinarith [mul_nonneg (sub_nonneg.mpr h1) this]
  · intro h
    have : 0 ≤ θk - mk := by linarith
    constructor
    · nlinarith [mul_nonneg (sub_nonneg.mpr h1) this]
    · nlinarith [mul_nonneg (le_of_lt h0) this]

/-- … and is the mean itself for `lr = 1` -/
theorem step_full_lr (c : Gae.Cfg) (hopt : c.opt = .ascent 1) (θ : Vec) (t : Gae.TellIn) (np : Nat)
    (hnp : np ≠ 0) : Gae.stepTheta c θ t np = wmean np t.weights (Gae.parent t) := by
  funext k
  rw [step_toward_mean c 1 hopt θ t np hnp k]
  ring

theorem sumTo_ge (n : Nat) (w p : Nat → Rat) (lo : Rat) (hw : ∀ r, r < n → 0 ≤ w r)
    (hp : ∀ r, r < n → lo ≤ p r) : lo * sumTo n w ≤ sumTo n (fun r => p r * w r) := by
  induction n with
  | zero => simp [sumTo]
  | succ n ih =>
    simp only [sumTo]
    have h1 := ih (fun r hr => hw r (by omega)) (fun r hr => hp r (by omega))
    have h2 : lo * w n ≤ p n * w n := mul_le_mul_of_nonneg_right (hp n (by omega)) (hw n (by omega))
    linarith

theorem sumTo_le (n : Nat) (w p : Nat → Rat) (hi : Rat) (hw : ∀ r, r < n → 0 ≤ w r)
    (hp : ∀ r, r < n → p r ≤ hi) : sumTo n (fun r => p r * w r) ≤ hi * sumTo n w := by
  induction n with
  | zero => simp [sumTo]
  | succ n ih =>
    simp only [sumTo]
    have h1 := ih (fun r hr => hw r (by omega)) (fun r hr => hp r (by omega))
    have h2 : p n * w n ≤ hi * w n := mul_le_mul_of_nonneg_right (hp n (by omega)) (hw n (by omega))
    linarith

/-- the mean of the selected solutions lies in their coordinate-wise hull when the weights are
non-negative and sum to one (rank weights) — "steps toward the better branches" -/
theorem mean_in_hull (np : Nat) (w : Nat → Rat) (P : Nat → Vec) (k : Nat) (lo hi : Rat)
    (hw : ∀ r, r < np → 0 ≤ w r) (hsum : sumTo np w = 1)
    (hP : ∀ r, r < np → lo ≤ P r k ∧ P r k ≤ hi) : lo ≤ wmean np w P k ∧ wmean np w P k ≤ hi := by
  have h1 := sumTo_ge np w (fun r => P r k) lo hw (fun r hr => (hP r hr).1)
  have h2 := sumTo_le np w (fun r => P r k) hi hw (fun r hr => (hP r hr).2)
  rw [hsum] at h1 h2
  simp only [wmean]
  constructor <;> linarith

/-- a single selected solution with weight 1: the mean is that solution -/
theorem mean_single (w : Nat → Rat) (P : Nat → Vec) (h : w 0 = 1) : wmean 1 w P = P 0 := by
  funext k
  simp [wmean, sumTo, h]

/-! ## T19.5 (Adam) the L2 term and the first step after a reset -/

theorem effGrad_no_l2 (g θ : Vec) : effGrad g θ 0 = g := by
  funext k; simp [effGrad]

/-- the documented L2 regulariser pulls towards the origin: where the emitter's own gradient vanishes, the
gradient Adam ascends points from θ to 0 (it has the sign of −θ), for every `l2_coeff > 0` -/
theorem l2_pulls_toward_origin (g θ : Vec) (c : Rat) (k : Nat) (hc : 0 < c) (hg : g k = 0) :
    (0 < θ k → effGrad g θ c k < 0) ∧ (θ k < 0 → 0 < effGrad g θ c k) := by
  simp only [effGrad, hg]
  constructor
  · intro h; nlinarith [mul_pos hc h]
  · intro h; nlinarith [mul_pos hc (neg_pos.mpr h)]

/-- … and in general it lowers the ascent gradient by exactly `c·θ` -/
theorem effGrad_sub (g θ : Vec) (c : Rat) (k : Nat) : g k - effGrad g θ c k = c * θ k := by
  simp [effGrad]

theorem absQ_of_pos (x : Rat) (h : 0 < x) : absQ x = x := by
  unfold absQ; rw [if_neg (by linarith)]

theorem absQ_of_neg (x : Rat) (h : x < 0) : absQ x = -x := by
  unfold absQ; rw [if_pos h]

/-- T19.5 for Adam: the first step after a reset moves every coordinate in the direction of the ascent
gradient (L2 term included) by less than `lr`, and leaves it where the gradient vanishes -/
theorem adam_first_step_dir (lr ε' : Rat) (hlr : 0 < lr) (hε : 0 < ε') (θ e : Vec) (k : Nat) :
    (0 < e k → θ k < adamFirstStep lr ε' θ e k ∧ adamFirstStep lr ε' θ e k < θ k + lr) ∧
    (e k < 0 → θ k - lr < adamFirstStep lr ε' θ e k ∧ adamFirstStep lr ε' θ e k < θ k) ∧
    (e k = 0 → adamFirstStep lr ε' θ e k = θ k) := by
  refine ⟨?_, ?_, ?_⟩
  · intro h
    simp only [adamFirstStep, absQ_of_pos _ h]
    have hd : 0 < e k + ε' := by linarith
    have h1 : 0 < lr * e k / (e k + ε') := div_pos (mul_pos hlr h) hd
    have h2 : lr * e k / (e k + ε') < lr := by
      rw [div_lt_iff₀ hd]; nlinarith [mul_pos hlr hε]
    constructor <;> linarith
  · intro h
    simp only [adamFirstStep, absQ_of_neg _ h]
    have hd : 0 < -e k + ε' := by linarith
    have h1 : lr * e k / (-e k + ε') < 0 := by
      rw [div_lt_iff₀ hd]; nlinarith [mul_pos hlr (neg_pos.mpr h)]
    have h2 : -lr < lr * e k / (-e k + ε') := by
      rw [lt_div_iff₀ hd]; nlinarith [mul_pos hlr hε]
    constructor <;> linarith
  · intro h
    simp [adamFirstStep, h]

/-- the emitter's `tell` with Adam's first step: θ' = θ + lr·e/(|e| + ε'), `e = (mean − θ) − l2·θ` -/
theorem adam_first_tell (c : Gae.Cfg) (lr l2 ε' : Rat) (hopt : c.opt = adamFirst lr l2 ε') (θ : Vec)
    (t : Gae.TellIn) (np : Nat) (hnp : np ≠ 0) (k : Nat) :
    Gae.stepTheta c θ t np k =
      θ k + lr * ((wmean np t.weights (Gae.parent t) k - θ k) - l2 * θ k) /
        (absQ ((wmean np t.weights (Gae.parent t) k - θ k) - l2 * θ k) + ε') := by
  simp only [Gae.stepTheta, hnp, if_false, hopt, adamFirst, GradOpt.step, adamFirstStep, effGrad,
    Gae.tellGrad, vsub]

/-! ## T19.6 restart -/

/-- when does `tell` restart: the strategy says stop, or the emitter's rule fires on the incremented
iteration counter -/
theorem restart_iff (c : Gae.Cfg) (s : Gae.St) (t : Gae.TellIn) :
    (t.stop || ruleFires c.rule (s.itrs + 1) t.status) = true ↔
      (t.stop = true ∨
        (c.rule = .noImprovement ∧ ∀ x ∈ t.status, x = 0) ∨
        (∃ n, c.rule = .every n ∧ (s.itrs + 1) % n = 0)) := by
  cases hr : c.rule with
  | basic => simp [ruleFires]
  | noImprovement => simp [ruleFires, newSols, List.filter_eq_nil_iff]
  | every n => simp [ruleFires]

/-- T19.6 `restart_recentres` : on restart the solution point becomes the sampled **current elite**
(not x0, not the stepped point), the coefficient distribution is reset and both counters move. -/
theorem restart_recentres (c : Gae.Cfg) (s : Gae.St) (t : Gae.TellIn) (J : Mat) (e : Vec) (hj : s.jac = some J)
    (hrk : Gae.rankingOk t (numParents c.sel c.batch t.status) = true)
    (hr : (t.stop || ruleFires c.rule (s.itrs + 1) t.status) = true) (he : t.elite = some e) :
    let s' := (Gae.step c s (.tell t)).1
    s'.θ = e ∧ s'.restarts = s.restarts + 1 ∧ s'.esResets = s.esResets + 1 ∧ s'.itrs = s.itrs + 1 ∧
      (Gae.step c s (.tell t)).2 = .done true (numParents c.sel c.batch t.status) := by
  simp [Gae.step, hj, hrk, hr, he]

theorem no_restart_keeps_counters (c : Gae.Cfg) (s : Gae.St) (t : Gae.TellIn) (J : Mat) (hj : s.jac = some J)
    (hrk : Gae.rankingOk t (numParents c.sel c.batch t.status) = true)
    (hr : (t.stop || ruleFires c.rule (s.itrs + 1) t.status) = false) :
    let s' := (Gae.step c s (.tell t)).1
    s'.θ = Gae.stepTheta c s.θ t (numParents c.sel c.batch t.status) ∧ s'.restarts = s.restarts ∧
      s'.esResets = s.esResets ∧ s'.itrs = s.itrs + 1 := by
  simp [Gae.step, hj, hrk, hr]

/-! ## non-vacuity -/

def exCfg : Gae.Cfg := ⟨3, 2, 2, .filter, .noImprovement, false, 0, .ascent (1 / 2)⟩
def exJ : List (List Rat) := [[1, 0, 0], [0, 2, 0]]
def exTell1 : Gae.TellIn :=
  ⟨[ofList [2, 1, 1], ofList [0, 3, 1]], [1, 0], [1, 0], ofList [1], false, some (ofList [5, 5, 5])⟩
def exTell0 : Gae.TellIn :=
  ⟨[ofList [2, 1, 1], ofList [0, 3, 1]], [0, 0], [1, 0], ofList [], false, some (ofList [5, 5, 5])⟩

def showOut (n : Nat) : Gae.Out → List (List Rat)
  | .theta θ => [toList n θ]
  | .rows rs => rs.map (toList n)
  | .done r k => [[if r then 1 else 0, k]]
  | .error .runtime => [[-1]]
  | .error .value => [[-2]]
  | .error .index => [[-3]]

/-- a concrete history: `ask` refused, gradients supplied, two branches emitted (θ + c·J), a tell
selecting one solution (θ moves half-way to it), then a tell selecting none under `no_improvement`
(restart: θ becomes the elite, counters move). -/
theorem nonvacuous :
    let s0 := Gae.init (ofList [1, 1, 1])
    let r1 := Gae.step exCfg s0 (.ask [ofList [1, 1]])
    let r2 := Gae.step exCfg s0 (.tellDqd exJ (fun _ => 0))
    let r3 := Gae.step exCfg r2.1 (.ask [ofList [1, 1], ofList [-1, 1 / 2]])
    let r4 := Gae.step exCfg r2.1 (.tell exTell1)
    let r5 := Gae.step exCfg r4.1 (.tell exTell0)
    showOut 3 r1.2 = [[-1]] ∧ r1.1.jac.isSome = false ∧ r2.1.jac.isSome = true ∧
    showOut 3 r3.2 = [[2, 3, 1], [0, 2, 1]] ∧
    showOut 3 r4.2 = [[0, 1]] ∧ toList 3 r4.1.θ = [1 / 2, 2, 1] ∧ r4.1.itrs = 1 ∧
    showOut 3 r5.2 = [[1, 0]] ∧ toList 3 r5.1.θ = [5, 5, 5] ∧ r5.1.restarts = 1 ∧ r5.1.itrs = 2 := by
  decide +kernel

/-- GradientOperatorEmitter: refusal, then |c₀| on the objective gradient (coefficient row (−1, 1) gives
+1·∇f + 1·∇m), and the objective-only form -/
theorem nonvacuous_gop :
    let c : Gop.Cfg := ⟨2, 2, true, 1 / 2, false, 0, fun _ => none, fun _ => none, none⟩
    let s1 := (Gop.step c Gop.init (.askDqd [ofList [0, 0]])).1
    let r0 := Gop.step c s1 (.ask [ofList [-1, 1]])
    let s2 := (Gop.step c s1 (.tellDqd [[[3, 4], [1, 0]]] [fun _ => 0])).1
    let r1 := Gop.step c s2 (.ask [ofList [-1, 1]])
    (match r0.2 with | .error .runtime => true | _ => false) = true ∧
    (match r1.2 with | .rows rs => rs.map (toList 2) | _ => []) = [[4, 4]] ∧
    toList 2 (gopObjOnly (ofList [1, 1]) (matOfLists [[3, 4], [1, 0]]) (1 / 2)) = [5 / 2, 3] := by
  decide +kernel

/-- with bounds [-1, 1]²: the perturbed parent (3, 0) is returned (and stored) as (1, 0); with measure
gradients off and σ_g = ½, ∇f = (−1, 4) the emitted row is clip((1, 0) + ½·(−1, 4)) = (½, 1) — **not**
clip((3, 0) + ½·(−1, 4)) = (1, 1), which branching from the unclipped point would give -/
theorem nonvacuous_gop_bounded :
    let c : Gop.Cfg := ⟨2, 2, false, 1 / 2, false, 0, fun _ => some (-1), fun _ => some 1, none⟩
    let r1 := Gop.step c Gop.init (.askDqd [ofList [3, 0]])
    let s2 := (Gop.step c r1.1 (.tellDqd [[[-1, 4], [0, 0]]] [fun _ => 0])).1
    let r2 := Gop.step c s2 (.ask [])
    (match r1.2 with | .rows rs => rs.map (toList 2) | _ => []) = [[1, 0]] ∧
    r1.1.parents.map (toList 2) = [[1, 0]] ∧
    (match r2.2 with | .rows rs => rs.map (toList 2) | _ => []) = [[1 / 2, 1]] ∧
    toList 2 (Gop.clipV c (gopObjOnly (ofList [3, 0]) (matOfLists [[-1, 4], [0, 0]]) (1 / 2))) = [1, 1] := by
  decide +kernel

/-- Adam's first step with L2: θ = (3, −2), mean = θ (no pull from the selected solutions), l2 = 10,
lr = 1/20, ε' = 1/1000: the ascent gradient is −10·θ = (−30, 20) and θ moves towards the origin by a little
less than lr in each coordinate -/
theorem nonvacuous_adam_l2 :
    toList 2 (effGrad (ofList [0, 0]) (ofList [3, -2]) 10) = [-30, 20] ∧
    toList 2 (adamFirstStep (1 / 20) (1 / 1000) (ofList [3, -2]) (effGrad (ofList [0, 0]) (ofList [3, -2]) 10))
      = [3 - 1500 / 30001, -2 + 1000 / 20001] := by
  decide +kernel

/-- initial_solutions [(3, 0)] with bounds [-1, 1]²: on the empty archive `ask_dqd` returns nothing and `ask`
returns the clipped initial solution (1, 0) without gradients; once the archive is non-empty `ask` is refused
(no gradients were ever supplied), and after an empty batch of gradients it returns an empty batch — never the
initial solutions again -/
theorem nonvacuous_gop_initial :
    let c : Gop.Cfg := ⟨2, 2, false, 1 / 2, false, 0, fun _ => some (-1), fun _ => some 1, some [ofList [3, 0]]⟩
    let show' : Gop.Out → List (List Rat) := fun o => match o with
      | .rows rs => rs.map (toList 2) | .done => [[7]] | .error .runtime => [[-1]] | .error _ => [[-2]]
    let r1 := Gop.step c Gop.init (.askDqd [ofList [9, 9]])
    let r2 := Gop.step c r1.1 (.ask [])
    let s3 := (Gop.step c r2.1 (.observe false)).1
    let r3 := Gop.step c s3 (.ask [])
    let s4 := (Gop.step c s3 (.tellDqd [] [])).1
    let r4 := Gop.step c s4 (.ask [])
    show' r1.2 = [] ∧ show' r2.2 = [[1, 0]] ∧ show' r3.2 = [[-1]] ∧ s4.jac.isSome = true ∧ show' r4.2 = [] := by
  decide +kernel

end Pyribs.C19
