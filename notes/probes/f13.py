import numpy as np, random, warnings
from ribs.archives import GridArchive, ProximityArchive
from ribs.emitters import EmitterBase
from ribs.schedulers import Scheduler
warnings.simplefilter("ignore")
bad=0
class Spy(EmitterBase):
    def __init__(self, archive, i, dqd, rnd):
        super().__init__(archive, solution_dim=2, bounds=None); self.i=i; self.dqd=dqd; self.rnd=rnd; self.log=[]; self.it=0
    def _mk(self,kind):
        n=self.rnd.randint(0,3); self.it+=1
        return np.array([[self.i*1000+self.it*10+p, kind] for p in range(n)],dtype=float).reshape(n,2)
    def ask(self): s=self._mk(0); self.log.append(("ask",s.copy())); return s
    def ask_dqd(self):
        s=self._mk(1) if self.dqd else np.empty((0,2)); self.log.append(("ask_dqd",s.copy())); return s
    def tell(self, solution, objective, measures, add_info, **f): self.log.append(("tell",solution.copy(),None if objective is None else objective.copy(),measures.copy(),{k:np.asarray(v).copy() for k,v in add_info.items()},{k:v.copy() for k,v in f.items()}))
    def tell_dqd(self, solution, objective, measures, jacobian, add_info, **f): self.log.append(("tell_dqd",solution.copy(),objective.copy(),measures.copy(),{k:np.asarray(v).copy() for k,v in add_info.items()},{k:v.copy() for k,v in f.items()},jacobian.copy()))
for seed in range(1500):
    rnd=random.Random(seed)
    ex={"tag":((),np.int64)}
    arch=GridArchive(solution_dim=2,dims=[5],ranges=[(0,5)],extra_fields=ex); res=GridArchive(solution_dim=2,dims=[5],ranges=[(0,5)],extra_fields=ex) if rnd.random()<0.5 else None
    E=rnd.randint(1,4); ems=[Spy(arch,i,rnd.random()<0.5,rnd) for i in range(E)]
    mode=rnd.choice(["batch","single"]); s=Scheduler(arch,ems,result_archive=res,add_mode=mode)
    last=None; twin=GridArchive(solution_dim=2,dims=[5],ranges=[(0,5)],extra_fields=ex)
    for step in range(rnd.randint(1,14)):
        call=rnd.choice(["ask","ask_dqd","tell","tell_dqd"])
        legal={"ask":last not in("ask","ask_dqd"),"ask_dqd":last not in("ask","ask_dqd"),"tell":last=="ask","tell_dqd":last=="ask_dqd"}[call]
        before=arch.data(); nlog=[len(e.log) for e in ems]
        try:
            if call in("ask","ask_dqd"):
                sols=getattr(s,call)()
                if not legal: print("NOERR",seed,call,last); bad+=1
                exp=[e.log[-1][1] for e in ems]; exp=np.concatenate(exp) if exp else np.empty((0,2))
                if not np.array_equal(sols,exp): print("ASKCONCAT",seed); bad+=1
                cur=sols; counts=[len(e.log[-1][1]) for e in ems]
            else:
                if legal:
                    n=len(cur); obj=np.array([rnd.randint(-3,3) for _ in range(n)],dtype=float); meas=np.array([[rnd.randrange(5)+0.5] for _ in range(n)]).reshape(n,1); tag=np.arange(n)+step*100
                    jac=np.arange(n*2*2,dtype=float).reshape(n,2,2)+step
                    info=twin.add(cur,obj,meas,tag=tag) if mode=="batch" else None
                    if mode=="single":
                        sts=[];vals=[]
                        for i in range(n):
                            r=twin.add_single(cur[i],obj[i],meas[i],tag=tag[i]); sts.append(r["status"]); vals.append(r["value"])
                        info={"status":np.array(sts),"value":np.array(vals)}
                    if call=="tell": s.tell(obj,meas,tag=tag)
                    else: s.tell_dqd(obj,meas,jac,tag=tag)
                    pos=0
                    for e,c in zip(ems,counts):
                        lg=e.log[-1]
                        if lg[0]!=call: print("NOTTOLD",seed); bad+=1; continue
                        sl=slice(pos,pos+c)
                        ok=np.array_equal(lg[1],cur[sl]) and np.array_equal(lg[2],obj[sl]) and np.array_equal(lg[3],meas[sl]) and np.array_equal(lg[5]["tag"],tag[sl])
                        if n>0 or mode=="batch": ok = ok and np.array_equal(lg[4].get("status",[]),info["status"][sl]) and np.array_equal(lg[4].get("value",[]),info["value"][sl])
                        if call=="tell_dqd": ok=ok and np.array_equal(lg[6],jac[sl])
                        if not ok: print("ROUTE",seed,step,call,mode); bad+=1
                        pos+=c
                    for A in ([arch] if res is None else [arch,res]):
                        d1=A.data(); d2=twin.data()
                        o1=np.argsort(d1["index"]); o2=np.argsort(d2["index"])
                        if not all(np.array_equal(d1[k][o1],d2[k][o2]) for k in d1): print("CONTENT",seed,mode); bad+=1
                else:
                    if call=="tell": s.tell(None,None)
                    else: s.tell_dqd(None,None,None)
                    print("NOERR",seed,call,last); bad+=1
            last=call
        except RuntimeError:
            if legal: print("SPURIOUS RuntimeError",seed,call,last); bad+=1
            after=arch.data()
            if not all(np.array_equal(before[k],after[k]) for k in before) or [len(e.log) for e in ems]!=nlog: print("DISTURBED",seed); bad+=1
    if bad>6: break
print("sched bad",bad)
