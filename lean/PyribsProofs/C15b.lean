import PyribsProofs.C15
/-!
# Sliding clauses of C06 and C07 over whole histories

In every reachable state of a SlidingBoundariesArchive (any history of insertions through any
number of remaps, and clears): the statistics equal what is recomputed from the contents
(T06.4: a remap re-establishes the invariant for the rebuilt contents) and every stored elite
lies in the cell its own measures map to under the current boundaries (T07.2 / T15.3).
-/
namespace Pyribs.C15b
open Pyribs Arch Sliding

theorem remap_arch (s : Sliding) (buf : List Cand) (c : Cand) (hl : buf.getLast? = some c) :
    (remap s buf).1.arch =
      ((s.arch.clear.addBatch ((elites s.arch ++ buf.dropLast).map (route (newGeom s.geom buf)))).1.addSingle
        (route (newGeom s.geom buf) c)).1 := (C15.remap_def s buf c hl).1

theorem pushBuf_getLast (buf : List Cand) (cap : Nat) (c : Cand) : (pushBuf buf cap c).getLast? = some c := by
  unfold pushBuf; simp

/-- everything the proofs need about a state: geometry well-formed, elitist archive over the grid's
cells, statistics invariant, placement -/
structure Good (nd : Nat) (s : Sliding) : Prop where
  ok    : C15.SlidingOK s
  nd_eq : s.geom.dims.length = nd
  stats : C06.StatsInv s.arch
  placed : C07.Placed (sbIdx s.geom) s.arch

theorem good_addSingle (nd : Nat) (s : Sliding) (h : Good nd s) (c : Cand) (hc : c.meas.length = nd) :
    Good nd (s.addSingle c).1 := by
  have hm : c.meas.length = s.geom.dims.length := by rw [h.nd_eq]; exact hc
  by_cases hr : (s.total + 1) % s.freq = 0
  · -- remapping insertion
    rw [C15.remap_iff s c hr]
    set buf := pushBuf s.buffer s.bufCap c with hbuf
    set s1 : Sliding := { s with total := s.total + 1 } with hs1
    have hl : buf.getLast? = some c := pushBuf_getLast _ _ _
    have hok1 : C15.SlidingOK s1 := ⟨h.ok.geom, h.ok.elit, h.ok.cap⟩
    obtain ⟨harch, hgeom, _, _⟩ := C15.remap_def s1 buf c hl
    have hgok := C15.newGeom_ok s.geom buf h.ok.geom
    have hidx : sbIdx (newGeom s.geom buf) c.meas < cells s.geom.dims := by
      have := C15.sbIdx_lt _ hgok c.meas (by rw [C15.newGeom_dims]; exact hm)
      rw [C15.newGeom_dims] at this; exact this
    refine ⟨⟨?_, ?_, ?_⟩, ?_, ?_, ?_⟩
    · rw [hgeom]; exact hgok
    · rw [harch, addSingle_cfg, addBatch_cfg]; exact h.ok.elit
    · rw [harch, addSingle_cap, addBatch_cap, hgeom, C15.newGeom_dims]
      simp only [Arch.clear, Store.clear]; exact h.ok.cap
    · rw [hgeom, C15.newGeom_dims]; exact h.nd_eq
    · rw [harch]
      apply C06.statsInv_addSingle
      · exact C06.statsInv_addBatch _ (C06.statsInv_clear _) _
      · rw [addBatch_cap]; simp only [Arch.clear, Store.clear, route]
        rw [h.ok.cap]; exact hidx
    · rw [hgeom]; exact C15.remap_placed s1 hok1 buf c hl hm
  · -- ordinary insertion under the current boundaries
    obtain ⟨harch, _, hgeom, _, _⟩ := C15.between_remaps s c hr
    have hidx : sbIdx s.geom c.meas < s.arch.store.cap := by
      rw [h.ok.cap]; exact C15.sbIdx_lt _ h.ok.geom c.meas hm
    refine ⟨⟨?_, ?_, ?_⟩, ?_, ?_, ?_⟩
    · rw [hgeom]; exact h.ok.geom
    · rw [harch, addSingle_cfg]; exact h.ok.elit
    · rw [harch, addSingle_cap, hgeom]; exact h.ok.cap
    · rw [hgeom]; exact h.nd_eq
    · rw [harch]; exact C06.statsInv_addSingle _ h.stats _ hidx
    · rw [harch, hgeom]
      exact C07.placed_addSingle _ _ h.placed (route s.geom c) hidx rfl

theorem good_clear (nd : Nat) (s : Sliding) (h : Good nd s) : Good nd s.clear :=
  ⟨⟨h.ok.geom, h.ok.elit, by simp only [Sliding.clear, Arch.clear, Store.clear]; exact h.ok.cap⟩,
   h.nd_eq, C06.statsInv_clear _,
   by intro i e hh; simp [Sliding.clear, Arch.clear, cellOf, Store.clear] at hh⟩

inductive Op
  | add1 (c : Cand)
  | clear

def step (s : Sliding) : Op → Sliding
  | .add1 c => (s.addSingle c).1
  | .clear => s.clear

/-- **T06.4 + T07.2 for SlidingBoundariesArchive** : from any good state (in particular a freshly
constructed archive), after any history of insertions (through any number of remaps) and clears,
the statistics agree with the contents and every stored elite lies in the cell its own measures
map to under the *current* boundaries. -/
theorem good_history (nd : Nat) (s : Sliding) (h : Good nd s) (ops : List Op)
    (hops : ∀ op ∈ ops, match op with | .add1 c => c.meas.length = nd | .clear => True) :
    Good nd (ops.foldl step s) := by
  induction ops generalizing s with
  | nil => exact h
  | cons op ops ih =>
    simp only [List.foldl_cons]
    apply ih _ _ (fun o ho => hops o (List.mem_cons_of_mem _ ho))
    have := hops op List.mem_cons_self
    cases op with
    | add1 c => exact good_addSingle nd s h c this
    | clear => exact good_clear nd s h

theorem good_new (dims : List Nat) (lo hi : List Rat) (eps : Rat) (bufCap freq : Nat) (off : Rat)
    (bnds : List (List Rat)) (hd : ∀ d ∈ dims, 0 < d) (hb : bnds.length = dims.length)
    (hl : lo.length = dims.length) (hh : hi.length = dims.length) :
    Good dims.length (Sliding.new dims lo hi eps bufCap freq off bnds) :=
  ⟨⟨⟨hd, hb, hl, hh⟩, ⟨rfl, rfl⟩, rfl⟩, rfl, C06.statsInv_new _ _,
   by intro i e hh'; simp [Sliding.new, Arch.new, cellOf, Store.empty] at hh'⟩

end Pyribs.C15b
