import PyribsModel.Archive
import PyribsModel.GridIndex
/-!
# Proximity — model of `ProximityArchive` (C14)

Entries live in an elitist `Arch` whose store capacity is the archive's capacity;
entry `i` is at index `i`.  Distances are exact squared Euclidean distances over ℚ;
the novelty (a mean of square roots) is *bracketed* by rationals from integer square
roots (`sqrtLo`, `sqrtHi`, exact on perfect squares), so the admission decision is
`some true`, `some false` or `none` (= inside the bracket: the implementation's own
decision is accepted).

Code shape:
* `neighbours`, `kNearest`, `noveltyBracket`, `lcCount` ↔ `compute_novelty`
* `assign`  ↔ the `add_indices` block of `ProximityArchive.add`
* `growCap` ↔ the capacity doubling; `add` ↔ `ProximityArchive.add`; `bounds` ↔
  `lower_bounds` / `upper_bounds` (always of the current contents).
-/
namespace Pyribs

/-! ### rational brackets of square roots -/

/-- `⌊√(x·4^prec)⌋ / 2^prec` for `x = p/q ≥ 0` : a lower bound of `√x` -/
def sqrtLo (x : Rat) (prec : Nat) : Rat :=
  let n := x.num.toNat * x.den * 4 ^ prec
  mkRat (Nat.sqrt n) (x.den * 2 ^ prec)

/-- an upper bound of `√x`, equal to the lower bound when the scaled radicand is a perfect square -/
def sqrtHi (x : Rat) (prec : Nat) : Rat :=
  let n := x.num.toNat * x.den * 4 ^ prec
  let r := Nat.sqrt n
  mkRat (if r * r = n then r else r + 1) (x.den * 2 ^ prec)

def sqrtPrec : Nat := 40

structure PCfg where
  k      : Nat
  nu     : Rat
  lc     : Bool
  offset : Rat
deriving Repr

structure Prox where
  cfg  : PCfg
  arch : Arch

namespace Prox

def new (cfg : PCfg) (cap : Nat) : Prox := ⟨cfg, Arch.new ⟨1, none, cfg.offset⟩ cap⟩

def len (p : Prox) : Nat := p.arch.store.len
def capacity (p : Prox) : Nat := p.arch.store.cap

/-- stored entries with their indices, in index order -/
def entries (p : Prox) : List (Nat × Elite) :=
  (List.range p.capacity).filterMap (fun i => (p.arch.store.cells i).map (fun e => (i, e)))

structure Nb where
  d2  : Rat
  idx : Nat
  obj : Rat
deriving Repr, DecidableEq

def neighbours (p : Prox) (m : List Rat) : List Nb :=
  p.entries.map (fun (i, e) => ⟨dist2 e.meas m, i, e.obj⟩)

def nbLe (a b : Nb) : Bool := decide (a.d2 < b.d2) || (decide (a.d2 = b.d2) && decide (a.idx ≤ b.idx))

def insertNb (x : Nb) : List Nb → List Nb
  | [] => [x]
  | y :: ys => if nbLe x y then x :: y :: ys else y :: insertNb x ys

def sortNb : List Nb → List Nb
  | [] => []
  | x :: xs => insertNb x (sortNb xs)

/-- the `min k n` nearest stored entries (ties by index) -/
def kNearest (p : Prox) (m : List Rat) : List Nb := (sortNb (p.neighbours m)).take p.cfg.k

/-- is the choice of the k nearest entries unique up to the k-th distance? (false = the k-th and
(k+1)-th neighbours are equidistant, so `local_competition` counts may differ) -/
def kthTied (p : Prox) (m : List Rat) : Bool :=
  let s := sortNb (p.neighbours m)
  match s[p.cfg.k - 1]?, s[p.cfg.k]? with
  | some a, some b => decide (a.d2 = b.d2)
  | _, _ => false

/-- rational bracket `[lo, hi]` of the novelty = mean Euclidean distance to the k nearest entries -/
def noveltyBracket (p : Prox) (m : List Rat) : Rat × Rat :=
  let nb := p.kNearest m
  let k : Rat := nb.length
  ((nb.map (fun n => sqrtLo n.d2 sqrtPrec)).sum / k, (nb.map (fun n => sqrtHi n.d2 sqrtPrec)).sum / k)

/-- `some b` = decided; `none` = the threshold lies inside the bracket -/
def novelDec (p : Prox) (m : List Rat) : Option Bool :=
  if p.len = 0 then some true
  else
    let (lo, hi) := p.noveltyBracket m
    if p.cfg.nu ≤ lo then some true else if hi < p.cfg.nu then some false else none

/-- number of the k nearest entries whose objective is lower -/
def lcCount (p : Prox) (m : List Rat) (obj : Rat) : Nat :=
  ((p.kNearest m).filter (fun n => decide (n.obj < obj))).length

/-- indices of stored entries at minimum distance from `m` -/
def nearestSet (p : Prox) (m : List Rat) : List Nat :=
  match sortNb (p.neighbours m) with
  | [] => []
  | a :: rest => a.idx :: (rest.filter (fun b => decide (b.d2 = a.d2))).map (·.idx)

/-- smallest `cap · 2^j ≥ n` (`fuel` bounds the number of doublings) -/
def growCap (cap n : Nat) : Nat → Nat
  | 0 => cap
  | fuel + 1 => if n ≤ cap then cap else growCap (2 * cap) n fuel

/-- one candidate with the implementation's hints: its own admission decision (used only when
the model cannot decide) and the nearest entry the k-D tree returned for it -/
structure Hinted where
  c     : Cand
  novel : Bool
  near  : Option Nat

inductive Reject | hintNovel (tok : Nat) | hintNear (tok : Nat)
deriving Repr

/-- admission decision for one candidate: the model's when decided, else the hint -/
def admitDec (p : Prox) (h : Hinted) : Except Reject Bool :=
  match p.novelDec h.c.meas with
  | some b => if b = h.novel then .ok b else .error (.hintNovel h.c.tok)
  | none => .ok h.novel

/-- the `add_indices` block: novel candidates get fresh indices `len, len+1, …` in batch order;
with local competition a non-novel candidate targets its nearest stored entry, without it the
candidate is dropped -/
def assign (p : Prox) : List Hinted → Nat → Except Reject (List (Nat × Cand) × List Bool)
  | [], _ => .ok ([], [])
  | h :: hs, next => do
    let nov ← p.admitDec h
    if nov then
      let (rows, flags) ← assign p hs (next + 1)
      pure ((next, h.c) :: rows, true :: flags)
    else if p.cfg.lc then
      match h.near with
      | some j =>
        if (p.nearestSet h.c.meas).contains j then do
          let (rows, flags) ← assign p hs next
          pure ((j, h.c) :: rows, false :: flags)
        else .error (.hintNear h.c.tok)
      | none => .error (.hintNear h.c.tok)
    else do
      let (rows, flags) ← assign p hs next
      pure (rows, false :: flags)

structure Feedback where
  novel  : List Bool
  status : List Nat        -- one per candidate
  value  : List Rat        -- only meaningful with local competition (one per candidate)
  novLo  : List Rat
  novHi  : List Rat
  lc     : List Nat
  lcTied : List Bool

/-- `ProximityArchive.add` -/
def add (p : Prox) (hs : List Hinted) : Except Reject (Prox × Feedback) := do
  let (rows, flags) ← p.assign hs p.len
  let nNovel := (flags.filter id).length
  let newSize := p.len + nNovel
  let cap' := growCap p.capacity newSize newSize
  let a0 : Arch := { p.arch with store := { p.arch.store with cap := cap' } }
  let (a1, fb) := a0.addBatch rows
  -- statuses per candidate: without local competition dropped candidates report 0
  let status :=
    if p.cfg.lc then fb.map (·.1)
    else (flags.foldl (fun (acc : List Nat × List (Nat × Rat)) f =>
            if f then (acc.1 ++ [(acc.2.headD (0, 0)).1], acc.2.tail) else (acc.1 ++ [0], acc.2))
          ([], fb)).1
  let br := hs.map (fun h => if p.len = 0 then (p.cfg.nu, p.cfg.nu) else p.noveltyBracket h.c.meas)
  pure ({ p with arch := a1 },
    { novel := flags, status := status, value := if p.cfg.lc then fb.map (·.2) else [],
      novLo := br.map (·.1), novHi := br.map (·.2),
      lc := hs.map (fun h => if p.len = 0 then 0 else p.lcCount h.c.meas h.c.obj),
      lcTied := hs.map (fun h => p.kthTied h.c.meas) })

def clear (p : Prox) : Prox := { p with arch := p.arch.clear }

def colMin (xs : List Rat) : Option Rat := xs.foldl (fun acc x => match acc with | none => some x | some a => some (min a x)) none
def colMax (xs : List Rat) : Option Rat := xs.foldl (fun acc x => match acc with | none => some x | some a => some (max a x)) none

/-- `lower_bounds` / `upper_bounds`: coordinate-wise min / max of the current entries;
`none` (RuntimeError) iff the archive is empty -/
def bounds (p : Prox) (dim : Nat) : Option (List Rat × List Rat) :=
  if p.len = 0 then none
  else
    let cols := (List.range dim).map (fun k => p.entries.map (fun (_, e) => e.meas.getD k 0))
    some (cols.map (fun c => (colMin c).getD 0), cols.map (fun c => (colMax c).getD 0))

end Prox
end Pyribs
