"""Copy a seeding agent's deliverables from /tmp/seed/<id>_out into /verif/seeded/<id>-<k>/."""
import json, os, shutil, sys
pid = sys.argv[1]
src = f"/tmp/seed/{pid}_out"
for k in (1, 2, 3):
    if not os.path.exists(f"{src}/change{k}.diff"):
        continue
    dst = f"/verif/seeded/{pid}-{k}"
    os.makedirs(dst, exist_ok=True)
    shutil.copy(f"{src}/change{k}.diff", f"{dst}/patch.diff")
    shutil.copy(f"{src}/demo{k}.py", f"{dst}/demo.py")
    meta = json.load(open(f"{src}/meta{k}.json"))
    meta["property"] = pid
    json.dump(meta, open(f"{dst}/meta.json", "w"), indent=1)
    print(dst, "-", str(meta.get("summary"))[:150])
