"""C01 — elitist archives keep, per cell, the best candidate ever routed there."""
import archlib

ID = "C01"
PROOF_MODULES = ["PyribsProofs.C01"]
THEOREMS = [
    "Pyribs.C01.contents_spec",
    "Pyribs.C01.contents_full",
    "Pyribs.C01.bestOf_spec",
    "Pyribs.C01.occupied_iff",
    "Pyribs.C01.row_integrity",
    "Pyribs.C01.objective_monotone",
    "Pyribs.C01.batching_invariance",
    "Pyribs.C01.cell_addBatch",
    "Pyribs.C01.cell_addSingle",
    "Pyribs.C01.nonvacuous",
    "Pyribs.Arch.batch_eq_bestFrom",
    "Pyribs.Arch.cellOf_addBatch",
    "Pyribs.Arch.argmaxFirst_first",
]
RULE = ("lock-step histories of add / add_single / clear / retrieve on GridArchive, CVTArchive (k-D tree, brute "
        "force, chunked; lattice centroids) and SlidingBoundariesArchive (between remaps), float32/float64, 8 "
        "extra-field layouts, strata: mixed, many candidates per cell, exact ties inside batches and across calls, "
        "float64 values colliding after the float32 entry cast, extreme magnitudes; a case is non-trivial when some "
        "cell receives two or more candidates between clears (a tie or a loss is decided); distinct by op list")
PARTIAL = []
ASSUMPTIONS = [
    "every field of a row other than objective and measures is derived injectively from the row's token",
    "objectives and measures are exactly representable (dyadic) in the archive dtype, or are rounded once on entry; "
    "the model is fed the entry-cast value",
    "routing is taken from the model's index map and cross-checked against index_of (measures at quarter points of "
    "cells, exact boundaries in float64, far out of range)",
]
PROPS = {"C01"}


def gen(profile, **kw):
    def g(rng):
        case = archlib.gen_case(rng, profile, **kw)
        case["profile"] = profile
        return case
    return g


def run_case(case):
    return archlib.run_case(case, PROPS)


def run(ctx):
    budget = 9 if ctx.quick else 90
    for name, n in [("mixed", ctx.n(160, 12000)), ("percell", ctx.n(120, 8000)), ("ties", ctx.n(120, 8000)),
                    ("collide", ctx.n(100, 6000)), ("extreme", ctx.n(80, 5000))]:
        ctx.explore(name, gen(name), run_case, n, nontrivial=archlib.nontrivial_c01, time_budget=budget)


def replay(ctx, case):
    return run_case(case)
