import numpy as np, warnings
from ribs.archives import GridArchive
warnings.simplefilter("ignore")
a = GridArchive(solution_dim=1, dims=[1000], ranges=[(0,1)], dtype=np.float32)
m = np.array([[0.5-3e-9]])           # float64 measure just below the edge of cell 500
info = a.add(np.array([[1.0]]), np.array([1.0]), m)
d = a.data()
print("stored index", d["index"], "stored measures", d["measures"], "index_of(stored measures)", a.index_of(d["measures"]))
occ, r = a.retrieve(d["measures"]); print("retrieve own measures: occupied", occ, "objective", r["objective"])
