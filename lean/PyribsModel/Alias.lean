import PyribsModel.Util
import PyribsModel.Store
/-!
# Alias — ownership monitor over a small IR of the NumPy operations that decide sharing (C12)

Which NumPy operation returns a view and which a copy decides whether pyribs mutates or
retains a caller's array, or hands out its own storage.  This file has

* the IR (`Stmt`): `asarray(x, dtype?)` (same region iff no conversion is needed — the
  boolean `copies` selects the branch), basic slice / `expand_dims` / `[None]` / `.T` /
  `.view()` (`view`), fancy or boolean index (`fancy`, a copy), arithmetic (`arith`, a fresh
  array), `np.zeros` / `np.empty` / rng output (`new`), in-place operators and `x[...] = v`
  (`write`), `np.copy` (`copy`), `readonly(y.view())` (`ro`), attribute / container store
  into `self` (`store`), attribute read (`load`) and `return` (`ret`);
* the **monitored semantics**: `Ctl.step` is the monitor.  It sees variables as
  `(region, writeable)` and regions as owned `caller | internal | fresh`; it never sees
  array contents (by type: the heap is not an argument).  Its second output, an `Eff`,
  says which region an operation (re)writes from which regions; `applyEff` performs that
  on an arbitrary heap with an arbitrary data function.  Rejections are explicit (`Rej`);
* the transcriptions of the pyribs entry points (`Entry`, list `entries`), REPAIRED
  behaviour, plus the transcriptions of the current defective code for D7, D10, D15, D19,
  D20 and a few realistic mutants (`negatives`), which the monitor must reject;
* the read paths of `ArrayStore.retrieve` / `data` / iteration / `ArchiveDataFrame` over
  the `Store` model (T12.3).
-/
namespace Pyribs.Alias

inductive Own | caller | internal | fresh
deriving DecidableEq, Repr

/-- what a variable holds: an array object = a view of `reg`, with its `writeable` flag -/
structure Val where
  reg : Nat
  w   : Bool
deriving DecidableEq, Repr

inductive Stmt
  | asarray (x y : Nat) (copies : Bool) -- x = np.asarray(y, dtype?) ; copies ⇔ y is not an ndarray of that dtype
  | view (x y : Nat)                    -- x = y[a:b] / y[i] (row) / np.expand_dims(y) / y[None] / y.T / y.view() / x = y
  | fancy (x y : Nat)                   -- x = y[index_array] / y[bool_mask] / y[i] (element → NumPy scalar)
  | copy (x y : Nat)                    -- x = np.copy(y) / y.copy() / y.astype(..) / np.array([y])
  | arith (x : Nat) (ys : List Nat)     -- x = f(ys…)  (arithmetic, reductions, concatenate, sort_values() …)
  | new (x : Nat)                       -- x = np.zeros / np.empty / np.arange / rng.… / np_scalar(..)
  | write (x : Nat) (ys : List Nat)     -- x[...] = f(ys…) ; x op= y ; frame.sort_values(inplace=True)
  | ro (x y : Nat)                      -- x = readonly(y.view())
  | store (f x : Nat)                   -- self.f = x ; self.f.append(x) ; self.f[k] = x
  | load (x f : Nat)                    -- x = self.f
  | ret (x : Nat)                       -- hand x to the caller (return value, yielded entry, dict entry …)
deriving Repr

inductive Rej
  | unbound (x : Nat)        -- variable read before assignment (a transcription error)
  | nofield (f : Nat)        -- self.f read before assignment (a transcription error)
  | writeCaller (x : Nat)    -- in-place write into memory of the caller
  | writeReadonly (x : Nat)  -- in-place write through a read-only array (NumPy raises ValueError)
  | storeCaller (f : Nat)    -- self keeps a reference into memory of the caller
  | retInternal (x : Nat)    -- a writeable alias of internal storage is handed out
  | retCaller (x : Nat)      -- a public entry point hands the caller's own memory back as an output
  | bits                     -- wrong number of branch bits for this entry point
deriving DecidableEq, Repr

def upd {α} (f : Nat → α) (k : Nat) (v : α) : Nat → α := fun i => if i = k then v else f i

/-- the monitor's state: everything except array contents -/
structure Ctl where
  next   : Nat                 -- regions `≥ next` are not allocated yet
  env    : Nat → Option Val
  self   : Nat → Option Val
  own    : Nat → Own
  stored : List Val            -- every value ever stored into self (containers are append-only here)
  rets   : List (Nat × Val)    -- every value handed to the caller, with the variable it came from

/-- effect of one operation on array contents -/
inductive Eff
  | none
  | alloc (r : Nat) (srcs : List Nat)   -- region r is created from the contents of srcs
  | mut (r : Nat) (srcs : List Nat)     -- region r := f(old r, srcs)
deriving Repr

namespace Ctl

def bind (c : Ctl) (x : Nat) (v : Val) : Ctl := { c with env := upd c.env x (some v) }

def alloc (c : Ctl) (x : Nat) : Ctl :=
  { c with next := c.next + 1, env := upd c.env x (some ⟨c.next, true⟩),
           own := upd c.own c.next .fresh }

/-- regions of a list of variables -/
def regs (c : Ctl) : List Nat → Except Rej (List Nat)
  | [] => .ok []
  | y :: ys =>
    match c.env y with
    | none => .error (.unbound y)
    | some v =>
      match regs c ys with
      | .error e => .error e
      | .ok rs => .ok (v.reg :: rs)

/-- **the monitor**: one step.  A write needs a writeable non-caller target; a store needs a
value that does not alias a caller region (and turns the region internal). -/
def step (c : Ctl) : Stmt → Except Rej (Ctl × Eff)
  | .asarray x y cp =>
    match c.env y with
    | none => .error (.unbound y)
    | some v => if cp then .ok (c.alloc x, .alloc c.next [v.reg]) else .ok (c.bind x v, .none)
  | .view x y =>
    match c.env y with
    | none => .error (.unbound y)
    | some v => .ok (c.bind x v, .none)
  | .ro x y =>
    match c.env y with
    | none => .error (.unbound y)
    | some v => .ok (c.bind x ⟨v.reg, false⟩, .none)
  | .fancy x y =>
    match c.env y with
    | none => .error (.unbound y)
    | some v => .ok (c.alloc x, .alloc c.next [v.reg])
  | .copy x y =>
    match c.env y with
    | none => .error (.unbound y)
    | some v => .ok (c.alloc x, .alloc c.next [v.reg])
  | .arith x ys =>
    match c.regs ys with
    | .error e => .error e
    | .ok rs => .ok (c.alloc x, .alloc c.next rs)
  | .new x => .ok (c.alloc x, .alloc c.next [])
  | .write x ys =>
    match c.env x with
    | none => .error (.unbound x)
    | some vx =>
      match c.regs ys with
      | .error e => .error e
      | .ok rs =>
        if c.own vx.reg = .caller then .error (.writeCaller x)
        else if vx.w = false then .error (.writeReadonly x)
        else .ok (c, .mut vx.reg rs)
  | .store f x =>
    match c.env x with
    | none => .error (.unbound x)
    | some v =>
      if c.own v.reg = .caller then .error (.storeCaller f)
      else .ok ({ c with self := upd c.self f (some v), own := upd c.own v.reg .internal,
                         stored := v :: c.stored }, .none)
  | .load x f =>
    match c.self f with
    | none => .error (.nofield f)
    | some v => .ok (c.bind x v, .none)
  | .ret x =>
    match c.env x with
    | none => .error (.unbound x)
    | some v => .ok ({ c with rets := (x, v) :: c.rets }, .none)

/-- the monitor alone, over a program -/
def run : Ctl → List Stmt → Except Rej Ctl
  | c, [] => .ok c
  | c, p :: ps =>
    match c.step p with
    | .error e => .error e
    | .ok (c', _) => run c' ps

/-- final check: nothing handed out is a writeable alias of internal storage -/
def retCheck (c : Ctl) : List (Nat × Val) → Except Rej Unit
  | [] => .ok ()
  | (x, v) :: rest =>
    if v.w = true ∧ c.own v.reg = .internal then .error (.retInternal x) else retCheck c rest

/-- public entry points ("outputs are copies"): nothing handed out lies in memory of the caller -/
def retCallerCheck (c : Ctl) : List (Nat × Val) → Except Rej Unit
  | [] => .ok ()
  | (x, v) :: rest =>
    if c.own v.reg = .caller then .error (.retCaller x) else retCallerCheck c rest

/-- monitored execution of a whole entry point: `ok` = accepted -/
def exec (c : Ctl) (ps : List Stmt) : Except Rej Ctl :=
  match c.run ps with
  | .error e => .error e
  | .ok c' =>
    match c'.retCheck c'.rets.reverse with
    | .error e => .error e
    | .ok () => .ok c'

/-- initial state of an entry point: argument `i` is variable `i` = region `i`, writeable, owned as
`args[i]`; `self` field `f < nself` is the internal region `args.length + f`. -/
def init (args : List Own) (nself : Nat) : Ctl where
  next := args.length + nself
  env := fun x => if x < args.length then some ⟨x, true⟩ else none
  self := fun f => if f < nself then some ⟨args.length + f, true⟩ else none
  own := fun r =>
    match args[r]? with
    | some o => o
    | none => if r < args.length + nself then .internal else .fresh
  stored := []
  rets := []

end Ctl

/-! ### array contents: arbitrary type, arbitrary data function -/

structure Data (κ : Type) where
  fresh : κ             -- contents of an array created from nothing
  bin   : κ → κ → κ     -- any binary data function; n-ary results are folds of it

def gather {κ} (D : Data κ) (h : Nat → κ) : List Nat → κ
  | [] => D.fresh
  | r :: rs => D.bin (h r) (gather D h rs)

def applyEff {κ} (D : Data κ) (h : Nat → κ) : Eff → Nat → κ
  | .none => h
  | .alloc r srcs => upd h r (gather D h srcs)
  | .mut r srcs => upd h r (D.bin (h r) (gather D h srcs))

/-- full semantics: monitor state × heap.  The heap is a total map; only regions `< next` matter. -/
def stepH {κ} (D : Data κ) (s : Ctl × (Nat → κ)) (p : Stmt) : Except Rej (Ctl × (Nat → κ)) :=
  match s.1.step p with
  | .error e => .error e
  | .ok (c', e) => .ok (c', applyEff D s.2 e)

def runH {κ} (D : Data κ) : Ctl × (Nat → κ) → List Stmt → Except Rej (Ctl × (Nat → κ))
  | s, [] => .ok s
  | s, p :: ps =>
    match stepH D s p with
    | .error e => .error e
    | .ok s' => runH D s' ps

def isOk {ε α} : Except ε α → Bool
  | .ok _ => true
  | .error _ => false

/-! ### entry points -/

structure Entry where
  name  : String
  pyfn  : String               -- the Python function(s) transcribed
  args  : List Own             -- ownership of the argument variables 0, 1, …
  nself : Nat                  -- number of pre-existing internal regions (self fields 0 … nself-1)
  nbits : Nat                  -- number of branch bits
  prog  : List Bool → Option (List Stmt)   -- `none` = wrong number of bits
  strict : Bool := true        -- a public entry point: its outputs must not alias the caller's memory either
                               -- (false for internal helpers whose purpose is to pass the caller's arrays on)

def Entry.check (E : Entry) (bits : List Bool) : Except Rej Ctl :=
  match E.prog bits with
  | none => .error .bits
  | some ps =>
    match (Ctl.init E.args E.nself).exec ps with
    | .error e => .error e
    | .ok c =>
      if E.strict then
        match c.retCallerCheck c.rets.reverse with
        | .error e => .error e
        | .ok () => .ok c
      else .ok c

def Entry.accepts (E : Entry) (bits : List Bool) : Bool := isOk (E.check bits)

/-- all bit vectors of length `n` -/
def allBits : Nat → List (List Bool)
  | 0 => [[]]
  | n + 1 => (allBits n).map (false :: ·) ++ (allBits n).map (true :: ·)

/-- accepted for every branch combination -/
def Entry.acceptedAll (E : Entry) : Bool := (allBits E.nbits).all E.accepts

def Entry.verdict (E : Entry) (bits : List Bool) : Option Rej :=
  match E.check bits with
  | .ok _ => none
  | .error e => some e

/-! ## Transcriptions

`self` fields (one representative region each; all exist before the call): -/
namespace F
def occupied  := 0   -- store._props["occupied"]
def olist     := 1   -- store._props["occupied_list"]
def updates   := 2   -- store._props["updates"]
def vec       := 3   -- store._fields[name] for a vector field (solution / measures / extra field)
def obj       := 4   -- store._fields["objective"]
def thr       := 5   -- store._fields["threshold"]
def best      := 6   -- archive._best_elite (the arrays inside the dict)
def queue     := 7   -- SolutionBuffer._queue (entries)
def mlists    := 8   -- SolutionBuffer._measure_lists
def curSols   := 9   -- scheduler._cur_solutions
def jac       := 10  -- emitter._jacobian_batch
def theta     := 11  -- gradient optimiser _theta
def m         := 12  -- AdamOpt._m
def v         := 13  -- AdamOpt._v
def opt       := 14  -- evolution-strategy state (_solutions, mean, covariance, …)
def kdtree    := 15  -- ProximityArchive._cur_kd_tree (its data)
def success   := 16  -- BanditScheduler._success / _selection
def iterState := 17  -- ArrayStoreIterator.state
def geom      := 18  -- archive geometry (_lower_bounds, _interval_size, _centroids, _samples, _boundaries …)
def emit      := 19  -- emitter parameters (_x0, _initial_solutions, _sigma, bounds; operator._sigma)
end F
def nSelf : Nat := 20

/-! ### fragments (Python helpers that the entry points call; variables are parameters,
`o` = first output variable, `t` = first temporary) -/

/-- `ArrayStore.retrieve(indices)` with all fields.  Out: occupied `o`, index `o+1`,
vector field `o+2`, objective `o+3`, threshold `o+4`; temporaries up to `o+9`. -/
def pRetrieve (idx : Nat) (cp : Bool) (o : Nat) : List Stmt :=
  [ .asarray (o+5) idx cp,                    -- indices = np.asarray(indices, dtype=np.int32)
    .load (o+6) F.occupied, .fancy o (o+6),   -- occupied = self._props["occupied"][indices]
    .copy (o+1) (o+5),                        -- arr = np.copy(indices)                ("index")
    .load (o+7) F.vec, .fancy (o+2) (o+7),    -- arr = self._fields[name][indices]     (copy)
    .load (o+8) F.obj, .fancy (o+3) (o+8),
    .load (o+9) F.thr, .fancy (o+4) (o+9) ]

/-- `ArrayStore.occupied_list` : `readonly(self._props["occupied_list"][:n])`.  Out: `o+2`. -/
def pOccupiedList (o : Nat) : List Stmt :=
  [ .load o F.olist, .view (o+1) o, .ro (o+2) (o+1) ]

/-- `index_of(measures)` (grid / CVT / sliding / proximity): asarray of an ndarray, arithmetic with
the geometry, fresh int32 result in `out`. Temporaries `t, t+1`. -/
def pIndexOf (meas out t : Nat) : List Stmt :=
  [ .view t meas,                             -- measures = np.asarray(measures)   (already an ndarray)
    .load (t+1) F.geom, .arith out [t, t+1] ]

/-- tail of `ArrayStore.add`: occupancy block and the field-write loop. Temporaries `t … t+7`. -/
def pStoreWrite (idx vec obj thr t : Nat) : List Stmt :=
  [ .arith t [idx],                           -- unique_indices = np.where(aggregate(indices, 1, "len") != 0)[0]
    .load (t+1) F.occupied, .fancy (t+2) (t+1), -- cur_occupied = occupied[unique_indices]
    .fancy (t+3) t,                           -- new_indices = unique_indices[~cur_occupied]
    .write (t+1) [t+3],                       -- self._props["occupied"][new_indices] = True
    .load (t+4) F.olist, .write (t+4) [t+3],  -- occupied_list[n:n+k] = new_indices
    .load (t+5) F.vec, .write (t+5) [idx, vec], -- arr[indices] = new_data[name]
    .load (t+6) F.obj, .write (t+6) [idx, obj],
    .load (t+7) F.thr, .write (t+7) [idx, thr] ]

/-- `_transforms.batch_entries_with_threshold`.  In: indices, new_data (vector field, objective),
occupied and cur_data["threshold"] (both fresh from `retrieve`).  Out: status `o`, value `o+1`,
indices `o+2`, new_data vector `o+3`, objective `o+4`, threshold `o+5`.  `mae` = code branch
`threshold_min != -inf`.  Early returns execute a prefix of this. Temporaries `t … t+9`. -/
def pBatchThr (idx nVec nObj occ cThr : Nat) (mae : Bool) (o t : Nat) : List Stmt :=
  [ .view t cThr,                             -- cur_threshold = cur_data["threshold"]
    .arith (t+1) [occ], .write t [t+1],       -- cur_threshold[~occupied] = threshold_min
    .arith (t+2) [nObj, t],                   -- can_insert = new_data["objective"] > cur_threshold
    .arith (t+3) [t+2, occ],                  -- is_new / improve_existing
    .new o, .write o [t+3],                   -- add_info["status"] = np.zeros(..); status[is_new] = 2 …
    .write t [t+3],                           -- cur_threshold[is_new] = …
    .arith (o+1) [nObj, t],                   -- add_info["value"] = new_data["objective"] - cur_threshold
    .fancy (t+4) idx,                         -- indices = indices[can_insert]
    .fancy (t+5) nVec, .fancy (t+6) nObj,     -- new_data = {name: arr[can_insert]}
    .fancy (t+7) t,                           -- cur_threshold = cur_threshold[can_insert]
    (if mae then .arith (t+8) [t+4, t+6, t+7] -- new_threshold = _compute_thresholds(…)
     else .view (t+8) (t+6)),                 -- new_threshold = new_data["objective"]
    .arith (t+9) [t+4, t+6],                  -- archive_argmax / should_insert
    .fancy (o+2) (t+4),                       -- indices = indices[should_insert]
    .fancy (o+3) (t+5), .fancy (o+4) (t+6),   -- new_data = {name: arr[should_insert]}
    .fancy (o+5) (t+8) ]                      -- new_data["threshold"] = new_threshold[should_insert]

/-- `_transforms.single_entry_with_threshold`.  Same interface as `pBatchThr`; indices and new_data
are passed through unchanged (aliases of what came in). Temporaries `t … t+2`. -/
def pSingleThr (idx nVec nObj occ cThr o t : Nat) : List Stmt :=
  [ .fancy t occ,                             -- cur_occupied = occupied[0]
    .fancy (t+1) cThr,                        -- cur_threshold = cur_data["threshold"][0]
    .fancy (t+2) nObj,                        -- objective = new_data["objective"][0]
    .new o,                                   -- add_info["status"] = np.array([..])
    .arith (o+5) [t+1, t+2],                  -- new_data["threshold"] = [cur_threshold*(1-lr) + objective*lr]
    .arith (o+1) [t+2, t+1],                  -- add_info["value"] = np.array([objective - cur_threshold])
    .view (o+2) idx, .view (o+3) nVec, .view (o+4) nObj ]   -- return indices, new_data, add_info

/-- `_transforms.compute_objective_sum`. Out: `add_info["objective_sum"]` in `o`. -/
def pObjSum (nObj occ cObj o t : Nat) : List Stmt :=
  [ .view t cObj,                             -- cur_objective = cur_data["objective"]
    .arith (t+1) [occ], .write t [t+1],       -- cur_objective[~occupied] = 0.0
    .arith o [nObj, t] ]                      -- cur_objective_sum + np.sum(new_data["objective"] - cur_objective)

/-- `_transforms.compute_best_index`. Out: `add_info["best_index"]` in `o`. -/
def pBestIdx (idx nObj o t : Nat) : List Stmt :=
  [ .arith t [nObj],                          -- item_idx = np.argmax(new_data["objective"])
    .fancy o idx ]                            -- indices[item_idx]

/-- `ArchiveBase._stats_update`: retrieves the new best elite and keeps it. Uses `t … t+11`. -/
def pStatsUpdate (bestIdx t : Nat) : List Stmt :=
  pRetrieve bestIdx true t ++                 -- self._store.retrieve([new_best_index])   (a list: converted)
  [ .view (t+10) (t+2), .fancy (t+11) (t+3),  -- {k: v[0] for k, v in new_best_elite.items()}
    .store F.best (t+10), .store F.best (t+11) ]  -- self._best_elite = new_best_elite ; self._stats = …

/-- `ArrayStore.add(indices, data, …, [thr, compute_objective_sum, compute_best_index])` followed by
the `_stats_update` of the archive.  `single` chooses the threshold transform.  `others` are the
further vector fields of `data` (measures, extra fields), written like `vec`.
Out: status `o+20`, value `o+21`.  Uses `o … o+101`. -/
def pStoreAdd (idx vec obj : Nat) (others : List Nat) (single mae upd : Bool) (o : Nat) : List Stmt :=
  [ .load o F.updates, .write o [] ] ++       -- self._props["updates"][Update.ADD] += 1
  pRetrieve idx false (o+10) ++               -- occupied, cur_data = self.retrieve(indices)
  (if single then pSingleThr idx vec obj (o+10) (o+14) (o+20) (o+30)
   else pBatchThr idx vec obj (o+10) (o+14) mae (o+20) (o+30)) ++
  pRetrieve (o+22) false (o+40) ++
  pObjSum (o+24) (o+40) (o+43) (o+50) (o+51) ++
  pRetrieve (o+22) false (o+60) ++
  pBestIdx (o+22) (o+24) (o+70) (o+71) ++
  pStoreWrite (o+22) (o+23) (o+24) (o+25) (o+80) ++
  [ .arith (o+88) ((o+30) :: others),         -- the other fields of new_data go through the same selection …
    .load (o+89) F.vec, .write (o+89) [o+22, o+88] ] ++   -- … and field-write loop
  (if upd then pStatsUpdate (o+70) (o+90) else [])

/-- body of `ArchiveBase.add(solution, objective, measures, **fields)`.
Out: add_info status `o+120`, value `o+121`.  Uses `o … o+201`. -/
def pAdd (sol obj meas ex : Nat) (cSol cObj cMeas cEx mae upd : Bool) (o : Nat) : List Stmt :=
  [ .asarray o sol cSol,                      -- validate_batch: data["solution"] = np.asarray(data["solution"])
    .asarray (o+1) obj cObj,                  -- arr = np.asarray(arr, dtype=archive.dtypes["objective"])
    .asarray (o+2) meas cMeas,                -- arr = np.asarray(arr, dtype=archive.dtypes["measures"])
    .asarray (o+3) ex cEx ] ++                -- arr = np.asarray(arr)                    (extra field)
  pIndexOf (o+2) (o+4) (o+5) ++               -- self.index_of(data["measures"])
  pStoreAdd (o+4) o (o+1) [o+2, o+3] false mae upd (o+100)

/-- body of `ArchiveBase.add_single` (repaired: routes with `index_of(data["measures"])`).
Out: status `o+30`, value `o+31`.  Uses `o … o+201`. -/
def pAddSingle (sol _obj meas ex : Nat) (cSol cMeas upd : Bool) (o : Nat) : List Stmt :=
  [ .asarray o sol cSol,                      -- validate_single: np.asarray(data["solution"])
    .new (o+1),                               -- np_scalar(data["objective"], dtype)
    .asarray (o+2) meas cMeas,                -- np.asarray(data["measures"], dtype=…)
    .view (o+3) ex,                           -- extra fields are passed through
    .view (o+10) o, .copy (o+11) (o+1),       -- data[name] = np.expand_dims(arr, axis=0)
    .view (o+12) (o+2), .view (o+13) (o+3) ] ++
  pIndexOf (o+12) (o+14) (o+15) ++
  pStoreAdd (o+14) (o+10) (o+11) [o+12, o+13] true false upd (o+100) ++
  [ .fancy (o+30) (o+120), .fancy (o+31) (o+121) ]   -- add_info[name] = arr[0]

/-- `SolutionBuffer.add(data)` (repaired: the buffer stores copies).  `data` = the dict produced by
`validate_single`: solution, measures, extra field.  Uses `t … t+14`. -/
def pBufferAdd (sol meas ex : Nat) (full : Bool) (t : Nat) : List Stmt :=
  (if full then
    [ .load t F.queue,                        -- deleted_data = self._queue.popleft()
      .fancy (t+1) t,                         -- for i, m in enumerate(deleted_data["measures"])
      .load (t+2) F.mlists, .write (t+2) [t+1] ]   -- self._measure_lists[i].remove(m)
   else []) ++
  [ .copy (t+10) sol, .copy (t+11) meas, .copy (t+12) ex,   -- data = {name: np.copy(val) …}
    .store F.queue (t+10), .store F.queue (t+11), .store F.queue (t+12),  -- self._queue.append(data)
    .fancy (t+13) (t+11),                     -- for i, m in enumerate(data["measures"])   (NumPy scalars)
    .store F.mlists (t+13) ]                  -- self._measure_lists[i].add(m)

/-- `sample_elites(n)`.  Out: elites index `o+21`, vector `o+22`, objective `o+23`, threshold `o+24`. -/
def pSampleElites (o : Nat) : List Stmt :=
  [ .new o ] ++                               -- random_indices = self._rng.integers(len(self._store), size=n)
  pOccupiedList (o+1) ++
  [ .fancy (o+4) (o+3) ] ++                   -- selected_indices = self._store.occupied_list[random_indices]
  pRetrieve (o+4) false (o+20)                -- _, elites = self._store.retrieve(selected_indices)

/-- `AdamOpt.step(gradient)`. Uses `o … o+7`. -/
def pAdamStep (g : Nat) (c : Bool) (o : Nat) : List Stmt :=
  [ .asarray o g c, .arith (o+1) [o],         -- gradient = -np.asarray(gradient)
    .load (o+2) F.theta, .write (o+1) [o+2],  -- gradient += self._l2_coeff * self._theta
    .load (o+3) F.m, .arith (o+4) [o+3, o+1], .store F.m (o+4),   -- self._m = β1 m + (1-β1) g
    .load (o+5) F.v, .arith (o+6) [o+5, o+1], .store F.v (o+6),   -- self._v = β2 v + (1-β2) g²
    .arith (o+7) [o+4, o+6],                  -- step = -a * self._m / (np.sqrt(self._v) + ε)
    .write (o+2) [o+7] ]                      -- self._theta += step

/-- `GradientAscentOpt.step(gradient)`. Uses `o … o+2`. -/
def pAscentStep (g : Nat) (c : Bool) (o : Nat) : List Stmt :=
  [ .asarray o g c, .arith (o+1) [o],         -- step = self._lr * np.asarray(gradient)
    .load (o+2) F.theta, .write (o+2) [o+1] ] -- self._theta += step

/-- `EvolutionStrategyEmitter.tell` / first half of `GradientArborescenceEmitter.tell`.
Validated data `o … o+5` (solution, objective, measures, extra, status, value); ranking indices
`o+7`.  `valueRanker` = the ranker returns `add_info["value"]` itself as ranking values.
Uses `o … o+12` and, on restart, `o+20 … o+50`. -/
def pEsTell (sol obj meas ex st val : Nat) (c : List Bool) (valueRanker restart : Bool) (o : Nat) :
    Option (List Stmt) :=
  match c with
  | [cSol, cObj, cMeas, cEx, cSt, cVal] => some <|
    [ .asarray o sol cSol, .asarray (o+1) obj cObj, .asarray (o+2) meas cMeas,
      .asarray (o+3) ex cEx,                  -- validate_batch(archive, data, add_info)
      .asarray (o+4) st cSt, .asarray (o+5) val cVal,
      .arith (o+6) [o+4],                     -- new_sols = add_info["status"].astype(bool).sum()
      .arith (o+7) [o+4, o+5, o+1, o+2],      -- indices = ranker.rank(...)            (argsort / lexsort)
      (if valueRanker then .view (o+8) (o+5)  -- ranking_values = add_info["value"]
       else .arith (o+8) [o+4, o+5]),         -- ranking_values = np.stack((status, value), axis=-1)
      .load (o+9) F.opt, .fancy (o+10) (o+9), -- parents = self._solutions[ranking_indices][:num_parents]
      .arith (o+11) [o+10, o+8],              -- new mean / paths / covariance
      .store F.opt (o+11),
      .fancy (o+12) (o+8) ] ++                -- self._opt.check_stop(ranking_values[indices])
    (if restart then
      pSampleElites (o+20) ++                 -- new_x0 = self.archive.sample_elites(1)["solution"][0]
      [ .view (o+50) (o+42), .copy (o+51) (o+50), .store F.opt (o+51) ]   -- self._opt.reset(new_x0)
     else [])
  | _ => none

/-- `GradientArborescenceEmitter.tell_dqd` / `GradientOperatorEmitter.tell_dqd` (repaired).
`c` = conversion bits of solution, objective, measures, extra, jacobian, status, value. -/
def pTellDqd (sol obj meas ex jac st val : Nat) (c : List Bool) (normalize : Bool) (o : Nat) :
    Option (List Stmt) :=
  match c with
  | [cSol, cObj, cMeas, cEx, cJac, cSt, cVal] => some
    [ .asarray o sol cSol, .asarray (o+1) obj cObj, .asarray (o+2) meas cMeas,
      .asarray (o+3) ex cEx, .asarray (o+4) st cSt, .asarray (o+5) val cVal,
      .asarray (o+6) jac cJac,                -- jacobian = np.asarray(jacobian)
      .arith (o+7) [o+6],                     -- norms = np.linalg.norm(jacobian, axis=2, keepdims=True) + ε
      (if normalize then .arith (o+8) [o+6, o+7]   -- jacobian = jacobian / norms
       else .copy (o+8) (o+6)),               -- jacobian = np.copy(jacobian)
      .store F.jac (o+8) ]                    -- self._jacobian_batch = jacobian
  | _ => none

/-! ### the entry points -/

def caller (n : Nat) : List Own := List.replicate n .caller

def eStoreRetrieve : Entry :=
  { name := "ArrayStore.retrieve", pyfn := "ribs/archives/_array_store.py:ArrayStore.retrieve",
    args := caller 1, nself := nSelf, nbits := 1,
    prog := fun
      | [c] => some <| pRetrieve 0 c 10 ++
          [ .view 20 12,                      -- pandas: data[f"{name}_{i}"] = arr[:, i] ; DataFrame(data, copy=False)
            .ret 10, .ret 11, .ret 12, .ret 13, .ret 14, .ret 20 ]
      | _ => none }

def eStoreData : Entry :=
  { name := "ArrayStore.data", pyfn := "ribs/archives/_array_store.py:ArrayStore.data",
    args := [], nself := nSelf, nbits := 1,
    prog := fun
      | [c] => some <| pOccupiedList 0 ++ pRetrieve 2 c 10 ++
          [ .view 20 12, .ret 11, .ret 12, .ret 13, .ret 14, .ret 20 ]
      | _ => none }

def eStoreIter : Entry :=
  { name := "ArrayStore.__iter__", pyfn := "ribs/archives/_array_store.py:ArrayStoreIterator.__init__/__next__",
    args := [], nself := nSelf, nbits := 0,
    prog := fun
      | [] => some
          [ .load 0 F.updates, .copy 1 0, .store F.iterState 1,   -- self.state = store._props["updates"].copy()
            .load 2 F.olist, .fancy 3 2,      -- idx = self.store._props["occupied_list"][self.iter_idx]
            .load 4 F.vec, .view 5 4,         -- arr[idx]     (a row: a view of the storage)
            .copy 6 5,                        -- d[name] = np.copy(arr[idx])[()]       (repair of D20)
            .load 7 F.obj, .fancy 8 7,        -- scalar field: arr[idx] is a NumPy scalar
            .ret 3, .ret 6, .ret 8 ]
      | _ => none }

def eStoreRaw : Entry :=
  { name := "ArrayStore.as_raw_dict", pyfn := "ribs/archives/_array_store.py:ArrayStore.as_raw_dict",
    args := [], nself := nSelf, nbits := 0,
    prog := fun
      | [] => some
          [ .load 0 F.occupied, .ro 1 0, .load 2 F.olist, .ro 3 2, .load 4 F.updates, .ro 5 4,
            .load 6 F.vec, .ro 7 6, .load 8 F.obj, .ro 9 8, .load 10 F.thr, .ro 11 10,   -- readonly(val.view())
            .ret 1, .ret 3, .ret 5, .ret 7, .ret 9, .ret 11 ]
      | _ => none }

/-- `ArrayStore.add(indices, new_data, extra_args, transforms)` with one pass-through transform
(transforms are the caller's code; the store itself only calls `retrieve` for them). -/
def eStoreAdd : Entry :=
  { name := "ArrayStore.add", pyfn := "ribs/archives/_array_store.py:ArrayStore.add",
    args := caller 4, nself := nSelf, nbits := 4,   -- indices, vector field, objective, threshold
    prog := fun
      | [cIdx, cVec, cObj, cThr] => some <|
          [ .load 5 F.updates, .write 5 [] ] ++
          pRetrieve 0 cIdx 10 ++              -- occupied, cur_data = self.retrieve(indices)  (handed to the transform)
          [ .asarray 20 1 cVec, .ro 21 20,    -- (repair of D3) np.broadcast_to(np.asarray(new_data[name]), shape)
            .asarray 22 2 cObj, .ro 23 22, .asarray 24 3 cThr, .ro 25 24 ] ++
          pStoreWrite 0 1 2 3 30
      | _ => none }

def eXfBatch : Entry :=
  { name := "transforms.batch_entries_with_threshold",
    pyfn := "ribs/archives/_transforms.py:batch_entries_with_threshold",
    -- indices, new_data[vector], new_data["objective"] belong to the caller of the store;
    -- occupied, cur_data["threshold"] are the fresh arrays `retrieve` made for this transform
    args := [.caller, .caller, .caller, .fresh, .fresh], nself := nSelf, nbits := 1,
    prog := fun
      | [mae] => some <| pBatchThr 0 1 2 3 4 mae 10 20 ++
          [ .ret 10, .ret 11, .ret 12, .ret 13, .ret 14, .ret 15 ]
      | _ => none }

def eXfSingle : Entry :=
  { name := "transforms.single_entry_with_threshold",
    pyfn := "ribs/archives/_transforms.py:single_entry_with_threshold",
    args := [.caller, .caller, .caller, .fresh, .fresh], nself := nSelf, nbits := 0,
    strict := false,   -- passes the caller's arrays on by design
    prog := fun
      | [] => some <| pSingleThr 0 1 2 3 4 10 20 ++
          [ .ret 10, .ret 11, .ret 12, .ret 13, .ret 14, .ret 15 ]
      | _ => none }

def eXfObjSum : Entry :=
  { name := "transforms.compute_objective_sum", pyfn := "ribs/archives/_transforms.py:compute_objective_sum",
    args := [.caller, .caller, .fresh, .fresh], nself := nSelf, nbits := 0,   -- indices, objective, occupied, cur objective
    strict := false,   -- passes the caller's arrays on by design
    prog := fun
      | [] => some <| pObjSum 1 2 3 10 20 ++ [ .ret 0, .ret 1, .ret 10 ]
      | _ => none }

def eXfBestIdx : Entry :=
  { name := "transforms.compute_best_index", pyfn := "ribs/archives/_transforms.py:compute_best_index",
    args := [.caller, .caller], nself := nSelf, nbits := 0,
    strict := false,   -- passes the caller's arrays on by design
    prog := fun
      | [] => some <| pBestIdx 0 1 10 20 ++ [ .ret 0, .ret 1, .ret 10 ]
      | _ => none }

def eValidateBatch : Entry :=
  { name := "validate_batch", pyfn := "ribs/_utils.py:validate_batch",
    args := caller 7, nself := nSelf, nbits := 7,   -- solution, objective, measures, extra, status, value, jacobian
    strict := false,   -- passes the caller's arrays on by design
    prog := fun
      | [cSol, cObj, cMeas, cEx, cSt, cVal, cJac] => some
          [ .asarray 10 0 cSol, .asarray 11 1 cObj, .asarray 12 2 cMeas, .asarray 13 3 cEx,
            .asarray 14 4 cSt, .asarray 15 5 cVal, .asarray 16 6 cJac,
            .ret 10, .ret 11, .ret 12, .ret 13, .ret 14, .ret 15, .ret 16 ]
      | _ => none }

def eValidateSingle : Entry :=
  { name := "validate_single", pyfn := "ribs/_utils.py:validate_single",
    args := caller 4, nself := nSelf, nbits := 2,
    strict := false,   -- passes the caller's arrays on by design
    prog := fun
      | [cSol, cMeas] => some
          [ .asarray 10 0 cSol, .new 11, .asarray 12 2 cMeas, .view 13 3,
            .ret 10, .ret 11, .ret 12, .ret 13 ]
      | _ => none }

def eAdd : Entry :=
  { name := "ArchiveBase.add", pyfn := "ribs/archives/_archive_base.py:ArchiveBase.add (+ _stats_update)",
    args := caller 4, nself := nSelf, nbits := 6,
    prog := fun
      | [cSol, cObj, cMeas, cEx, mae, upd] => some <|
          pAdd 0 1 2 3 cSol cObj cMeas cEx mae upd 10 ++ [ .ret 130, .ret 131 ]
      | _ => none }

def eAddSingle : Entry :=
  { name := "ArchiveBase.add_single", pyfn := "ribs/archives/_archive_base.py:ArchiveBase.add_single",
    args := caller 4, nself := nSelf, nbits := 3,
    prog := fun
      | [cSol, cMeas, upd] => some <|
          pAddSingle 0 1 2 3 cSol cMeas upd 10 ++ [ .ret 40, .ret 41 ]
      | _ => none }

def eRetrieve : Entry :=
  { name := "ArchiveBase.retrieve", pyfn := "ribs/archives/_archive_base.py:ArchiveBase.retrieve",
    args := caller 1, nself := nSelf, nbits := 1,
    prog := fun
      | [c] => some <|
          [ .asarray 10 0 c ] ++ pIndexOf 10 11 12 ++ pRetrieve 11 false 20 ++
          [ .arith 30 [20],                   -- unoccupied = ~occupied
            .write 21 [30], .write 22 [30], .write 23 [30], .write 24 [30],   -- arr[unoccupied] = fill_val
            .ret 20, .ret 21, .ret 22, .ret 23, .ret 24 ]
      | _ => none }

def eRetrieveSingle : Entry :=
  { name := "ArchiveBase.retrieve_single", pyfn := "ribs/archives/_archive_base.py:ArchiveBase.retrieve_single",
    args := caller 1, nself := nSelf, nbits := 1,
    prog := fun
      | [c] => some <|
          [ .asarray 10 0 c, .view 11 10,     -- measures = np.asarray(measures) ; measures[None]
            .view 12 11 ] ++                  -- retrieve: np.asarray(measures) of an ndarray
          pIndexOf 12 13 14 ++ pRetrieve 13 false 20 ++
          [ .arith 30 [20], .write 21 [30], .write 22 [30], .write 23 [30], .write 24 [30],
            .fancy 40 20, .fancy 41 21, .view 42 22, .fancy 43 23, .fancy 44 24,   -- occupied[0], {field: arr[0]}
            .ret 40, .ret 41, .ret 42, .ret 43, .ret 44 ]
      | _ => none }

def eSampleElites : Entry :=
  { name := "ArchiveBase.sample_elites", pyfn := "ribs/archives/_archive_base.py:ArchiveBase.sample_elites",
    args := [], nself := nSelf, nbits := 0,
    prog := fun
      | [] => some <| pSampleElites 0 ++ [ .ret 21, .ret 22, .ret 23, .ret 24 ]
      | _ => none }

def eBestElite : Entry :=
  { name := "ArchiveBase.best_elite", pyfn := "ribs/archives/_archive_base.py:ArchiveBase.best_elite",
    args := [], nself := nSelf, nbits := 0,
    prog := fun
      | [] => some [ .load 0 F.best, .copy 1 0, .ret 1 ]   -- {k: np.copy(v)[()] …}   (repair of D19)
      | _ => none }

def eData : Entry :=
  { name := "ArchiveBase.data", pyfn := "ribs/archives/_archive_base.py:ArchiveBase.data (dict, tuple, pandas, single field)",
    args := [], nself := nSelf, nbits := 1,
    prog := fun
      | [c] => some <| pOccupiedList 0 ++ pRetrieve 2 c 10 ++
          [ .view 20 12,                      -- pandas: column views of the fresh copy
            .view 21 20,                      -- ArchiveDataFrame(data)
            .ret 11, .ret 12, .ret 13, .ret 14, .ret 21 ]
      | _ => none }

def eIter : Entry :=
  { name := "ArchiveBase.__iter__", pyfn := "ribs/archives/_archive_base.py:ArchiveBase.__iter__ (= iter(self._store))",
    args := [], nself := nSelf, nbits := 0, prog := eStoreIter.prog }

def eCqd : Entry :=
  { name := "ArchiveBase.cqd_score", pyfn := "ribs/archives/_archive_base.py:ArchiveBase.cqd_score",
    args := caller 2, nself := nSelf, nbits := 0,   -- target_points, penalties
    prog := fun
      | [] => some <|
          [ .copy 10 0, .copy 11 1 ] ++       -- np.copy(target_points) ; np.copy(penalties)
          pOccupiedList 12 ++ pRetrieve 14 false 20 ++   -- self._store.data("objective") / ("measures")
          [ .arith 30 [23],                   -- norm_objectives
            .new 31,                          -- scores = np.zeros(iterations)
            .arith 32 [22, 10],               -- distances = measures_batch[:, None] - target_points[itr]
            .arith 33 [30, 11, 32],           -- values
            .write 31 [33],                   -- scores[itr] += …
            .arith 34 [31],                   -- np.mean(scores)
            .ret 34, .ret 31, .ret 10, .ret 11 ]
      | _ => none }

def eBufferAdd : Entry :=
  { name := "SolutionBuffer.add", pyfn := "ribs/archives/_sliding_boundaries_archive.py:SolutionBuffer.add",
    args := caller 3, nself := nSelf, nbits := 1,
    prog := fun
      | [full] => some <| pBufferAdd 0 1 2 full 10
      | _ => none }

/-- `SlidingBoundariesArchive.add_single` incl. the remap path. -/
def eSbaAddSingle : Entry :=
  { name := "SlidingBoundariesArchive.add_single",
    pyfn := "ribs/archives/_sliding_boundaries_archive.py:SlidingBoundariesArchive.add_single / _remap",
    args := caller 4, nself := nSelf, nbits := 5,
    prog := fun
      | [cSol, cMeas, full, remap, upd] => some <|
          [ .asarray 10 0 cSol, .new 11, .asarray 12 2 cMeas, .view 13 3 ] ++   -- validate_single
          pBufferAdd 10 12 13 full 20 ++      -- self._buffer.add(new_data)
          (if remap then
            [ .load 40 F.queue, .arith 41 [40],   -- sorted_measures ; self._boundaries[i][j] = …
              .load 42 F.geom, .write 42 [41] ] ++
            pOccupiedList 43 ++ pRetrieve 45 false 50 ++   -- cur_data = self._store.data()
            [ .load 60 F.occupied, .write 60 [],  -- self.clear()
              .arith 61 [52, 40], .arith 62 [53, 40] ] ++   -- final_data = np.concatenate((cur_data[name], new_data[name]))
            pAdd 61 62 61 61 false false false false false upd 300 ++   -- ArchiveBase.add(self, **final_data)
            [ .load 63 F.queue, .view 64 63 ] ++  -- last_data = {name: arr.pop()}   (the buffer's own copy)
            pAddSingle 64 11 64 64 false false upd 600 ++   -- ArchiveBase.add_single(self, **last_data)
            [ .ret 630, .ret 631 ]
           else
            pAddSingle 10 11 12 13 false false upd 300 ++   -- ArchiveBase.add_single(self, **new_data)
            [ .ret 330, .ret 331 ])
      | _ => none }

def eSbaAdd : Entry :=
  { name := "SlidingBoundariesArchive.add",
    pyfn := "ribs/archives/_sliding_boundaries_archive.py:SlidingBoundariesArchive.add",
    args := caller 4, nself := nSelf, nbits := 6,
    prog := fun
      | [cSol, cObj, cMeas, cEx, full, upd] => some <|
          [ .asarray 10 0 cSol, .asarray 11 1 cObj, .asarray 12 2 cMeas, .asarray 13 3 cEx,   -- validate_batch
            .view 20 10, .fancy 21 11, .view 22 12, .view 23 13,   -- {name: arr[i] …}   (rows are views)
            .view 30 20, .new 31, .view 32 22, .view 33 23 ] ++    -- add_single: validate_single
          pBufferAdd 30 32 33 full 40 ++
          pAddSingle 30 31 32 33 false false upd 300 ++
          [ .new 24, .write 24 [330], .new 25, .write 25 [331],   -- add_info[name] = np.empty(..) ; add_info[name][i] = val
            .ret 24, .ret 25 ]
      | _ => none }

def eProxAdd : Entry :=
  { name := "ProximityArchive.add", pyfn := "ribs/archives/_proximity_archive.py:ProximityArchive.add / compute_novelty",
    args := caller 4, nself := nSelf, nbits := 7,
    prog := fun
      | [cSol, cObj, cMeas, cEx, lc, resize, upd] => some <|
          [ .asarray 10 0 cSol, .asarray 11 1 cObj, .asarray 12 2 cMeas, .asarray 13 3 cEx,   -- validate_batch
            .view 20 12, .load 21 F.kdtree,   -- compute_novelty: measures = np.asarray(measures)
            .arith 22 [20, 21],               -- dists, indices = self._cur_kd_tree.query(measures, k)
            .arith 23 [22],                   -- novelty = np.mean(dists, axis=1)
            .arith 27 [23] ] ++               -- novel_enough = novelty >= self.novelty_threshold
          (if lc then
            [ .view 24 11, .arith 25 [22] ] ++   -- objectives = np.asarray(local_competition) ; indices.ravel()
            pRetrieve 25 false 30 ++          -- self._store.retrieve(indices.ravel(), "objective")[1]
            [ .arith 26 [33, 24],             -- local_competition_scores
              .new 28, .write 28 [27],        -- add_indices = np.empty(..) ; add_indices[novel_enough] = np.arange(..)
              .fancy 29 12 ] ++               -- data["measures"][not_novel_enough]
            pIndexOf 29 40 41 ++
            [ .write 28 [40],                 -- add_indices[not_novel_enough] = self.index_of(…)
              .view 50 10, .view 51 11, .view 52 12, .view 53 13 ]   -- add_data = data
           else
            [ .new 28,                        -- add_indices = np.arange(len(self), new_size)
              .fancy 50 10, .fancy 51 11, .fancy 52 12, .fancy 53 13 ]) ++   -- {key: val[novel_enough]}
          (if resize then
            [ .new 60, .load 61 F.vec, .write 60 [61], .store F.vec 60,   -- self._store.resize(…)
              .new 62, .load 63 F.occupied, .write 62 [63], .store F.occupied 62 ]
           else []) ++
          pStoreAdd 28 50 51 [52, 53] false false upd 100 ++
          (if upd then
            pOccupiedList 70 ++ pRetrieve 72 false 80 ++   -- cKDTree(self._store.data("measures"))
            [ .store F.kdtree 82 ]
           else []) ++
          (if lc then [ .ret 120, .ret 121, .ret 23, .ret 26 ]   -- status, value, novelty, local_competition
           else [ .new 90, .write 90 [120], .ret 90, .ret 23 ])  -- all_status[novel_enough] = add_info["status"]
      | _ => none }

/-- `Scheduler.tell` with an `EvolutionStrategyEmitter`; `single` = add_mode. -/
def eSchedTell : Entry :=
  { name := "Scheduler.tell", pyfn := "ribs/schedulers/_scheduler.py:Scheduler.tell / _validate_tell_data / _add_to_archives",
    args := caller 3, nself := nSelf, nbits := 6,   -- objective, measures, extra field
    prog := fun
      | [cObj, cMeas, cEx, single, upd, restart] =>
        match pEsTell 30 31 32 33 34 35 [false, false, false, false, false, false] false restart 700 with
        | none => none
        | some tell => some <|
          [ .asarray 10 0 cObj, .asarray 11 1 cMeas, .asarray 12 2 cEx,   -- data[name] = np.asarray(arr)
            .load 13 F.curSols ] ++           -- data["solution"] = self._cur_solutions
          (if single then
            [ .view 20 13, .fancy 21 10, .view 22 11, .view 23 12 ] ++   -- single_data = {name: arr[i]}
            pAddSingle 20 21 22 23 false false upd 300 ++   -- self.archive.add_single(**single_data)
            [ .copy 34 330, .copy 35 331 ]    -- add_info[name] = np.asarray(list of values)
           else
            pAdd 13 10 11 12 false false false false false upd 300 ++   -- self.archive.add(**data)
            [ .view 34 420, .view 35 421 ]) ++   -- add_info[name][pos:end]
          [ .view 30 13, .view 31 10, .view 32 11, .view 33 12 ] ++   -- arr[pos:end]
          tell                                -- emitter.tell(**…, add_info=…)
      | _ => none }

def eBanditTell : Entry :=
  { name := "BanditScheduler.tell", pyfn := "ribs/schedulers/_bandit_scheduler.py:BanditScheduler.tell",
    args := caller 3, nself := nSelf, nbits := 6,
    prog := fun bits =>
      match eSchedTell.prog bits with
      | none => none
      | some ps => some <| ps ++
          [ .load 900 F.success, .arith 901 [34], .write 900 [901] ] }   -- self._success[i] += np.count_nonzero(…)

def eSchedTellDqd : Entry :=
  { name := "Scheduler.tell_dqd", pyfn := "ribs/schedulers/_scheduler.py:Scheduler.tell_dqd",
    args := caller 4, nself := nSelf, nbits := 6,   -- objective, measures, extra field, jacobian
    prog := fun
      | [cObj, cMeas, cEx, cJac, normalize, upd] =>
        match pTellDqd 30 31 32 33 36 34 35 [false, false, false, false, false, false, false] normalize 700 with
        | none => none
        | some tell => some <|
          [ .asarray 10 0 cObj, .asarray 11 1 cMeas, .asarray 12 2 cEx, .load 13 F.curSols,
            .asarray 14 3 cJac ] ++           -- jacobian = np.asarray(jacobian)
          pAdd 13 10 11 12 false false false false false upd 300 ++
          [ .view 30 13, .view 31 10, .view 32 11, .view 33 12, .view 34 420, .view 35 421,
            .view 36 14 ] ++                  -- jacobian[pos:end]
          tell
      | _ => none }

def eEsTell : Entry :=
  { name := "EvolutionStrategyEmitter.tell", pyfn := "ribs/emitters/_evolution_strategy_emitter.py:EvolutionStrategyEmitter.tell",
    args := caller 6, nself := nSelf, nbits := 8,
    prog := fun
      | [c0, c1, c2, c3, c4, c5, valueRanker, restart] =>
          pEsTell 0 1 2 3 4 5 [c0, c1, c2, c3, c4, c5] valueRanker restart 10
      | _ => none }

def eGaTell : Entry :=
  { name := "GradientArborescenceEmitter.tell",
    pyfn := "ribs/emitters/_gradient_arborescence_emitter.py:GradientArborescenceEmitter.tell",
    args := caller 6, nself := nSelf, nbits := 9,
    prog := fun
      | [c0, c1, c2, c3, c4, c5, valueRanker, restart, adam] =>
        match pEsTell 0 1 2 3 4 5 [c0, c1, c2, c3, c4, c5] valueRanker false 10 with
        | none => none
        | some ps => some <| ps ++
          [ .load 70 F.jac,                   -- (self._jacobian_batch is not None)
            .fancy 71 10,                     -- parents = data["solution"][indices][:num_parents]
            .arith 72 [71],                   -- new_mean = np.sum(parents * weights, axis=0)
            .load 73 F.theta, .arith 74 [72, 73] ] ++   -- gradient_step = new_mean - self._grad_opt.theta
          (if adam then pAdamStep 74 false 80 else pAscentStep 74 false 80) ++
          (if restart then
            pSampleElites 100 ++              -- new_coeff = self.archive.sample_elites(1)["solution"][0]
            [ .view 130 122, .copy 131 130, .store F.theta 131,   -- self._grad_opt.reset(new_coeff)
              .new 132, .copy 133 132, .store F.opt 133 ]          -- self._opt.reset(np.zeros(..))
           else [])
      | _ => none }

def eGaTellDqd : Entry :=
  { name := "GradientArborescenceEmitter.tell_dqd",
    pyfn := "ribs/emitters/_gradient_arborescence_emitter.py:GradientArborescenceEmitter.tell_dqd",
    args := caller 7, nself := nSelf, nbits := 8,
    prog := fun
      | [c0, c1, c2, c3, c4, c5, c6, normalize] =>
          pTellDqd 0 1 2 3 4 5 6 [c0, c1, c2, c3, c4, c5, c6] normalize 10
      | _ => none }

def eGoTellDqd : Entry :=
  { name := "GradientOperatorEmitter.tell_dqd",
    pyfn := "ribs/emitters/_gradient_operator_emitter.py:GradientOperatorEmitter.tell_dqd",
    args := caller 7, nself := nSelf, nbits := 8, prog := eGaTellDqd.prog }

def eAdamStep : Entry :=
  { name := "AdamOpt.step", pyfn := "ribs/emitters/opt/_adam_opt.py:AdamOpt.step",
    args := caller 1, nself := nSelf, nbits := 1,
    prog := fun | [c] => some (pAdamStep 0 c 10) | _ => none }

def eAscentStep : Entry :=
  { name := "GradientAscentOpt.step", pyfn := "ribs/emitters/opt/_gradient_ascent_opt.py:GradientAscentOpt.step",
    args := caller 1, nself := nSelf, nbits := 1,
    prog := fun | [c] => some (pAscentStep 0 c 10) | _ => none }

def eParallelAxes : Entry :=
  { name := "parallel_axes_plot", pyfn := "ribs/visualize/_parallel_axes_plot.py:parallel_axes_plot(df=…)",
    args := caller 1, nself := nSelf, nbits := 2,
    prog := fun
      | [cDf, sort] => some
          [ .asarray 10 0 cDf,                -- df = validate_df(df)    (a plain DataFrame is re-wrapped)
            .arith 11 [10],                   -- vmin / vmax
            (if sort then .arith 12 [10]      -- df = df.sort_values("objective")     (repair of D15)
             else .view 12 10),
            .copy 13 12, .copy 14 12,         -- df.get_field("objective") ; df.get_field("measures")
            .fancy 15 14,                     -- ys = …[:, cols]
            .new 16, .write 16 [15] ]         -- normalized_ys[:, 0] = ys[:, 0] …
      | _ => none }

def eHeatmapDf : Entry :=
  { name := "heatmap_df", pyfn := "ribs/visualize/_{grid,cvt,sliding_boundaries}_archive_heatmap.py, _cvt_archive_3d_plot.py, _proximity_archive_plot.py (df=…)",
    args := caller 1, nself := nSelf, nbits := 1,
    prog := fun
      | [cDf] => some
          [ .asarray 10 0 cDf,                -- df = validate_df(df)
            .view 11 10, .view 12 10,         -- index_batch = df["index"] ; objective_batch = df["objective"]
            .copy 13 10,                      -- df.get_field(…)
            .new 14, .write 14 [11, 12] ]     -- cell_objectives[cell_idx] = objective_batch
      | _ => none }

/-- `ArrayStore.from_raw_dict(d)` (repaired, D36): every array of the dict is copied. -/
def eFromRaw : Entry :=
  { name := "ArrayStore.from_raw_dict", pyfn := "ribs/archives/_array_store.py:ArrayStore.from_raw_dict",
    args := caller 3, nself := nSelf, nbits := 0,   -- d["props.occupied"], d["fields.<vector>"], d["fields.objective"]
    prog := fun
      | [] => some
          [ .copy 10 0, .copy 11 1, .copy 12 2,   -- np.copy(arr) if isinstance(arr, np.ndarray) else arr ; np.copy(arr)
            .store F.occupied 10, .store F.vec 11, .store F.obj 12 ]   -- store._props = props ; store._fields = fields
      | _ => none }

/-- `CVTArchive.__init__` (repaired, D38): `custom_centroids` / `samples` are copied (`np.array`). -/
def eCvtInit : Entry :=
  { name := "CVTArchive.__init__", pyfn := "ribs/archives/_cvt_archive.py:CVTArchive.__init__",
    args := caller 3, nself := nSelf, nbits := 1,   -- custom_centroids, samples, ranges
    prog := fun
      | [useSamples] => some <|
          [ .arith 10 [2], .store F.geom 10 ] ++   -- ranges = list(zip(*ranges)) ; np.array(ranges[0], dtype=…)
          (if useSamples then
            [ .copy 11 1, .store F.geom 11,       -- samples = np.array(samples, dtype=…) ; self._samples = samples
              .arith 12 [11], .store F.geom 12 ]  -- self._centroids = k_means(self._samples, …)
           else
            [ .copy 12 0, .store F.geom 12 ]) ++  -- custom_centroids = np.array(custom_centroids, dtype=…)
          [ .arith 13 [12], .store F.kdtree 13 ]  -- self._centroid_kd_tree = cKDTree(self._centroids)
      | _ => none }

/-- `GridArchive.__init__` / `SlidingBoundariesArchive.__init__`: `dims`, `ranges`. -/
def eGridInit : Entry :=
  { name := "GridArchive.__init__", pyfn := "ribs/archives/_grid_archive.py:GridArchive.__init__, _sliding_boundaries_archive.py:SlidingBoundariesArchive.__init__",
    args := caller 2, nself := nSelf, nbits := 0,   -- dims, ranges
    prog := fun
      | [] => some
          [ .copy 10 0, .store F.geom 10,         -- self._dims = np.array(dims, dtype=np.int32)
            .arith 11 [1], .store F.geom 11,      -- self._lower_bounds = np.array(ranges[0], dtype=…) …
            .arith 12 [10, 11], .store F.geom 12 ]   -- self._boundaries = [np.linspace(…)]
      | _ => none }

/-- constructors of the emitters (repaired, D38 / D41): everything array-valued that is kept is copied
(`np.array`); the bounds are written element by element into fresh arrays. -/
def eEmitterInit : Entry :=
  { name := "Emitter.__init__", pyfn := "ribs/emitters/_{gaussian,iso_line,genetic_algorithm,gradient_operator,evolution_strategy,gradient_arborescence}_emitter.py:__init__, _emitter_base.py:_process_bounds, operators/_gaussian.py:GaussianOperator.__init__",
    args := caller 5, nself := nSelf, nbits := 1,   -- x0, initial_solutions, sigma, bounds, operator_kwargs["sigma"]
    prog := fun
      | [useInitial] => some
          [ .new 10, .new 11,                     -- lower_bounds = np.full(..) ; upper_bounds = np.full(..)
            .write 10 [3], .write 11 [3],         -- lower_bounds[idx] = bnd[0] ; upper_bounds[idx] = bnd[1]
            .store F.emit 10, .store F.emit 11,
            .copy 12 2, .store F.emit 12,         -- self._sigma = np.array(sigma, dtype=…)
            (if useInitial then .copy 13 1        -- self._initial_solutions = np.array(initial_solutions, dtype=…)
             else .copy 13 0),                    -- self._x0 = np.array(x0, dtype=…)
            .store F.emit 13,
            .copy 14 4, .store F.emit 14,         -- GaussianOperator: self._sigma = np.array(sigma)
            .view 15 10, .store F.emit 15 ]       -- operator keeps the emitter's own bounds arrays
      | _ => none }

/-- `AdamOpt.__init__` / `GradientAscentOpt.__init__` (= `reset(theta0)`). -/
def eOptInit : Entry :=
  { name := "GradientOpt.__init__", pyfn := "ribs/emitters/opt/_adam_opt.py:AdamOpt.reset, _gradient_ascent_opt.py:GradientAscentOpt.reset",
    args := caller 1, nself := nSelf, nbits := 0,
    prog := fun
      | [] => some
          [ .copy 10 0, .store F.theta 10,        -- self._theta = np.copy(theta0)
            .arith 11 [10], .store F.m 11,        -- self._m = np.zeros_like(self._theta)
            .arith 12 [10], .store F.v 12 ]
      | _ => none }

def entries : List Entry :=
  [ eStoreAdd, eStoreRetrieve, eStoreData, eStoreIter, eStoreRaw,
    eXfBatch, eXfSingle, eXfObjSum, eXfBestIdx, eValidateBatch, eValidateSingle,
    eAdd, eAddSingle, eRetrieve, eRetrieveSingle, eSampleElites, eBestElite, eData, eIter, eCqd,
    eBufferAdd, eSbaAddSingle, eSbaAdd, eProxAdd,
    eSchedTell, eSchedTellDqd, eBanditTell,
    eEsTell, eGaTell, eGaTellDqd, eGoTellDqd, eAdamStep, eAscentStep,
    eParallelAxes, eHeatmapDf,
    eFromRaw, eCvtInit, eGridInit, eEmitterInit, eOptInit ]

/-! ### negative examples: the current defective code, and realistic mutants -/

structure Neg where
  E    : Entry
  bits : List Bool       -- the branch in which the defect shows
  why  : Rej             -- the rejection the monitor must produce

/-- D10: `jacobian /= norms` in `tell_dqd` (unrepaired), jacobian already a float ndarray. -/
def nD10 : Neg :=
  { E := { name := "D10.tell_dqd_inplace", pyfn := "GradientArborescenceEmitter.tell_dqd (unrepaired)",
           args := caller 7, nself := nSelf, nbits := 1,
           prog := fun
             | [cJac] => some
                 [ .asarray 16 4 cJac, .arith 17 [16],
                   .write 16 [17],            -- jacobian /= norms
                   .store F.jac 16 ]
             | _ => none },
    bits := [false], why := .writeCaller 16 }

/-- D10, un-normalised path: `self._jacobian_batch = jacobian` keeps the caller's array. -/
def nD10b : Neg :=
  { E := { name := "D10.tell_dqd_retains", pyfn := "GradientArborescenceEmitter.tell_dqd (unrepaired, normalize_grad=False)",
           args := caller 7, nself := nSelf, nbits := 1,
           prog := fun
             | [cJac] => some [ .asarray 16 4 cJac, .store F.jac 16 ]
             | _ => none },
    bits := [false], why := .storeCaller F.jac }

/-- D7: `SolutionBuffer.add` appends the caller's arrays themselves. -/
def nD7 : Neg :=
  { E := { name := "D7.buffer_keeps_caller_arrays", pyfn := "SolutionBuffer.add (unrepaired)",
           args := caller 3, nself := nSelf, nbits := 0,
           prog := fun
             | [] => some [ .store F.queue 0, .store F.queue 1, .store F.queue 2 ]   -- self._queue.append(data)
             | _ => none },
    bits := [], why := .storeCaller F.queue }

/-- D19: `best_elite` returns `self._best_elite`. -/
def nD19 : Neg :=
  { E := { name := "D19.best_elite_internal", pyfn := "ArchiveBase.best_elite (unrepaired)",
           args := [], nself := nSelf, nbits := 0,
           prog := fun | [] => some [ .load 0 F.best, .ret 0 ] | _ => none },
    bits := [], why := .retInternal 0 }

/-- D20: the iterator yields `arr[idx]`, a view of the storage row. -/
def nD20 : Neg :=
  { E := { name := "D20.iterator_yields_views", pyfn := "ArrayStoreIterator.__next__ (unrepaired)",
           args := [], nself := nSelf, nbits := 0,
           prog := fun | [] => some [ .load 4 F.vec, .view 5 4, .ret 5 ] | _ => none },
    bits := [], why := .retInternal 5 }

/-- D15: `df.sort_values("objective", inplace=True)` on the caller's ArchiveDataFrame. -/
def nD15 : Neg :=
  { E := { name := "D15.sort_inplace", pyfn := "parallel_axes_plot (unrepaired, sort_archive=True)",
           args := caller 1, nself := nSelf, nbits := 1,
           prog := fun | [cDf] => some [ .asarray 10 0 cDf, .write 10 [] ] | _ => none },
    bits := [false], why := .writeCaller 10 }

/-- mutant: `retrieve` uses a basic slice of the storage instead of fancy indexing. -/
def nRetrieveSlice : Neg :=
  { E := { name := "M.retrieve_basic_slice", pyfn := "ArrayStore.retrieve with arr = self._fields[name][a:b]",
           args := caller 1, nself := nSelf, nbits := 0,
           prog := fun | [] => some [ .load 7 F.vec, .view 12 7, .ret 12 ] | _ => none },
    bits := [], why := .retInternal 12 }

/-- mutant: `data()` returns `self._fields[name]`. -/
def nDataField : Neg :=
  { E := { name := "M.data_returns_field", pyfn := "ArrayStore.data returning self._fields[name]",
           args := [], nself := nSelf, nbits := 0,
           prog := fun | [] => some [ .load 7 F.obj, .ret 7 ] | _ => none },
    bits := [], why := .retInternal 7 }

/-- mutant: `AdamOpt.step` negates the caller's gradient in place. -/
def nAdamInplace : Neg :=
  { E := { name := "M.adam_negates_inplace", pyfn := "AdamOpt.step with gradient = np.asarray(gradient); gradient *= -1",
           args := caller 1, nself := nSelf, nbits := 1,
           prog := fun | [c] => some [ .asarray 10 0 c, .write 10 [] ] | _ => none },
    bits := [false], why := .writeCaller 10 }

/-- mutant: `archive.add` keeps `solution` by reference in an extra attribute. -/
def nAddKeeps : Neg :=
  { E := { name := "M.add_keeps_solution", pyfn := "ArchiveBase.add with self._last = data[\"solution\"]",
           args := caller 4, nself := nSelf, nbits := 1,
           prog := fun | [c] => some [ .asarray 10 0 c, .store F.best 10 ] | _ => none },
    bits := [false], why := .storeCaller F.best }

/-- mutant: a transform writes into `new_data` (the caller's objective array). -/
def nXfWritesNew : Neg :=
  { E := { name := "M.transform_writes_new_data", pyfn := "batch_entries_with_threshold writing new_data[\"objective\"][…] = …",
           args := [.caller, .caller, .caller, .fresh, .fresh], nself := nSelf, nbits := 0,
           prog := fun | [] => some [ .write 2 [3] ] | _ => none },
    bits := [], why := .writeCaller 2 }

/-- writing through `as_raw_dict` output is a NumPy error (read-only). -/
def nRawWrite : Neg :=
  { E := { name := "M.write_through_readonly", pyfn := "writing through readonly(val.view())",
           args := [], nself := nSelf, nbits := 0,
           prog := fun | [] => some [ .load 0 F.vec, .ro 1 0, .write 1 [] ] | _ => none },
    bits := [], why := .writeReadonly 1 }

/-- D38: `CVTArchive(custom_centroids=arr)` kept `np.asarray(arr, dtype=…)`: the caller's array when no
conversion is needed. -/
def nD38cvt : Neg :=
  { E := { name := "D38.cvt_keeps_custom_centroids", pyfn := "CVTArchive.__init__ (unrepaired)",
           args := caller 3, nself := nSelf, nbits := 1,
           prog := fun | [c] => some [ .asarray 12 0 c, .store F.geom 12 ] | _ => none },
    bits := [false], why := .storeCaller F.geom }

/-- D38: the emitters kept `np.asarray(initial_solutions, dtype=…)`. -/
def nD38init : Neg :=
  { E := { name := "D38.emitter_keeps_initial_solutions", pyfn := "GaussianEmitter / IsoLineEmitter / GeneticAlgorithmEmitter / GradientOperatorEmitter.__init__ (unrepaired)",
           args := caller 5, nself := nSelf, nbits := 1,
           prog := fun | [c] => some [ .asarray 13 1 c, .store F.emit 13 ] | _ => none },
    bits := [false], why := .storeCaller F.emit }

/-- D41: `GaussianOperator.__init__` did `self._sigma = sigma`. -/
def nD41 : Neg :=
  { E := { name := "D41.operator_keeps_sigma", pyfn := "GaussianOperator.__init__ (unrepaired)",
           args := caller 5, nself := nSelf, nbits := 0,
           prog := fun | [] => some [ .view 14 4, .store F.emit 14 ] | _ => none },
    bits := [], why := .storeCaller F.emit }

/-- D36: `from_raw_dict` used the arrays of the dict themselves. -/
def nD36 : Neg :=
  { E := { name := "D36.from_raw_dict_shares", pyfn := "ArrayStore.from_raw_dict (unrepaired)",
           args := caller 3, nself := nSelf, nbits := 0,
           prog := fun | [] => some [ .view 11 1, .store F.vec 11 ] | _ => none },
    bits := [], why := .storeCaller F.vec }

/-- seeded C12-7: the iterator hands out entries of object fields "as stored" — the test is on the
dtype instead of on "is it an ndarray": for an object field with non-scalar entries `arr[idx]` is a view. -/
def nObjAsStored : Neg :=
  { E := { name := "S7.object_field_entries_as_stored", pyfn := "ArrayStoreIterator.__next__ with `if arr.dtype == object: d[name] = arr[idx]`",
           args := [], nself := nSelf, nbits := 1,
           prog := fun
             | [isObject] => some
                 [ .load 4 F.vec, .view 5 4,      -- arr[idx]  (a row)
                   (if isObject then .view 6 5 else .copy 6 5),
                   .ret 6 ]
             | _ => none },
    bits := [true], why := .retInternal 6 }

/-- seeded C12-9: `_stats_update` builds `_best_elite` from the best row of the batch instead of reading it
back from the store; in `add_single` that row is a view of the caller's array when no conversion is needed. -/
def nBestFromBatch : Neg :=
  { E := { name := "S9.best_elite_from_batch_row", pyfn := "ArchiveBase.add_single / _stats_update(new_best_entry) (seeded)",
           args := caller 4, nself := nSelf, nbits := 1,
           prog := fun
             | [c] => some
                 [ .asarray 10 0 c, .view 20 10,  -- validate_single ; np.expand_dims(arr, axis=0)
                   .view 21 20,                   -- add_info["best_entry"] = {name: arr[item_idx] …}
                   .view 22 21,                   -- value = np.asarray(new_best_entry[name], dtype=dtype)
                   .store F.best 22 ]             -- self._best_elite = new_best_elite
             | _ => none },
    bits := [false], why := .storeCaller F.best }

/-- seeded C12-10: `GradientOperatorEmitter.tell_dqd` records `self._parents = data["solution"]`. -/
def nTellDqdKeepsSolution : Neg :=
  { E := { name := "S10.tell_dqd_keeps_solution", pyfn := "GradientOperatorEmitter.tell_dqd with self._parents = data[\"solution\"] (seeded)",
           args := caller 7, nself := nSelf, nbits := 1,
           prog := fun | [c] => some [ .asarray 10 0 c, .store F.emit 10 ] | _ => none },
    bits := [false], why := .storeCaller F.emit }

/-- mutant: `cqd_score` without `np.copy(target_points)` ("Copy since we return this"): the result holds the
caller's array. -/
def nCqdNoCopy : Neg :=
  { E := { name := "M.cqd_returns_caller_arrays", pyfn := "ArchiveBase.cqd_score with target_points = target_points",
           args := caller 2, nself := nSelf, nbits := 0,
           prog := fun | [] => some [ .view 10 0, .copy 11 1, .ret 10, .ret 11 ] | _ => none },
    bits := [], why := .retCaller 10 }

def negatives : List Neg :=
  [ nD7, nD10, nD10b, nD15, nD19, nD20, nRetrieveSlice, nDataField, nAdamInplace, nAddKeeps,
    nXfWritesNew, nRawWrite, nD38cvt, nD38init, nD41, nD36, nObjAsStored,
    nBestFromBatch, nTellDqdKeepsSolution, nCqdNoCopy ]

def Neg.holds (n : Neg) : Bool := n.E.verdict n.bits == some n.why

/-! ## Read paths over the `Store` model (T12.3)

A row is `ρ`; a field is a projection `π : ρ → φ` with a name.  All read paths of
`ArrayStore.retrieve` / `data` and of `ArchiveDataFrame` are defined the way the code computes
them (`retrieve(occupied_list)`, one column per requested field), iteration is `Iter.next`. -/
namespace Read
open Pyribs Store
variable {ρ φ : Type}

/-- `retrieve(indices, fields=name)[1]` : one column (`self._fields[name][indices]`) -/
def column (s : Store ρ) (π : ρ → φ) (idx : List Nat) : List (Option φ) :=
  (s.retrieve idx).map (Option.map π)

/-- `data(name)` : a single field, `retrieve(self.occupied_list, name)[1]` -/
def single (s : Store ρ) (π : ρ → φ) : List (Option φ) := column s π s.olist

/-- `data("index")` : `np.copy(indices)` of `occupied_list` -/
def index (s : Store ρ) : List Nat := s.olist

/-- `data(fields, return_type="dict")` : name ↦ column, in the order of `fields` -/
def dict (s : Store ρ) (fs : List (String × (ρ → φ))) : List (String × List (Option φ)) :=
  fs.map fun f => (f.1, single s f.2)

/-- `data(fields, return_type="tuple")` -/
def tuple (s : Store ρ) (fs : List (String × (ρ → φ))) : List (List (Option φ)) :=
  fs.map fun f => single s f.2

/-- `data(fields, return_type="pandas")` : `ArchiveDataFrame(DataFrame(dict-of-columns))` -/
def frame (s : Store ρ) (fs : List (String × (ρ → φ))) : List (String × List (Option φ)) := dict s fs

/-- `ArchiveDataFrame.get_field(name)` : the column(s) of that name, `None` if absent -/
def getField (fr : List (String × List (Option φ))) (name : String) : Option (List (Option φ)) :=
  (fr.find? (fun c => c.1 == name)).map (·.2)

/-- `ArchiveDataFrame.iterelites()` : for `i in range(n)`, `{name: arr[i] for name, arr in fields}` -/
def iterelites (fr : List (String × List (Option φ))) (n : Nat) : List (List (String × Option (Option φ))) :=
  (List.range n).map fun k => fr.map fun c => (c.1, c.2[k]?)

/-- `for entry in store` : `Iter.next` until it stops (fuel = number of `next` calls) -/
def iterate (s : Store ρ) : Nat → Iter → List (Nat × Option ρ)
  | 0, _ => []
  | fuel + 1, it =>
    match it.next s with
    | (.ok e, it') => e :: iterate s fuel it'
    | (.error _, _) => []

/-- iterating a store that is not modified meanwhile, to exhaustion -/
def iterAll (s : Store ρ) : List (Nat × Option ρ) := iterate s (s.len + 1) s.iter

end Read

end Pyribs.Alias
