#!/bin/bash
# all kept seeded changes through their checks, N at a time (default 8); RESULTS.md is rebuilt at the end from the
# per-change result.json files:   harness/seedall_par.sh [N] [name-regex]
cd /verif
N=${1:-8}
RE=${2:-.}
ls seeded | grep -E '^C[0-9]+-[0-9]+$' | grep -E "$RE" | xargs -P "$N" -I{} sh -c '/venv/bin/python harness/seedall.py {} --confirm > /tmp/seedall_{}.log 2>&1; grep -h "^CAUGHT\|^MISSED\|^INFRA" /tmp/seedall_{}.log | cut -c1-60 | sed "s/^/{} /"'
/venv/bin/python harness/seedall.py __none__ > /dev/null
grep -c "CAUGHT" seeded/RESULTS.md
grep "MISSED\|INFRA" seeded/RESULTS.md | cut -c1-200
