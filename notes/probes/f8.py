import numpy as np, random, warnings, matplotlib
matplotlib.use("Agg")
import matplotlib.pyplot as plt
from matplotlib.collections import QuadMesh, PolyCollection, PathCollection
from matplotlib.path import Path
from ribs.archives import GridArchive, CVTArchive, SlidingBoundariesArchive, ProximityArchive
from ribs.visualize import *
warnings.simplefilter("ignore")
bad=0
for seed in range(60):
    rnd=random.Random(seed); nprng=np.random.default_rng(seed)
    # ---- grid 2D
    dims=[rnd.randint(1,5),rnd.randint(1,5)]; rng=[(-1,2),(10,14)]
    a=GridArchive(solution_dim=1,dims=dims,ranges=rng)
    n=rnd.randint(1,12); m=np.stack([nprng.uniform(-1,2,n),nprng.uniform(10,14,n)],axis=1); o=nprng.integers(-5,5,n).astype(float)
    a.add(np.zeros((n,1)),o,m)
    for tr in (False,True):
        for usedf in (False,True):
            fig,ax=plt.subplots()
            before=a.data(return_type="pandas"); df=a.data(return_type="pandas") if usedf else None; dfc=None if df is None else df.copy()
            grid_archive_heatmap(a,ax,df=df,transpose_measures=tr)
            qm=[c for c in ax.collections if isinstance(c,QuadMesh)][0]
            coords=qm.get_coordinates()  # (ny+1,nx+1,2)
            arr=np.ma.filled(qm.get_array().astype(float),np.nan).reshape(coords.shape[0]-1,coords.shape[1]-1)
            d=a.data(); gi=a.int_to_grid_index(d["index"])
            exp={}
            for (i,j),ob in zip(gi,d["objective"]): exp[(i,j)]=ob
            for r in range(arr.shape[0]):
                for c in range(arr.shape[1]):
                    # cell geometry
                    x0,x1=coords[r,c,0],coords[r,c+1,0]; y0,y1=coords[r,c,1],coords[r+1,c,1]
                    if tr: cell=(r,c); gx=(a.boundaries[1][c],a.boundaries[1][c+1]); gy=(a.boundaries[0][r],a.boundaries[0][r+1])
                    else: cell=(c,r); gx=(a.boundaries[0][c],a.boundaries[0][c+1]); gy=(a.boundaries[1][r],a.boundaries[1][r+1])
                    if not (np.isclose(x0,gx[0]) and np.isclose(x1,gx[1]) and np.isclose(y0,gy[0]) and np.isclose(y1,gy[1])): print("GEOM grid",seed,tr); bad+=1
                    e=exp.get(cell,np.nan)
                    if not ((np.isnan(e) and np.isnan(arr[r,c])) or e==arr[r,c]): print("COLOR grid",seed,tr,cell,e,arr[r,c]); bad+=1
            if qm.get_clim()!=(d["objective"].min(),d["objective"].max()): print("CLIM",seed,qm.get_clim()); bad+=1
            if dfc is not None and not dfc.equals(df): print("DF MUTATED grid"); bad+=1
            if not before.equals(a.data(return_type="pandas")): print("ARCHIVE MUTATED"); bad+=1
            plt.close(fig)
    # ---- grid 1D
    a1=GridArchive(solution_dim=1,dims=[rnd.randint(1,6)],ranges=[(-1,2)])
    a1.add(np.zeros((n,1)),o,m[:,:1])
    fig,ax=plt.subplots(); grid_archive_heatmap(a1,ax)
    qm=[c for c in ax.collections if isinstance(c,QuadMesh)][0]; arr=np.ma.filled(qm.get_array().astype(float),np.nan).ravel(); xs=qm.get_coordinates()[0,:,0]
    d=a1.data(); exp=dict(zip(d["index"].tolist(),d["objective"].tolist()))
    for c in range(len(arr)):
        e=exp.get(c,np.nan)
        if not ((np.isnan(e) and np.isnan(arr[c])) or e==arr[c]): print("COLOR grid1d",seed); bad+=1
    if not np.allclose(xs,a1.boundaries[0]): print("GEOM grid1d"); bad+=1
    plt.close(fig)
    # ---- cvt 1D and 2D
    cells=rnd.randint(2,8)
    c1=CVTArchive(solution_dim=1,cells=cells,ranges=[(-1,2)],custom_centroids=np.sort(nprng.uniform(-1,2,(cells,1)),axis=0)[nprng.permutation(cells)])
    c1.add(np.zeros((n,1)),o,m[:,:1])
    fig,ax=plt.subplots(); cvt_archive_heatmap(c1,ax)
    qm=[c for c in ax.collections if isinstance(c,QuadMesh)][0]; arr=np.ma.filled(qm.get_array().astype(float),np.nan).ravel(); xs=qm.get_coordinates()[0,:,0]
    d=c1.data(); exp=dict(zip(d["index"].tolist(),d["objective"].tolist()))
    for k in range(len(arr)):
        # which centroid lies in [xs[k],xs[k+1]]
        inside=[i for i,cc in enumerate(c1.centroids[:,0]) if xs[k]<=cc<=xs[k+1]]
        if len(inside)!=1: print("GEOM cvt1d",seed,inside); bad+=1; continue
        e=exp.get(inside[0],np.nan)
        if not ((np.isnan(e) and np.isnan(arr[k])) or e==arr[k]): print("COLOR cvt1d",seed); bad+=1
    plt.close(fig)
    cells=rnd.randint(3,10)
    c2=CVTArchive(solution_dim=1,cells=cells,ranges=[(-1,2),(10,14)],custom_centroids=np.stack([nprng.uniform(-1,2,cells),nprng.uniform(10,14,cells)],axis=1))
    c2.add(np.zeros((n,1)),o,m)
    for tr in (False,True):
        fig,ax=plt.subplots(); cvt_archive_heatmap(c2,ax,transpose_measures=tr,vmin=-5,vmax=5)
        pc=[c for c in ax.collections if isinstance(c,PolyCollection)][0]
        paths=pc.get_paths(); fcs=pc.get_facecolors()
        d=c2.data(); exp=dict(zip(d["index"].tolist(),d["objective"].tolist()))
        cmap=plt.get_cmap("magma")
        cents=c2.centroids[:,::-1] if tr else c2.centroids
        seen=set()
        for p,fc in zip(paths,fcs):
            inside=[i for i,cc in enumerate(cents) if p.contains_point(cc)]
            if len(inside)!=1: continue   # faraway regions
            i=inside[0]; seen.add(i)
            if i in exp:
                ec=cmap(np.clip((exp[i]+5)/10,0,1))
                if not np.allclose(fc,ec,atol=1e-6): print("COLOR cvt2d",seed,tr,i,fc,ec); bad+=1
            else:
                if fc[3]!=0: print("BLANK cvt2d",seed,tr,i,fc); bad+=1
        if seen!=set(range(cells)): print("MISSING cvt2d regions",seed,tr,set(range(cells))-seen); bad+=1
        plt.close(fig)
print("bad",bad)
