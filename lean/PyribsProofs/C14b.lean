import PyribsProofs.C14
import PyribsProofs.C06
import Mathlib.Tactic.Positivity
/-!
# Proximity clauses of C07 and C06

* C07: every stored entry of a ProximityArchive is (one of) the nearest stored entries to its
  own measures — so `retrieve` by its own measures finds it, or an interchangeable entry with
  exactly identical measures.
* C06 (T06.5): the maintained statistics of a ProximityArchive follow the documented
  `cells = len` convention: `num_elites = len`, the objective sum is the sum over the stored
  entries, hence coverage 1 and `norm_qd_score = qd_score / len`.
-/
namespace Pyribs.C14b
open Pyribs Arch Prox

theorem dist2_nonneg (a b : List Rat) : 0 ≤ dist2 a b := by
  induction a generalizing b with
  | nil => simp [dist2]
  | cons x xs ih =>
    cases b with
    | nil => simp [dist2]
    | cons y ys =>
      simp only [dist2]
      have := ih ys
      nlinarith [mul_self_nonneg (x - y)]

theorem dist2_self (a : List Rat) : dist2 a a = 0 := by
  induction a with
  | nil => simp [dist2]
  | cons x xs ih => simp [dist2, ih]

/-- **C07 for ProximityArchive** : a stored entry is a nearest stored entry of its own measures;
any other nearest entry is at distance 0 from it (interchangeable: identical measures). -/
theorem prox_self_retrieval (p : Prox) (j : Nat) (e : Elite) (hj : j < p.capacity)
    (he : p.arch.cellOf j = some e) :
    j ∈ p.nearestSet e.meas ∧
    ∀ i ∈ p.nearestSet e.meas, ∃ e', p.arch.cellOf i = some e' ∧ dist2 e'.meas e.meas = 0 := by
  constructor
  · rw [C14.nearestSet_spec]
    refine ⟨e, hj, he, ?_⟩
    intro i e' _ _
    rw [dist2_self]; exact dist2_nonneg _ _
  · intro i hi
    rw [C14.nearestSet_spec] at hi
    obtain ⟨e', _, he', hmin⟩ := hi
    refine ⟨e', he', le_antisymm ?_ (dist2_nonneg _ _)⟩
    have := hmin j e hj he
    rw [dist2_self] at this
    exact this

/-! ### statistics -/

/-- the statistics invariant of C06 for the archive inside a ProximityArchive -/
theorem totalObj_grow (cap cap' : Nat) (cells : Nat → Option Elite) (h : cap ≤ cap')
    (hnone : ∀ i, cap ≤ i → cells i = none) :
    C06.totalObj cap' cells = C06.totalObj cap cells := by
  induction cap' with
  | zero =>
    have : cap = 0 := by omega
    subst this; rfl
  | succ n ih =>
    by_cases hc : cap ≤ n
    · unfold C06.totalObj at *
      rw [List.range_succ, List.map_append, List.sum_append, ih hc]
      simp [C06.objAt, hnone n hc]
    · have : cap = n + 1 := by omega
      subst this; rfl

theorem statsInv_add (p p' : Prox) (fb : Feedback)
    (hinv : C14.ProxInv p) (hst : C06.StatsInv p.arch) (hsList : List Hinted)
    (h : p.add hsList = .ok (p', fb)) : C06.StatsInv p'.arch := by
  -- `Prox.add` = grow the store, then `Arch.addBatch`
  unfold Prox.add at h
  cases ha : p.assign hsList p.len with
  | error e => rw [ha] at h; simp [bind, Except.bind] at h
  | ok rf =>
    obtain ⟨rows, flags⟩ := rf
    rw [ha] at h
    simp only [bind, Except.bind, pure, Except.pure, Except.ok.injEq, Prod.mk.injEq] at h
    obtain ⟨hp', _⟩ := h
    rw [← hp']
    simp only
    apply C06.statsInv_addBatch
    -- the grown archive still satisfies the invariant
    have hcap : p.arch.store.cap ≤
        growCap p.capacity (p.len + (flags.filter id).length) (p.len + (flags.filter id).length) := by
      have := (C14.growCap_spec p.capacity (p.len + (flags.filter id).length)
        (p.len + (flags.filter id).length) hinv.cap_pos (le_refl _)).2.1
      exact this
    refine ⟨⟨hst.wf.nodup, hst.wf.mem, fun i hi => Nat.lt_of_lt_of_le (hst.wf.bound i hi) hcap⟩, hst.num, ?_⟩
    simp only
    rw [hst.sum]
    symm
    apply totalObj_grow _ _ _ hcap
    intro i hi
    cases hc : p.arch.store.cells i with
    | none => rfl
    | some e =>
      have : p.arch.store.occupied i = true := by unfold Store.occupied; rw [hc]; rfl
      have := hst.wf.bound i this
      omega

/-- the statistics invariant holds in every reachable state of a ProximityArchive -/
theorem statsInv_history (cfg : PCfg) (cap : Nat) (hc : 0 < cap) (ops : List C14.Op) :
    C06.StatsInv (C14.run cfg cap ops).arch := by
  unfold C14.run
  have h0 : C14.ProxInv (Prox.new cfg cap) ∧ C06.StatsInv (Prox.new cfg cap).arch :=
    ⟨C14.inv_new cfg cap hc, C06.statsInv_new _ _⟩
  generalize Prox.new cfg cap = p0 at h0
  suffices h : C14.ProxInv (ops.foldl C14.step p0) ∧ C06.StatsInv (ops.foldl C14.step p0).arch from h.2
  induction ops generalizing p0 with
  | nil => simpa using h0
  | cons op ops ih =>
    simp only [List.foldl_cons]
    apply ih
    refine ⟨C14.inv_step p0 h0.1 op, ?_⟩
    cases op with
    | add hs =>
      simp only [C14.step, C14.addOrSkip]
      cases h : p0.add hs with
      | error e => exact h0.2
      | ok r => obtain ⟨p', fb⟩ := r; exact statsInv_add p0 p' fb h0.1 h0.2 hs h
    | clear => exact C06.statsInv_clear _

/-- **T06.5** the `cells = len` convention: with `num_elites = len > 0`, coverage computed as
`num_elites / cells` with `cells = len` is 1 and `norm_qd_score = qd_score / len` is the mean
objective shifted by the offset. -/
theorem cells_eq_len_convention (a : Arch) (h : C06.StatsInv a) (hpos : 0 < a.store.len) :
    ((a.stats.numElites : Rat) / (a.store.len : Rat) = 1) ∧
    a.qdScore / (a.store.len : Rat) =
      C06.totalObj a.store.cap a.store.cells / (a.store.len : Rat) - a.cfg.offset := by
  have hne : (a.store.len : Rat) ≠ 0 := by
    have : (0 : Rat) < a.store.len := by exact_mod_cast hpos
    exact ne_of_gt this
  constructor
  · rw [h.num]; exact div_self hne
  · unfold qdScore
    rw [h.num, h.sum]
    field_simp

end Pyribs.C14b
