"""Run checks against a seeded change.

usage: seedtest.py <seeded-dir> [--checks C01,C02] [--tier quick] [--inplace] [--seeds 0,1]

<seeded-dir> holds patch.diff, a demonstration (demo.py) and meta.json ({"property": ...}).
By default the patch is applied to a scratch git worktree of /repo's HEAD and the checks run
with PYTHONPATH / VERIF_REPO pointing at it; with --inplace it is applied to /repo itself
(git -C /repo apply) and undone straight afterwards (git -C /repo checkout -- .).
Prints one line per check: CAUGHT (exit 1 + VIOLATION line) / MISSED (exit 0) / INFRA (exit 2).
"""
import argparse
import json
import os
import shutil
import subprocess
import sys
import tempfile

VERIF = os.path.dirname(os.path.dirname(os.path.abspath(__file__)))


def sh(cmd, **kw):
    return subprocess.run(cmd, shell=True, stdout=subprocess.PIPE, stderr=subprocess.STDOUT, text=True, **kw)


def main():
    ap = argparse.ArgumentParser()
    ap.add_argument("dir")
    ap.add_argument("--checks")
    ap.add_argument("--tier", default="quick")
    ap.add_argument("--inplace", action="store_true")
    ap.add_argument("--seeds", default="0")
    ap.add_argument("--demo", action="store_true", help="also run the demonstration with and without the change")
    ap.add_argument("--tests", action="store_true", help="also run the pinned suite with the change and compare with BASELINE.json")
    a = ap.parse_args()
    d = os.path.abspath(a.dir)
    meta = json.load(open(os.path.join(d, "meta.json")))
    # `also_checks` (meta.json): a change seeded under one property whose mechanism is another property's business
    # (e.g. C01-17, iteration entries that alias the store: C12) is also run against that check
    checks = a.checks.split(",") if a.checks else [meta["property"]] + list(meta.get("also_checks", []))
    patch = os.path.join(d, "patch.diff")
    env = dict(os.environ)
    wt = None
    if a.inplace:
        r = sh(f"git -C /repo apply {patch}")
        if r.returncode:
            print("patch does not apply to /repo:", r.stdout)
            return 2
        root = "/repo"
    else:
        wt = tempfile.mkdtemp(prefix="seedrun_", dir="/tmp")
        os.rmdir(wt)
        r = sh(f"git -C /repo worktree add -q --detach {wt} HEAD && git -C {wt} apply {patch}")
        if r.returncode:
            print("patch does not apply:", r.stdout)
            sh(f"git -C /repo worktree remove --force {wt}")
            return 2
        env["PYTHONPATH"] = wt
        env["VERIF_REPO"] = wt
        root = wt
    results = {}
    try:
        if a.demo:
            demo = os.path.join(d, "demo.py")
            r1 = sh(f"/venv/bin/python {demo}", env=dict(env, PYTHONPATH=root), cwd="/tmp")
            r0 = sh(f"/venv/bin/python {demo}", env=dict(os.environ, PYTHONPATH="/repo"), cwd="/tmp") if not a.inplace else None
            print(f"demo with change: exit {r1.returncode}" + (f"; without: exit {r0.returncode}" if r0 else ""))
        if a.tests:
            import xml.etree.ElementTree as ET
            out = tempfile.mktemp(suffix=".xml", dir="/tmp")
            sh(f"cd {root} && /venv/bin/python -m pytest -q -p no:cacheprovider --timeout=900 --continue-on-collection-errors "
               f"--no-cov --junitxml={out}", env=dict(env, PYTHONPATH=root))
            want = set(json.load(open("/root/.vp/BASELINE.json"))["stable_pass"])
            got = set()
            for tc in ET.parse(out).getroot().iter("testcase"):
                if not any(ch.tag in ("failure", "error", "skipped") for ch in tc):
                    got.add(f"{tc.get('classname')}::{tc.get('name')}")
            os.remove(out)
            missing = sorted(want - got)
            print(f"tests with change: baseline {len(want)} passing, missing now {len(missing)} {missing[:3]}")
        for c in checks:
            for seed in a.seeds.split(","):
                r = sh(f"./check {c} {a.tier}", cwd=VERIF, env=dict(env, VERIF_SEED=seed))
                viol = [l for l in r.stdout.split("\n") if l.startswith("VIOLATION")]
                verdict = {0: "MISSED", 1: "CAUGHT", 2: "INFRA"}.get(r.returncode, f"exit{r.returncode}")
                why = [l for l in r.stdout.split("\n") if l.startswith("# ")][:2]
                print(f"{verdict} check={c} seed={seed} violations={len(viol)} {' | '.join(w[:220] for w in why)}")
                results.setdefault(c, []).append(verdict)
                if r.returncode == 2:
                    print(r.stdout[-1500:])
    finally:
        if a.inplace:
            sh("git -C /repo checkout -- .")
        else:
            sh(f"git -C /repo worktree remove --force {wt}")
            shutil.rmtree(wt, ignore_errors=True)
        # the checks regenerate parts of the Lean model from the tree under test: put back /repo's own versions (under
        # the same lock the checks hold from regeneration until their proofs are built and audited: a restore in the
        # middle of another run's build would make that run judge the wrong text)
        import fcntl
        _lock = open(os.path.join(VERIF, "lean", ".gen.lock"), "w")
        fcntl.flock(_lock, fcntl.LOCK_EX)
        sh(f"/venv/bin/python {VERIF}/harness/translate/formulas.py /repo {VERIF}/lean/PyribsGen/Formulas.lean")
        sh(f"/venv/bin/python {VERIF}/harness/translate/control.py /repo {VERIF}/lean/PyribsGen/Control.lean")
        if "C09" in checks:
            # C09 regenerates lean/PyribsGen/RngSites.lean from the tree under test: put back /repo's own table
            sh(f"/venv/bin/python -c \"import sys; sys.path.insert(0, '{VERIF}/harness'); "
               f"from translate import rng_sites; rng_sites.translate('/repo', '{VERIF}/lean/PyribsGen/RngSites.lean')\"")
        _lock.close()
    return 0


if __name__ == "__main__":
    sys.exit(main())
