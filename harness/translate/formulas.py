"""Translator: arithmetic core formulas of /repo -> Lean definitions over `Rat` (lean/PyribsGen/Formulas.lean).

The hand-written models of the archive stack contain a handful of closed arithmetic expressions that decide
C02 / C03 / C05 / C06 (the grid quotient, the two CMA-MAE threshold updates, the improvement value, the derived
statistics).  This translator reads exactly those expressions from the source tree under check (Python `ast`),
turns each into a Lean `def` with the same operator tree, and `PyribsProofs/GenF.lean` proves every generated
definition equal to the model's function -- so the kernel re-checks on every run that the model's formulas are
what the code says *now*.  A rewrite of a formula that is not provably the same rational function breaks the
theorem (an undischarged obligation: the check then searches the correspondence for a failing input).

Supported Python: names / attributes / subscripts / `len(self)` bound to Lean variables through `env`; local
names defined by a single assignment in the same function (inlined); + - * / unary minus; `**` with a natural
number exponent variable; int / float literals that are exact in binary (1.0, 0.0, 2 ...); the identity wrappers
`np_scalar(x, dtype=...)`, `np.asarray(x, ...)`, `float(x)`; a one-element list / `np.array([x])` around the value;
a broadcasting subscript `x[:, None]`.
A second kind of specification (`kind="straightline"`) executes a whole function body symbolically, statement by
statement (assignments and augmented assignments to names and `self` attributes, typed `Nat` / `Rat`, `np.sqrt`
as an uninterpreted function `sq`), and emits the final value of the listed outputs -- used for the update rules
of `AdamOpt.step` and `GradientAscentOpt.step` (arrays are read coordinate-wise).
A third kind (`CHAIN_SPECS`) reads a function whose body is a chain of `if <test>: return <expr>` statements closed by a
`raise` or a `return`: the tests are opaque booleans named by the specification, the returned expressions are
translated (natural-number `%`, `==`, `True` / `False`), and the result is the nested `if` as an `Option` (`none` = the
`raise`) -- used for `_check_restart` of both evolution-strategy emitters.
Anything else makes the translation of that formula fail; the generated definition is then the constant `0`
with the reason in a comment, which no equality theorem survives.
"""
import ast
import os

IDENTITY_CALLS = {"np_scalar", "np.asarray", "float", "np.float64", "np.float32"}

SPECS = [
    # name, file, function (Class.method or function), how to find the expression, variables
    dict(name="gridQuot", file="ribs/archives/_grid_archive.py", func="GridArchive.index_of",
         assign="grid_indices", nth=0,
         env={"self._dims": "d", "measures": "m", "self._lower_bounds": "lo", "self._epsilon": "eps",
              "self._interval_size": "w"},
         vars=["d", "m", "lo", "eps", "w"], nat=[]),
    dict(name="batchThreshold", file="ribs/archives/_transforms.py", func="_compute_thresholds",
         assign="new_threshold", nth=0,
         env={"learning_rate": "lr", "cur_threshold": "t", "objective_sums": "s", "objective_sizes": "k"},
         vars=["lr", "t", "s", "k"], nat=["k"]),
    dict(name="singleThreshold", file="ribs/archives/_transforms.py", func="single_entry_with_threshold",
         assign="new_data['threshold']", nth=0,
         env={"cur_threshold": "t", "learning_rate": "lr", "objective": "f"},
         vars=["lr", "t", "f"], nat=[], locals_opaque=["cur_threshold", "objective"]),
    dict(name="singleValue", file="ribs/archives/_transforms.py", func="single_entry_with_threshold",
         assign="add_info['value']", nth=0,
         env={"cur_threshold": "t", "objective": "f"},
         vars=["t", "f"], nat=[], locals_opaque=["cur_threshold", "objective"]),
    dict(name="batchValue", file="ribs/archives/_transforms.py", func="batch_entries_with_threshold",
         assign="add_info['value']", nth=0,
         env={"cur_threshold": "t", "new_data['objective']": "f"},
         vars=["t", "f"], nat=[], locals_opaque=["cur_threshold"]),
    dict(name="qdScore", file="ribs/archives/_archive_base.py", func="ArchiveBase._stats_update",
         assign="new_qd_score", nth=0,
         env={"self._objective_sum": "s", "len(self)": "n", "self._qd_score_offset": "off"},
         vars=["s", "n", "off"], nat=[]),
    dict(name="coverage", file="ribs/archives/_archive_base.py", func="ArchiveBase._stats_update",
         call="ArchiveStats", kw="coverage",
         env={"len(self)": "n", "self.cells": "c"}, vars=["n", "c"], nat=[]),
    dict(name="normQdScore", file="ribs/archives/_archive_base.py", func="ArchiveBase._stats_update",
         call="ArchiveStats", kw="norm_qd_score",
         env={"new_qd_score": "q", "self.cells": "c"}, vars=["q", "c"], nat=[], locals_opaque=["new_qd_score"]),
    dict(name="objMean", file="ribs/archives/_archive_base.py", func="ArchiveBase._stats_update",
         call="ArchiveStats", kw="obj_mean",
         env={"self._objective_sum": "s", "len(self)": "n"}, vars=["s", "n"], nat=[]),
    # SlidingBoundariesArchive.index_of: the clip applied before the boundary search
    dict(name="sbClip", file="ribs/archives/_sliding_boundaries_archive.py", func="SlidingBoundariesArchive.index_of",
         assign="measures", nth=1,
         env={"measures": "m", "self._epsilon": "eps", "self._lower_bounds": "lo", "self._upper_bounds": "hi"},
         vars=["m", "eps", "lo", "hi"], nat=[]),
    # the value maximised over the elites in cqd_score: normalised objective minus penalty times normalised distance
    dict(name="cqdValue", file="ribs/archives/_archive_base.py", func="ArchiveBase.cqd_score",
         assign="values", nth=0,
         env={"objective_batch": "f", "obj_max": "omax", "obj_min": "omin", "penalty": "pen", "distances": "d",
              "dist_max": "dmax"},
         vars=["f", "omax", "omin", "pen", "d", "dmax"], nat=[]),
]

TYPED_SPECS = [
    # one assignment, natural-number arithmetic: `int(a * b / c)` of naturals is their floor division
    dict(name="boundaryRank", file="ribs/archives/_sliding_boundaries_archive.py", func="SlidingBoundariesArchive._remap",
         assign="sample_idx", nth=0,
         inputs={"j": ("j", "Nat"), "self._buffer.size": ("t", "Nat"), "self.dims[i]": ("d", "Nat")},
         vars=[("j", "Nat"), ("t", "Nat"), ("d", "Nat")], result="Nat"),
] + [
    # learning rates of CMA-ES as functions of mueff and the dimension (`_calc_strat_params`)
    dict(name=f"cma{nm.capitalize()}", file="ribs/emitters/opt/_cma_es.py",
         func="CMAEvolutionStrategy._calc_strat_params", assign=nm, nth=0,
         inputs={"mueff": ("mueff", "Rat"), "self.solution_dim": ("n", "Rat")},
         vars=[("mueff", "Rat"), ("n", "Rat")], result="Rat")
    for nm in ("cc", "cs", "c1", "cmu")
] + [
    # the scalar steps of CMAEvolutionStrategy.tell (arrays are read coordinate-wise; sums of squares, the exponent
    # 2*current_eval/batch_size and hsig are inputs; sqrt / exp are uninterpreted)
    dict(name=pre + nm, file=f, func=fn, nth=0,
         inputs={"mueff": ("mueff", "Rat"), "self.solution_dim": ("n", "Rat"), "cs": ("cs", "Rat"), "cc": ("cc", "Rat"),
                 "c1": ("c1", "Rat"), "self.ps": ("ps", "Rat"), "self.pc": ("pc", "Rat"), "z": ("z", "Rat"),
                 "y": ("y", "Rat"), "self.sigma": ("sigma", "Rat"), "hsig": ("hsig", "Rat"),
                 "np.sum(np.square(self.ps))": ("ssp", "Rat"), "sum_square_ps": ("ssp", "Rat"),
                 "2 * self.current_eval / self.batch_size": ("k", "Nat"), "cn": ("cn", "Rat")},
         vars=vs, result="Rat", **loc)
    for pre, f, fn in (("cma", "ribs/emitters/opt/_cma_es.py", "CMAEvolutionStrategy.tell"),
                       ("sep", "ribs/emitters/opt/_sep_cma_es.py", "SeparableCMAEvolutionStrategy.tell"))
    for nm, loc, vs in (
        ("Damps", dict(assign="damps"), [("sq", "Rat → Rat"), ("mueff", "Rat"), ("n", "Rat"), ("cs", "Rat")]),
        ("Ps", dict(assign="self.ps"), [("sq", "Rat → Rat"), ("mueff", "Rat"), ("cs", "Rat"), ("sigma", "Rat"),
                                           ("ps", "Rat"), ("z", "Rat")]),
        ("Left", dict(assign="left"), [("cs", "Rat"), ("n", "Rat"), ("ssp", "Rat"), ("k", "Nat")]),
        ("Right", dict(assign="right"), [("n", "Rat")]),
        ("Pc", dict(assign="self.pc"), [("sq", "Rat → Rat"), ("mueff", "Rat"), ("cc", "Rat"), ("hsig", "Rat"),
                                           ("pc", "Rat"), ("y", "Rat")]),
        ("C1a", dict(assign="c1a"), [("c1", "Rat"), ("cc", "Rat"), ("hsig", "Rat")]),
        ("Sigma", dict(aug="self.sigma"), [("ex", "Rat → Rat"), ("cn", "Rat"), ("n", "Rat"), ("ssp", "Rat"),
                                              ("sigma", "Rat")]),
    )
] + [
    # `_calc_cov_update` of CMA-ES (entry i, j; `np.outer(pc, pc)` read as the entry pc_i * pc_j) and of sep-CMA-ES
    # (coordinate j)
    dict(name="cmaCov", file="ribs/emitters/opt/_cma_es.py", func="CMAEvolutionStrategy._calc_cov_update", ret=0, nth=0,
         inputs={"cov": ("C", "Rat"), "c1a": ("c1a", "Rat"), "cmu": ("cmu", "Rat"), "c1": ("c1", "Rat"),
                 "np.outer(pc, pc)": ("pp", "Rat"), "sigma": ("sigma", "Rat"), "rank_mu_update": ("rm", "Rat"),
                 "np.sum(weights)": ("ws", "Rat")},
         vars=[("C", "Rat"), ("c1a", "Rat"), ("cmu", "Rat"), ("c1", "Rat"), ("pp", "Rat"), ("sigma", "Rat"),
               ("rm", "Rat"), ("ws", "Rat")], result="Rat"),
    dict(name="sepCov", file="ribs/emitters/opt/_sep_cma_es.py",
         func="SeparableCMAEvolutionStrategy._calc_cov_update", ret=0, nth=0,
         inputs={"cov": ("C", "Rat"), "c1a": ("c1a", "Rat"), "cmu": ("cmu", "Rat"), "c1": ("c1", "Rat"),
                 "pc": ("pc", "Rat"), "sigma": ("sigma", "Rat"), "rank_mu_update": ("rm", "Rat"),
                 "np.sum(weights)": ("ws", "Rat")},
         vars=[("C", "Rat"), ("c1a", "Rat"), ("cmu", "Rat"), ("c1", "Rat"), ("pc", "Rat"), ("sigma", "Rat"),
               ("rm", "Rat"), ("ws", "Rat")], result="Rat"),
] + [
    # learning rates of sep-CMA-ES (`_calc_strat_params`, `_conedf`, `_cmudf`)
    dict(name=nm, file="ribs/emitters/opt/_sep_cma_es.py", func="SeparableCMAEvolutionStrategy." + fn, nth=0,
         inputs=ins, vars=vs, result="Rat", **loc)
    for nm, fn, loc, ins, vs in (
        ("sepCcSep", "_calc_strat_params", dict(assign="cc_sep"),
         {"mueff": ("mueff", "Rat"), "solution_dim": ("n", "Rat")},
         [("sq", "Rat → Rat"), ("mueff", "Rat"), ("n", "Rat")]),
        ("sepCs", "_calc_strat_params", dict(assign="cs"),
         {"mueff": ("mueff", "Rat"), "solution_dim": ("n", "Rat")}, [("mueff", "Rat"), ("n", "Rat")]),
        ("sepC1", "_calc_strat_params", dict(assign="c1"),
         {"mueff": ("mueff", "Rat"), "solution_dim": ("n", "Rat")}, [("mueff", "Rat"), ("n", "Rat")]),
        ("sepC1Sep", "_calc_strat_params", dict(assign="c1_sep"),
         {"c1": ("c1", "Rat"), "self._conedf(solution_dim, mueff, solution_dim)": ("conedf", "Rat")},
         [("c1", "Rat"), ("conedf", "Rat")]),
        ("sepCmuSep", "_calc_strat_params", dict(assign="cmu_sep"),
         {"c1_sep": ("c1sep", "Rat"), "self._cmudf(solution_dim, mueff, 0)": ("cmudf", "Rat")},
         [("c1sep", "Rat"), ("cmudf", "Rat")]),
        ("sepConedf", "_conedf", dict(ret=0),
         {"df": ("df", "Rat"), "mu": ("mu", "Rat"), "solution_dim": ("n", "Rat")},
         [("sq", "Rat → Rat"), ("df", "Rat"), ("mu", "Rat"), ("n", "Rat")]),
        ("sepCmudf", "_cmudf", dict(ret=0),
         {"df": ("df", "Rat"), "mu": ("mu", "Rat"), "alphamu": ("alphamu", "Rat")},
         [("sq", "Rat → Rat"), ("df", "Rat"), ("mu", "Rat"), ("alphamu", "Rat")]),
    )
] + [
    # LM-MA-ES: the constants of __init__ (entry i of `cd` / `cc`: `np.arange(n_vectors)` read as the index i) and the
    # path / matrix / step-size updates of tell (row i, coordinate j)
    dict(name=nm, file="ribs/emitters/opt/_lm_ma_es.py", func="LMMAEvolutionStrategy." + fn, nth=0,
         inputs=ins, vars=vs, result="Rat", **loc)
    for nm, fn, loc, ins, vs in (
        ("lmCsigma", "__init__", dict(assign="self.csigma"),
         {"self.batch_size": ("b", "Nat"), "self.solution_dim": ("n", "Nat")}, [("b", "Nat"), ("n", "Nat")]),
        ("lmCd", "__init__", dict(assign="self.cd"),
         {"np.arange(self.n_vectors)": ("i", "Nat"), "self.solution_dim": ("n", "Nat")}, [("i", "Nat"), ("n", "Nat")]),
        ("lmCc", "__init__", dict(assign="self.cc"),
         {"np.arange(self.n_vectors)": ("i", "Nat"), "self.solution_dim": ("n", "Nat"), "self.batch_size": ("b", "Nat")},
         [("i", "Nat"), ("n", "Nat"), ("b", "Nat")]),
        ("lmPs", "tell", dict(assign="self.ps"),
         {"self.csigma": ("cs", "Rat"), "self.ps": ("ps", "Rat"), "mueff": ("mueff", "Rat"), "z_mean": ("zm", "Rat")},
         [("sq", "Rat → Rat"), ("cs", "Rat"), ("mueff", "Rat"), ("ps", "Rat"), ("zm", "Rat")]),
        ("lmM", "tell", dict(assign="self.m"),
         {"self.cc[:, None]": ("cci", "Rat"), "self.m": ("m", "Rat"), "mueff": ("mueff", "Rat"),
          "z_mean[None]": ("zm", "Rat")},
         [("sq", "Rat → Rat"), ("cci", "Rat"), ("mueff", "Rat"), ("m", "Rat"), ("zm", "Rat")]),
        ("lmSigma", "tell", dict(aug="self.sigma"),
         {"self.csigma": ("cs", "Rat"), "np.sum(self.ps ** 2)": ("ssp", "Rat"), "self.solution_dim": ("n", "Rat"),
          "self.sigma": ("sigma", "Rat")},
         [("ex", "Rat → Rat"), ("cs", "Rat"), ("n", "Rat"), ("ssp", "Rat"), ("sigma", "Rat")]),
    )
] + [
    # rank normalisation of OpenAI-ES: `ranks / (batch_size - 1) - 0.5`
    dict(name="openaiNormRank", file="ribs/emitters/opt/_openai_es.py", func="OpenAIEvolutionStrategy.tell",
         assign="ranks", nth=1, inputs={"ranks": ("r", "Nat"), "self.batch_size": ("b", "Nat")},
         vars=[("r", "Nat"), ("b", "Nat")], result="Rat"),
] + [
    # number of parents handed to the optimizer (C10 / C19): `new_sols if rule == "filter" else batch_size // 2`
    dict(name=nm, file=f, func=fn, assign="num_parents", nth=0,
         inputs={"self._selection_rule == 'filter'": ("isFilter", "Bool"), "new_sols": ("ins", "Nat"),
                 "self._batch_size": ("b", "Nat")},
         vars=[("isFilter", "Bool"), ("ins", "Nat"), ("b", "Nat")], result="Nat")
    for nm, f, fn in (("esNumParents", "ribs/emitters/_evolution_strategy_emitter.py", "EvolutionStrategyEmitter.tell"),
                      ("gaeNumParents", "ribs/emitters/_gradient_arborescence_emitter.py",
                       "GradientArborescenceEmitter.tell"))
] + [
    # the UCB1 score of a previously selected emitter (C16); sqrt and log are uninterpreted
    dict(name="ucb1", file="ribs/schedulers/_bandit_scheduler.py", func="BanditScheduler.ask",
         assign="ucb1[update_ucb]", nth=0,
         inputs={"self._success[update_ucb]": ("s", "Rat"), "self._selection[update_ucb]": ("k", "Rat"),
                 "self._zeta": ("z", "Rat"), "self._success.sum()": ("tot", "Rat")},
         vars=[("sq", "Rat → Rat"), ("ln", "Rat → Rat"), ("s", "Rat"), ("k", "Rat"), ("z", "Rat"), ("tot", "Rat")],
         result="Rat"),
]

SL_SPECS = [
    dict(name="ascent", file="ribs/emitters/opt/_gradient_ascent_opt.py", func="GradientAscentOpt.step",
         inputs={"self._lr": ("lr", "Rat"), "gradient": ("g", "Rat"), "self._theta": ("theta", "Rat")},
         vars=[("lr", "Rat"), ("theta", "Rat"), ("g", "Rat")],
         outputs={"Theta": "self._theta"}),
    dict(name="adam", file="ribs/emitters/opt/_adam_opt.py", func="AdamOpt.step",
         inputs={"self._lr": ("lr", "Rat"), "self._beta1": ("b1", "Rat"), "self._beta2": ("b2", "Rat"),
                 "self._epsilon": ("eps", "Rat"), "self._l2_coeff": ("l2", "Rat"), "gradient": ("g", "Rat"),
                 "self._theta": ("theta", "Rat"), "self._m": ("m", "Rat"), "self._v": ("v", "Rat"),
                 "self._t": ("t", "Nat")},
         vars=[("sq", "Rat → Rat"), ("lr", "Rat"), ("b1", "Rat"), ("b2", "Rat"), ("eps", "Rat"), ("l2", "Rat"),
               ("theta", "Rat"), ("m", "Rat"), ("v", "Rat"), ("t", "Nat"), ("g", "Rat")],
         outputs={"Theta": "self._theta", "M": "self._m", "V": "self._v", "T": "self._t"}),
]

CHAIN_SPECS = [
    dict(name=nm, file=f, func=fn,
         inputs={"isinstance(self._restart_rule, numbers.Integral)": ("isInt", "Bool"),
                 "self._restart_rule == 'no_improvement'": ("isNoImp", "Bool"),
                 "self._restart_rule == 'basic'": ("isBasic", "Bool"),
                 "self._itrs": ("itrs", "Nat"), "self._restart_rule": ("rule", "Nat"), "num_parents": ("np", "Nat")},
         vars=[("isInt", "Bool"), ("isNoImp", "Bool"), ("isBasic", "Bool"), ("itrs", "Nat"), ("rule", "Nat"), ("np", "Nat")],
         result="Bool")
    for nm, f, fn in (("esCheckRestart", "ribs/emitters/_evolution_strategy_emitter.py",
                       "EvolutionStrategyEmitter._check_restart"),
                      ("gaeCheckRestart", "ribs/emitters/_gradient_arborescence_emitter.py",
                       "GradientArborescenceEmitter._check_restart"))
]


class Untranslatable(Exception):
    pass


def find_function(tree, qual):
    parts = qual.split(".")
    body = tree.body
    node = None
    for p in parts:
        node = next((n for n in body if isinstance(n, (ast.FunctionDef, ast.ClassDef)) and n.name == p), None)
        if node is None:
            raise Untranslatable(f"{qual} not found")
        body = node.body
    return node


def call_name(f):
    try:
        return ast.unparse(f)
    except Exception:   # pylint: disable=broad-except
        return "?"


def assignments(func):
    """target text -> list of value nodes, in source order (simple `=` statements anywhere in the function)."""
    out = {}
    for n in ast.walk(func):
        if isinstance(n, ast.Assign) and len(n.targets) == 1:
            out.setdefault(ast.unparse(n.targets[0]), []).append((n.lineno, n.value))
    return {k: [v for _, v in sorted(vs, key=lambda p: p[0])] for k, vs in out.items()}


def exact_literal(v):
    if isinstance(v, bool) or not isinstance(v, (int, float)):
        raise Untranslatable(f"literal {v!r}")
    if isinstance(v, float):
        if v != v or v in (float("inf"), float("-inf")):
            raise Untranslatable(f"literal {v!r}")
        from fractions import Fraction
        fr_ = Fraction(repr(v))         # the literal as the source spells it (1.3 is 13/10)
        n, d = fr_.numerator, fr_.denominator
        return f"({n} : Rat)" if d == 1 else f"(({n} : Rat) / {d})"
    return f"({v} : Rat)"


def to_lean(node, spec, assigns, depth=0):
    if depth > 12:
        raise Untranslatable("definition chain too deep")
    env, nat = spec["env"], set(spec["nat"])
    text = ast.unparse(node)
    if text in env:
        v = env[text]
        return f"({v} : Rat)" if v in nat else v
    if isinstance(node, ast.Constant):
        return exact_literal(node.value)
    if isinstance(node, ast.UnaryOp) and isinstance(node.op, ast.USub):
        return f"(-{to_lean(node.operand, spec, assigns, depth + 1)})"
    if isinstance(node, ast.BinOp):
        if isinstance(node.op, ast.Pow):
            base = to_lean(node.left, spec, assigns, depth + 1)
            et = ast.unparse(node.right)
            if et in env and env[et] in nat:
                return f"({base} ^ {env[et]})"
            if isinstance(node.right, ast.Constant) and isinstance(node.right.value, int) and node.right.value >= 0:
                return f"({base} ^ {node.right.value})"
            raise Untranslatable(f"exponent {et}")
        ops = {ast.Add: "+", ast.Sub: "-", ast.Mult: "*", ast.Div: "/"}
        if type(node.op) not in ops:
            raise Untranslatable(f"operator {type(node.op).__name__}")
        return (f"({to_lean(node.left, spec, assigns, depth + 1)} {ops[type(node.op)]} "
                f"{to_lean(node.right, spec, assigns, depth + 1)})")
    if isinstance(node, ast.Call):
        fn = call_name(node.func)
        if fn in IDENTITY_CALLS and node.args:
            return to_lean(node.args[0], spec, assigns, depth + 1)
        if fn in ("np.array", "np.asarray") and node.args and isinstance(node.args[0], ast.List) \
                and len(node.args[0].elts) == 1:
            return to_lean(node.args[0].elts[0], spec, assigns, depth + 1)
        if fn == "np.clip" and len(node.args) == 3 and not node.keywords:
            x, lo_, hi_ = (to_lean(a_, spec, assigns, depth + 1) for a_ in node.args)
            return f"(min (max {x} {lo_}) {hi_})"        # np.clip(x, a, b) = minimum(maximum(x, a), b)
        raise Untranslatable(f"call {fn}(...)")
    if isinstance(node, ast.List) and len(node.elts) == 1:
        return to_lean(node.elts[0], spec, assigns, depth + 1)
    if isinstance(node, ast.Subscript) and isinstance(node.slice, ast.Tuple) and all(
            (isinstance(e, ast.Slice) and e.lower is None and e.upper is None and e.step is None)
            or (isinstance(e, ast.Constant) and e.value is None) for e in node.slice.elts):
        return to_lean(node.value, spec, assigns, depth + 1)        # `x[:, None]`: broadcasting, same elements
    if isinstance(node, ast.Name):
        if node.id in spec.get("locals_opaque", []):
            raise Untranslatable(f"{node.id} not bound")
        vals = assigns.get(node.id, [])
        if len(vals) == 1:
            return to_lean(vals[0], spec, assigns, depth + 1)     # inline a local defined once
        raise Untranslatable(f"name {node.id} ({len(vals)} definitions)")
    raise Untranslatable(f"expression {text[:60]}")


def locate(func, spec, assigns):
    if "assign" in spec:
        vals = assigns.get(spec["assign"], [])
        if len(vals) <= spec["nth"]:
            raise Untranslatable(f"no assignment to {spec['assign']}")
        return vals[spec["nth"]]
    for n in ast.walk(func):
        if isinstance(n, ast.Call) and call_name(n.func) == spec["call"]:
            for kw in n.keywords:
                if kw.arg == spec["kw"]:
                    return kw.value
    raise Untranslatable(f"no {spec['call']}({spec['kw']}=...)")


def translate_one(repo, spec):
    path = os.path.join(repo, spec["file"])
    tree = ast.parse(open(path).read())
    func = find_function(tree, spec["func"])
    assigns = assignments(func)
    node = locate(func, spec, assigns)
    return to_lean(node, spec, assigns), node.lineno, ast.unparse(node)


def sl_expr(node, sym, assigns=None, depth=0):
    """(lean text, type) of an expression under the symbolic state `sym` (text -> (lean, type)); with `assigns`
    a local name that is not in `sym` and is defined exactly once in the function is inlined."""
    if depth > 12:
        raise Untranslatable("definition chain too deep")
    text = ast.unparse(node)
    if text in sym:
        return sym[text]
    if assigns is not None and isinstance(node, ast.Name):
        vals = assigns.get(node.id, [])
        if len(vals) == 1:
            return sl_expr(vals[0], sym, assigns, depth + 1)
        raise Untranslatable(f"name {node.id} ({len(vals)} definitions)")
    if isinstance(node, ast.Constant):
        v = node.value
        if isinstance(v, bool):
            return ("true" if v else "false"), "Bool"
        if isinstance(v, int) and v >= 0:
            return str(v), "Lit"
        return exact_literal(v), "Rat"
    if isinstance(node, ast.Compare) and len(node.ops) == 1 and isinstance(node.ops[0], (ast.Eq, ast.NotEq)):
        a, at = sl_expr(node.left, sym, assigns, depth + 1)
        b, bt = sl_expr(node.comparators[0], sym, assigns, depth + 1)
        if {at, bt} <= {"Nat", "Lit"} and "Nat" in (at, bt):
            return f"({a} {'==' if isinstance(node.ops[0], ast.Eq) else '!='} {b})", "Bool"
        raise Untranslatable(f"comparison {text[:60]} is not over naturals")
    if isinstance(node, ast.UnaryOp) and isinstance(node.op, ast.USub):
        e, t = sl_expr(node.operand, sym, assigns, depth + 1)
        return f"(-{rat(e, t)})", "Rat"
    if isinstance(node, ast.BinOp):
        if isinstance(node.op, ast.Pow) and isinstance(node.right, ast.Constant) and node.right.value == 0.5 \
                and isinstance(node.right.value, float):
            b, bt = sl_expr(node.left, sym, assigns, depth + 1)
            return f"(sq {rat(b, bt)})", "Rat"                     # `x ** 0.5` is the square root
        if isinstance(node.op, ast.Pow):
            b, bt = sl_expr(node.left, sym, assigns, depth + 1)
            e, et = sl_expr(node.right, sym, assigns, depth + 1)
            if et not in ("Nat", "Lit"):
                raise Untranslatable(f"exponent {ast.unparse(node.right)} is not a natural number")
            return f"({rat(b, bt)} ^ {e})", "Rat"
        ops = {ast.Add: "+", ast.Sub: "-", ast.Mult: "*", ast.Div: "/"}
        if isinstance(node.op, (ast.FloorDiv, ast.Mod)):
            a, at = sl_expr(node.left, sym, assigns, depth + 1)
            b, bt = sl_expr(node.right, sym, assigns, depth + 1)
            if {at, bt} <= {"Nat", "Lit"}:                        # `//`, `%` of naturals = Nat division, remainder
                return f"({a} {'/' if isinstance(node.op, ast.FloorDiv) else '%'} {b})", "Nat"
            raise Untranslatable("`//` or `%` that is not over naturals")
        if type(node.op) not in ops:
            raise Untranslatable(f"operator {type(node.op).__name__}")
        a, at = sl_expr(node.left, sym, assigns, depth + 1)
        b, bt = sl_expr(node.right, sym, assigns, depth + 1)
        if isinstance(node.op, (ast.Add, ast.Mult)) and {at, bt} <= {"Nat", "Lit"} and "Nat" in (at, bt):
            return f"({a} {ops[type(node.op)]} {b})", "Nat"
        return f"({rat(a, at)} {ops[type(node.op)]} {rat(b, bt)})", "Rat"
    if isinstance(node, ast.Call):
        fn = call_name(node.func)
        if fn in IDENTITY_CALLS and node.args:
            return sl_expr(node.args[0], sym, assigns, depth + 1)
        if fn == "int" and len(node.args) == 1 and not isinstance(node.args[0], ast.BinOp):
            e, t = sl_expr(node.args[0], sym, assigns, depth + 1)
            if t in ("Nat", "Lit"):
                return e, t                                       # int() of a natural number
            raise Untranslatable("int() of something that is not a natural number")
        if fn == "int" and len(node.args) == 1 and isinstance(node.args[0], ast.BinOp) \
                and isinstance(node.args[0].op, ast.Div):
            a, at = sl_expr(node.args[0].left, sym, assigns, depth + 1)
            b, bt = sl_expr(node.args[0].right, sym, assigns, depth + 1)
            if {at, bt} <= {"Nat", "Lit"}:
                return f"({a} / {b})", "Nat"          # truncation of a quotient of naturals = floor division
            raise Untranslatable("int() of a quotient that is not over naturals")
        if fn == "min" and len(node.args) == 2:
            a, at = sl_expr(node.args[0], sym, assigns, depth + 1)
            b, bt = sl_expr(node.args[1], sym, assigns, depth + 1)
            return f"(if {rat(a, at)} ≤ {rat(b, bt)} then {rat(a, at)} else {rat(b, bt)})", "Rat"
        if fn == "max" and len(node.args) == 2:
            a, at = sl_expr(node.args[0], sym, assigns, depth + 1)
            b, bt = sl_expr(node.args[1], sym, assigns, depth + 1)
            return f"(if {rat(a, at)} ≤ {rat(b, bt)} then {rat(b, bt)} else {rat(a, at)})", "Rat"
        if fn in ("np.sqrt", "np.log", "np.exp") and len(node.args) == 1 and not node.keywords:
            e, t = sl_expr(node.args[0], sym, assigns, depth + 1)
            return f"({ {'np.sqrt': 'sq', 'np.log': 'ln', 'np.exp': 'ex'}[fn]} {rat(e, t)})", "Rat"
        raise Untranslatable(f"call {fn}(...)")
    if isinstance(node, ast.IfExp):
        ttext = ast.unparse(node.test)
        if ttext not in sym or sym[ttext][1] != "Bool":
            raise Untranslatable(f"condition {ttext[:60]}")
        a, at = sl_expr(node.body, sym, assigns, depth + 1)
        b, bt = sl_expr(node.orelse, sym, assigns, depth + 1)
        if {at, bt} <= {"Nat", "Lit"}:
            return f"(if {sym[ttext][0]} then {a} else {b})", "Nat"
        return f"(if {sym[ttext][0]} then {rat(a, at)} else {rat(b, bt)})", "Rat"
    raise Untranslatable(f"expression {text[:60]}")


def rat(e, t):
    return f"(({e} : Nat) : Rat)" if t == "Nat" else (f"({e} : Rat)" if t == "Lit" else e)


def straightline(repo, spec):
    """Symbolic execution of a straight-line function body; returns {output name: (lean, type)} and a source digest."""
    tree = ast.parse(open(os.path.join(repo, spec["file"])).read())
    func = find_function(tree, spec["func"])
    sym = {k: v for k, v in spec["inputs"].items()}
    src = []
    for st in func.body:
        if isinstance(st, ast.Expr) and isinstance(st.value, ast.Constant):
            continue                                                    # docstring
        if isinstance(st, ast.Assign) and len(st.targets) == 1 and isinstance(st.targets[0], (ast.Name, ast.Attribute)):
            sym[ast.unparse(st.targets[0])] = sl_expr(st.value, sym)
        elif isinstance(st, ast.AugAssign) and isinstance(st.target, (ast.Name, ast.Attribute)):
            sym[ast.unparse(st.target)] = sl_expr(ast.BinOp(left=st.target, op=st.op, right=st.value), sym)
        elif isinstance(st, ast.Return) and st.value is None:
            break
        elif isinstance(st, ast.If) and not st.orelse and len(st.body) == 1 and isinstance(st.body[0], ast.Raise):
            # a validation guard (`if <cond>: raise ...`): the translated function is the update on accepted input
            src.append(f"[guard: if {' '.join(ast.unparse(st.test).split())[:80]}: raise]")
            continue
        else:
            raise Untranslatable(f"statement {type(st).__name__} at line {st.lineno}")
        src.append(" ".join(ast.unparse(st).split()))
    out = {}
    for oname, target in spec["outputs"].items():
        if target not in sym:
            raise Untranslatable(f"{target} is never assigned")
        out[oname] = sym[target]
    return out, func.lineno, "; ".join(src)


def chain(repo, spec):
    """`if t1: return e1 ... raise/return` -> nested `if` of type Option <result>; returns (lean, line, source digest)."""
    tree = ast.parse(open(os.path.join(repo, spec["file"])).read())
    func = find_function(tree, spec["func"])
    sym = dict(spec["inputs"])
    want = spec["result"]
    branches, final, src = [], None, []
    closed = False
    for st in func.body:
        if isinstance(st, ast.Expr) and isinstance(st.value, ast.Constant):
            continue                                                    # docstring
        if closed:
            raise Untranslatable(f"statement after the closing raise / return at line {st.lineno}")
        if isinstance(st, ast.If) and not st.orelse and len(st.body) == 1 and isinstance(st.body[0], ast.Return) \
                and st.body[0].value is not None:
            ttext = ast.unparse(st.test)
            if ttext not in sym or sym[ttext][1] != "Bool":
                raise Untranslatable(f"condition {ttext[:60]}")
            e, t = sl_expr(st.body[0].value, sym)
            if t != want:
                raise Untranslatable(f"branch `{ttext[:40]}` returns {t}, expected {want}")
            branches.append((sym[ttext][0], e))
            src.append(f"if {ttext}: return {ast.unparse(st.body[0].value)}")
        elif isinstance(st, ast.Raise):
            final, closed = "none", True
            src.append("raise")
        elif isinstance(st, ast.Return) and st.value is not None:
            e, t = sl_expr(st.value, sym)
            if t != want:
                raise Untranslatable(f"final return has type {t}, expected {want}")
            final, closed = f"some {e}", True
            src.append(f"return {ast.unparse(st.value)}")
        else:
            raise Untranslatable(f"statement {type(st).__name__} at line {st.lineno}")
    if final is None:
        raise Untranslatable("the chain is not closed by a raise or a return")
    expr = final
    for c, e in reversed(branches):
        expr = f"if {c} then some {e} else {expr}"
    return expr, func.lineno, "; ".join(src)


def translate(repo, out_path):
    """Regenerate out_path from the source tree `repo`.  Returns (records, changed)."""
    recs = []
    lines = ["/-! GENERATED by harness/translate/formulas.py from the source tree under check -- do not edit.",
             "Arithmetic core formulas of pyribs as rational functions (same operator tree as the Python expression).",
             "`PyribsProofs/GenF.lean` proves each of them equal to the hand-written model's function. -/",
             "namespace Pyribs.GenF", ""]
    for spec in SPECS:
        binder = " ".join(f"({v} : {'Nat' if v in spec['nat'] else 'Rat'})" for v in spec["vars"])
        try:
            expr, line, src = translate_one(repo, spec)
            ok, why = True, ""
        except (Untranslatable, SyntaxError, OSError, StopIteration) as e:
            expr, line, src, ok, why = "0", 0, "", False, str(e)
        src1 = " ".join(src.split())
        lines.append(f"/-- `{spec['file']}:{spec['func']}`" + (f" line {line}: `{src1[:160]}`" if ok else
                                                                f" -- TRANSLATION FAILED: {why}") + " -/")
        lines.append(f"def {spec['name']} {binder} : Rat :=\n  {expr}")
        lines.append("")
        recs.append({"name": spec["name"], "file": spec["file"], "func": spec["func"], "line": line, "ok": ok,
                     "why": why, "python": src1[:200], "lean": expr})
    for spec in TYPED_SPECS:
        binder = " ".join(f"({v} : {t})" for v, t in spec["vars"])
        try:
            tree = ast.parse(open(os.path.join(repo, spec["file"])).read())
            func = find_function(tree, spec["func"])
            if "ret" in spec:
                rets = sorted((n.lineno, n) for n in ast.walk(func) if isinstance(n, ast.Return) and n.value is not None)
                if len(rets) <= spec["ret"]:
                    raise Untranslatable("no return statement")
                node = rets[spec["ret"]][1].value
            elif "aug" in spec:
                augs = sorted((n.lineno, n) for n in ast.walk(func)
                              if isinstance(n, ast.AugAssign) and ast.unparse(n.target) == spec["aug"])
                if len(augs) <= spec["nth"]:
                    raise Untranslatable(f"no augmented assignment to {spec['aug']}")
                a_ = augs[spec["nth"]][1]
                node = ast.copy_location(ast.BinOp(left=a_.target, op=a_.op, right=a_.value), a_)
            else:
                vals = assignments(func).get(spec["assign"], [])
                if len(vals) <= spec["nth"]:
                    raise Untranslatable(f"no assignment to {spec['assign']}")
                node = vals[spec["nth"]]
            e, t = sl_expr(node, dict(spec["inputs"]), assignments(func))
            if (t == "Nat") != (spec["result"] == "Nat"):
                raise Untranslatable(f"result type {t}, expected {spec['result']}")
            expr, line, src, ok, why = (e if t == "Nat" else rat(e, t)), node.lineno, ast.unparse(node), True, ""
        except (Untranslatable, SyntaxError, OSError, StopIteration) as ex:
            expr, line, src, ok, why = "0", 0, "", False, str(ex)
        src1 = " ".join(src.split())
        lines.append(f"/-- `{spec['file']}:{spec['func']}`" + (f" line {line}: `{src1[:160]}`" if ok else
                                                                f" -- TRANSLATION FAILED: {why}") + " -/")
        lines.append(f"def {spec['name']} {binder} : {spec['result']} :=\n  {expr}")
        lines.append("")
        recs.append({"name": spec["name"], "file": spec["file"], "func": spec["func"], "line": line, "ok": ok,
                     "why": why, "python": src1[:200], "lean": expr})
    for spec in CHAIN_SPECS:
        binder = " ".join(f"({v} : {t})" for v, t in spec["vars"])
        try:
            expr, line, src = chain(repo, spec)
            ok, why = True, ""
        except (Untranslatable, SyntaxError, OSError, StopIteration) as ex:
            expr, line, src, ok, why = "none", 0, "", False, str(ex)
        lines.append(f"/-- `{spec['file']}:{spec['func']}`" + (f" line {line}, return chain: `{src[:300]}`" if ok else
                                                                f" -- TRANSLATION FAILED: {why}") + " -/")
        lines.append(f"def {spec['name']} {binder} : Option {spec['result']} :=\n  {expr}")
        lines.append("")
        recs.append({"name": spec["name"], "file": spec["file"], "func": spec["func"], "line": line, "ok": ok,
                     "why": why, "python": src[:300], "lean": expr})
    for spec in SL_SPECS:
        binder = " ".join(f"({v} : {t})" for v, t in spec["vars"])
        try:
            outs, line, src = straightline(repo, spec)
            ok, why = True, ""
        except (Untranslatable, SyntaxError, OSError, StopIteration) as e:
            outs, line, src, ok, why = {o: ("0", "Lit") for o in spec["outputs"]}, 0, "", False, str(e)
        lines.append(f"/-- `{spec['file']}:{spec['func']}`" + (f" line {line}, straight-line body: `{src[:400]}`" if ok
                                                                else f" -- TRANSLATION FAILED: {why}") + " -/")
        for oname, (e, t) in outs.items():
            ty = "Nat" if t == "Nat" else "Rat"
            body = e if t == "Nat" else rat(e, t)
            lines.append(f"def {spec['name']}{oname} {binder} : {ty} :=\n  {body}")
        lines.append("")
        recs.append({"name": spec["name"], "file": spec["file"], "func": spec["func"], "line": line, "ok": ok,
                     "why": why, "python": src[:300], "lean": "; ".join(f"{o} := {e}" for o, (e, _) in outs.items())})
    lines.append("end Pyribs.GenF")
    text = "\n".join(lines) + "\n"
    old = open(out_path).read() if os.path.exists(out_path) else None
    changed = old != text
    if changed:
        tmp = out_path + f".tmp{os.getpid()}"
        with open(tmp, "w") as f:
            f.write(text)
        os.replace(tmp, out_path)
    return recs, changed


if __name__ == "__main__":
    import sys
    r, ch = translate(sys.argv[1] if len(sys.argv) > 1 else "/repo",
                      sys.argv[2] if len(sys.argv) > 2 else "/verif/lean/PyribsGen/Formulas.lean")
    for x in r:
        print(("ok  " if x["ok"] else "FAIL") + f" {x['name']:16s} {x['file']}:{x['line']}  {x['lean'] if x['ok'] else x['why']}")
    print("rewritten" if ch else "unchanged")
