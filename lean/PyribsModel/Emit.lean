import PyribsModel.Util
/-!
# Emit — model of what the emitters' `ask` returns (property C08)

Core Lean only.  Every float is an exact rational; an infinite bound is `none`.

Code shape (what mirrors what):
* `clip1`, `clipRow`, `clipRows` ↔ `np.clip(x, lower_bounds, upper_bounds)` (= `minimum(maximum(x, lo), hi)`,
                                    broadcast over the rows of a batch);
* `parseBounds`               ↔ `EmitterBase._process_bounds` (`ribs/emitters/_emitter_base.py`);
* `gaussRow`, `gaussianOp`    ↔ `GaussianOperator.ask` (`operators/_gaussian.py`);
* `isoRow`, `isoLineOp`       ↔ `IsoLineOperator.ask` (`operators/_iso_line.py`);
* `gopLineRow`, `gopLineOp`   ↔ the `iso_line_dd` branch of `GradientOperatorEmitter.ask_dqd`;
* `emitterAsk`                ↔ `GaussianEmitter.ask`, `IsoLineEmitter.ask`, `GeneticAlgorithmEmitter.ask`,
                                 and `GradientOperatorEmitter.ask_dqd` (parent provenance);
* `fill`, `resample`          ↔ the `remaining_indices` loop in `opt/_cma_es.py`, `_sep_cma_es.py`,
                                 `_lm_ma_es.py`, `_openai_es.py` (`ask`);
* `DType`, `askDType`         ↔ NumPy's result-type rule applied to the expression each `ask` evaluates.
-/
namespace Pyribs.Emit

abbrev Row := List Rat
/-- one dimension's `(lower, upper)`; `none` is −∞ resp. +∞ -/
abbrev Bnd := Option Rat × Option Rat
abbrev Bounds := List Bnd

inductive Err | value | index | runtime
deriving DecidableEq, Repr

/-! ## clipping -/

/-- `np.maximum(x, lo)` with `lo = none` meaning −∞ -/
def maxLo (lo : Option Rat) (x : Rat) : Rat :=
  match lo with
  | some l => if x < l then l else x
  | none => x

/-- `np.minimum(y, hi)` with `hi = none` meaning +∞ -/
def minHi (hi : Option Rat) (y : Rat) : Rat :=
  match hi with
  | some h => if h < y then h else y
  | none => y

/-- `np.clip(x, lo, hi)` on one coordinate: `minimum(maximum(x, lo), hi)` -/
def clip1 (lo hi : Option Rat) (x : Rat) : Rat := minHi hi (maxLo lo x)

/-- `lo ≤ y ≤ hi` (as a Boolean, for the executable parts) -/
def inB1 (lo hi : Option Rat) (y : Rat) : Bool :=
  (match lo with | some l => decide (l ≤ y) | none => true) &&
  (match hi with | some h => decide (y ≤ h) | none => true)

def clipRow (b : Bounds) (x : Row) : Row := List.zipWith (fun b x => clip1 b.1 b.2 x) b x
def clipRows (b : Bounds) (xs : List Row) : List Row := xs.map (clipRow b)

/-- every coordinate of the row is inside its bounds (rows shorter/longer than the bounds: false) -/
def inBRow : Bounds → Row → Bool
  | [], [] => true
  | b :: bs, y :: ys => inB1 b.1 b.2 y && inBRow bs ys
  | _, _ => false

/-! ## `_process_bounds` -/

/-- what the caller may pass for one dimension: `None`, or a sequence of entries each of which is
a number or `None` (only sequences of length 2 are accepted) -/
inductive BndArg
  | none
  | seq (entries : List (Option Rat))
deriving Repr

/-- the `for idx, bnd in enumerate(bounds)` body -/
def parseOne : BndArg → Except Err Bnd
  | .none => .ok (none, none)
  | .seq [lo, hi] => .ok (lo, hi)
  | .seq _ => .error .value          -- "All entries of bounds must be length 2"

def parseAll : List BndArg → Except Err Bounds
  | [] => .ok []
  | a :: as =>
    match parseOne a with
    | .error e => .error e
    | .ok b =>
      match parseAll as with
      | .error e => .error e
      | .ok bs => .ok (b :: bs)

/-- `EmitterBase._process_bounds(bounds, solution_dim, dtype)` (values only; dtype is `askDType`'s business) -/
def parseBounds (arg : Option (List BndArg)) (dim : Nat) : Except Err Bounds :=
  match arg with
  | none => .ok (List.replicate dim (none, none))
  | some l =>
    if l.length ≠ dim then .error .value     -- "bounds must have the same length as x0"
    else parseAll l

def lowers (b : Bounds) : List (Option Rat) := b.map (·.1)
def uppers (b : Bounds) : List (Option Rat) := b.map (·.2)

/-! ## operators -/

def addRow (p n : Row) : Row := List.zipWith (· + ·) p n

/-- one row of `GaussianOperator.ask`: `np.clip(parents + noise, lower, upper)` -/
def gaussRow (b : Bounds) (p n : Row) : Row := clipRow b (addRow p n)

/-- `GaussianOperator.ask(parents)` given the noise it drew -/
def gaussianOp (b : Bounds) (parents noise : List Row) : List Row :=
  List.zipWith (gaussRow b) parents noise

/-- un-clipped Iso+LineDD row: `elites + iso_gaussian + line_gaussian * directions`,
`directions = parents[1] - parents[0]` -/
def isoRaw (p₁ p₂ iso : Row) (line : Rat) : Row :=
  addRow (addRow p₁ iso) ((List.zipWith (· - ·) p₂ p₁).map (line * ·))

def isoRow (b : Bounds) (p₁ p₂ iso : Row) (line : Rat) : Row := clipRow b (isoRaw p₁ p₂ iso line)

/-- zipWith over four lists, stopping at the shortest -/
def zipWith4 {α β γ δ ε} (f : α → β → γ → δ → ε) : List α → List β → List γ → List δ → List ε
  | a :: as, b :: bs, c :: cs, d :: ds => f a b c d :: zipWith4 f as bs cs ds
  | _, _, _, _ => []

/-- `IsoLineOperator.ask(parents)` with `parents[0] = p₁s`, `parents[1] = p₂s` given its two noise draws -/
def isoLineOp (b : Bounds) (p₁s p₂s isos : List Row) (lines : List Rat) : List Row :=
  zipWith4 (isoRow b) p₁s p₂s isos lines

/-- `GradientOperatorEmitter.ask_dqd`, `iso_line_dd` branch:
`clip(parents + line_gaussian * (second − parents) + noise)` -/
def gopLineRaw (p₁ p₂ noise : Row) (line : Rat) : Row :=
  addRow (addRow p₁ ((List.zipWith (· - ·) p₂ p₁).map (line * ·))) noise

def gopLineRow (b : Bounds) (p₁ p₂ noise : Row) (line : Rat) : Row := clipRow b (gopLineRaw p₁ p₂ noise line)

def gopLineOp (b : Bounds) (p₁s p₂s noises : List Row) (lines : List Rat) : List Row :=
  zipWith4 (gopLineRow b) p₁s p₂s noises lines

/-! ## parent provenance: the emitters' `ask` -/

inductive OpKind
  | gaussian     -- GaussianEmitter, GeneticAlgorithmEmitter(operator="gaussian"), GradientOperatorEmitter isotropic
  | isoline      -- IsoLineEmitter, GeneticAlgorithmEmitter(operator="isoline")
  | gopLine      -- GradientOperatorEmitter(operator_type="iso_line_dd").ask_dqd
deriving DecidableEq, Repr

structure Cfg where
  kind   : OpKind
  dim    : Nat
  batch  : Nat
  x0     : Option Row            -- exactly one of x0 / init is set (constructor check)
  init   : Option (List Row)
  bounds : Bounds
  /-- GradientOperatorEmitter.ask_dqd returns *no* rows (documented) instead of the initial solutions -/
  dqd    : Bool

/-- the randomness one `ask` consumed: indices drawn by `archive.sample_elites` (into the
insertion-ordered rows of the archive) and the operator's noise -/
structure Draws where
  idx   : List Nat
  idx₂  : List Nat      -- second `sample_elites` call (gopLine only)
  noise : List Row
  lines : List Rat

def pick (archive : List Row) (idx : List Nat) : Except Err (List Row) :=
  idx.mapM (fun i => match archive[i]? with | some r => .ok r | none => .error .index)

/-- `GaussianEmitter.ask` / `IsoLineEmitter.ask` / `GeneticAlgorithmEmitter.ask` /
`GradientOperatorEmitter.ask_dqd`. -/
def emitterAsk (c : Cfg) (archive : List Row) (d : Draws) : Except Err (List Row) :=
  if archive.isEmpty then
    match c.init with
    | some I => .ok (if c.dqd then [] else clipRows c.bounds I)
    | none =>
      match c.x0 with
      | none => .error .value
      | some x0 =>
        match c.kind with
        | .gaussian => .ok (gaussianOp c.bounds (List.replicate c.batch x0) d.noise)
        | .isoline =>
          .ok (isoLineOp c.bounds (List.replicate c.batch x0) (List.replicate c.batch x0) d.noise d.lines)
        | .gopLine =>
          -- repaired behaviour: the line has zero length when there is nothing to point at
          .ok (gopLineOp c.bounds (List.replicate c.batch x0) (List.replicate c.batch x0) d.noise d.lines)
  else
    match c.kind with
    | .gaussian =>
      if d.idx.length ≠ c.batch then .error .value else
      match pick archive d.idx with
      | .error e => .error e
      | .ok ps => .ok (gaussianOp c.bounds ps d.noise)
    | .isoline =>
      -- `sample_elites(2 * batch)["solution"].reshape(2, batch, -1)`
      if d.idx.length ≠ 2 * c.batch then .error .value else
      match pick archive d.idx with
      | .error e => .error e
      | .ok ps => .ok (isoLineOp c.bounds (ps.take c.batch) (ps.drop c.batch) d.noise d.lines)
    | .gopLine =>
      if d.idx.length ≠ c.batch ∨ d.idx₂.length ≠ c.batch then .error .value else
      match pick archive d.idx, pick archive d.idx₂ with
      | .ok ps, .ok qs => .ok (gopLineOp c.bounds ps qs d.noise d.lines)
      | .error e, _ => .error e
      | _, .error e => .error e

/-! ## the resample-until-in-bounds loop -/

/-- where a returned row came from: candidate number `pos` of the `count` candidates drawn in `round` -/
structure Entry where
  row   : Row
  round : Nat
  count : Nat
  pos   : Nat
deriving Repr, DecidableEq

/-- one slot of `self._solutions`: settled (in bounds) or still listed in `remaining_indices` -/
inductive Slot
  | done (e : Entry)
  | pending
deriving Repr

def pendingCount : List Slot → Nat
  | [] => 0
  | .pending :: ss => pendingCount ss + 1
  | .done _ :: ss => pendingCount ss

/-- One pass of the loop body: `self._solutions[remaining_indices] = new_solutions` followed by
`remaining_indices = remaining_indices[np.any(out_of_bounds, axis=1)]`.  `remaining_indices` is
ascending, so the k-th pending slot receives the k-th candidate.  `none`: the number of candidates
is not the number of remaining rows (NumPy would raise). -/
def fill (inB : Row → Bool) (round count : Nat) : List Slot → List Row → Nat → Option (List Slot)
  | [], [], _ => some []
  | [], _ :: _, _ => none
  | .done e :: ss, cs, p => (fill inB round count ss cs p).map (Slot.done e :: ·)
  | .pending :: _, [], _ => none
  | .pending :: ss, c :: cs, p =>
    (fill inB round count ss cs (p + 1)).map
      ((if inB c then Slot.done ⟨c, round, count, p⟩ else Slot.pending) :: ·)

def settled : List Slot → List Entry
  | [] => []
  | .done e :: ss => e :: settled ss
  | .pending :: ss => settled ss

/-- `while len(remaining_indices) > 0:` — `draw round count` is the batch of candidates the strategy
produces in that round (the transform of fresh normal draws); `none` = did not return within `fuel`
rounds (or a draw of the wrong size). -/
def resampleFrom (draw : Nat → Nat → List Row) (inB : Row → Bool) :
    Nat → Nat → List Slot → Option (List Entry)
  | fuel, round, slots =>
    if pendingCount slots = 0 then some (settled slots) else
    match fuel with
    | 0 => none
    | fuel + 1 =>
      match fill inB round (pendingCount slots) slots (draw round (pendingCount slots)) 0 with
      | none => none
      | some slots' => resampleFrom draw inB fuel (round + 1) slots'

/-- `ask(batch_size)` of a resampling strategy -/
def resample (draw : Nat → Nat → List Row) (inB : Row → Bool) (fuel batch : Nat) : Option (List Entry) :=
  resampleFrom draw inB fuel 0 (List.replicate batch .pending)

/-! ## dtype algebra -/

inductive DType | f32 | f64
deriving DecidableEq, Repr

/-- NumPy promotion of two floating dtypes -/
def DType.promote : DType → DType → DType
  | .f32, .f32 => .f32
  | _, _ => .f64

inductive EmitterKind
  | gaussian | isoLine | gaGaussian | gaIsoLine       -- the clipping emitters
  | gopAskDqd | gopAsk | gopAskMeasureGrads           -- GradientOperatorEmitter
  | evolutionStrategy                                 -- EvolutionStrategyEmitter (any strategy)
  | gaeAskDqd | gaeAsk                                -- GradientArborescenceEmitter
deriving DecidableEq, Repr

def EmitterKind.all : List EmitterKind :=
  [.gaussian, .isoLine, .gaGaussian, .gaIsoLine, .gopAskDqd, .gopAsk, .gopAskMeasureGrads,
   .evolutionStrategy, .gaeAskDqd, .gaeAsk]

/-- dtype of the array `ask` returns, as a function of the archive's solution dtype, the dtype of
the bounds arrays and the dtype of the Jacobian handed to `tell_dqd` — **repaired** expressions:
operators compute in the parents' dtype and clip against the bounds arrays; the gradient emitters
cast to the solution dtype before clipping / returning. -/
def askDType (k : EmitterKind) (sol bnd _jac : DType) : DType :=
  match k with
  | .gaussian | .isoLine | .gaGaussian | .gaIsoLine => sol.promote bnd   -- np.clip(parents + noise.astype(sol), lo, hi)
  | .gopAskDqd => sol.promote bnd                                        -- np.clip(parents + noise.astype(sol), lo, hi)
  | .gopAsk | .gopAskMeasureGrads => sol.promote bnd                     -- np.clip(sols.astype(sol), lo, hi)
  | .evolutionStrategy => sol                                            -- the strategy is created with dtype=sol
  | .gaeAskDqd => sol                                                    -- theta (x0 / an elite, both sol)
  | .gaeAsk => sol                                                       -- (theta + Σ J·c).astype(sol)

/-- the same on the unchanged tree (negative examples): `GradientOperatorEmitter.ask` returns
`offsets + parents` un-cast (the coefficients are float64 draws when measure gradients are on), and
`GradientArborescenceEmitter.ask` returns `theta + Σ J·c` un-cast. -/
def askDTypeCurrent (k : EmitterKind) (sol bnd jac : DType) : DType :=
  match k with
  | .gopAsk => (sol.promote bnd).promote jac            -- parents (clipped: sol ∨ bnd) + jacobian * sigma_g
  | .gopAskMeasureGrads => .f64                         -- jacobian * float64 noise
  | .gaeAsk => sol.promote jac
  | k => askDType k sol bnd jac

/-- repaired `EmitterBase.__init__`: bounds arrays are created in the solution dtype -/
def boundsDType (sol _meas : DType) : DType := sol
/-- unchanged tree (D12): bounds arrays are created in the *measures* dtype -/
def boundsDTypeCurrent (_sol meas : DType) : DType := meas

end Pyribs.Emit
