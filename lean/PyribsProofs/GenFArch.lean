import PyribsGen.Control
import PyribsGen.Formulas
import PyribsModel.Archive
import PyribsProofs.GenF
import Mathlib.Tactic.Linarith
/-!
# GenFArch — the archive model's *decision logic* is the decision logic of the source tree under check

`PyribsGen/Control.lean` is regenerated on every run by `harness/translate/control.py`: the `if`
tree of `single_entry_with_threshold`, of the head of `batch_entries_with_threshold` (status,
value, choice of the new threshold), of `compute_objective_sum` and of the `obj_max` rule of
`ArchiveBase._stats_update`, one row of a batch at a time, floats read as `Pyribs.E`
(`-inf` / finite / anything else).  The theorems below state that each generated definition, fed
with the model's view of the pre-call cell (`occupied = pre.isSome`, the cell's threshold,
`threshold_min = none ↦ -inf`), equals the function the hand-written archive model uses — for every
configuration, every pre-call cell and every candidate.  A change of the source that alters a
comparison (`<` to `<=`), swaps the status codes, judges the value against another reference, drops
the `-inf` special case or replaces the `obj_max` test makes the corresponding theorem fail to
compile.  Since every right-hand side is `E.fin …`, the theorems also say that no arithmetic in
these paths touches `threshold_min = -inf`.
-/
namespace Pyribs.GenFProofs
open Pyribs Pyribs.Arch

/-- the stored threshold of the pre-call cell as the code reads it (`cur_data["threshold"]`; the
value of an unoccupied cell is unspecified — every theorem holds for any finite value there) -/
def thrE (pre : Option Elite) (junk : Rat) : E := E.fin ((pre.map (·.thr)).getD junk)

/-- the stored objective of the pre-call cell (`cur_data["objective"]`) -/
def objE (pre : Option Elite) (junk : Rat) : E := E.fin ((pre.map (·.obj)).getD junk)

/-! ### `single_entry_with_threshold` -/

/-- **GA1** status of `add_single` from the source = `Arch.status` -/
theorem single_status_from_source (cfg : Cfg) (pre : Option Elite) (c : Cand) (junk : Rat) :
    GenC.singleStatus pre.isSome (thrE pre junk) (E.ofOpt cfg.tmin) (E.fin cfg.lr) (E.fin c.obj)
      = status cfg pre c := by
  unfold GenC.singleStatus status canInsert cmpThr thrE
  cases pre <;> cases h : cfg.tmin <;> simp [E.ofOpt, E.lt, E.isNegInf]

/-- **GA2** value of `add_single` from the source = objective − `Arch.baseline`, a finite number -/
theorem single_value_from_source (cfg : Cfg) (pre : Option Elite) (c : Cand) (junk : Rat) :
    GenC.singleValue pre.isSome (thrE pre junk) (E.ofOpt cfg.tmin) (E.fin cfg.lr) (E.fin c.obj)
      = E.fin (judge cfg pre c).2 := by
  unfold GenC.singleValue judge baseline thrE
  cases pre <;> cases h : cfg.tmin <;> simp [E.ofOpt, E.isNegInf, E.sub, E.lift2]

/-- **GA3** the threshold `add_single` writes: none when the status is 0, else `Arch.newThrSingle` -/
theorem single_newthr_from_source (cfg : Cfg) (pre : Option Elite) (c : Cand) (junk : Rat) :
    GenC.singleNewThr pre.isSome (thrE pre junk) (E.ofOpt cfg.tmin) (E.fin cfg.lr) (E.fin c.obj)
      = if status cfg pre c = 0 then none else some (E.fin (newThrSingle cfg pre c)) := by
  unfold GenC.singleNewThr status canInsert cmpThr newThrSingle baseline thrE
  cases pre <;> cases h : cfg.tmin <;>
    simp [E.ofOpt, E.lt, E.isNegInf, E.add, E.sub, E.mul, E.lift2] <;>
    split <;> simp_all

/-- **GA4** `add_single` hands the row to the store exactly when the status is not 0 -/
theorem single_writes_from_source (cfg : Cfg) (pre : Option Elite) (c : Cand) (junk : Rat) :
    GenC.singleWrites pre.isSome (thrE pre junk) (E.ofOpt cfg.tmin) (E.fin cfg.lr) (E.fin c.obj)
      = decide (status cfg pre c ≠ 0) := by
  have h := single_status_from_source cfg pre c junk
  unfold GenC.singleStatus at h
  unfold GenC.singleWrites
  rw [h]
  by_cases hs : status cfg pre c = 0 <;> simp [hs]

/-- the rows `add_single` writes, read off the generated definitions only -/
def singleWritesOf (cfg : Cfg) (pre : Option Elite) (r : Nat × Cand) : List (Nat × Elite) :=
  match GenC.singleNewThr pre.isSome (thrE pre 0) (E.ofOpt cfg.tmin) (E.fin cfg.lr) (E.fin r.2.obj) with
  | some (E.fin t) => [(r.1, r.2.withThr t)]
  | _ => []

/-- **GA5** the whole of `Arch.addSingle` — what is written, the status and the value returned — is
determined by the definitions generated from the source -/
theorem add_single_from_source (a : Arch) (r : Nat × Cand) :
    a.addSingle r =
      (a.commit (singleWritesOf a.cfg (a.store.cells r.1) r),
       (GenC.singleStatus (a.store.cells r.1).isSome (thrE (a.store.cells r.1) 0) (E.ofOpt a.cfg.tmin)
          (E.fin a.cfg.lr) (E.fin r.2.obj),
        (judge a.cfg (a.store.cells r.1) r.2).2)) := by
  unfold addSingle singleWritesOf
  rw [single_newthr_from_source, single_status_from_source]
  by_cases hs : status a.cfg (a.store.cells r.1) r.2 = 0 <;> simp [hs, judge]

/-! ### head of `batch_entries_with_threshold` -/

/-- **GA6** `can_insert` of a batch row from the source = `Arch.canInsert` -/
theorem batch_caninsert_from_source (cfg : Cfg) (pre : Option Elite) (c : Cand) (junk : Rat) (x : E) :
    GenC.batchCanInsert pre.isSome (thrE pre junk) (E.ofOpt cfg.tmin) (E.fin c.obj) x
      = canInsert cfg pre c := by
  unfold GenC.batchCanInsert canInsert cmpThr thrE
  cases pre <;> cases h : cfg.tmin <;> simp [E.ofOpt, E.lt]

/-- **GA7** status of a batch row from the source = `Arch.status` (so `add` and `add_single` judge alike) -/
theorem batch_status_from_source (cfg : Cfg) (pre : Option Elite) (c : Cand) (junk : Rat) (x : E) :
    GenC.batchStatus pre.isSome (thrE pre junk) (E.ofOpt cfg.tmin) (E.fin c.obj) x
      = status cfg pre c := by
  unfold GenC.batchStatus status canInsert cmpThr thrE
  cases pre <;> cases h : cfg.tmin <;> simp [E.ofOpt, E.lt]

/-- **GA8** value of a batch row from the source = objective − `Arch.baseline`, finite for every row
(also for a rejected row of an empty cell) -/
theorem batch_value_from_source (cfg : Cfg) (pre : Option Elite) (c : Cand) (junk : Rat) (x : E) :
    GenC.batchValue pre.isSome (thrE pre junk) (E.ofOpt cfg.tmin) (E.fin c.obj) x
      = E.fin (judge cfg pre c).2 := by
  unfold GenC.batchValue judge baseline thrE
  cases pre <;> cases h : cfg.tmin <;>
    simp [E.ofOpt, E.lt, E.isNegInf, E.sub, E.lift2]

/-- batch and single path agree on status and value, read off the generated definitions alone -/
theorem batch_single_agree_from_source (occ : Bool) (t tmin lr f x : Rat) (tm : Option Rat) :
    GenC.batchStatus occ (E.fin t) (E.ofOpt tm) (E.fin f) (E.fin x)
      = GenC.singleStatus occ (E.fin t) (E.ofOpt tm) (E.fin lr) (E.fin f) ∧
    GenC.batchValue occ (E.fin t) (E.ofOpt tm) (E.fin f) (E.fin x)
      = GenC.singleValue occ (E.fin t) (E.ofOpt tm) (E.fin lr) (E.fin f) := by
  have _ := tmin
  let cfg : Cfg := ⟨lr, tm, 0⟩
  let pre : Option Elite := if occ then some ⟨0, 0, [], t⟩ else none
  let c : Cand := ⟨0, f, []⟩
  have hocc : pre.isSome = occ := by cases occ <;> simp [pre]
  have hthr : thrE pre t = E.fin t := by cases occ <;> simp [pre, thrE]
  have h1 := batch_status_from_source cfg pre c t (E.fin x)
  have h2 := single_status_from_source cfg pre c t
  have h3 := batch_value_from_source cfg pre c t (E.fin x)
  have h4 := single_value_from_source cfg pre c t
  rw [hocc, hthr] at h1 h2 h3 h4
  exact ⟨h1.trans h2.symm, h3.trans h4.symm⟩

/-- **GA9** the threshold a batch writes for the winner of a cell: the winner's objective in an
elitist archive, else `_compute_thresholds` (whose formula is `GenF.batchThreshold`, G05a) applied to
the baseline, the sum and the count of the accepted rows of that cell = `Arch.newThrBatch` -/
theorem batch_newthr_from_source (cfg : Cfg) (pre : Option Elite) (accI : List Cand) (w : Cand)
    (occ : Bool) (t : E) :
    GenC.batchNewThr occ t (E.ofOpt cfg.tmin) (E.fin w.obj)
        (E.fin (GenF.batchThreshold cfg.lr (baseline cfg pre) (objSum accI) accI.length))
      = E.fin (newThrBatch cfg pre accI w) := by
  unfold GenC.batchNewThr
  cases h : cfg.tmin with
  | none => simp [E.ofOpt, E.isNegInf, newThrBatch, h]
  | some tm => simp [E.ofOpt, E.isNegInf, batch_threshold_matches cfg tm h pre accI w]

/-! ### `compute_objective_sum` and the `obj_max` rule of `_stats_update` -/

/-- **GA10** the term `compute_objective_sum` sums over the written rows is the term of
`Arch.objSumDelta`: new objective minus the replaced one, an empty cell counting 0 -/
theorem objsum_term_from_source (pre : Option Elite) (w : Elite) (junk : Rat) (s sg : E) (nr : Bool) :
    GenC.objSumTerm pre.isSome (objE pre junk) (E.fin w.obj) s nr sg
      = E.fin (w.obj - ((pre.map (·.obj)).getD 0)) := by
  unfold GenC.objSumTerm objE
  cases pre <;> simp [E.sub, E.lift2]

/-- `Arch.objSumDelta` is the sum of the generated term over the written rows -/
theorem objsum_delta_from_source (pre : Nat → Option Elite) (ws : List (Nat × Elite)) :
    (ws.map (fun w => GenC.objSumTerm (pre w.1).isSome (objE (pre w.1) 0) (E.fin w.2.obj) E.bad false E.bad))
      = (ws.map (fun w => E.fin (w.2.obj - (((pre w.1).map (·.obj)).getD 0)))) ∧
    objSumDelta pre ws = (ws.map (fun w => w.2.obj - (((pre w.1).map (·.obj)).getD 0))).sum := by
  refine ⟨?_, rfl⟩
  apply List.map_congr_left
  intro w _
  exact objsum_term_from_source (pre w.1) w.2 0 E.bad E.bad false

/-- **GA11** the new objective sum: unchanged when nothing is written, else old sum + Σ term — the
combination `Arch.commit` uses -/
theorem objsum_new_from_source (s d : Rat) (occ : Bool) (o f : E) (nr : Bool) :
    GenC.objSumNew occ o f (E.fin s) nr (E.fin d) = E.fin (if nr then s else s + d) := by
  unfold GenC.objSumNew
  cases nr <;> simp [E.add, E.lift2]

/-- **GA12** the `obj_max` rule of `_stats_update` is the rule of `Arch.statsUpdate`: the new best
replaces the recorded one iff there was none or it is strictly better -/
theorem stats_max_from_source (st : Stats) (len : Nat) (newSum : Rat) (b : Nat × Elite) :
    let noMax := st.objMax.isNone
    let cur := E.fin (st.objMax.getD 0)
    GenC.statsMaxNew noMax cur (E.fin b.2.obj)
        = E.fin (((statsUpdate st len newSum (some b)).objMax).getD 0) ∧
    ((statsUpdate st len newSum (some b)).best =
        if GenC.statsMaxReplacesBest noMax cur (E.fin b.2.obj) then some b else st.best) := by
  unfold GenC.statsMaxNew GenC.statsMaxReplacesBest statsUpdate
  cases h : st.objMax with
  | none => simp
  | some m =>
    by_cases hm : m < b.2.obj <;> simp [E.lt, hm]

/-! ### the transform chains handed to the store -/

/-- **GA15** `ArchiveBase.add`, `ArchiveBase.add_single` and `ProximityArchive.add` hand the store the
acceptance transform *first* (so that the objective sum and the best index are computed over the rows
that will be written — `Arch.commit` applies `objSumDelta` and `bestWrite` to `batchWrites` / the single
write, in that order), and update the statistics exactly when some status is non-zero
(`Arch.commit`: `if ws.isEmpty then …` — a call writes something iff some row was accepted) -/
theorem transform_chains_from_source :
    GenC.archAddChain = ["batch_entries_with_threshold", "compute_objective_sum", "compute_best_index"] ∧
    GenC.archAddSingleChain = ["single_entry_with_threshold", "compute_objective_sum", "compute_best_index"] ∧
    GenC.proxAddChain = ["batch_entries_with_threshold", "compute_objective_sum", "compute_best_index"] ∧
    GenC.archAddStatsGuard = "anyInserted" ∧ GenC.archAddSingleStatsGuard = "anyInserted" ∧
    GenC.proxAddStatsGuard = "anyInserted" := by
  decide

/-! ### property-level statements read off the generated definitions alone (no model in between) -/

/-- **GA13** (C05) the single transform of the source, finite `threshold_min`, learning rate in [0, 1]: a
rejected candidate writes no threshold and has status 0; an accepted one moves the threshold to a
finite value between the reference it was compared with (the cell's threshold, `threshold_min` for an
empty cell) and its own objective, which lies strictly above that reference — thresholds only ever
rise and never pass the accepted objective -/
theorem single_threshold_bracket_from_source (occ : Bool) (t tm lr f : Rat) (h0 : 0 ≤ lr) (h1 : lr ≤ 1) :
    match GenC.singleNewThr occ (E.fin t) (E.fin tm) (E.fin lr) (E.fin f) with
    | none => GenC.singleStatus occ (E.fin t) (E.fin tm) (E.fin lr) (E.fin f) = 0
    | some (E.fin t') => (if occ then t else tm) ≤ t' ∧ t' ≤ f ∧ (if occ then t else tm) < f
    | some _ => False := by
  unfold GenC.singleNewThr GenC.singleStatus
  cases occ
  · by_cases hc : tm < f
    · simp [E.lt, E.isNegInf, E.add, E.sub, E.mul, E.lift2, hc]
      constructor <;> nlinarith
    · simp [E.lt, E.isNegInf, hc]
  · by_cases hc : t < f
    · simp [E.lt, E.isNegInf, E.add, E.sub, E.mul, E.lift2, hc]
      constructor <;> nlinarith
    · simp [E.lt, E.isNegInf, hc]

/-- **GA14** (C02) the batch head of the source: status is 0 exactly when the objective does not
exceed the reference, 1 / 2 tell an occupied from an empty cell, and the value is always
objective − reference, where the reference of an empty cell is `threshold_min` (0 when it is `-inf`) -/
theorem batch_feedback_spec_from_source (occ : Bool) (t f : Rat) (tm : Option Rat) (x : E) :
    let ref : Rat := if occ then t else tm.getD 0
    let cmp : Bool := if occ then decide (t < f) else (match tm with | none => true | some m => decide (m < f))
    GenC.batchStatus occ (E.fin t) (E.ofOpt tm) (E.fin f) x = (if cmp then (if occ then 1 else 2) else 0) ∧
    GenC.batchValue occ (E.fin t) (E.ofOpt tm) (E.fin f) x = E.fin (f - ref) := by
  unfold GenC.batchStatus GenC.batchValue
  cases occ <;> cases tm <;> simp [E.ofOpt, E.lt, E.isNegInf, E.sub, E.lift2]

/-! ### non-vacuity: the generated definitions on concrete rows (closed terms, evaluated by the kernel) -/

example : GenC.singleStatus false (E.fin 7) E.negInf (E.fin 1) (E.fin (-3)) = 2 := by decide +kernel
example : GenC.singleStatus true (E.fin 7) E.negInf (E.fin 1) (E.fin 7) = 0 := by decide +kernel
example : GenC.batchStatus true (E.fin 7) (E.fin 0) (E.fin 8) E.bad = 1 := by decide +kernel
example : GenC.batchValue false (E.fin 7) (E.fin 2) (E.fin 1) E.bad = E.fin (-1) := by decide +kernel
example : GenC.singleNewThr true (E.fin 4) (E.fin 0) (E.fin (1/2)) (E.fin 6) = some (E.fin 5) := by
  decide +kernel
example : GenC.statsMaxReplacesBest false (E.fin 3) (E.fin 3) = false := by decide +kernel

end Pyribs.GenFProofs
