import numpy as np, random, warnings, itertools
from ribs.archives import GridArchive
from ribs.emitters import *
warnings.simplefilter("ignore")
bad=0
def mk_arch(sd, md):
    return GridArchive(solution_dim=5,dims=[4,4],ranges=[(-2,2),(-2,2)],dtype={"solution":sd,"objective":np.float64,"measures":md},seed=3)
bounds_layouts={"none":None,"box":[(-1,1)]*5,"onesided":[(None,0.5),(-0.5,None),None,(-1,1),(None,None)],"tight":[(-0.01,0.01)]*5}
for sd,md in itertools.product([np.float32,np.float64],repeat=2):
  for bname,b in bounds_layouts.items():
    for kind in ["gauss","iso","ga_g","ga_i","gop","gop_iso","cma_es","sep_cma_es","lm_ma_es","openai_es","pycma_es"]:
        arch=mk_arch(sd,md)
        try:
            if kind=="gauss": e=GaussianEmitter(arch,sigma=0.5,x0=np.zeros(5),bounds=b,batch_size=4,seed=1)
            elif kind=="iso": e=IsoLineEmitter(arch,iso_sigma=0.3,line_sigma=0.5,x0=np.zeros(5),bounds=b,batch_size=4,seed=1)
            elif kind=="ga_g": e=GeneticAlgorithmEmitter(arch,x0=np.zeros(5),operator="gaussian",operator_kwargs={"sigma":0.5,"seed":1},bounds=b,batch_size=4)
            elif kind=="ga_i": e=GeneticAlgorithmEmitter(arch,x0=np.zeros(5),operator="isoline",operator_kwargs={"iso_sigma":0.3,"line_sigma":0.5,"seed":1},bounds=b,batch_size=4)
            elif kind=="gop": e=GradientOperatorEmitter(arch,sigma=0.3,sigma_g=0.5,x0=np.zeros(5),bounds=b,batch_size=4,seed=1,measure_gradients=True,normalize_grad=True)
            elif kind=="gop_iso": e=GradientOperatorEmitter(arch,sigma=0.3,sigma_g=0.5,x0=np.zeros(5),bounds=b,batch_size=4,seed=1,operator_type="isolinedd",line_sigma=0.3)
            else:
                if bname=="tight": continue
                kw={"mirror_sampling":False} if kind=="openai_es" else {}
                e=EvolutionStrategyEmitter(arch,x0=np.zeros(5),sigma0=0.3,es=kind,es_kwargs=kw,bounds=b,batch_size=4,seed=1,restart_rule=2)
        except Exception as ex:
            print("CONSTRUCT",kind,bname,sd.__name__,md.__name__,type(ex).__name__,str(ex)[:80]); continue
        lo,hi=e.lower_bounds,e.upper_bounds
        rnd=np.random.default_rng(0)
        try:
          for it in range(6):
            outs=[]
            if kind.startswith("gop"):
                if kind=="gop_iso" and arch.empty:
                    # isolinedd on empty archive samples elites -> seed the archive first
                    arch.add(np.zeros((1,5)),[0.],[[0.,0.]])
                p=e.ask_dqd(); outs.append(("ask_dqd",p))
                jac=rnd.normal(size=(len(p),3,5))
                info=arch.add(p,-np.sum(p**2,axis=1),p[:,:2])
                e.tell_dqd(p,-np.sum(p**2,axis=1),p[:,:2],jac,info)
            s=e.ask(); outs.append(("ask",s))
            for nm,o in outs:
                if o.dtype!=sd: print("DTYPE",kind,bname,sd.__name__,md.__name__,nm,o.dtype); bad+=1
                if o.shape!=(4,5): print("SHAPE",kind,nm,o.shape); bad+=1
                if not np.all(np.isfinite(o)): print("NONFINITE",kind); bad+=1
                if not (np.all(o>=lo) and np.all(o<=hi)): print("BOUNDS",kind,bname,sd.__name__,md.__name__,nm); bad+=1
            info=arch.add(s,-np.sum(s**2,axis=1),s[:,:2])
            e.tell(s,-np.sum(s**2,axis=1),s[:,:2],info)
        except Exception as ex:
            print("RUN",kind,bname,sd.__name__,md.__name__,type(ex).__name__,str(ex)[:100]); bad+=1
print("bad",bad)
