import numpy as np, random, warnings
from ribs.archives import GridArchive
from ribs.emitters import GradientArborescenceEmitter, GradientOperatorEmitter
from ribs.emitters.opt import EvolutionStrategyBase, GradientOptBase
warnings.simplefilter("ignore")
bad=0
class SpyES(EvolutionStrategyBase):
    def __init__(self, sigma0, solution_dim, batch_size=None, seed=None, dtype=np.float64, lower_bounds=-np.inf, upper_bounds=np.inf):
        self.batch_size=batch_size; self.solution_dim=solution_dim; self.rng=np.random.default_rng(0); self.resets=[]
    def reset(self,x0): self.resets.append(np.array(x0))
    def check_stop(self,rv): return False
    def ask(self,batch_size=None): self.c=self.rng.integers(-4,5,(self.batch_size,self.solution_dim)).astype(float)/4; return self.c
    def tell(self,idx,vals,npar): self.told=(np.array(idx),int(npar))
class SpyGO(GradientOptBase):
    def __init__(self,theta0,lr): self._t=np.array(theta0,dtype=float); self.lr=lr; self.steps=[]; self.resets=[]
    @property
    def theta(self): return self._t
    def reset(self,t): self._t=np.array(t,dtype=float); self.resets.append(self._t.copy())
    def step(self,g): self.steps.append(np.array(g)); self._t=self._t+self.lr*np.asarray(g)
for seed in range(500):
    rnd=random.Random(seed); nprng=np.random.default_rng(seed)
    sd=rnd.randint(1,5); arch=GridArchive(solution_dim=sd,dims=[3,3],ranges=[(0,3),(0,3)],seed=seed)
    arch.add_single(np.full(sd,7.0),50.0,[0.5,0.5])
    holder={}
    def mk(**kw): holder["es"]=SpyES(**kw); return holder["es"]
    def mkgo(theta0,lr): holder["go"]=SpyGO(theta0,lr); return holder["go"]
    norm=rnd.random()<0.5; bs=rnd.randint(1,5); sel=rnd.choice(["mu","filter"]); rr=rnd.choice(["basic","no_improvement",2])
    em=GradientArborescenceEmitter(arch,x0=np.arange(sd,dtype=float),sigma0=1.0,lr=0.5,es=mk,grad_opt=mkgo,normalize_grad=norm,batch_size=bs,selection_rule=sel,restart_rule=rr,epsilon=2.0**-20,seed=1)
    es,go=holder["es"],holder["go"]
    try: em.ask(); print("NO REFUSAL ask"); bad+=1
    except RuntimeError: pass
    try: em.tell(np.zeros((bs,sd)),np.zeros(bs),np.zeros((bs,2)),{"status":np.zeros(bs),"value":np.zeros(bs)}); print("NO REFUSAL tell"); bad+=1
    except RuntimeError: pass
    for it in range(rnd.randint(1,5)):
        th=em.ask_dqd()
        if not np.array_equal(th,go.theta[None]): print("ASKDQD"); bad+=1
        kind=rnd.choice(["rand","zero","rankdef"])
        J=nprng.integers(-3,4,(1,3,sd)).astype(float)
        if kind=="zero": J[:]=0
        if kind=="rankdef": J[0,1]=J[0,0]; J[0,2]=2*J[0,0]
        J0=J.copy()
        em.tell_dqd(th,np.zeros(1),np.zeros((1,2)),J,{"status":np.zeros(1),"value":np.zeros(1)})
        G=J0/(np.linalg.norm(J0,axis=2,keepdims=True)+2.0**-20) if norm else J0
        theta=go.theta.copy()
        s=em.ask()
        exp=theta+np.einsum("bj,jd->bd",es.c,G[0])
        if not np.allclose(s,exp,rtol=1e-12,atol=1e-12): print("BRANCH",seed,it,kind,norm); bad+=1
        status=np.array([rnd.choice([0,0,1,2]) for _ in range(bs)]); 
        if rnd.random()<0.4: status[:]=0
        nsteps=len(go.steps); nres=len(go.resets)
        em.tell(s,np.arange(bs,dtype=float),np.zeros((bs,2)),{"status":status,"value":np.arange(bs,dtype=float)[::-1].copy()})
        new=int((status!=0).sum()); npar=new if sel=="filter" else bs//2
        restart = (rr=="no_improvement" and new==0) or (rr==2 and em.itrs%2==0)
        if npar==0:
            if len(go.steps)!=nsteps: print("STEP ON ZERO PARENTS",seed,go.steps[-1]); bad+=1
        else:
            idx=es.told[0]; w=np.log(npar+0.5)-np.log(np.arange(1,npar+1)); w/=w.sum()
            mean=(s[idx][:npar]*w[:,None]).sum(0)
            if len(go.steps)!=nsteps+1 or not np.allclose(go.steps[-1],mean-theta): print("STEP",seed); bad+=1
        if restart:
            if len(go.resets)!=nres+1 or not any(np.array_equal(go.resets[-1],x) for x in arch.data("solution")): print("RESTART theta",seed); bad+=1
        elif len(go.resets)!=nres: print("SPURIOUS RESET"); bad+=1
print("bad",bad)
