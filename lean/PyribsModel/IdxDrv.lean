import PyribsModel.GridIndex
/-! Line-protocol machine "idx": stateless index-map queries (C03) + one stored centroid set. -/
namespace Pyribs.IdxDrv
open Pyribs

structure St where
  cents : List (List Rat)

def init : St := ⟨[]⟩

def parsePoints (s : String) : Option (List (List Rat)) :=
  if s = "-" then some [] else (s.splitOn ";").mapM parseRatList

/-- centroids whose squared distance is within `(1 + tol)·min + atol` -/
def cvtNear (cs : List (List Rat)) (m : List Rat) (tol atol : Rat) : List Nat :=
  match argminFrom 0 (cs.map (fun c => dist2 c m)) with
  | none => []
  | some (_, dmin) =>
    ((List.range cs.length).zip cs).filterMap
      (fun (i, c) => if dist2 c m ≤ dmin * (1 + tol) + atol then some i else none)

def step (st : St) (toks : List String) : St × String :=
  match toks with
  -- one grid coordinate: admissible coordinate range under a quotient error `err`
  | ["grid", d, lo, hi, eps, err, m] =>
    match d.toNat?, parseRat lo, parseRat hi, parseRat eps, parseRat err, parseRat m with
    | some d, some lo, some hi, some eps, some err, some m =>
      let q := gridQuot d lo hi eps m
      let jl := clampIdx (q - err).floor d
      let jh := clampIdx (q + err).floor d
      (st, s!"{gridCoord d lo hi eps m} {jl} {jh} {showRat q}")
    | _, _, _, _, _, _ => (st, "bad-op")
  | ["ravel", dims, g] =>
    match parseNatList dims, parseNatList g with
    | some dims, some g => (st, toString (ravel dims g))
    | _, _ => (st, "bad-op")
  | ["unravel", dims, i] =>
    match parseNatList dims, i.toNat? with
    | some dims, some i => (st, showNatList (unravel dims i))
    | _, _ => (st, "bad-op")
  | ["cvtset", cs] =>
    match parsePoints cs with
    | some cs => (⟨cs⟩, s!"ok {cs.length}")
    | none => (st, "bad-op")
  | ["cvt", m, tol, atol] =>
    match parseRatList m, parseRat tol, parseRat atol with
    | some m, some tol, some atol =>
      (st, s!"{showOpt toString (cvtIdx st.cents m)} {showNatList (cvtNear st.cents m tol atol)}")
    | _, _, _ => (st, "bad-op")
  -- one sliding-boundaries coordinate: `bs` = boundary[:dim]; admissible range under error `err` on the clipped value
  | ["sb", bs, lo, hi, eps, err, m] =>
    match parseRatList bs, parseRat lo, parseRat hi, parseRat eps, parseRat err, parseRat m with
    | some bs, some lo, some hi, some eps, some err, some m =>
      let x := sbClip lo hi eps m
      (st, s!"{sbCoord bs lo hi eps m} {countBelow bs (x - err) - 1} {countBelow bs (x + err) - 1} {showRat x}")
    | _, _, _, _, _, _ => (st, "bad-op")
  | _ => (st, "bad-op")

end Pyribs.IdxDrv
