import PyribsGen.Formulas
import PyribsModel.EsControl
import PyribsModel.Dqd
import PyribsModel.Bandit
import Mathlib.Algebra.Order.Field.Rat
import Mathlib.Algebra.Order.Field.Basic
import Mathlib.Tactic.Ring
/-!
# GenFCtl — the generated control formulas equal the models' (C10, C16, C19)

`PyribsGen/Formulas.lean` is regenerated from the source tree under check on every run; these
theorems re-check that the number of parents handed to the optimizer (both evolution-strategy
emitters) and the UCB1 score of `BanditScheduler.ask` are, as the code spells them *now*, the
functions the hand-written models use.
-/
namespace Pyribs.GenFProofs
open Pyribs

/-- **G10a `es_num_parents_matches`** : `EvolutionStrategyEmitter.tell`'s
`new_sols if selection_rule == "filter" else batch_size // 2` is the model's `numParents` -/
theorem es_num_parents_matches (cfg : EsControl.Cfg) (statuses : List Nat) :
    EsControl.numParents cfg statuses =
      GenF.esNumParents (decide (cfg.sel = .filter)) (EsControl.newSols statuses) cfg.batch := by
  unfold EsControl.numParents GenF.esNumParents
  cases h : cfg.sel <;> simp

/-- **G19a `gae_num_parents_matches`** : the same line of `GradientArborescenceEmitter.tell` -/
theorem gae_num_parents_matches (sel : Dqd.Sel) (batch : Nat) (status : List Nat) :
    Dqd.numParents sel batch status =
      GenF.gaeNumParents (decide (sel = .filter)) (Dqd.newSols status) batch := by
  unfold Dqd.numParents GenF.gaeNumParents
  cases sel <;> simp

/-- 'mu' hands over half the batch whatever was inserted; 'filter' exactly the inserted ones -/
theorem num_parents_rules (ins b : Nat) :
    GenF.esNumParents true ins b = ins ∧ GenF.esNumParents false ins b = b / 2 ∧
    GenF.gaeNumParents true ins b = ins ∧ GenF.gaeNumParents false ins b = b / 2 := by
  simp [GenF.esNumParents, GenF.gaeNumParents]

/-- **G10b `es_check_restart_matches`** : `EvolutionStrategyEmitter._check_restart`, read as a chain of
guarded returns, is the model's `checkRestart` for each of the three rule kinds (the guards are what
the rule's Python value makes true: an integer passes `isinstance(.., numbers.Integral)`, the two
names compare equal to themselves only) -/
theorem es_check_restart_matches (itrs ns : Nat) :
    (∀ n, GenF.esCheckRestart true false false itrs n ns = some (EsControl.checkRestart (.every n) itrs ns)) ∧
    GenF.esCheckRestart false true false itrs 0 ns = some (EsControl.checkRestart .noImprovement itrs ns) ∧
    GenF.esCheckRestart false false true itrs 0 ns = some (EsControl.checkRestart .basic itrs ns) := by
  refine ⟨fun n => ?_, ?_, ?_⟩ <;> simp [GenF.esCheckRestart, EsControl.checkRestart]

/-- **G19b `gae_check_restart_matches`** : the same for `GradientArborescenceEmitter._check_restart`
against `Dqd.ruleFires` -/
theorem gae_check_restart_matches (itrs : Nat) (status : List Nat) :
    (∀ n, GenF.gaeCheckRestart true false false itrs n (Dqd.newSols status) =
      some (Dqd.ruleFires (.every n) itrs status)) ∧
    GenF.gaeCheckRestart false true false itrs 0 (Dqd.newSols status) =
      some (Dqd.ruleFires .noImprovement itrs status) ∧
    GenF.gaeCheckRestart false false true itrs 0 (Dqd.newSols status) =
      some (Dqd.ruleFires .basic itrs status) := by
  refine ⟨fun n => ?_, ?_, ?_⟩ <;> simp [GenF.gaeCheckRestart, Dqd.ruleFires]

/-- a rule that is neither an integer nor one of the two names raises (`none`), in both emitters -/
theorem check_restart_unknown_raises (itrs rule ns : Nat) :
    GenF.esCheckRestart false false false itrs rule ns = none ∧
    GenF.gaeCheckRestart false false false itrs rule ns = none := by
  simp [GenF.esCheckRestart, GenF.gaeCheckRestart]

/-- with an integer rule `N > 0` the emitter-side test fires exactly on every `N`-th tell -/
theorem check_restart_every (N itrs ns : Nat) :
    GenF.esCheckRestart true false false itrs N ns = some (decide (N ∣ itrs)) := by
  simp only [GenF.esCheckRestart, Nat.dvd_iff_mod_eq_zero, if_true]
  by_cases h : itrs % N = 0 <;> simp [h]

/-- **G16a `ucb1_matches`** : the score computed in `BanditScheduler.ask` is the property's
`success/selection + zeta*sqrt(ln(total success)/selection)` (total clamped at 1), for every reading of
`sqrt` and `ln` -/
theorem ucb1_matches (sq ln : Rat → Rat) (s k z tot : Rat) :
    GenF.ucb1 sq ln s k z tot = Bandit.ucbSpec sq ln s k z tot := by
  unfold GenF.ucb1 Bandit.ucbSpec
  rfl

/-- with the same selection count and total, more successes score at least as high -/
theorem ucb_mono_success (sq ln : Rat → Rat) (s s' k z tot : Rat) (hk : 0 < k) (hs : s ≤ s') :
    Bandit.ucbSpec sq ln s k z tot ≤ Bandit.ucbSpec sq ln s' k z tot := by
  unfold Bandit.ucbSpec
  have : s / k ≤ s' / k := div_le_div_of_nonneg_right hs (le_of_lt hk)
  exact by first | exact add_le_add_right this _ | exact add_le_add_left this _

/-- `zeta = 0` is pure exploitation: the score is the success rate -/
theorem ucb_zeta_zero (sq ln : Rat → Rat) (s k tot : Rat) :
    Bandit.ucbSpec sq ln s k 0 tot = s / k := by
  unfold Bandit.ucbSpec; ring

/-- before the second success the exploration bonus vanishes (`ln 1 = 0`, `sqrt 0 = 0`) -/
theorem ucb_no_bonus_before_success (sq ln : Rat → Rat) (s k z tot : Rat) (h1 : tot ≤ 1)
    (hln : ln 1 = 0) (hsq : sq 0 = 0) : Bandit.ucbSpec sq ln s k z tot = s / k := by
  unfold Bandit.ucbSpec
  simp [h1, hln, hsq]

/-- a larger exploration bonus weight never lowers the score when `sqrt` is non-negative -/
theorem ucb_mono_zeta (sq ln : Rat → Rat) (s k z z' tot : Rat) (hsq : ∀ x, 0 ≤ sq x) (hz : z ≤ z') :
    Bandit.ucbSpec sq ln s k z tot ≤ Bandit.ucbSpec sq ln s k z' tot := by
  unfold Bandit.ucbSpec
  have := mul_le_mul_of_nonneg_right hz (hsq (ln (if tot ≤ 1 then 1 else tot) / k))
  exact by first | exact add_le_add_right this _ | exact add_le_add_left this _

example : Bandit.ucbSpec (fun x => x) (fun x => x - 1) 3 4 (1 / 2) 5 = 5 / 4 := by
  unfold Bandit.ucbSpec; decide +kernel

end Pyribs.GenFProofs
