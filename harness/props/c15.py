"""C15 — SlidingBoundariesArchive remaps consistently and loses nothing it should keep.

The same runner serves the SlidingBoundaries clauses of C01 / C02 / C06 / C07 (see `SB_PROPS`).
"""
from fractions import Fraction as F

import numpy as np

import archlib
from archlib import NP, decode_tok, batch_kwargs, solution_of, to_dtype, fr
from core import Driver, Failure, q, ql

ID = "C15"
from genf import translate  # noqa: E402,F401  (regenerates lean/PyribsGen/Formulas.lean from the tree under check)
PROOF_MODULES = ["PyribsProofs.C15", "PyribsProofs.C15b", "PyribsGen.Formulas", "PyribsProofs.GenF"]
THEOREMS = [
    "Pyribs.GenFProofs.sliding_clip_from_source",
    "Pyribs.GenFProofs.sliding_coord_from_source",
    "Pyribs.GenFProofs.boundaries_from_source",
    "Pyribs.C15.insertionSort_sorted",
    "Pyribs.C15.insertionSort_perm",
    "Pyribs.C15.remapBoundaries_sorted",
    "Pyribs.C15.remapBoundaries_length",
    "Pyribs.C15.remapBoundaries_first_last",
    "Pyribs.C15.boundaries_sorted",
    "Pyribs.C15.sbIdx_lt",
    "Pyribs.C15.remap_def",
    "Pyribs.C15.remap_spec",
    "Pyribs.C15.remap_feedback",
    "Pyribs.C15.remap_placed",
    "Pyribs.C15.nothing_lost",
    "Pyribs.C15.between_remaps",
    "Pyribs.C15.remap_iff",
    "Pyribs.C15.buffer_spec",
    "Pyribs.C15.nonvacuous",
    "Pyribs.C15b.good_addSingle",
    "Pyribs.C15b.good_history",
    "Pyribs.C15b.good_new",
]
RULE = ("lock-step insertion histories (add_single, batch add, clear, retrieve) through several remaps for dims 1-3, "
        "initial ranges that do and do not contain the data, remap_frequency in {2,3,4,7}, buffer_capacity smaller / "
        "equal / larger than the frequency (including 1), float32/64, extra-field layouts, measures far outside the "
        "initial ranges, heavy duplicates, drifting data; after every call the oracle checks the feedback against "
        "the pre-call contents, and after every remap that boundaries are the order statistics of the buffered "
        "measures, contents equal re-insertion of (previous elites ++ buffer) from empty under the reported new "
        "geometry, every elite is retrievable by its own measures and nothing is lost except to a better solution; "
        "non-trivial when the history contains at least two remaps; distinct by op list")
PARTIAL = []
ASSUMPTIONS = list(__import__("props.c01", fromlist=["x"]).ASSUMPTIONS) + [
    "float32 archives use |measures| <= 4 on a 1/8 grid so that m + epsilon is resolved as in exact arithmetic"]
SB_PROPS = {"C15", "C01", "C02", "C06", "C07"}


def gen_case(rng, min_remaps=2, micro=0.0, defaults=False, big=False):
    nd = rng.choice([1, 1, 2, 2, 3])
    dims = [rng.choice([1, 2, 3, 4, 5]) for _ in range(nd)]
    freq = rng.choice([2, 3, 4, 7])
    cap = rng.choice([1, max(1, freq - 1), freq, freq + 3, 50])
    if big:             # thousands of cells, a handful of elites, duplicate measures with tied objectives: the sparse
        nd = 2          # regime of the batch transform (few rows, large cell indices) during the re-insertion of a remap
        dims = [rng.choice([40, 64, 100]), rng.choice([40, 64, 100])]
        freq = rng.choice([4, 7, 12])
        cap = rng.choice([freq, 12, 50])
    if defaults:        # the documented defaults remap_frequency=100, buffer_capacity=1000 (omitted by `make`)
        freq, cap = 100, 1000
    dt = rng.choice(["f64", "f64", "f32"])
    force_micro = rng.random() < micro
    if force_micro:
        dt = "f64"
    contain = rng.random() < 0.5
    span = 4 if dt == "f32" else rng.choice([4, 64, 10**6])
    lo0, hi0 = (-span, span) if contain else rng.choice([(-1, 1), (span, 2 * span), (0, F(1, 2))])
    case = {"kind": "sbr", "dims": dims, "lo": [q(F(lo0))] * nd, "hi": [q(F(hi0))] * nd, "dtype": dt, "freq": freq,
            "cap": cap, "layout": rng.choice(["", "s", "v", "o", "sv", "om", "b", "vb", "u", "uw", "su", "su", "t", "ot", "p", "p", "sp"]), "sol_dim": rng.choice([1, 2]),
            "off": q(rng.choice([F(0), F(-8), F(3, 2)]))}
    style = rng.choice(["uniform", "dups", "drift", "far"] + (["micro"] if dt == "f64" else []))
    if big:
        style = "dups"
    if force_micro:
        style = "micro"
    micro_k = rng.choice([1, 1, 2])      # one cluster: every boundary of every remap moves by a few 2^-21 only
    pool = [[q(F(rng.randint(-8 * span, 8 * span), 8)) for _ in range(nd)] for _ in range(rng.choice([2, 3, 5]))]
    tok = [0]

    def meas(t):
        if style == "micro":
            # clustered around a few points (|b| >= 1) with offsets of a few 2^-21 (epsilon = 1e-6 is about 2 of them):
            # successive remaps move the boundaries by less than any "close enough" relative tolerance while elites sit
            # between the old and the new position of a boundary
            base = [F(b) if abs(F(b)) >= 1 else F(b) + 2 for b in rng.choice(pool[:micro_k])]
            return [q(b + F(rng.randint(-12, 12), 2**21)) for b in base]
        if style == "dups" or (style != "uniform" and rng.random() < 0.3):
            return rng.choice(pool)
        if style == "drift":
            c = F(t, 2) - 4
            return [q(max(F(-span), min(F(span), c + F(rng.randint(-8, 8), 8)))) for _ in range(nd)]
        if style == "far" and rng.random() < 0.3:
            big = F(10**6) if dt == "f64" else F(4)
            return [q(rng.choice([-1, 1]) * big) for _ in range(nd)]
        return [q(F(rng.randint(-8 * span, 8 * span), 8)) for _ in range(nd)]

    def row():
        tok[0] += 1
        if big:
            return [tok[0], q(F(rng.randint(-2, 2))), meas(tok[0])]
        return [tok[0], q(F(rng.randint(-16, 16), rng.choice([1, 2, 4]))), meas(tok[0])]

    ops = []
    n_ins = 0
    target = freq * (min_remaps + rng.randint(0, 2)) + rng.randint(0, freq)
    while n_ins < target:
        r = rng.random()
        if r < 0.7:
            ops.append({"op": "add1", "row": row()})
            n_ins += 1
        elif r < 0.85:
            k = rng.choice([0, 1, 2, 3, freq + 1])
            ops.append({"op": "add", "rows": [row() for _ in range(k)]})
            n_ins += k
        elif r < 0.9:
            ops.append({"op": "clear"})
        else:
            ops.append({"op": "retrieve", "qs": [meas(0) for _ in range(rng.randint(1, 4))]})
    case["ops"] = ops
    case["forms"] = archlib.gen_forms(rng)
    if case["forms"]["dtype"] == "dictmix":      # mixed objective / measures precision: fixed-cell runner only
        case["forms"]["dtype"] = "dictsol"
    archlib.sprinkle(rng, case)     # checkpoints: continue on a pickled / deep-copied archive
    return case


def make(case, ranges_obj=None):
    from ribs.archives import SlidingBoundariesArchive
    ranges = [(float(fr(a)), float(fr(b))) for a, b in zip(case["lo"], case["hi"])]
    rform = case.get("forms", {}).get("ranges")
    ranges = np.array(ranges) if rform == "nd" else ([list(r) for r in ranges] if rform == "lists" else ranges)
    if ranges_obj is not None:
        ranges = ranges_obj         # the caller's own container, shared with a sibling archive (see Run.poke_sibling)
    kw = dict(remap_frequency=case["freq"], buffer_capacity=case["cap"], qd_score_offset=float(fr(case["off"])),
              dtype=archlib.dtype_arg(case), extra_fields=archlib.extra_fields(case["layout"]))
    # options at their documented default are omitted, so that the default itself is what runs (the oracle reads the case)
    if case["freq"] == 100:
        del kw["remap_frequency"]
    if case["cap"] == 1000:
        del kw["buffer_capacity"]
    if fr(case["off"]) == 0:
        del kw["qd_score_offset"]
    if not case["layout"]:
        del kw["extra_fields"]
    if case["dtype"] == "f64" and case.get("forms", {}).get("dtype", "one") == "one":
        del kw["dtype"]
    return SlidingBoundariesArchive(solution_dim=case["sol_dim"], dims=case["dims"], ranges=ranges, seed=0, **kw)


def geom(a, case):
    d = case["dims"]
    return {"bnds": [[F(float(x)) for x in a.boundaries[k][:d[k] + 1]] for k in range(len(d))],
            "lo": [F(float(x)) for x in a.lower_bounds], "hi": [F(float(x)) for x in a.upper_bounds],
            "eps": F(float(a.epsilon))}


def cell_of(g, dims, m):
    """exact reading of the reported geometry: the cell delimited by the current boundaries"""
    idx = 0
    for k, d in enumerate(dims):
        x = min(max(m[k] + g["eps"], g["lo"][k]), g["hi"][k] - g["eps"])
        j = max(0, sum(1 for b in g["bnds"][k][:d] if b < x) - 1)
        idx = idx * d + j
    return idx


class Run:

    def __init__(self, case, props):
        self.case, self.props = case, set(props)
        # `ranges` as the caller's own container (an ndarray of the measures dtype, or nested lists), used for a
        # second archive as well (archive + result archive built from one configuration): the sibling remaps on its
        # own data between the calls of the archive under test, and at the end the caller re-uses the container
        self.sibling, self.ranges_obj = None, None
        if case.get("forms", {}).get("ranges") in ("nd", "lists") and case.get("case_index", 0) % 2 == 1:
            rl = [[float(fr(x)), float(fr(y))] for x, y in zip(case["lo"], case["hi"])]
            self.ranges_obj = (np.array(rl, dtype=NP[archlib.meas_dtype(case)]) if case["forms"]["ranges"] == "nd" else rl)
            self.a = make(case, self.ranges_obj)
            self.sibling = make(case, self.ranges_obj)
        else:
            self.a = make(case)
        self.dt = case["dtype"]
        self.drv = Driver("sliding")
        g = geom(self.a, case)
        r = self.drv.ask(f"new dims={','.join(map(str, case['dims']))} lo={ql(g['lo'])} hi={ql(g['hi'])} eps={q(g['eps'])} "
                         f"cap={case['cap']} freq={case['freq']} off={q(F(float(self.a.qd_score_offset)))} "
                         f"bnds={';'.join(ql(b) for b in g['bnds'])}")
        assert r.startswith("ok"), r
        self.total = 0
        self.buffer = []       # oracle's FIFO of the last `cap` insertions (tok, obj, meas)
        self.inserted_max = None
        self.submitted = {}
        self.remaps = 0
        self.after_bad = None
        self.stat = {}

    def poke_sibling(self, k):
        """the sibling archive lives its own life (insertions far from the data of the archive under test, through at
        least one remap); afterwards the caller scribbles over the shared `ranges` container"""
        case = self.case
        nd, sd = len(case["dims"]), case["sol_dim"]
        span = [float(fr(y)) - float(fr(x)) for x, y in zip(case["lo"], case["hi"])]
        for j in range(case["freq"] + 1):
            m = [float(fr(case["lo"][d])) - (3 + j + k) * span[d] for d in range(nd)]
            toks = [9 * 10**6 + 100 * k + j]
            self.sibling.add_single(np.array(solution_of(toks[0], sd), dtype=NP[self.dt]).reshape(sd), float(j), m,
                                    **{n: v[0] for n, v in batch_kwargs(case["layout"], toks).items()})
        self.stat["sibling-pokes"] = self.stat.get("sibling-pokes", 0) + 1
        if isinstance(self.ranges_obj, np.ndarray):
            self.ranges_obj[...] = -12345.0
        else:
            for row in self.ranges_obj:
                row[0], row[1] = -12345.0, -12344.0

    def F_(self, prop, kind, what):
        if "C11" in self.props:
            if prop == "C11":
                return Failure(kind, f"[C11] {what}")
            if self.after_bad:
                return Failure(kind, f"[C11] after a rejected call ({self.after_bad}) the remaining valid history no "
                               f"longer behaves as if that call had never happened: {what}")
            return None
        return Failure(kind, f"[{prop}] {what}") if prop in self.props else None

    def snapshot(self):
        o = self.obs()
        o.pop("bad")
        o["geom"] = geom(self.a, self.case)
        return o

    def make_sched(self, entry, n):
        from ribs.emitters import GaussianEmitter
        from ribs.schedulers import BanditScheduler, Scheduler
        import faultlib
        em = faultlib.sched_emitters(self.a, n, self.case["sol_dim"])
        return Scheduler(self.a, em) if entry == "sched_tell" else BanditScheduler(self.a, em, num_active=len(em))

    def do_bad(self, op, where):
        import faultlib
        pre = self.snapshot()
        res, exc = faultlib.inject(self.a, op, self.dt, self.case["sol_dim"], len(self.case["dims"]),
                                   self.case["layout"], sched=self.make_sched)
        self.stat[f"bad:{op['entry']}:{op['arg']}:{op['kind']}:{res}"] = 1
        if res == "skip":
            return None
        desc = f"{op['entry']}({op['arg']}: {op['kind']} at row {op['pos']} of {len(op['rows'])})"
        try:
            post = self.snapshot()
        except (OverflowError, ValueError) as e:
            return self.F_("C11", "oracle", f"{where}: malformed call {desc} "
                           f"{'raised ' + str(exc) if res == 'raised' else 'was accepted without an error'} and left "
                           f"non-finite values in the archive ({type(e).__name__}: {e})")
        if res == "accepted" and faultlib.must_raise(op):
            return self.F_("C11", "oracle", f"{where}: malformed call {desc} was accepted without an error")
        if res == "accepted":
            # a malformed call that is silently accepted must at least not touch the archive (this happens when
            # no row would be inserted: the store returns before looking at the fields)
            if post != pre:
                return self.F_("C11", "oracle", f"{where}: malformed call {desc} was accepted without an error and "
                               f"changed the archive: {[k for k in pre if pre[k] != post[k]]}")
            return None
        if post != pre:
            return self.F_("C11", "oracle", f"{where}: {desc} raised {exc} but changed the archive: "
                           f"{[k for k in pre if pre[k] != post[k]]}")
        self.after_bad = desc
        return None

    def close(self):
        self.drv.close()

    def obs(self):
        return archlib.observe(self.a, self.case)

    def insert(self, row, where, batch_rows=None):
        """one add_single (or one batch add = fold, when batch_rows is given) with all oracles"""
        case, dt = self.case, self.dt
        rows = batch_rows if batch_rows is not None else [row]
        sd, layout = case["sol_dim"], case["layout"]
        crows = [(r[0], to_dtype(fr(r[1]), dt), [to_dtype(fr(m), dt) for m in r[2]]) for r in rows]
        toks = [r[0] for r in rows]
        sol = np.array([solution_of(t, sd) for t in toks], dtype=NP[dt]).reshape(len(rows), sd)
        obj = np.array([float(fr(r[1])) for r in rows], dtype=np.float64)
        meas = np.array([[float(fr(m)) for m in r[2]] for r in rows], dtype=np.float64).reshape(len(rows), len(case["dims"]))
        extras = batch_kwargs(layout, toks)
        pre_states = []
        if batch_rows is None:
            pre = self.obs()
            pre_g = geom(self.a, case)
            try:
                info = archlib.submit(self.a, case, True, sol, obj, meas, extras)
            except Exception as e:  # pylint: disable=broad-except
                return self.F_("C15", "oracle", f"{where}: a valid add_single raised {type(e).__name__}: {e}")
            status, value = [int(info["status"])], [F(float(info["value"]))]
            self.last_fb = (status[0], value[0])
            pre_states.append((pre, pre_g))
        else:
            try:
                info = archlib.submit(self.a, case, False, sol, obj, meas, extras)
            except Exception as e:  # pylint: disable=broad-except
                return self.F_("C15", "oracle", f"{where}: a valid add raised {type(e).__name__}: {e}")
            status = [int(s) for s in info["status"]] if len(rows) else []
            value = [F(float(v)) for v in info["value"]] if len(rows) else []
        # model
        if batch_rows is None:
            m = self.drv.ask("add1 " + archlib.cand_line(*crows[0]))
            md = dict(t.split("=", 1) for t in m.split())
            m_status, m_value = [int(md["status"])], [F(md["value"])]
        else:
            m = self.drv.ask("add " + " ".join(archlib.cand_line(*r) for r in crows)) if crows else self.drv.ask("add")
            md = dict(t.split("=", 1) for t in m.split())
            m_status = [] if md["status"] == "-" else [int(x) for x in md["status"].split(",")]
            m_value = [] if md["value"] == "-" else [F(x) for x in md["value"].split(",")]
        # oracle bookkeeping, one insertion at a time
        post = self.obs()
        post_g = geom(self.a, case)
        if batch_rows is None:
            f = self.judge_single(crows[0], status[0], value[0], pre_states[0][0], pre_states[0][1], post, post_g, where)
            if f:
                return f
        else:
            # batch add = add_single in batch order: replay on a twin for the per-row oracles
            for c in crows:
                self.push(c)
                self.remaps += 1 if self.total % case["freq"] == 0 else 0
        if post["bad"]:
            f = self.F_("C01", "oracle", f"{where}: {post['bad']}")
            if f:
                return f
        f = self.check_placement(post, post_g, where)
        if f:
            return f
        # correspondence
        if status != m_status:
            f = self.F_("C02", "corr", f"{where}: status impl={status} model={m_status}") or \
                self.F_("C15", "corr", f"{where}: status impl={status} model={m_status}")
            if f:
                return f
        for v, e in zip(value, m_value):
            if v != to_dtype(e, dt) and not archlib.close(v, e, dt):
                f = self.F_("C15", "corr", f"{where}: value impl={v} model={e}")
                if f:
                    return f
        return self.compare(post, post_g, where)

    def push(self, c):
        if len(self.buffer) >= self.case["cap"]:
            self.buffer.pop(0)
        self.buffer.append(c)
        self.total += 1
        self.submitted[c[0]] = (c[1], c[2])

    def judge_single(self, c, status, value, pre, pre_g, post, post_g, where):
        case, dims = self.case, self.case["dims"]
        tok, obj, meas = c
        self.push(c)
        remap = self.total % case["freq"] == 0
        if not remap:
            if post_g != pre_g:
                return self.F_("C15", "oracle", f"{where}: boundaries moved on insertion {self.total}, not a multiple of "
                               f"remap_frequency {case['freq']}")
            cell = cell_of(pre_g, dims, meas)
            exp_rows = dict(pre["rows"])
            base_rows = pre["rows"]
        else:
            self.remaps += 1
            # T15.1 boundaries = order statistics of the buffered measures
            n = len(self.buffer)
            for k, d in enumerate(dims):
                srt = sorted(x[2][k] for x in self.buffer)
                want = [srt[(j * n) // d] for j in range(d)] + [srt[-1]]
                if post_g["bnds"][k] != want:
                    return self.F_("C15", "oracle", f"{where}: after the remap boundaries of dimension {k} are "
                                   f"{[str(x) for x in post_g['bnds'][k]]}, order statistics of the buffer give "
                                   f"{[str(x) for x in want]}")
                if post_g["lo"][k] != srt[0] or post_g["hi"][k] != srt[-1]:
                    return self.F_("C15", "oracle", f"{where}: bounds of dimension {k} ({post_g['lo'][k]}, {post_g['hi'][k]}) "
                                   f"are not the minimum / maximum of the buffered measures ({srt[0]}, {srt[-1]})")
            # T15.2 contents = re-insertion from empty under the new geometry; feedback against the archive
            # rebuilt from (old ++ buffer without the newest)
            old = [(pre["rows"][i]["tok"], pre["rows"][i]["obj"], pre["rows"][i]["meas"]) for i in pre["order"]]
            base_rows = {}
            for (t, o, m) in old + self.buffer[:-1]:
                ci = cell_of(post_g, dims, m)
                if ci not in base_rows or o > base_rows[ci]["obj"]:
                    base_rows[ci] = {"tok": t, "obj": o, "thr": o, "meas": m}
            cell = cell_of(post_g, dims, meas)
            exp_rows = dict(base_rows)
            # T15.4 nothing lost
            for (t, o, m) in old + self.buffer:
                ci = cell_of(post_g, dims, m)
                got = post["rows"].get(ci)
                if got is None or got["obj"] < o:
                    return self.F_("C15", "oracle", f"{where}: solution {t} (objective {o}) was lost by the remap: its new cell "
                                   f"{ci} holds {got and (got['tok'], str(got['obj']))}")
        # feedback against the (re-built) pre-state
        if cell in base_rows:
            thr = base_rows[cell]["thr"]
            e_status, e_value = (1 if obj > thr else 0), obj - thr
        else:
            e_status, e_value = 2, obj
        if e_status:
            exp_rows[cell] = {"tok": tok, "obj": obj, "thr": obj, "meas": meas}
            if self.inserted_max is None or obj > self.inserted_max:
                self.inserted_max = obj
        if status != e_status or (value != to_dtype(e_value, self.dt) and not archlib.close(value, e_value, self.dt)):
            return self.F_("C02", "oracle", f"{where}: feedback ({status}, {value}) but judged against the archive before the "
                           f"call{' (re-built by the remap)' if remap else ''} it is ({e_status}, {e_value})") or \
                self.F_("C15", "oracle", f"{where}: feedback ({status}, {value}) expected ({e_status}, {e_value})")
        got = {c_: (r["tok"], r["obj"]) for c_, r in post["rows"].items()}
        want = {c_: (r["tok"], r["obj"]) for c_, r in exp_rows.items()}
        if got != want:
            which = "C15" if remap else "C01"
            return self.F_(which, "oracle", f"{where}: contents {dict(sorted(got.items()))} but "
                           f"{'re-inserting previous elites then the buffer under the new boundaries' if remap else 'the elitist rule'} "
                           f"gives {dict(sorted(want.items()))}") or \
                self.F_("C15", "oracle", f"{where}: contents differ from the specification")
        # stats (C06) recomputed from data()
        if remap:
            self.inserted_max = max((r["obj"] for r in post["rows"].values()), default=None) \
                if self.inserted_max is None else max(self.inserted_max, max(r["obj"] for r in post["rows"].values()))
        return self.check_stats(post, where, remap)

    def check_stats(self, post, where, remap=False):
        rows, s = post["rows"], post["stats"]
        n = len(rows)
        off = F(float(self.a.qd_score_offset))
        total = sum(r["obj"] for r in rows.values())
        dt = self.dt
        bad = None
        if not (s["num"] == n == post["len"]):
            bad = f"num_elites={s['num']} len={post['len']} but {n} occupied cells"
        elif not archlib.close(s["qd"], total - n * off, dt, 64 * max(1, n)):
            bad = f"qd_score={s['qd']} ≠ {total - n * off}"
        elif not archlib.close(s["cov"], F(n, post["cells"]), dt):
            bad = f"coverage={s['cov']} ≠ {n}/{post['cells']}"
        elif n and not archlib.close(s["mean"], total / n, dt, 64):
            bad = f"obj_mean={s['mean']} ≠ {total / n}"
        elif n and s["max"] != max(r["obj"] for r in rows.values()):
            bad = f"obj_max={s['max']} ≠ current maximum (elitist) {max(r['obj'] for r in rows.values())}"
        elif n and (post["best"] is None or post["best"]["obj"] != s["max"] or post["best"]["tok"] is None):
            bad = f"best_elite {post['best']} is not a complete entry with objective obj_max"
        elif n == 0 and (s["max"] is not None or post["best"] is not None):
            bad = "empty archive but obj_max / best_elite not reset"
        return self.F_("C06", "oracle", f"{where}: {bad}") if bad else None

    def check_placement(self, post, g, where):
        rows = post["rows"]
        if not rows:
            return None
        cells = sorted(rows)
        ms = np.array([[float(x) for x in rows[c]["meas"]] for c in cells], dtype=NP[self.dt])
        idx = [int(i) for i in self.a.index_of(ms)]
        occ, data = self.a.retrieve(ms)
        # the scalar lookups agree with the batch ones (every elite one by one: saturated top boundaries included)
        for k, c in enumerate(cells):
            i1 = int(self.a.index_of_single(ms[k]))
            o1, e1 = self.a.retrieve_single(ms[k])
            if i1 != idx[k] or bool(o1) != bool(occ[k]) or int(e1["index"]) != int(data["index"][k]):
                return self.F_("C07", "oracle", f"{where}: index_of_single / retrieve_single of the measures of the elite in "
                               f"cell {c} give cell {i1} / index {int(e1['index'])}, the batch lookups give {idx[k]} / "
                               f"{int(data['index'][k])}") or \
                    self.F_("C15", "oracle", f"{where}: index_of_single({[str(x) for x in rows[c]['meas']]}) = {i1} but "
                            f"index_of gives {idx[k]} (the elite is stored in cell {c})")
        for k, c in enumerate(cells):
            if idx[k] != c or not occ[k] or int(data["index"][k]) != c:
                return self.F_("C07", "oracle", f"{where}: the elite stored in cell {c} (measures "
                               f"{[str(x) for x in rows[c]['meas']]}) maps to cell {idx[k]}; retrieve by its own measures "
                               f"gives occupied={bool(occ[k])}") or \
                    self.F_("C15", "oracle", f"{where}: a surviving elite does not lie in the cell its measures map to "
                            f"(stored {c}, maps to {idx[k]})")
        return None

    def compare(self, post, g, where):
        line = self.drv.ask("state")
        ms = archlib.parse_model_state(" ".join(t for t in line.split() if not t.startswith(("bnds=", "lo=", "hi=", "total=", "buf="))))
        md = dict(t.split("=", 1) for t in line.split())
        mb = [[F(x) for x in b.split(",")] for b in md["bnds"].split(";")] if md["bnds"] else []
        if mb != g["bnds"] or [F(x) for x in md["lo"].split(",")] != g["lo"] or [F(x) for x in md["hi"].split(",")] != g["hi"]:
            return self.F_("C15", "corr", f"{where}: geometry impl={[[str(x) for x in b] for b in g['bnds']]} model={md['bnds']}")
        if {c: (r["tok"], r["obj"]) for c, r in ms["rows"].items()} != {c: (r["tok"], r["obj"]) for c, r in post["rows"].items()}:
            return self.F_("C15", "corr", f"{where}: contents impl={ {c: r['tok'] for c, r in sorted(post['rows'].items())} } "
                           f"model={ {c: r['tok'] for c, r in sorted(ms['rows'].items())} }")
        s, t = post["stats"], ms["stats"]
        if s["num"] != t["num"] or s["max"] != t["max"] or not archlib.close(s["qd"], t["qd"], self.dt, 64 * max(1, s["num"])):
            return self.F_("C06", "corr", f"{where}: stats impl={s} model={t}") or \
                self.F_("C15", "corr", f"{where}: stats differ")
        return None

    def run(self):
        case = self.case
        try:
            for k, op in enumerate(case["ops"]):
                where = f"op#{k} {op['op']}"
                f = None
                if self.sibling is not None and k % 3 == 1:
                    self.poke_sibling(k)
                if op["op"] == "add1":
                    f = self.insert(op["row"], where)
                elif op["op"] == "add":
                    # documented as a loop of add_single in batch order: the batch call runs on a deep copy,
                    # the rows go one by one through the main archive (all oracles), then both must agree
                    import copy
                    twin = copy.deepcopy(self.a)
                    rows = op["rows"]
                    dt, sd = self.dt, case["sol_dim"]
                    toks = [r[0] for r in rows]
                    sol = np.array([solution_of(t, sd) for t in toks], dtype=NP[dt]).reshape(len(rows), sd)
                    obj = np.array([float(fr(r[1])) for r in rows], dtype=np.float64)
                    meas = np.array([[float(fr(m)) for m in r[2]] for r in rows], dtype=np.float64).reshape(
                        len(rows), len(case["dims"]))
                    try:
                        info = twin.add(sol, obj, meas, **batch_kwargs(case["layout"], toks))
                    except Exception as e:  # pylint: disable=broad-except
                        return self.F_("C15", "oracle", f"{where}: a valid add raised {type(e).__name__}: {e}")
                    fbs = []
                    for j, r in enumerate(rows):
                        f = self.insert(r, f"{where}[{j}]")
                        if f is not None:
                            break
                        fbs.append(self.last_fb)
                    if f is None and rows:
                        tb = [(int(s_), F(float(v_))) for s_, v_ in zip(info["status"], info["value"])]
                        ta = archlib.observe(twin, case)["rows"]
                        if tb != fbs or {c: r["tok"] for c, r in ta.items()} != {c: r["tok"] for c, r in self.obs()["rows"].items()} \
                                or geom(twin, case) != geom(self.a, case):
                            f = self.F_("C15", "oracle", f"{where}: add(batch) differs from add_single applied in batch order "
                                        f"(feedback {tb} vs {fbs})")
                elif op["op"] == "clear":
                    self.a.clear()
                    self.drv.ask("clear")
                    self.inserted_max = None
                    post = self.obs()
                    if post["rows"]:
                        f = self.F_("C01", "oracle", f"{where}: cells still occupied after clear")
                    f = f or self.check_stats(post, where) or self.compare(post, geom(self.a, case), where)
                elif op["op"] == "retrieve":
                    f = self.retrieve(op["qs"], where)
                elif op["op"] == "ckpt":
                    self.a = archlib.checkpoint(self.a, op.get("how", "pickle"))
                elif op["op"] == "bad":
                    f = self.do_bad(op, where)
                if f is not None:
                    return f
            return None
        finally:
            self.close()

    def retrieve(self, qs, where):
        dt = self.dt
        cq = [[to_dtype(fr(m), dt) for m in qv] for qv in qs]
        arr = np.array([[float(m) for m in qv] for qv in cq], dtype=NP[dt])
        occ, data = self.a.retrieve(arr)
        g = geom(self.a, self.case)
        post = self.obs()
        got = []
        for k, qv in enumerate(cq):
            c = cell_of(g, self.case["dims"], qv)
            if (c in post["rows"]) != bool(occ[k]):
                return self.F_("C07", "oracle", f"{where}: query {k} maps to cell {c}, occupied={bool(occ[k])} but the cell is "
                               f"{'occupied' if c in post['rows'] else 'empty'}")
            if occ[k]:
                t = decode_tok(self.case["layout"], self.case["sol_dim"], lambda name, k=k: data[name][k])
                if t != post["rows"][c]["tok"]:
                    return self.F_("C07", "oracle", f"{where}: query {k} returned candidate {t}, cell {c} stores {post['rows'][c]['tok']}")
                got.append(f"{c}:{t}")
            else:
                got.append(f"{c}:none")
        m = self.drv.ask("retrieve " + " ".join(ql(qv) for qv in cq))
        want = [":".join(t.split(":")[:2]) for t in m.split()]
        if got != want:
            return self.F_("C07", "corr", f"{where}: retrieve impl={got} model={want}")
        return None


def gen_rank(rng, big=False):
    """rank-formula sweep: several dimensions with many cells, one long history whose k-th remap sees k*freq
    buffered solutions, so one case checks boundary j = order statistic floor(j*n/d) for hundreds of (d, n) pairs"""
    while True:
        dims = [rng.randint(2, 32) for _ in range(rng.choice([2, 3, 4]))]
        prod = 1
        for d in dims:
            prod *= d
        if prod <= 60000:
            break
    return {"kind": "sbrank", "dims": dims, "freq": rng.choice([2, 3, 4, 4, 5, 7, 8]),
            "n": rng.choice([700, 1000] if big else [240, 400]), "seed": rng.randrange(10**6), "ops": []}


def run_rank(case):
    import random
    from ribs.archives import SlidingBoundariesArchive
    dims, freq, n = case["dims"], case["freq"], case["n"]
    a = SlidingBoundariesArchive(solution_dim=1, dims=dims, ranges=[(0, 1)] * len(dims), remap_frequency=freq,
                                 buffer_capacity=n + 1)
    r = random.Random(case["seed"])
    cols = [[] for _ in dims]
    drv = Driver("sliding")
    try:
        for t in range(1, n + 1):
            m = [float(r.randrange(-10**6, 10**6)) for _ in dims]
            for c, x in zip(cols, m):
                c.append(x)
            a.add_single([float(t)], float(r.randrange(-100, 100)), m)
            if t % freq:
                continue
            for k, d in enumerate(dims):
                srt = sorted(cols[k])
                want = [srt[(j * t) // d] for j in range(d)] + [srt[-1]]
                got = [float(x) for x in a.boundaries[k][:d + 1]]
                if got != want:
                    j = next(i for i in range(d + 1) if got[i] != want[i])
                    return Failure("oracle", f"[C15] remap with {t} buffered solutions, dimension {k} with {d} cells: boundary "
                                   f"{j} is {got[j]} (order statistic {srt.index(got[j]) if got[j] in srt else '?'}) but the "
                                   f"evenly spaced order statistic floor({j}*{t}/{d}) = {(j * t) // d} is {want[j]}")
                if (t // freq) % 16 == 1:   # the model on a subset (it agrees with the oracle by T15.1)
                    mb = [F(x) for x in drv.ask(f"bounds {d} {ql(F(x) for x in cols[k])}").split(",")]
                    if [F(x) for x in got] != mb:
                        return Failure("corr", f"[C15] boundaries impl vs model differ (n={t}, d={d})")
        return None
    finally:
        drv.close()


def run_case(case, props=("C15",)):
    if case.get("kind") == "sbrank":
        return run_rank(case)
    return archlib.guarded(Run(case, props), set(props))


def nontrivial(case):
    if case.get("kind") == "sbrank":
        return True
    n = sum(1 if op["op"] == "add1" else len(op.get("rows", [])) if op["op"] == "add" else 0 for op in case["ops"])
    return n >= 2 * case["freq"]


def run(ctx):
    ctx.explore("remaps", gen_case, lambda c: run_case(c, {"C15"}), ctx.n(300, 20000), nontrivial=nontrivial,
                time_budget=25 if ctx.quick else 330)
    ctx.explore("rank-sweep", (lambda rng: gen_rank(rng, big=not ctx.quick)), lambda c: run_case(c, {"C15"}),
                ctx.n(6, 600), time_budget=12 if ctx.quick else 120)
    # the documented defaults (remap every 100 insertions, buffer of 1000): histories of 200-400 insertions
    ctx.explore("default-frequency", (lambda rng: gen_case(rng, defaults=True)), lambda c: run_case(c, {"C15"}),
                ctx.n(2, 60), nontrivial=nontrivial, time_budget=15 if ctx.quick else 120)


    # thousands of cells holding a handful of elites with tied objectives (sparse regime of the batch transform)
    ctx.explore("sparse-big", (lambda rng: gen_case(rng, big=True)), lambda c: run_case(c, {"C15"}),
                ctx.n(25, 2000), nontrivial=nontrivial, time_budget=15 if ctx.quick else 150)


def replay(ctx, case):
    return run_case(case, {"C15"})
