import PyribsProofs.C01
/-!
# C04 (T04.4) — for elitist archives add_mode "single" and "batch" leave identical contents

`Scheduler._add_to_archives` submits the rows of one tell either as one `add` (batch mode) or
as one `add_single` per row, in order (single mode; `Pyribs.C04.modes_same_rows` proves both
modes submit the same rows in the same order).  With the archive model of C01 the two
submissions end in the same contents, after any common history.
-/
namespace Pyribs.C04b
open Pyribs Arch

theorem routed_append (ops ops' : List C01.Op) (i : Nat) :
    C01.routed (ops ++ ops') i = ops'.foldl (C01.routedStep i) (C01.routed ops i) := by
  simp [C01.routed, List.foldl_append]

theorem routed_singles (rows : List (Nat × Cand)) (acc : List Cand) (i : Nat) :
    (rows.map C01.Op.add1).foldl (C01.routedStep i) acc = acc ++ rowsTo rows i := by
  induction rows generalizing acc with
  | nil => simp [rowsTo]
  | cons r rs ih =>
    simp only [List.map_cons, List.foldl_cons, C01.routedStep]
    rw [ih]
    have : rowsTo (r :: rs) i = rowsTo [r] i ++ rowsTo rs i := by
      rw [← rowsTo_append]; rfl
    rw [this, List.append_assoc]

/-- **T04.4 `add_mode_equivalence`** : after any history `ops`, submitting the rows of a tell as
one batch or one by one (in order) yields the same contents in every cell. -/
theorem add_mode_equivalence (cfg : Cfg) (he : C01.Elitist cfg) (cells : Nat) (ops : List C01.Op)
    (rows : List (Nat × Cand)) (hw : C01.WellRouted cells ops) (hr : ∀ r ∈ rows, r.1 < cells)
    (i : Nat) (hi : i < cells) :
    (C01.run cfg cells (ops ++ [.add rows])).cellOf i =
      (C01.run cfg cells (ops ++ rows.map C01.Op.add1)).cellOf i := by
  apply C01.batching_invariance cfg he cells
  · intro op hop
    rcases List.mem_append.mp hop with h | h
    · exact hw op h
    · simp only [List.mem_singleton] at h; subst h; trivial
  · intro op hop
    rcases List.mem_append.mp hop with h | h
    · exact hw op h
    · obtain ⟨r, hrm, rfl⟩ := List.mem_map.mp h
      exact hr r hrm
  · intro j _
    rw [routed_append, routed_append, routed_singles]
    simp [C01.routedStep]
  · exact hi

/-- whole iterations: a history of tells in batch mode and the same history in single mode
(every tell's rows in range) end in the same contents -/
theorem add_mode_equivalence_history (cfg : Cfg) (he : C01.Elitist cfg) (cells : Nat)
    (tells : List (List (Nat × Cand))) (hr : ∀ rows ∈ tells, ∀ r ∈ rows, r.1 < cells)
    (i : Nat) (hi : i < cells) :
    (C01.run cfg cells (tells.map C01.Op.add)).cellOf i =
      (C01.run cfg cells (tells.flatMap (fun rows => rows.map C01.Op.add1))).cellOf i := by
  apply C01.batching_invariance cfg he cells
  · intro op hop
    obtain ⟨rows, _, rfl⟩ := List.mem_map.mp hop
    trivial
  · intro op hop
    obtain ⟨rows, hrows, hop'⟩ := List.mem_flatMap.mp hop
    obtain ⟨r, hrm, rfl⟩ := List.mem_map.mp hop'
    exact hr rows hrows r hrm
  · intro j _
    have hgen : ∀ (acc : List Cand),
        (tells.map C01.Op.add).foldl (C01.routedStep j) acc =
          (tells.flatMap (fun rows => rows.map C01.Op.add1)).foldl (C01.routedStep j) acc := by
      clear hr
      induction tells with
      | nil => intro acc; rfl
      | cons rows rest ih =>
        intro acc
        simp only [List.map_cons, List.foldl_cons, List.flatMap_cons, List.foldl_append]
        rw [routed_singles, ih]
        rfl
    exact hgen []
  · exact hi

theorem nonvacuous :
    let rows : List (Nat × Cand) := [(0, ⟨1, 2, []⟩), (0, ⟨2, 2, []⟩), (1, ⟨3, -1, []⟩), (0, ⟨4, 5, []⟩)]
    ((C01.run ⟨1, none, 0⟩ 2 [.add rows]).cellOf 0).map (·.tok) = some 4 ∧
    ((C01.run ⟨1, none, 0⟩ 2 (rows.map C01.Op.add1)).cellOf 0).map (·.tok) = some 4 ∧
    ((C01.run ⟨1, none, 0⟩ 2 (rows.map C01.Op.add1)).cellOf 1).map (·.tok) = some 3 := by
  decide +kernel

end Pyribs.C04b
