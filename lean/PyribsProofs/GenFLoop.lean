import PyribsGen.Control
import PyribsModel.Scheduler
import PyribsModel.Bandit
/-!
# GenFLoop — the dispatch loops of the schedulers, read from the source tree under check

`harness/translate/control.py` reads one iteration of the loops
`pos = 0; for …: end = pos + n; emitter.tell(… arr[pos:end] …); pos = end` of `Scheduler.tell`,
`Scheduler.tell_dqd` and `BanditScheduler.tell` (which also updates `_selection[i]` and
`_success[i]`): the bounds with which **every** per-row array of the iteration is cut (the reader
insists that all slices of the body use the same bounds — the solutions, objectives, measures, extra
fields, Jacobians and every add-feedback array), the counter afterwards and its initial value.  The
theorems state that the model's `slices` / `tellLoop` are exactly the iteration of these generated
steps, so the partition law of C04 (T04.2 …) and the bookkeeping law of C16 are about the loop the
code runs now.
-/
namespace Pyribs.GenFProofs
open Pyribs

/-- **GL1** `Scheduler.tell`: the model's `(pos, end)` pairs are the iteration of the generated step,
started at the generated initial value -/
theorem sched_tell_loop_from_source (pos n : Nat) (ns : List Nat) :
    Scheduler.slices pos (n :: ns)
      = (GenC.schedTellLo pos n, GenC.schedTellHi pos n) :: Scheduler.slices (GenC.schedTellNext pos n) ns := rfl

theorem sched_tell_init_from_source {α : Type} (counts : List Nat) (xs : List α) :
    Scheduler.dispatch counts xs = Scheduler.dispatchFrom GenC.schedTellInit counts xs := rfl

/-- **GL2** the same for `Scheduler.tell_dqd` (which also cuts the Jacobian) -/
theorem sched_tell_dqd_loop_from_source (pos n : Nat) (ns : List Nat) :
    Scheduler.slices pos (n :: ns)
      = (GenC.schedTellDqdLo pos n, GenC.schedTellDqdHi pos n)
          :: Scheduler.slices (GenC.schedTellDqdNext pos n) ns := rfl

theorem sched_tell_dqd_init_from_source {α : Type} (counts : List Nat) (xs : List α) :
    Scheduler.dispatch counts xs = Scheduler.dispatchFrom GenC.schedTellDqdInit counts xs := rfl

/-- the generated step, iterated over a count vector -/
def genSlices : Nat → List Nat → List (Nat × Nat)
  | _, [] => []
  | pos, n :: ns => (GenC.schedTellLo pos n, GenC.schedTellHi pos n) :: genSlices (GenC.schedTellNext pos n) ns

/-- **GL3** for every count vector the model's slices are the generated loop -/
theorem slices_eq_generated (pos : Nat) (ns : List Nat) : Scheduler.slices pos ns = genSlices pos ns := by
  induction ns generalizing pos with
  | nil => rfl
  | cons n ns ih =>
    rw [sched_tell_loop_from_source, genSlices, ih]

/-- **GL4** `BanditScheduler.tell`, one active emitter: rows `[pos, end)` of every per-row array,
`selection += n`, `success += count_nonzero(status[pos:end])`, next emitter from `end` -/
theorem bandit_tell_loop_from_source (status : Nat → Nat) (cur : List Scheduler.Sol) (i pos n : Nat)
    (em : Bandit.Em) (ems : List Bandit.Em) (ha : em.active = true) (hn : em.emitted = some n) :
    let rows := Scheduler.slice (List.range cur.length)
                  (GenC.banditTellLo pos n em.selection em.success 0, GenC.banditTellHi pos n em.selection em.success 0)
    let cnt := (rows.filter (status · ≠ 0)).length
    Bandit.tellLoop status cur i pos (em :: ems) =
      match Bandit.tellLoop status cur (i + 1) (GenC.banditTellNext pos n em.selection em.success cnt) ems with
      | .error e => .error e
      | .ok r =>
        .ok ({ em with selection := GenC.banditTellSel pos n em.selection em.success cnt
                       success := GenC.banditTellSuc pos n em.selection em.success cnt } :: r.1,
             .tell i (Scheduler.slice cur (GenC.banditTellLo pos n em.selection em.success cnt,
                                           GenC.banditTellHi pos n em.selection em.success cnt))
                   rows (rows.map status) :: r.2) := by
  simp only [Bandit.tellLoop, ha, hn, if_true]
  rfl

/-- an inactive emitter is skipped without moving the counter -/
theorem bandit_tell_loop_inactive (status : Nat → Nat) (cur : List Scheduler.Sol) (i pos : Nat)
    (em : Bandit.Em) (ems : List Bandit.Em) (ha : em.active = false) :
    Bandit.tellLoop status cur i pos (em :: ems) =
      match Bandit.tellLoop status cur (i + 1) pos ems with
      | .error e => .error e
      | .ok r => .ok (em :: r.1, r.2) := by
  simp only [Bandit.tellLoop, ha]
  rfl

theorem bandit_tell_init_from_source : GenC.banditTellInit = 0 := rfl

example : genSlices 0 [2, 0, 3] = [(0, 2), (2, 2), (2, 5)] := by decide

end Pyribs.GenFProofs
