"""C07 — every stored elite is retrievable through its own measures (fixed-cell archives here;
SlidingBoundariesArchive remaps and ProximityArchive are exercised by the C15 / C14 runners with the same oracle)."""
import archdispatch
import archlib

ID = "C07"
PROOF_MODULES = ["PyribsProofs.C07", "PyribsProofs.C07c", "PyribsProofs.C15", "PyribsProofs.C15b", "PyribsProofs.C14b"]
THEOREMS = [
    "Pyribs.C07c.exact_admissible",
    "Pyribs.C07c.admissible_sandwich",
    "Pyribs.C07c.admissible_zero",
    "Pyribs.C07c.nonvacuous",
    "Pyribs.C07.placed_addBatch",
    "Pyribs.C07.placed_addSingle",
    "Pyribs.C07.placement_invariant",
    "Pyribs.C07.retrieve_spec",
    "Pyribs.C07.retrieve_single_eq",
    "Pyribs.C07.self_retrieval",
    "Pyribs.C07.sample_sound",
    "Pyribs.C07.nonvacuous",
    "Pyribs.C15.remap_placed",
    "Pyribs.C14b.prox_self_retrieval",
    "Pyribs.C15b.good_history",
]
RULE = ("lock-step histories (add / add_single / clear / retrieve / retrieve_single / sample_elites) on every "
        "fixed-cell archive kind, dtype and extra-field layout; after every add all stored measures are retrieved "
        "(self-retrieval) and query batches mix hits, misses, repeated cells and out-of-range measures; blanks are "
        "checked per field kind (NaN / -1 / 0 / None); float32 archives are fed float64 measures next to cell "
        "edges; non-trivial when the case contains a retrieve with at least one hit and one miss candidate pool")
PARTIAL = []
ASSUMPTIONS = list(__import__("props.c01", fromlist=["x"]).ASSUMPTIONS)
PROPS = {"C07"}


def gen(profile, **kw):
    def g(rng):
        case = archlib.gen_case(rng, profile, **kw)
        case["profile"] = profile
        # more queries
        for op in list(case["ops"]):
            if op["op"] in ("add", "add1") and rng.random() < 0.5:
                qs = [archlib.gen_meas(rng, case, None, boundary=True) for _ in range(rng.randint(1, 8))]
                case["ops"].insert(case["ops"].index(op) + 1, {"op": "retrieve", "qs": qs,
                                                                 "single": rng.random() < 0.3})
        return case
    return g


def gen_edge(rng):
    """float32 archives fed float64 measures within a float32 ulp of a cell edge (D17)."""
    from fractions import Fraction as F
    case = archlib.gen_geometry(rng, kinds=("grid",), max_cells=2000)
    case["dims"] = [rng.choice([10, 100, 1000])]
    case["lo"], case["hi"], case["width"] = ["0"], ["1"], archlib.q(F(1, case["dims"][0]))
    case.update({"dtype": "f32", "layout": rng.choice(["", "s", "o"]), "sol_dim": 1, "off": "0"})
    import numpy as np
    if rng.random() < 0.6:
        # a range whose lower bound is not representable: `measures - lower_bounds` rounds differently in float32
        # and float64, so the cell of a float32 value a few ulps from an edge depends on how the query is typed
        lo, hi = rng.choice([(-1.3, 2.7), (0.1, 0.9), (-0.7, 0.3), (1e-3, 7.001)])
        lo, hi = float(np.float32(lo)), float(np.float32(hi))
        case["lo"], case["hi"] = [archlib.q(F(lo))], [archlib.q(F(hi))]
        case["width"] = archlib.q((F(hi) - F(lo)) / case["dims"][0])
    lo_f, hi_f = float(F(case["lo"][0])), float(F(case["hi"][0]))
    case["rtol"] = archlib.q(F(1, 2**19) * max(1, abs(F(lo_f)), abs(F(hi_f))))   # ~ 32 float32 ulps of the range
    ops = []
    tok = 0
    for _ in range(rng.randint(2, 8)):
        tok += 1
        k = rng.randrange(1, case["dims"][0])
        if rng.random() < 0.6:
            # float32 values 0..3 ulps around the edge
            v = np.float32(lo_f + k * (hi_f - lo_f) / case["dims"][0])
            for _ in range(rng.randint(0, 3)):
                v = np.nextafter(v, np.float32(rng.choice([-10.0, 10.0])), dtype=np.float32)
            row = [tok, archlib.q(F(rng.randint(-4, 4))), [archlib.q(F(float(v)))]]
            ops.append({"op": "add", "rows": [row]} if rng.random() < 0.5 else {"op": "add1", "row": row})
            continue
        edge = F(lo_f) + F(k) * (F(hi_f) - F(lo_f)) / case["dims"][0]
        m = F(float(edge)) + rng.choice([-1, 1]) * F(1, 2**rng.choice([26, 28, 30, 33]))
        row = [tok, archlib.q(F(rng.randint(-4, 4))), [archlib.q(m)]]
        ops.append({"op": "add", "rows": [row]} if rng.random() < 0.5 else {"op": "add1", "row": row})
    case["ops"] = ops
    case["profile"] = "edge"
    return case


def gen_sb_large(rng):
    """SlidingBoundariesArchive in float32 with measures of magnitude 10..1000 (epsilon is below their resolution):
    oracle only -- the exact model assumes |m| <= 4 in float32 -- every elite must be found through its own
    measures by batch and by single lookups alike, after every insertion and remap."""
    nd = rng.choice([1, 1, 2])
    return {"kind": "sb_large", "dims": [rng.choice([2, 3, 5]) for _ in range(nd)], "freq": rng.choice([3, 4, 7]),
            "cap": rng.choice([3, 8, 50]), "dtype": rng.choice(["f32", "f32", "f64"]), "seed": rng.randrange(10**6),
            "scale": rng.choice([40, 300, 1000]), "ops": [rng.randrange(10**6) for _ in range(rng.randint(8, 30))]}


def run_sb_large(case):
    import random
    import numpy as np
    from core import Failure
    from ribs.archives import SlidingBoundariesArchive
    dt = np.float32 if case["dtype"] == "f32" else np.float64
    nd = len(case["dims"])
    a = SlidingBoundariesArchive(solution_dim=1, dims=case["dims"], ranges=[(-case["scale"], case["scale"])] * nd,
                                 remap_frequency=case["freq"], buffer_capacity=case["cap"], dtype=dt)
    pool = []
    for t, sd in enumerate(case["ops"]):
        r = random.Random(sd)
        if pool and r.random() < 0.4:
            m = r.choice(pool)                                   # duplicates: boundaries land exactly on elites
        else:
            m = [r.randint(-8 * case["scale"], 8 * case["scale"]) / 8 for _ in range(nd)]
            pool.append(m)
        a.add_single([float(t)], float(r.randint(-9, 9)), m)
        d = a.data()
        if not len(d["index"]):
            continue
        ms = d["measures"]
        idx = a.index_of(ms)
        occ, got = a.retrieve(ms)
        for k in range(len(ms)):
            where = f"insertion {t} ({case['dtype']}, remap every {case['freq']}): elite with measures {ms[k].tolist()}"
            if int(idx[k]) != int(d["index"][k]) or not occ[k] or int(got["index"][k]) != int(d["index"][k]):
                return Failure("oracle", f"[C07] {where} is stored in cell {int(d['index'][k])} but a batch lookup of its "
                               f"own measures gives cell {int(idx[k])}, occupied={bool(occ[k])}")
            i1 = int(a.index_of_single(ms[k]))
            o1, e1 = a.retrieve_single(ms[k])
            if i1 != int(d["index"][k]) or not o1 or int(e1["index"]) != int(d["index"][k]):
                return Failure("oracle", f"[C07] {where} is stored in cell {int(d['index'][k])}; the batch lookup finds it, "
                               f"the single lookup gives cell {i1}, occupied={bool(o1)}")
    return None


def nontrivial(case):
    return any(op["op"] == "retrieve" and len(op["qs"]) >= 2 for op in case["ops"]) or case.get("profile") == "edge"


def run_case(case):
    if case.get("kind") == "sb_large":
        return run_sb_large(case)
    return archdispatch.run_case(case, PROPS)


def run(ctx):
    budget = 7 if ctx.quick else 80
    ctx.explore("mixed", gen("mixed"), run_case, ctx.n(200, 14000), nontrivial=nontrivial, time_budget=budget)
    ctx.explore("cma", gen("cma", cma=True), run_case, ctx.n(120, 8000), nontrivial=nontrivial, time_budget=budget)
    ctx.explore("edge", gen_edge, run_case, ctx.n(120, 8000), nontrivial=nontrivial, time_budget=budget)
    # across SlidingBoundariesArchive remaps and ProximityArchive replacements / growth
    ctx.explore("sliding-remaps", archdispatch.gen_sliding, run_case, ctx.n(80, 6000), time_budget=budget)
    ctx.explore("proximity", archdispatch.gen_prox(), run_case, ctx.n(80, 6000), time_budget=budget)
    ctx.explore("sliding-large-float32", gen_sb_large, run_case, ctx.n(60, 4000), time_budget=budget)
    # a user subclass overriding the documented routing hook `index_of`: every entry point must go through it
    ctx.explore("hooks", archlib.gen_hooks, run_case, ctx.n(60, 3000), time_budget=budget)


def replay(ctx, case):
    return run_case(case)
