# scratch fuzz ProximityArchive vs brute-force kNN reference (integer-grid measures => exact squared distances)
import numpy as np, random, warnings, math
from ribs.archives import ProximityArchive
warnings.simplefilter("ignore")
bad=0; nrun=0
for seed in range(1500):
    rnd=random.Random(seed)
    k=rnd.choice([1,1,2,3,5]); thr=rnd.choice([0.0,1.0,1.5,2.0,5.0]); lc=rnd.random()<0.5; cap=rnd.choice([1,2,3,128])
    dt=rnd.choice([np.float64,np.float32])
    a=ProximityArchive(solution_dim=1,measure_dim=2,k_neighbors=k,novelty_threshold=thr,local_competition=lc,initial_capacity=cap,dtype=dt)
    ref=[]  # list of (meas, obj, sid)
    sid=0; ok=True
    for step in range(rnd.randint(1,12)):
        r=rnd.random()
        if r<0.08:
            a.clear(); ref=[]; continue
        n=1 if r<0.3 else rnd.randint(0,5)
        ms=[(rnd.randint(-4,4),rnd.randint(-4,4)) for _ in range(n)]
        objs=[rnd.randint(-5,5) for _ in range(n)]
        sids=list(range(sid,sid+n)); sid+=n
        if n==0 and lc is False:
            pass
        try:
            if r<0.3:
                res=a.add_single([float(sids[0])],float(objs[0]),list(map(float,ms[0])))
                res={kk:np.atleast_1d(vv) for kk,vv in res.items()}
            else:
                res=a.add(np.array(sids,dtype=float).reshape(n,1),np.array(objs,dtype=float),np.array(ms,dtype=float).reshape(n,2))
        except Exception as e:
            print("EXC seed",seed,step,type(e).__name__,e, "n",n,"len",len(ref)); bad+=1; ok=False; break
        # reference
        exp_status=[]; exp_nov=[]; exp_lcs=[]; targets=[]
        pre=list(ref)
        for (m,o) in zip(ms,objs):
            if not pre:
                nov=thr; novel=True; lcs=0; nn=None
            else:
                ds=sorted((math.dist(m,p[0]),i) for i,p in enumerate(pre))
                kk=min(k,len(pre))
                nov=sum(d for d,_ in ds[:kk])/kk
                novel = nov>=thr
                # lc count among the k nearest (ties ambiguous): compute only if no tie at boundary
                lcs=None
                if kk==len(pre) or ds[kk-1][0]<ds[kk][0]:
                    lcs=sum(1 for d,i in ds[:kk] if pre[i][1]<o)
                nn=[i for d,i in ds if d==ds[0][0]]
            exp_nov.append(nov); exp_lcs.append(lcs); targets.append((novel,nn))
        # statuses
        newidx=len(pre)
        repl={}
        for j,((novel,nn),m,o,s_) in enumerate(zip(targets,ms,objs,sids)):
            if novel:
                exp_status.append(2); ref.append((m,o,s_))
            elif lc:
                if len(nn)>1: exp_status.append(None)  # ambiguous nearest
                else:
                    t=nn[0]
                    if o>pre[t][1]:
                        exp_status.append(1); repl.setdefault(t,[]).append((o,-j,m,s_))
                    else: exp_status.append(0)
            else: exp_status.append(0)
        amb = any(s is None for s in exp_status)
        for t,lst in repl.items():
            o,nj,m,s_=max(lst); ref[t]=(m,o,s_)
        st=res["status"].tolist()
        if amb: break
        if st!=exp_status: print("STATUS seed",seed,step,st,exp_status); bad+=1; ok=False; break
        if not np.allclose(res["novelty"],exp_nov,rtol=1e-6): print("NOV seed",seed,step,res["novelty"],exp_nov); bad+=1; ok=False; break
        if lc and any(e is not None and e!=g for e,g in zip(exp_lcs,res["local_competition"].tolist())): print("LC seed",seed,step); bad+=1; ok=False; break
        d=a.data()
        got=[(tuple(map(int,m)),int(o),int(s[0])) for m,o,s in zip(d["measures"],d["objective"],d["solution"])]
        if got!=ref or d["index"].tolist()!=list(range(len(ref))): print("CONTENT seed",seed,step,got,ref); bad+=1; ok=False; break
        if len(ref):
            if not (np.array_equal(a.upper_bounds,np.max([r[0] for r in ref],axis=0)) and np.array_equal(a.lower_bounds,np.min([r[0] for r in ref],axis=0))): print("BOUNDS seed",seed,step); bad+=1; break
        if a.capacity<len(ref): print("CAP"); bad+=1
    nrun+=1
print("runs",nrun,"bad",bad)
