"""Print the brief given to an independent seeding agent for one property (round >= 2).

usage: seedprompt.py <property-id> <scratch-root>      e.g. seedprompt.py C07 /tmp/seed3

The agent gets the property's text, its own scratch git worktree <scratch-root>/<id> and the summaries of the
changes already kept for that property (so that it looks elsewhere) -- and nothing from /verif.
"""
import glob
import json
import sys

pid, root = sys.argv[1], sys.argv[2]
props = {json.loads(l)['id']: json.loads(l) for l in open('/verif/properties.jsonl')}
p = props[pid]
wt = f"{root}/{pid}"
tried = []
for d in sorted(glob.glob(f"/verif/seeded/{pid}-*")):
    m = json.load(open(d + "/meta.json"))
    tried.append("- " + str(m.get("summary"))[:420].replace("\n", " "))
FOCUS3 = ("""In this round look in particular at what a checker that always calls the library in one fixed way would never exercise: an ALTERNATIVE but documented form of an argument (a class or callable instead of a name, a scalar instead of an array, a list instead of an ndarray, a dict of dtypes instead of one dtype, keyword vs. positional), a DEFAULT value that is computed from other arguments, a rarely used constructor option or method, the INTERACTION of two features that are each fine alone, a particular dtype / configuration / archive type out of several, a tolerance-based shortcut, a loop or branch that is reached only after many iterations or under tight settings, a value that is not exactly representable in float32, a state reached only after clear() / a restart / a remap / a resize / pickling. """)
FOCUS4 = ("In this round look in particular at what only shows over TIME or at SCALE: a state that is reached only after a "
          "particular multi-step history (clear() followed by more work, several restarts, several remaps or resizes in "
          "a row, an emitter that was inactive for a while, a second pickle round trip), a cache, counter or derived "
          "quantity that is updated in one code path but not in another path that reaches the same state, an "
          "off-by-one that needs a size, count or index beyond the small examples (an exact multiple, a boundary "
          "between two growth steps, the last element, an empty or full container), two methods that should agree "
          "(batch vs. single, property vs. method, fresh object vs. reset object, dict vs. tuple vs. pandas view) and "
          "disagree only in a corner, an argument combination in which one option silently overrides another, error "
          "handling that leaves something half-done, and numerical corner cases (ties, signed zeros, exactly "
          "representable vs. not, values at the limits of float32).")
FOCUS5 = ("In this round look in particular at changes whose result still LOOKS valid (right shape, right dtype, finite, "
          "in range) but comes from the wrong place: the wrong row, coordinate, axis, emitter, field or cell; a "
          "transposition or an axis mix-up that is invisible when the configuration is SYMMETRIC or UNIFORM (a constant "
          "x0, square dims, equal ranges in every dimension, one emitter, batch size equal to the dimension, all "
          "objectives equal, bounds symmetric around 0) and shows only with an asymmetric one; a constant or "
          "coefficient of a formula changed slightly (a 2 that becomes a 3, `n` for `n + 1`, a default derived from "
          "another argument); shared helper code (`ribs/_utils.py`, `_transforms.py`, `_array_store.py`, "
          "`_archive_base.py`) changed in a way that matters for only ONE of the archive types, entry points or "
          "argument combinations that go through it; a NON-DEFAULT constructor option that is rarely set (look at every "
          "keyword of the constructors involved and pick those no example uses); and behaviour right after an "
          "unusual but legal first call (querying before anything was added, a batch of size 1 or 0, a first call with "
          "every candidate rejected).")
FOCUS6 = ("In this round look in particular at the classic PYTHON / NUMPY pitfalls a maintainer introduces in a clean-up, "
          "each of which leaves ordinary runs untouched: truthiness conflation (`x or default`, `if x:` where x may "
          "legitimately be 0, 0.0, an empty batch, seed 0, learning rate 0, sigma 0, an empty archive); `is` for `==` "
          "or the reverse; a mutable default argument or a module-level / class-level container shared between "
          "instances; a closure or lambda that captures a loop variable late; integer vs. true division, `int()` vs. "
          "`round()` vs. floor for negatives; a sort whose tie order changes (argsort kind, stable vs. unstable, "
          "`[::-1]` reversing the tie order, `max` / `argmax` first-vs-last on ties); a loop turned into a vectorised "
          "NumPy expression that differs for DUPLICATE indices (`a[idx] += v` vs. `np.add.at`, last-write-wins vs. "
          "first), for empty inputs, or for a batch of size 1 (`squeeze`, `(n,)` vs. `(n, 1)` broadcasting, `keepdims`, "
          "`axis`); an in-place operator (`+=`, `out=`, `np.clip(..., out=)`, `sort()`) on something that is a view of "
          "the caller's or of stored data; a dtype promotion or silent cast (int status arrays, bool masks, float32 "
          "intermediates computed in float64 or the reverse, int32 overflow of an index product); negative or "
          "out-of-range indices that wrap instead of failing; an exception swallowed or converted so that a failure is "
          "silently ignored; reliance on dict / set iteration order; exact float equality where a tolerance was, or "
          "the reverse.")
FOCUS7 = ("In this round assume the property is guarded by a strong randomized differential checker that already covers "
          "everything on the list below (alternative argument forms, defaults, dtype mixes, float32 rounding, ties, "
          "several instances alive at once, pickling mid-cycle, seed 0, huge and tiny magnitudes, histories with clear / "
          "remap / restart, fault injection). Look for what such a checker STRUCTURALLY tends not to see: a rare "
          "branch guarded by a SIZE threshold that small random cases never cross (a chunk size, a buffer that "
          "must fill, a capacity that must double several times, more elites than some constant, a batch larger than "
          "the number of cells, dimension above some value); an effect that needs a LONG history (hundreds of calls: "
          "slow drift of an accumulated sum, a counter that wraps or is compared with the wrong bound, a cache that "
          "is only invalidated every N-th time); a documented but rarely used part of the public API through which the "
          "property is observable (properties and dunder methods such as len / iter / empty / stats fields / "
          "best_elite, `return_type` variants, ArchiveDataFrame methods, emitter and scheduler read-only properties, "
          "aliases of a function); an interaction with the ENVIRONMENT (a temporary np.errstate / warnings filter / "
          "print options / thread limit that is changed and not restored, or that changes the result when the user "
          "has set it); a change that is correct for every archive / emitter / ranker type shipped with the library "
          "but wrong for the generic contract they implement, in a way that only one shipped configuration exposes; "
          "an off-by-one in which of several equally plausible rows / cells / emitters is picked, visible only when "
          "those candidates differ in a secondary attribute (an extra field, the solution, the measures).")
FOCUS8 = ("In this round assume a strong randomized differential checker with fault injection already guards the property "
          "(alternative argument forms, defaults, dtype mixes, rounding, ties, several instances, pickling, long "
          "histories, size thresholds, rarely used API). Look for breakage that needs TWO COOPERATING SITES that each "
          "look fine alone (a helper whose contract is loosened in one file and a caller in another file that relied on "
          "the old contract; a value cached in one method and invalidated in another; a field renamed or re-ordered in "
          "one place and consumed positionally in another); for what happens AFTER A FAILURE at a particular point (a "
          "call that raises half-way -- a rejected add, a tell with a wrong-length argument, an ask out of order, a "
          "KeyboardInterrupt-like exception inside a user callback / custom transform / custom ranker -- after which "
          "the object is used again and now misbehaves although the failed call was correctly rejected); for a "
          "particular INTERLEAVING of legal calls (ask twice before tell, ask / ask_dqd / tell_dqd / tell order, two "
          "schedulers or two emitters sharing one archive, an archive used as both `archive` and `result_archive`, the "
          "same emitter object listed twice, adding to or clearing an archive while iterating over it, reading a "
          "result object after the archive has changed); for user EXTENSION points (a subclass of an archive, emitter, "
          "ranker or operator that overrides one documented hook; a user-supplied callable, dtype object, Generator or "
          "SeedSequence) that the shipped classes never exercise; and for copy / deepcopy / pickle round trips FOLLOWED "
          "BY MORE WORK on both the copy and the original.")
FOCUS = {"8": FOCUS8, "4": FOCUS4, "5": FOCUS5, "6": FOCUS6, "7": FOCUS7}.get(sys.argv[3] if len(sys.argv) > 3 else "", FOCUS3)
print(f"""You are testing how well a semantic property of the Python library pyribs (quality-diversity optimization; package `ribs`) is protected against regressions. You have your own scratch git worktree of the repository at {wt} (work ONLY there and in {wt}_out; do not read or touch /repo, /verif or any other directory outside {wt}, {wt}_out and the Python environment). Run Python with `PYTHONPATH={wt} /venv/bin/python` so that your modified copy of `ribs` is imported (check `ribs.__file__`). NEVER use `git stash` (it is shared between worktrees): use `git diff > file`, `git apply`, `git apply -R`, `git checkout -- .`.

THE PROPERTY ({pid}: {p['title']}):
{p['statement']}
It is meant to hold: {p['quantifier']['text']}
Why ordinary tests cannot settle it: {p.get('why_tests_cant','')}
The code it is anchored in: {', '.join(p['anchors']['files'])}.

YOUR TASK: produce TWO different, realistic source changes to `ribs/` (each independent of the other, each the kind of mistake a maintainer could plausibly make in a refactoring, optimisation or 'small fix'), such that each change
 (a) BREAKS the property above (a clause of it -- preferably a clause or a part of the quantifier that the ideas listed below did NOT target),
 (b) still imports/compiles, and the existing test suite still passes exactly as before: first, on the UNMODIFIED worktree, run `cd {wt} && PYTHONPATH={wt} /venv/bin/python -m pytest -q -p no:cacheprovider --no-cov tests/ 2>&1 | tail -5` and note the pass/fail counts (84 image-comparison tests under tests/visualize fail in this sandbox even without any change; that is the baseline); with your change applied the set of passing tests must be the same (same counts, no new failures),
 (c) needs something SPECIFIC to manifest. {FOCUS} Subtle beats blatant: prefer changes whose effect appears only on a narrow slice of inputs, configurations or histories, and NOT something that ordinary use or the simplest example would expose at once.

These ideas were ALREADY tried by someone else for this property -- do NOT repeat them or close variants; find different mechanisms, different code sites, different clauses of the property:
{chr(10).join(tried) if tried else '- (none)'}

For each change also write a small demonstration program (plain Python script using assert, no pytest needed) that exercises the public API, FAILS (non-zero exit) with the change applied and PASSES (exit 0) on the unmodified code, and that shows the property being violated (not merely that behaviour differs).

DELIVERABLES (create the directory {wt}_out): for k in 1, 2: `{wt}_out/change{{k}}.diff` (output of `git diff` in {wt} for that change alone, relative to the unmodified HEAD; must apply with `git apply`), `{wt}_out/demo{{k}}.py`, and `{wt}_out/meta{{k}}.json` with keys: "property" ("{pid}"), "summary" (what was changed), "needs" (what specific input/sequence/configuration it needs in order to manifest), "why_tests_pass" (why the existing tests do not notice), "verified" (the commands you ran and their results). When you finish, the worktree must be back at the unmodified state (`git -C {wt} checkout -- .`, `git -C {wt} status --short` empty). Verify each diff by applying it to the clean worktree (`git apply`), running the demo (must fail) and the test suite (same counts), then reverting (`git checkout -- .`) and running the demo again (must pass). If after honest effort you can only find one qualifying change, deliver one and say so. If, while reading the code, you notice that the UNMODIFIED code already violates the property on some input, say so in your final report with the input. Report briefly at the end what you delivered.""")
