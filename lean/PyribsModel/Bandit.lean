import PyribsModel.Scheduler
/-!
# Bandit — model of `ribs/schedulers/_bandit_scheduler.py` (BanditScheduler)

State: the protocol flag, and per pool member the row of the vectors
`_active_arr`, `_success`, `_selection`, `_restarts`, `_num_emitted` (kept as one
record per emitter, `Em`, instead of five parallel arrays), the batch returned by
the last ask, and — as for `Scheduler` — the trace of every call made on an
emitter or an archive.

`ask` (mirrors `BanditScheduler.ask`, in the order of the code)
1. `markFrom`    : the `reselect` mask (`'terminated'`: restart counter increased, or no
                   counter = −1; `'all'`: the active ones) and `_restarts := emitter_restarts`;
2. `fill`        : the `while num_needed > 0` loop (first-`num_active` fill, clears the mask);
3. `deactivate`  : `_active_arr[reselect] = False`;
4. selection     : if `reselect.any()`, inactive emitters are activated in descending order of
                   the UCB1 score until `num_active` are active (`activateTop` — the code's
                   `argsort(ucb1)[::-1]` loop);
5. `askLoop`     : `ask()` on every active emitter in pool order, `_num_emitted[i] = len(...)`.

The UCB1 scores are a **parameter** of the call (`AskEnv.score`): `top` (+inf) for an emitter whose
selection count is 0, otherwise a rational bracket `[lo, hi]` of
`success/selection + zeta*sqrt(ln(total success)/selection)` computed by the harness from the
history (`Real.sqrt`/`Real.log` are not computable).  Ties (overlapping brackets) may be broken
either way, so the selection is an **angelic choice**: `AskEnv.choice = some a` feeds the activation
observed on the implementation, and `ask` checks that it is admissible (`judge`): emitters kept
active stay active, exactly `min need #inactive` are newly activated, and every newly activated
emitter scores at least as high (up to ties) as every emitter left inactive — in particular no
previously selected emitter is activated while a never-selected one is left out.  With
`choice = none` the model selects by itself (`activateTop`), which is proved admissible.

`tell` (mirrors `BanditScheduler.tell`): rows to the archive(s), then for every active emitter, in
pool order, `selection += n`, `success += count_nonzero(status[pos:end])`, `emitter.tell(slices)`.
-/
namespace Pyribs.Bandit
open Pyribs.Scheduler (Sol gen slice Mode)

/-- `reselect` -/
inductive Resel | terminated | all
deriving DecidableEq, Repr

/-- `_last_called` -/
inductive Phase | none | ask | tell
deriving DecidableEq, Repr

inductive Err
  | runtime          -- call out of ask→tell order
  | notImplemented   -- ask_dqd / tell_dqd
  | index            -- the fill loop ran off the pool (excluded by the constructor: pool ≥ num_active)
  | type             -- `_num_emitted[i]` is None for an active emitter (never happens, see C16.tell_ok)
deriving DecidableEq, Repr

/-- The property's UCB1 score of a previously selected emitter,
`success/selection + zeta*sqrt(ln(total success)/selection)`; `sq` and `ln` stand for the real
square root and logarithm (not computable, so the driver receives rational brackets of this value),
and the total is clamped at 1 (`ln 1 = 0`) so that the score exists before the first success, as
`np.log(max(self._success.sum(), 1.0))` does.  `PyribsProofs/GenFCtl.lean` proves the expression
generated from the source equal to this one. -/
def ucbSpec (sq ln : Rat → Rat) (success selection zeta total : Rat) : Rat :=
  success / selection + zeta * sq (ln (if total ≤ 1 then 1 else total) / selection)

/-- UCB1 score bracket; `top` = +inf (never selected) -/
inductive Score
  | top
  | iv (lo hi : Rat)
deriving DecidableEq, Repr

/-- `a ≥ b` up to ties: the brackets allow `a`'s true score to be at least `b`'s -/
def Score.ge : Score → Score → Bool
  | .top, _ => true
  | .iv _ _, .top => false
  | .iv _ h, .iv l _ => decide (l ≤ h)

/-- the order the model itself sorts by (upper ends; any point of the bracket would do) -/
def Score.keyGe : Score → Score → Bool
  | .top, _ => true
  | .iv _ _, .top => false
  | .iv _ h, .iv _ h' => decide (h' ≤ h)

structure Cfg where
  numActive : Nat
  resel     : Resel
  mode      : Mode
  hasResult : Bool
deriving DecidableEq, Repr

/-- one pool member's entries of the scheduler's vectors -/
structure Em where
  active    : Bool        -- `_active_arr[i]`
  success   : Nat         -- `_success[i]`
  selection : Nat         -- `_selection[i]`
  restarts  : Int         -- `_restarts[i]`
  emitted   : Option Nat  -- `_num_emitted[i]` (None until first asked)
deriving DecidableEq, Repr

def Em.fresh : Em := ⟨false, 0, 0, 0, none⟩

inductive Event
  /-- `emitter_pool[em].ask()` returned `n` rows -/
  | ask (em n : Nat)
  /-- `archive.add` / `add_single` (`result = false`) or the same on the result archive -/
  | add (result : Bool) (rows : List Nat)
  /-- `emitter_pool[em].tell`: its `solution` argument, the row positions every other per-row
      argument was cut from, and the add-feedback `status` of those rows -/
  | tell (em : Nat) (sols : List Sol) (rows : List Nat) (status : List Nat)
deriving DecidableEq, Repr

structure St where
  phase : Phase
  pool  : List Em
  cur   : List Sol       -- `_cur_solutions`
  trace : List Event
deriving DecidableEq, Repr

def init (poolSize : Nat) : St := ⟨.none, List.replicate poolSize Em.fresh, [], []⟩

def countActive (p : List Em) : Nat := p.countP (·.active)

/-! ### ask -/

/-- what the emitters and the harness supply to one `ask` -/
structure AskEnv where
  /-- emitter `i`'s `restarts` attribute now; −1 when it has none -/
  restarts : Nat → Int
  /-- UCB1 score bracket of emitter `i` -/
  score : Nat → Score
  /-- number of rows emitter `i` generates when asked now -/
  batch : Nat → Nat
  /-- `some a`: the activation vector observed on the implementation (checked); `none`: the model
      selects -/
  choice : Option (List Bool)

/-- step 1: the `reselect` mask and the `_restarts` update, emitters numbered from `i` -/
def markFrom (cfg : Cfg) (env : AskEnv) : Nat → List Em → List (Em × Bool)
  | _, [] => []
  | i, em :: ems =>
    (match cfg.resel with
     | .terminated =>
       ({ em with restarts := env.restarts i },
        decide (em.restarts < env.restarts i) || decide (env.restarts i < 0))
     | .all => (em, em.active)) :: markFrom cfg env (i + 1) ems

/-- step 2: `while num_needed > 0: reselect[i] = False; if not active[i]: activate, num_needed -= 1;
    i += 1`.  `none` = IndexError (ran off the pool). -/
def fill : Nat → List (Em × Bool) → Option (List (Em × Bool))
  | 0, l => some l
  | _ + 1, [] => none
  | k + 1, (em, _) :: l =>
    (fill (if em.active then k + 1 else k) l).map (({ em with active := true }, false) :: ·)

/-- step 3: `_active_arr[reselect] = False` -/
def deactivate (l : List (Em × Bool)) : List Em :=
  l.map fun p => { p.1 with active := p.1.active && !p.2 }

/-- index of the best inactive emitter, emitters numbered from `i` (first among equal keys) -/
def bestFrom (score : Nat → Score) : Nat → List Em → Option Nat
  | _, [] => none
  | i, em :: ems =>
    match bestFrom score (i + 1) ems with
    | none => if em.active then none else some i
    | some j =>
      if em.active then some j
      else if (score i).keyGe (score j) then some i else some j

/-- `_active_arr[j] = True` (emitters numbered from `i`) -/
def activateAt (j : Nat) : Nat → List Em → List Em
  | _, [] => []
  | i, em :: ems => (if i = j then { em with active := true } else em) :: activateAt j (i + 1) ems

/-- step 4: activate the `need` best inactive emitters, best first (`argsort(ucb1)[::-1]` walked
    until `num_active` are active) -/
def activateTop (score : Nat → Score) : Nat → List Em → List Em
  | 0, p => p
  | k + 1, p =>
    match bestFrom score 0 p with
    | none => p
    | some j => activateTop score k (activateAt j 0 p)

/-- compare an activation vector with the pool after deactivation: indices newly activated and
    indices left inactive; `none` if the lengths differ or a kept emitter is not active -/
def diffFrom : Nat → List Em → List Bool → Option (List Nat × List Nat)
  | _, [], [] => some ([], [])
  | i, em :: ems, a :: as =>
    match diffFrom (i + 1) ems as with
    | none => none
    | some (nw, lf) =>
      if em.active then (if a then some (nw, lf) else none)
      else if a then some (i :: nw, lf) else some (nw, i :: lf)
  | _, _, _ => none

/-- the admissibility check of an activation vector `a` against the kept pool -/
def judge (score : Nat → Score) (need : Nat) (kept : List Em) (a : List Bool) : Bool :=
  match diffFrom 0 kept a with
  | none => false
  | some (nw, lf) =>
    (nw.length == min need (nw.length + lf.length)) &&
      nw.all fun c => lf.all fun j => (score c).ge (score j)

def setActive (p : List Em) (a : List Bool) : List Em :=
  List.zipWith (fun em b => { em with active := b }) p a

/-- step 5: ask every active emitter, in pool order -/
def askLoop (batch : Nat → Nat) : Nat → List Em → List Em × List (List Sol) × List Event
  | _, [] => ([], [], [])
  | i, em :: ems =>
    let r := askLoop batch (i + 1) ems
    if em.active then
      ({ em with emitted := some (batch i) } :: r.1, gen i (batch i) :: r.2.1, .ask i (batch i) :: r.2.2)
    else (em :: r.1, r.2.1, r.2.2)

inductive Out
  | asked (sols : List Sol)
  | told
  | error (e : Err)
  /-- not an exception of the code: the observed activation is not one the property allows -/
  | inadmissible
deriving DecidableEq, Repr

/-- the pool after steps 1–3 and whether the mask has any entry left (`reselect.any()`) -/
def prepare (cfg : Cfg) (env : AskEnv) (pool : List Em) : Option (List Em × Bool) :=
  (fill (cfg.numActive - countActive pool) (markFrom cfg env 0 pool)).map fun l =>
    (deactivate l, l.any (·.2))

def need (cfg : Cfg) (kept : List Em) (maskAny : Bool) : Nat :=
  if maskAny then cfg.numActive - countActive kept else 0

/-- the activation vector put to the check: the observed one, or the model's own selection -/
def chosenOf (env : AskEnv) (nd : Nat) (kept : List Em) : List Bool :=
  match env.choice with
  | some a => a
  | none => (activateTop env.score nd kept).map (·.active)

/-- `BanditScheduler.ask` -/
def doAsk (cfg : Cfg) (s : St) (env : AskEnv) : St × Out :=
  if s.phase = .ask then (s, .error .runtime)
  else
    match prepare cfg env s.pool with
    | none => (s, .error .index)
    | some (kept, maskAny) =>
      let nd := need cfg kept maskAny
      let chosen := chosenOf env nd kept
      if judge env.score nd kept chosen then
        let r := askLoop env.batch 0 (setActive kept chosen)
        ({ phase := .ask, pool := r.1, cur := r.2.1.flatten, trace := s.trace ++ r.2.2 },
         .asked r.2.1.flatten)
      else (s, .inadmissible)

/-! ### tell -/

/-- as `Scheduler.addToArchives` (the code is duplicated in `BanditScheduler.tell`) -/
def addEvents (cfg : Cfg) (total : Nat) : List Event :=
  match cfg.mode with
  | .batch =>
    .add false (List.range total) :: (if cfg.hasResult then [.add true (List.range total)] else [])
  | .single =>
    (List.range total).flatMap fun r =>
      .add false [r] :: (if cfg.hasResult then [.add true [r]] else [])

/-- the dispatch loop over the active emitters, emitters numbered from `i`, next row `pos` -/
def tellLoop (status : Nat → Nat) (cur : List Sol) :
    Nat → Nat → List Em → Except Err (List Em × List Event)
  | _, _, [] => .ok ([], [])
  | i, pos, em :: ems =>
    if em.active then
      match em.emitted with
      | none => .error .type
      | some n =>
        let rows := slice (List.range cur.length) (pos, pos + n)
        match tellLoop status cur (i + 1) (pos + n) ems with
        | .error e => .error e
        | .ok r =>
          .ok ({ em with
                 selection := em.selection + n
                 success := em.success + (rows.filter (status · ≠ 0)).length } :: r.1,
               .tell i (slice cur (pos, pos + n)) rows (rows.map status) :: r.2)
    else
      match tellLoop status cur (i + 1) pos ems with
      | .error e => .error e
      | .ok r => .ok (em :: r.1, r.2)

/-- `BanditScheduler.tell`; `status p` = add-feedback status of row `p` -/
def doTell (cfg : Cfg) (s : St) (status : Nat → Nat) : St × Out :=
  if s.phase ≠ .ask then (s, .error .runtime)
  else
    match tellLoop status s.cur 0 0 s.pool with
    | .error e => (s, .error e)
    | .ok r =>
      ({ s with phase := .tell, pool := r.1, trace := s.trace ++ addEvents cfg s.cur.length ++ r.2 },
       .told)

/-! ### the machine -/

inductive Op
  | ask (env : AskEnv)
  | tell (status : Nat → Nat)
  | askDqd
  | tellDqd

def step (cfg : Cfg) (s : St) : Op → St × Out
  | .ask env => doAsk cfg s env
  | .tell status => doTell cfg s status
  | .askDqd => (s, .error .notImplemented)
  | .tellDqd => (s, .error .notImplemented)

def run (cfg : Cfg) (s : St) (ops : List Op) : St := ops.foldl (fun s op => (step cfg s op).1) s

/-! ### reading the trace (spec side of `counts_exact`) -/

/-- rows emitter `e` generated -/
def emittedBy (e : Nat) : List Event → Nat
  | [] => 0
  | .ask e' n :: es => (if e' = e then n else 0) + emittedBy e es
  | _ :: es => emittedBy e es

/-- rows emitter `e` was told about -/
def toldTo (e : Nat) : List Event → Nat
  | [] => 0
  | .tell e' _ rows _ :: es => (if e' = e then rows.length else 0) + toldTo e es
  | _ :: es => toldTo e es

/-- rows of emitter `e` that the archive inserted (non-zero status) -/
def insertedOf (e : Nat) : List Event → Nat
  | [] => 0
  | .tell e' _ _ st :: es => (if e' = e then (st.filter (· ≠ 0)).length else 0) + insertedOf e es
  | _ :: es => insertedOf e es

end Pyribs.Bandit
