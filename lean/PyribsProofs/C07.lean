import PyribsProofs.C06
/-!
# C07 — every stored elite is retrievable through its own measures

`route : List Rat → Nat` is the archive's `index_of` (any of the index maps of C03).
For every configuration and every history whose rows are placed by `route`, every
stored elite lies in the cell its own measures map to, so `retrieve` finds it.
-/
namespace Pyribs.C07
open Pyribs Arch Store

/-- every row of every op sits at the index `route` assigns to its measures -/
def Routed (route : List Rat → Nat) (ops : List C01.Op) : Prop :=
  ∀ op ∈ ops, match op with
    | .add rows => ∀ r ∈ rows, r.1 = route r.2.meas
    | .add1 r => r.1 = route r.2.meas
    | .clear => True

/-- T07.2 placement invariant -/
def Placed (route : List Rat → Nat) (a : Arch) : Prop :=
  ∀ i e, a.cellOf i = some e → route e.meas = i

theorem placed_addBatch (route : List Rat → Nat) (a : Arch) (h : Placed route a)
    (rows : List (Nat × Cand)) (hr : ∀ r ∈ rows, r.1 = route r.2.meas) :
    Placed route (a.addBatch rows).1 := by
  intro i e he
  by_cases hold : a.cellOf i = some e
  · exact h i e hold
  · obtain ⟨c, hc, hec, _⟩ := C02.stored_only_if_selected a rows i e he hold
    have := hr (i, c) hc
    simp only at this
    rw [this, ← hec]; rfl

theorem placed_addSingle (route : List Rat → Nat) (a : Arch) (h : Placed route a)
    (r : Nat × Cand) (hlt : r.1 < a.store.cap) (hr : r.1 = route r.2.meas) :
    Placed route (a.addSingle r).1 := by
  intro i e he
  by_cases hold : a.cellOf i = some e
  · exact h i e hold
  · obtain ⟨hi, hec, _⟩ := C02.stored_only_if_selected_single a r hlt i e he hold
    rw [hi, hr, ← hec]; rfl

/-- **T07.2 `placement_invariant`** in every reachable state -/
theorem placement_invariant (route : List Rat → Nat) (cfg : Cfg) (cells : Nat) (ops : List C01.Op)
    (hw : C01.WellRouted cells ops) (hr : Routed route ops) :
    Placed route (C01.run cfg cells ops) := by
  unfold C01.run
  have h0 : Placed route (Arch.new cfg cells) ∧ (Arch.new cfg cells).store.cap = cells :=
    ⟨by intro i e h; simp [Arch.new, cellOf, Store.empty] at h, rfl⟩
  generalize Arch.new cfg cells = a0 at h0
  suffices h : Placed route (ops.foldl C01.step a0) ∧ (ops.foldl C01.step a0).store.cap = cells from h.1
  induction ops generalizing a0 with
  | nil => simpa using h0
  | cons op ops ih =>
    simp only [List.foldl_cons]
    apply ih (fun o ho => hw o (List.mem_cons_of_mem _ ho)) (fun o ho => hr o (List.mem_cons_of_mem _ ho))
    have hop := hw op List.mem_cons_self
    have hro := hr op List.mem_cons_self
    cases op with
    | add rows =>
      exact ⟨placed_addBatch route a0 h0.1 rows hro, by simp [C01.step, addBatch_cap, h0.2]⟩
    | add1 r =>
      exact ⟨placed_addSingle route a0 h0.1 r (h0.2 ▸ hop) hro, by simp [C01.step, addSingle_cap, h0.2]⟩
    | clear =>
      exact ⟨by intro i e h; simp [C01.step, Arch.clear, cellOf, Store.clear] at h, h0.2⟩

/-- **T07.1 `retrieve_spec`** : `retrieve` returns, per query, the content of the cell the
query's measures map to (`none` = occupied False + blanks). -/
theorem retrieve_spec (route : List Rat → Nat) (a : Arch) (qs : List (List Rat)) :
    a.retrieve (qs.map route) = qs.map (fun q => a.cellOf (route q)) := by
  simp [Arch.retrieve, Store.retrieve, cellOf]

/-- `retrieve` does not change the archive (it is a function of it) and a single query
equals a batch of one (T07.4) -/
theorem retrieve_single_eq (route : List Rat → Nat) (a : Arch) (q : List Rat) :
    a.retrieve [route q] = [a.cellOf (route q)] := by
  simp [Arch.retrieve, Store.retrieve, cellOf]

/-- **corollary `self_retrieval`** : every stored elite is found by querying its own measures -/
theorem self_retrieval (route : List Rat → Nat) (cfg : Cfg) (cells : Nat) (ops : List C01.Op)
    (hw : C01.WellRouted cells ops) (hr : Routed route ops) (i : Nat) (e : Elite)
    (h : (C01.run cfg cells ops).cellOf i = some e) :
    (C01.run cfg cells ops).retrieve [route e.meas] = [some e] := by
  rw [retrieve_single_eq, placement_invariant route cfg cells ops hw hr i e h, h]

/-- **T07.3 `sample_sound`** : position `r < len` of the occupied list names an occupied cell
(so `sample_elites` returns current elites only), and every current elite is at some position
(each of them reachable); an empty archive has no position to draw (IndexError). -/
theorem sample_sound (cfg : Cfg) (cells : Nat) (ops : List C01.Op) (hw : C01.WellRouted cells ops) :
    let a := C01.run cfg cells ops
    (∀ r, r < a.store.len → ∃ i e, a.store.olist[r]? = some i ∧ a.cellOf i = some e) ∧
    (∀ i e, a.cellOf i = some e → ∃ r, r < a.store.len ∧ a.store.olist[r]? = some i) := by
  have hwf := (C06.stats_invariant cfg cells ops hw).1.wf
  simp only
  constructor
  · intro r hr
    unfold Store.len at hr
    have hmem : (C01.run cfg cells ops).store.olist[r] ∈ (C01.run cfg cells ops).store.olist :=
      List.getElem_mem hr
    have hocc := (hwf.mem _).mp hmem
    unfold Store.occupied at hocc
    obtain ⟨e, he⟩ := Option.isSome_iff_exists.mp hocc
    exact ⟨_, e, List.getElem?_eq_getElem hr, he⟩
  · intro i e he
    have hocc : (C01.run cfg cells ops).store.occupied i = true := by
      unfold Store.occupied; unfold cellOf at he; rw [he]; rfl
    have hmem := (hwf.mem i).mpr hocc
    obtain ⟨r, hr, hri⟩ := List.getElem_of_mem hmem
    exact ⟨r, hr, by rw [List.getElem?_eq_getElem hr, hri]⟩

/-! ### non-vacuity -/

/-- a 1-D grid of 3 unit cells routed by the floor of the first measure: the stored elites
are found through their own measures, a query into the empty cell returns none -/
theorem nonvacuous :
    let route : List Rat → Nat := fun m => (m.headD 0).floor.toNat
    let ops : List C01.Op :=
      [.add [(0, ⟨1, 3, [1/2]⟩), (2, ⟨2, 5, [5/2]⟩)], .add1 (0, ⟨3, 4, [1/4]⟩)]
    Routed route ops ∧ C01.WellRouted 3 ops ∧
    ((C01.run ⟨1, none, 0⟩ 3 ops).retrieve [route [1/4], route [3/2], route [5/2]]).map
      (fun o => o.map (·.tok)) = [some 3, none, some 2] := by
  refine ⟨?_, ?_, by decide +kernel⟩
  · intro op hop
    simp only [List.mem_cons, List.mem_nil_iff, or_false] at hop
    rcases hop with rfl | rfl
    · intro r hr
      simp only [List.mem_cons, List.mem_nil_iff, or_false] at hr
      rcases hr with rfl | rfl <;> decide +kernel
    · decide +kernel
  · intro op hop
    simp only [List.mem_cons, List.mem_nil_iff, or_false] at hop
    rcases hop with rfl | rfl <;> simp

end Pyribs.C07
