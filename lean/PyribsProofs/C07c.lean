import PyribsModel.ArchDrv
import PyribsProofs.C03
/-!
# C07c — routing inside the rounding zone (`ArchDrv.gridAdmissible`, `pin`)

The archive model routes with exact rational arithmetic.  For float32 values a few ulps from a
cell edge the implementation's own arithmetic may resolve the neighbouring cell (C03: "a
coordinate closer to a cell edge than ... floating-point rounding allow to resolve may fall in
either adjacent cell").  There the harness lets the model follow the implementation (`pin m c`),
and the model accepts only *admissible* cells.  This file shows that admissibility is neither
vacuous nor arbitrary:

* `exact_admissible` : for every well-formed grid and `tol ≥ 0` the exact cell is admissible;
* `admissible_sandwich` : an admissible cell is a valid index whose coordinates lie, dimension by
  dimension, between the exact coordinates of `m − tol` and `m + tol` (by monotonicity, T03.2,
  exactly the cells some point within `tol` of `m` maps to in that dimension);
* `admissible_zero` : with `tol = 0` only the exact cell is admissible (exact routing).
-/
namespace Pyribs.C07c
open Pyribs Pyribs.ArchDrv Pyribs.C03

/-- pointwise `lo < hi` -/
def RangesOk : List Rat → List Rat → Prop
  | l :: ls, h :: hs => l < h ∧ RangesOk ls hs
  | [], [] => True
  | _, _ => False

/-- per-dimension sandwich of three coordinate lists -/
def Sandwich : List Nat → List Nat → List Nat → Prop
  | c :: cs, l :: ls, u :: us => l ≤ c ∧ c ≤ u ∧ Sandwich cs ls us
  | [], [], [] => True
  | _, _, _ => False

theorem coords_sandwich (dims : List Nat) (lo hi m : List Rat) (eps tol : Rat) (htol : 0 ≤ tol)
    (hr : RangesOk lo hi) (hl : lo.length = dims.length) (hm : m.length = dims.length) :
    Sandwich (gridCoords ⟨dims, lo, hi, eps⟩ m) (gridCoords ⟨dims, lo, hi, eps⟩ (m.map (· - tol)))
      (gridCoords ⟨dims, lo, hi, eps⟩ (m.map (· + tol))) := by
  induction dims generalizing lo hi m with
  | nil => simp [gridCoords, zip4, Sandwich]
  | cons d ds ih =>
    cases lo with
    | nil => simp at hl
    | cons l ls =>
      cases hi with
      | nil => simp [RangesOk] at hr
      | cons h hs =>
        cases m with
        | nil => simp at hm
        | cons x xs =>
          obtain ⟨hlh, hr'⟩ := hr
          simp only [gridCoords, zip4, List.map_cons, Sandwich]
          refine ⟨grid_monotone d l h eps (x - tol) x hlh (by linarith),
                  grid_monotone d l h eps x (x + tol) hlh (by linarith), ?_⟩
          exact ih ls hs xs hr' (by simpa using hl) (by simpa using hm)

theorem sandwich_all (cs ls us : List Nat) (h : Sandwich cs ls us) :
    (cs.length == ls.length && cs.length == us.length &&
      (cs.zip (ls.zip us)).all (fun x => decide (x.2.1 ≤ x.1) && decide (x.1 ≤ x.2.2))) = true := by
  induction cs generalizing ls us with
  | nil =>
    cases ls <;> cases us <;> simp [Sandwich] at h ⊢
  | cons c cs ih =>
    cases ls with
    | nil => simp [Sandwich] at h
    | cons l ls =>
      cases us with
      | nil => simp [Sandwich] at h
      | cons u us =>
        obtain ⟨h1, h2, h3⟩ := h
        have := ih ls us h3
        simp only [Bool.and_eq_true, beq_iff_eq, List.all_eq_true, decide_eq_true_eq] at this
        simp only [List.length_cons, List.zip_cons_cons, List.all_cons, Bool.and_eq_true, beq_iff_eq,
          decide_eq_true_eq, List.all_eq_true]
        refine ⟨⟨by omega, by omega⟩, ⟨h1, h2⟩, this.2⟩

theorem all_sandwich (cs ls us : List Nat)
    (h : (cs.length == ls.length && cs.length == us.length &&
      (cs.zip (ls.zip us)).all (fun x => decide (x.2.1 ≤ x.1) && decide (x.1 ≤ x.2.2))) = true) :
    Sandwich cs ls us := by
  induction cs generalizing ls us with
  | nil =>
    cases ls <;> cases us <;> simp [Sandwich] at h ⊢
  | cons c cs ih =>
    cases ls with
    | nil => simp at h
    | cons l ls =>
      cases us with
      | nil => simp at h
      | cons u us =>
        simp only [List.length_cons, List.zip_cons_cons, List.all_cons, Bool.and_eq_true, beq_iff_eq,
          decide_eq_true_eq, List.all_eq_true] at h
        obtain ⟨⟨ha, hb⟩, ⟨h1, h2⟩, h3⟩ := h
        refine ⟨h1, h2, ih ls us ?_⟩
        simp only [Bool.and_eq_true, beq_iff_eq, List.all_eq_true, decide_eq_true_eq]
        exact ⟨⟨by omega, by omega⟩, h3⟩

/-- **T07c.1 `exact_admissible`** : the exact cell is always admissible -/
theorem exact_admissible (dims : List Nat) (lo hi m : List Rat) (eps tol : Rat) (htol : 0 ≤ tol)
    (hd : ∀ d ∈ dims, 0 < d) (hr : RangesOk lo hi) (hl : lo.length = dims.length)
    (hh : hi.length = dims.length) (hm : m.length = dims.length) :
    gridAdmissible ⟨dims, lo, hi, eps⟩ tol m (gridIdx ⟨dims, lo, hi, eps⟩ m) = true := by
  have hin := gridCoords_inRange dims lo hi m eps hd hl hh hm
  have hlt := gridIdx_lt dims lo hi m eps hd hl hh hm
  have hun : unravel dims (gridIdx ⟨dims, lo, hi, eps⟩ m) = gridCoords ⟨dims, lo, hi, eps⟩ m :=
    unravel_ravel dims _ hin
  have hs := sandwich_all _ _ _ (coords_sandwich dims lo hi m eps tol htol hr hl hm)
  unfold gridAdmissible
  simp only [hun]
  simp only [Bool.and_eq_true, decide_eq_true_eq] at hs ⊢
  exact ⟨⟨⟨hlt, hs.1.1⟩, hs.1.2⟩, hs.2⟩

/-- **T07c.2 `admissible_sandwich`** : an admissible cell is a valid index whose grid coordinates
lie between those of `m − tol` and `m + tol` in every dimension -/
theorem admissible_sandwich (g : GridGeom) (tol : Rat) (m : List Rat) (c : Nat)
    (h : gridAdmissible g tol m c = true) :
    c < cells g.dims ∧
    Sandwich (unravel g.dims c) (gridCoords g (m.map (· - tol))) (gridCoords g (m.map (· + tol))) := by
  unfold gridAdmissible at h
  simp only [Bool.and_eq_true, decide_eq_true_eq] at h
  refine ⟨h.1.1.1, all_sandwich _ _ _ ?_⟩
  simp only [Bool.and_eq_true]
  exact ⟨⟨h.1.1.2, h.1.2⟩, h.2⟩

theorem sandwich_eq (cs ls : List Nat) (h : Sandwich cs ls ls) : cs = ls := by
  induction cs generalizing ls with
  | nil => cases ls <;> simp [Sandwich] at h ⊢
  | cons c cs ih =>
    cases ls with
    | nil => simp [Sandwich] at h
    | cons l ls =>
      obtain ⟨h1, h2, h3⟩ := h
      rw [ih ls h3]
      congr 1
      omega

/-- **T07c.3 `admissible_zero`** : without a rounding zone the model routes exactly -/
theorem admissible_zero (dims : List Nat) (lo hi m : List Rat) (eps : Rat) (c : Nat)
    (hd : ∀ d ∈ dims, 0 < d)
    (h : gridAdmissible ⟨dims, lo, hi, eps⟩ 0 m c = true) :
    c = gridIdx ⟨dims, lo, hi, eps⟩ m := by
  obtain ⟨hc, hs⟩ := admissible_sandwich _ _ _ _ h
  have hm0 : m.map (· - (0 : Rat)) = m := by simp
  have hm1 : m.map (· + (0 : Rat)) = m := by simp
  rw [hm0, hm1] at hs
  have := sandwich_eq _ _ hs
  unfold gridIdx
  rw [← this]
  exact (ravel_unravel dims hd c hc).symm

/-- non-vacuity: a 10-cell grid over (0, 1); `m = 3/10 − 1/2^30` is exactly in cell 2, cell 3 is
admissible within `tol = 1/2^20`, cell 4 is not, and nothing but cell 2 without a tolerance -/
theorem nonvacuous :
    let g : GridGeom := ⟨[10], [0], [1], 0⟩
    gridIdx g [3/10 - 1/2^30] = 2 ∧
    gridAdmissible g (1/2^20) [3/10 - 1/2^30] 3 = true ∧
    gridAdmissible g (1/2^20) [3/10 - 1/2^30] 2 = true ∧
    gridAdmissible g (1/2^20) [3/10 - 1/2^30] 4 = false ∧
    gridAdmissible g 0 [3/10 - 1/2^30] 3 = false := by
  decide +kernel

end Pyribs.C07c
