import PyribsModel.Alias
/-! Line-protocol machine `alias` for the ownership monitor (C12).

* `list`                       → `name:nbits,name:nbits,…` of every transcribed entry point
* `neglist`                    → `name:bits:reason,…` of the negative examples (defective code / mutants)
* `check <entrypoint> <bits>`  → `ok` | `reject <reason>` | `unknown` (no such transcription);
  `<bits>` is a string of `0`/`1` (`-` = no bits), one per `asarray` / code branch of the entry. -/
namespace Pyribs.AliasDrv
open Pyribs Alias

abbrev St := Unit
def init : St := ()

def parseBits (s : String) : Option (List Bool) :=
  if s = "-" then some []
  else s.toList.mapM (fun c => if c = '0' then some false else if c = '1' then some true else none)

def showBits (bs : List Bool) : String :=
  if bs.isEmpty then "-" else String.join (bs.map showBool)

def showRej : Rej → String
  | .unbound x => s!"unbound:{x}"
  | .nofield f => s!"nofield:{f}"
  | .writeCaller x => s!"writeCaller:{x}"
  | .writeReadonly x => s!"writeReadonly:{x}"
  | .storeCaller f => s!"storeCaller:{f}"
  | .retInternal x => s!"retInternal:{x}"
  | .retCaller x => s!"retCaller:{x}"
  | .bits => "bits"

def find (name : String) : Option Entry :=
  (entries ++ negatives.map (·.E)).find? (fun E => E.name == name)

def step (st : St) (toks : List String) : St × String :=
  match toks with
  | ["list"] => (st, showList (fun (E : Entry) => s!"{E.name}:{E.nbits}") entries)
  | ["neglist"] =>
    (st, showList (fun (n : Neg) => s!"{n.E.name}:{showBits n.bits}:{showRej n.why}") negatives)
  | ["check", name, bits] =>
    match parseBits bits with
    | none => (st, "bad-op")
    | some bs =>
      match find name with
      | none => (st, "unknown")
      | some E =>
        match E.verdict bs with
        | none => (st, "ok")
        | some r => (st, s!"reject {showRej r}")
  | _ => (st, "bad-op")

end Pyribs.AliasDrv
