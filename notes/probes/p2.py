import numpy as np, warnings
from ribs.archives import GridArchive, CVTArchive, SlidingBoundariesArchive, ProximityArchive
warnings.simplefilter("ignore")
print("== D2 CVT seeding")
for method in ["kmeans","random","sobol","scrambled_sobol","halton"]:
    cs=[]
    for rep in range(2):
        np.random.seed(rep)  # global state differs
        a = CVTArchive(solution_dim=1, cells=8, ranges=[(0,1),(0,1)], seed=42, centroid_method=method, samples=500)
        cs.append(a.centroids.copy())
    st0=np.random.get_state()[1][:3].copy()
    np.random.seed(5); s_before=np.random.get_state()[1].copy(); pos_before=np.random.get_state()[2]
    a = CVTArchive(solution_dim=1, cells=8, ranges=[(0,1),(0,1)], seed=42, centroid_method=method, samples=500)
    s_after=np.random.get_state()
    print(method, "same under same seed:", np.array_equal(cs[0],cs[1]), "global state untouched:", np.array_equal(s_before,s_after[1]) and pos_before==s_after[2])

print("== D3 partial write on mis-shaped extra field")
a = GridArchive(solution_dim=2, dims=[4], ranges=[(0,1)], extra_fields={"foo": ((3,), np.float64)})
a.add_single([1,1], 1.0, [0.1], foo=[1,2,3])
before = {k:v.copy() for k,v in a.data().items()}; stats_before=a.stats
try:
    a.add(np.array([[9.,9.],[8.,8.]]), np.array([5.,6.]), np.array([[0.1],[0.6]]), foo=np.zeros((2,2)))
except Exception as e:
    print("raised", type(e).__name__, e)
after = a.data()
for k in before:
    print(k, "unchanged" if (before[k].shape==after[k].shape and np.array_equal(before[k],after[k])) else f"CHANGED {before[k].tolist()} -> {after[k].tolist()}")
print("len", len(a), "stats", a.stats.num_elites, a.stats.qd_score, "best", a.best_elite["objective"])
# also missing field
a = GridArchive(solution_dim=2, dims=[4], ranges=[(0,1)], extra_fields={"foo": ((3,), np.float64)})
a.add_single([1,1], 1.0, [0.1], foo=[1,2,3])
try:
    a.add(np.array([[9.,9.]]), np.array([5.]), np.array([[0.6]]))
except Exception as e: print("missing field raised", type(e).__name__)
print("after missing-field: len", len(a), a.data("objective"), a.stats.num_elites)
# unknown field
try:
    a.add(np.array([[9.,9.]]), np.array([5.]), np.array([[0.6]]), foo=np.zeros((1,3)), bar=np.zeros(1))
except Exception as e: print("unknown field raised", type(e).__name__)
print("after unknown-field: len", len(a), a.data("objective"), a.stats.num_elites)
# extra field wrong batch length caught by validate
# scalar extra field given (n,1)?
print("== D5 proximity bounds after clear")
p = ProximityArchive(solution_dim=1, measure_dim=2, k_neighbors=1, novelty_threshold=0.1)
p.add([[0],[1]],[0,0],[[0,0],[1,1]])
print(p.upper_bounds, p.lower_bounds)
p.clear()
try:
    print("after clear:", p.upper_bounds, p.lower_bounds)
except RuntimeError as e: print("after clear raises RuntimeError (good)")
try: print(p.index_of([[0,0]]))
except RuntimeError as e: print("index_of raises on empty (good)")
p.add([[5]],[0],[[5,5]]); print("after re-add", p.upper_bounds, p.lower_bounds, len(p))
