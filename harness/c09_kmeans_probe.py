"""C09 probe, run in a SUBPROCESS by harness/props/c09.py with the OpenMP / BLAS thread limits of `./check`
lifted (OMP_NUM_THREADS etc. = 8): k-means centroids of CVTArchive must be a function of the seed alone.

usage: c09_kmeans_probe.py <repetitions> [<seed label> ...]      (labels: see SEEDS; default: all)

Every seed is used for <repetitions> constructions of
    CVTArchive(solution_dim=2, cells=50, ranges=[(-1, 1)] * 2, seed=<seed>, samples=4000)   # centroid_method="kmeans"
(the seed object is built anew each time) and the centroids are compared bit for bit.  Seed 0 is there on purpose,
as an int and as np.int64: `if seed:` / `seed or default` treat it as "no seed".
Prints one line `C09PROBE <json>`: per seed the number of distinct centroid arrays, their digests and the largest
difference; plus the OpenMP thread count seen.
"""
import hashlib
import json
import sys

import numpy as np

SEEDS = {
    "0": lambda: 0,
    "np.int64(0)": lambda: np.int64(0),
    "1": lambda: 1,
    "SeedSequence(0)": lambda: np.random.SeedSequence(0),
}


def main(argv):
    reps = int(argv[0]) if argv else 3
    labels = argv[1:] or list(SEEDS)
    import warnings
    warnings.simplefilter("ignore")
    from threadpoolctl import threadpool_info
    import ribs
    from ribs.archives import CVTArchive
    out = {"ribs": ribs.__file__, "reps": reps, "seeds": {}}
    for label in labels:
        cents = []
        err = None
        for _ in range(reps):
            try:
                a = CVTArchive(solution_dim=2, cells=50, ranges=[(-1, 1)] * 2, seed=SEEDS[label](), samples=4000)
                cents.append(np.array(a.centroids, dtype=np.float64))
            except Exception as e:  # pylint: disable=broad-except
                err = f"{type(e).__name__}: {str(e)[:200]}"
                break
        digs = [hashlib.sha1(np.ascontiguousarray(c).tobytes()).hexdigest() for c in cents]
        maxdiff = max([float(np.max(np.abs(c - cents[0]))) for c in cents[1:]], default=0.0) if cents else None
        out["seeds"][label] = {"distinct": len(set(digs)), "digests": digs, "max_abs_diff": maxdiff, "error": err}
    out["openmp_threads"] = sorted({p.get("num_threads") for p in threadpool_info() if p.get("user_api") == "openmp"})
    print("C09PROBE " + json.dumps(out))


if __name__ == "__main__":
    main(sys.argv[1:])
