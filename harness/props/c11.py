"""C11 — rejected calls leave archives untouched (failure atomicity).

Systematic fault enumeration: at random reachable states of every archive kind, every entry
point x argument x malformation kind x batch position is injected (one at a time, malformed
rows after valid rows included); the call must raise and every observable must stay equal, and
the remaining valid history must stay in lock step with the Lean model — which never saw the
rejected call (theorem `as_if_never_happened`).
"""
import archlib
import faultlib
from props import c14, c15

ID = "C11"
PROOF_MODULES = ["PyribsProofs.C11"]
THEOREMS = [
    "Pyribs.C11.reject_unchanged",
    "Pyribs.C11.reject_iff",
    "Pyribs.C11.accepted_is_add",
    "Pyribs.C11.as_if_never_happened",
    "Pyribs.C11.outputs_as_if_never_happened",
    "Pyribs.C11.queries_readonly",
    "Pyribs.C11.sliding_reject_unchanged",
    "Pyribs.C11.sliding_as_if_never_happened",
    "Pyribs.C11.store_reject_unchanged",
    "Pyribs.C11.behind_reject_unchanged",
    "Pyribs.C11.behind_as_if_never_happened",
    "Pyribs.C11.prox_atomic",
    "Pyribs.C11.prox_as_if_never_happened",
    "Pyribs.C11.nonvacuous",
]
RULE = ("fault enumeration: histories of valid operations on GridArchive, CVTArchive, SlidingBoundariesArchive "
        "(through remaps) and ProximityArchive (through capacity doublings), default and CMA-MAE settings, with "
        "1-3 injected malformed calls each: entry point in {add, add_single, retrieve, retrieve_single, index_of, "
        "index_of_single, Scheduler.tell, BanditScheduler.tell} x argument in {solution, objective, measures, extra "
        "field} x kind in {wrong rank, wrong inner shape, wrong length, NaN, +inf, -inf, None, missing / unknown / "
        "mis-shaped extra field} x batch position; a case is non-trivial when a rejected call hits a non-empty "
        "archive and is followed by a valid add; distinct by op list; the evidence lists which (entry, argument, "
        "kind) triples were hit")
PARTIAL = ["exceptions raised from inside NumPy during a field write are outside a model of the Python control "
           "flow; they are reached by the enumeration only (every field layout is covered by the malformed stream)"]
ASSUMPTIONS = ["observables compared: data() with all fields, thresholds, stats, best_elite, len; boundaries and "
               "bounds (sliding); capacity and bounds (proximity)"]
LEVEL_TEXT = ("Lean theorems: in the validated-archive model every rejected call leaves the state equal and erasing "
              "rejected calls from any history changes neither the final state nor the outputs of the remaining "
              "calls; tied to the code by exhaustive-by-kind fault injection against the real archives with the "
              "remaining history in lock step with the model")
TECHNIQUE = "Lean 4 proof (reject => state unchanged, history erasure) + fault-injection correspondence"


def add_faults(rng, case, rows_fn, layout, k=None):
    """insert 1-3 malformed calls at random positions (never last)"""
    ops = case["ops"]
    for _ in range(k or rng.choice([1, 1, 2, 3])):
        pos = rng.randint(0, max(0, len(ops) - 1))
        ops.insert(pos, faultlib.gen_fault(rng, layout, rows_fn, prox_noobj_ok=case.get("kind") == "prox" and not case.get("lc")))
    return case


def gen_fixed(rng):
    cma = rng.random() < 0.4
    case = archlib.gen_case(rng, rng.choice(["mixed", "percell", "cma" if cma else "ties"]), kinds=("grid", "cvt"), cma=cma)
    tok = [10**6]

    def rows_fn():
        tok[0] += 1
        return [tok[0], archlib.dyadic(rng, -8, 8, 2), archlib.gen_meas(rng, case)]
    case["family"] = "fixed"
    return add_faults(rng, case, rows_fn, case["layout"])


def gen_sliding(rng):
    case = c15.gen_case(rng, min_remaps=2)
    tok = [10**6]
    nd = len(case["dims"])

    def rows_fn():
        tok[0] += 1
        return [tok[0], archlib.dyadic(rng, -8, 8, 2), [archlib.dyadic(rng, -4, 4, 8) for _ in range(nd)]]
    case["family"] = "sliding"
    return add_faults(rng, case, rows_fn, case["layout"])


def gen_prox(rng):
    case = c14.gen_case(rng)
    tok = [10**6]

    def rows_fn():
        tok[0] += 1
        return [tok[0], archlib.dyadic(rng, -6, 6, 2), [archlib.q(archlib.F(rng.randint(-6, 6))) for _ in range(case["nd"])]]
    case["family"] = "prox"
    return add_faults(rng, case, rows_fn, case["layout"])


STATS = {}


def run_case(case):
    fam = case.get("family", "fixed")
    if fam == "fixed":
        r = archlib.Run(case, {"C11"})
    elif fam == "sliding":
        r = c15.Run(case, {"C11"})
    else:
        r = c14.Run(case, {"C11"})
    f = archlib.guarded(r, {"C11"})
    for k, v in getattr(r, "stat", {}).items():
        if k.startswith("bad:"):
            STATS[k] = STATS.get(k, 0) + v
    return f


def nontrivial(case):
    seen_add = False
    bad_on_nonempty = False
    for op in case["ops"]:
        if op["op"] in ("add", "add1"):
            if bad_on_nonempty:
                return True
            seen_add = True
        elif op["op"] == "bad" and seen_add:
            bad_on_nonempty = True
    return False


def run(ctx):
    b = 12 if ctx.quick else 140
    ctx.explore("fixed", gen_fixed, run_case, ctx.n(350, 30000), nontrivial=nontrivial, time_budget=b)
    ctx.explore("sliding", gen_sliding, run_case, ctx.n(250, 20000), nontrivial=nontrivial, time_budget=b)
    ctx.explore("proximity", gen_prox, run_case, ctx.n(250, 20000), nontrivial=nontrivial, time_budget=b)
    ctx.extra["faults_hit"] = dict(sorted(STATS.items()))
    ctx.extra["fault_triples_hit"] = len({k.rsplit(":", 1)[0] for k in STATS})


def replay(ctx, case):
    return run_case(case)
