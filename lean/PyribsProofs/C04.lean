import PyribsModel.Scheduler
/-!
# C04 — Scheduler routes every evaluation back to the emitter that asked for it

Theorems about `PyribsModel.Scheduler` (the model of `_scheduler.py`), for every
number of emitters, all batch sizes (0 and unequal included), both add modes,
with and without a result archive, DQD and non-DQD calls, and every sequence of
calls, legal or not.

* T04.1 `protocol`, `protocol_unchanged`, `rejected_untouched`, `run_erase_rejected`
* T04.2 `ask_concat`, `slices_partition`, `slices_getElem`, `slice_unique`,
        `dispatch_flatten`, `tell_routes`, `told_own`
* T04.3 `each_row_once`, `archives_before_emitters`
* T04.5 `dispatch_positions`, `dispatch_map`, `dispatch_zip`
* T04.4 (add-mode equivalence for elitist archives) is a statement about the
  archive model (C01: batch insertion = sequential insertion); here the two
  modes are shown to submit the same rows in the same order
  (`modes_same_rows`), the contents are compared by the correspondence check.
-/
namespace Pyribs.C04
open Pyribs Scheduler

/-! ## T04.1 protocol -/

/-- spec-shaped protocol automaton: the calls the documentation allows in each phase -/
def allowed : Phase → Op → Bool
  | p, .ask _ => p ≠ .ask && p ≠ .askDqd
  | p, .askDqd _ => p ≠ .ask && p ≠ .askDqd
  | p, .tell => p = .ask
  | p, .tellBad => p = .ask
  | p, .tellDqd => p = .askDqd
  | p, .tellDqdBad => p = .askDqd

/-- T04.1: a call raises RuntimeError exactly when the protocol forbids it … -/
theorem protocol (cfg : Cfg) (s : St) (op : Op) :
    (step cfg s op).2 = .error .runtime ↔ allowed s.phase op = false := by
  cases op <;> cases hp : s.phase <;> simp [step, doAsk, doTell, allowed, hp] <;>
    (try split) <;> simp

/-- … and then nothing at all changed: flag, routing table, archive, result archive, emitters. -/
theorem protocol_unchanged (cfg : Cfg) (s : St) (op : Op)
    (h : (step cfg s op).2 = .error .runtime) : (step cfg s op).1 = s := by
  cases op <;> cases hp : s.phase <;> simp_all [step, doAsk, doTell] <;>
    (split at h <;> simp_all)

/-- Any rejected call (RuntimeError, or ValueError for a wrong-length array) leaves archive,
    result archive and emitters untouched and keeps the routing table. -/
theorem rejected_untouched (cfg : Cfg) (s : St) (op : Op) (e : Err)
    (h : (step cfg s op).2 = .error e) :
    (step cfg s op).1.trace = s.trace ∧ (step cfg s op).1.cur = s.cur ∧
      (step cfg s op).1.counts = s.counts := by
  cases op <;> simp only [step, doAsk, doTell] at h ⊢ <;> (repeat' split at h) <;> simp_all

/-- the calls of a sequence that are not rejected with RuntimeError, judged along the run -/
def accepted (cfg : Cfg) : St → List Op → List Op
  | _, [] => []
  | s, op :: ops =>
    if allowed s.phase op then op :: accepted cfg (step cfg s op).1 ops
    else accepted cfg s ops

/-- T04.1 for whole call sequences: erasing the out-of-order calls from *any* sequence of calls
    gives the same final state (so they disturbed nothing, wherever they occur). -/
theorem run_erase_rejected (cfg : Cfg) (s : St) (ops : List Op) :
    run cfg s ops = run cfg s (accepted cfg s ops) := by
  induction ops generalizing s with
  | nil => rfl
  | cons op ops ih =>
    simp only [accepted]
    by_cases ha : allowed s.phase op = true
    · simp only [ha, if_true, run, List.foldl_cons]
      exact ih _
    · have hf : allowed s.phase op = false := by simpa using ha
      have := protocol_unchanged cfg s op ((protocol cfg s op).mpr hf)
      simp only [hf, Bool.false_eq_true, if_false]
      rw [← ih s]
      simp only [run, List.foldl_cons, this]

/-- every call of the erased sequence is accepted when its turn comes -/
theorem accepted_all_ok (cfg : Cfg) (s : St) (ops : List Op) :
    ∀ pre op post, accepted cfg s ops = pre ++ op :: post →
      allowed (run cfg s pre).phase op = true := by
  induction ops generalizing s with
  | nil => intro pre op post h; simp [accepted] at h
  | cons o ops ih =>
    intro pre op post h
    simp only [accepted] at h
    by_cases ha : allowed s.phase o = true
    · simp only [ha, if_true] at h
      cases pre with
      | nil =>
        simp only [List.nil_append, List.cons.injEq] at h
        simpa [run, ← h.1] using ha
      | cons p pre =>
        simp only [List.cons_append, List.cons.injEq] at h
        obtain ⟨rfl, h⟩ := h
        simpa [run] using ih _ pre op post h
    · simp only [ha] at h
      exact ih s pre op post h

/-! ## T04.2 slices -/

theorem gen_length (e n : Nat) : (gen e n).length = n := by simp [gen]

theorem emitFrom_lengths (e : Nat) (ns : List Nat) : (emitFrom e ns).map List.length = ns := by
  induction ns generalizing e with
  | nil => rfl
  | cons n ns ih => simp [emitFrom, gen_length, ih]

theorem emitFrom_length (e : Nat) (ns : List Nat) : (emitFrom e ns).length = ns.length := by
  induction ns generalizing e with
  | nil => rfl
  | cons n ns ih => simp [emitFrom, ih]

theorem emitFrom_getElem (e : Nat) (ns : List Nat) (i : Nat) (h : i < ns.length) :
    (emitFrom e ns)[i]? = some (gen (e + i) ns[i]) := by
  induction ns generalizing e i with
  | nil => simp at h
  | cons n ns ih =>
    cases i with
    | zero => simp [emitFrom]
    | succ i =>
      simp only [emitFrom, List.getElem?_cons_succ, List.getElem_cons_succ]
      rw [ih (e + 1) i (by simpa using h)]
      simp [Nat.add_assoc, Nat.add_comm 1 i]

theorem flatten_length_emitFrom (e : Nat) (ns : List Nat) : (emitFrom e ns).flatten.length = ns.sum := by
  induction ns generalizing e with
  | nil => rfl
  | cons n ns ih => simp [emitFrom, gen_length, ih]

/-- T04.2: the slices handed out by the dispatch loop, concatenated in emitter order, are the
    identity on the batch: `[pos, pos + Σ n)` -/
theorem slices_partition (pos : Nat) (ns : List Nat) :
    (slices pos ns).flatMap (fun p => List.range' p.1 (p.2 - p.1)) = List.range' pos ns.sum := by
  induction ns generalizing pos with
  | nil => simp [slices]
  | cons n ns ih =>
    simp only [slices, List.flatMap_cons, ih, List.sum_cons]
    rw [show pos + n - pos = n by omega, List.range'_append_1]

theorem slices_length (pos : Nat) (ns : List Nat) : (slices pos ns).length = ns.length := by
  induction ns generalizing pos with
  | nil => rfl
  | cons n ns ih => simp [slices, ih]

/-- T04.2: slice `i` is `[Σ_{j<i} n_j, Σ_{j≤i} n_j)` -/
theorem slices_getElem (pos : Nat) (ns : List Nat) (i : Nat) (h : i < ns.length) :
    (slices pos ns)[i]? = some (pos + (ns.take i).sum, pos + (ns.take (i + 1)).sum) := by
  induction ns generalizing pos i with
  | nil => simp at h
  | cons n ns ih =>
    cases i with
    | zero => simp [slices]
    | succ i =>
      simp only [slices, List.getElem?_cons_succ, List.take_succ_cons, List.sum_cons]
      rw [ih (pos + n) i (by simpa using h)]
      simp [Nat.add_assoc]

/-- T04.2: every row position belongs to the slice of exactly one emitter -/
theorem slice_unique (ns : List Nat) (p : Nat) (hp : p < ns.sum) :
    ∃ i, (i < ns.length ∧ (ns.take i).sum ≤ p ∧ p < (ns.take (i + 1)).sum) ∧
      ∀ j, (j < ns.length ∧ (ns.take j).sum ≤ p ∧ p < (ns.take (j + 1)).sum) → j = i := by
  induction ns generalizing p with
  | nil => simp at hp
  | cons n ns ih =>
    by_cases h : p < n
    · refine ⟨0, ⟨by simp, by simp, by simpa using h⟩, ?_⟩
      intro j ⟨_, h1, _⟩
      cases j with
      | zero => rfl
      | succ j => simp only [List.take_succ_cons, List.sum_cons] at h1; omega
    · obtain ⟨i, ⟨h1, h2, h3⟩, hu⟩ := ih (p - n) (by simp only [List.sum_cons] at hp; omega)
      refine ⟨i + 1, ⟨by simpa using h1, ?_, ?_⟩, ?_⟩
      · simp only [List.take_succ_cons, List.sum_cons]; omega
      · simp only [List.take_succ_cons, List.sum_cons]; omega
      · intro j ⟨j1, j2, j3⟩
        cases j with
        | zero => simp at j3; omega
        | succ j =>
          simp only [List.take_succ_cons, List.sum_cons, List.length_cons] at j1 j2 j3
          rw [hu j ⟨by omega, by omega, by omega⟩]

/-! ### slicing the concatenation gives back what each emitter generated -/

theorem slice_append_mid {α : Type} (pre o rest : List α) :
    slice (pre ++ o ++ rest) (pre.length, pre.length + o.length) = o := by
  simp [slice, List.append_assoc]

theorem dispatchFrom_flatten {α : Type} (pre : List α) (outs : List (List α)) :
    dispatchFrom pre.length (outs.map List.length) (pre ++ outs.flatten) = outs := by
  induction outs generalizing pre with
  | nil => rfl
  | cons o outs ih =>
    simp only [dispatchFrom, List.map_cons, slices, List.flatten_cons]
    have h1 : slice (pre ++ (o ++ outs.flatten)) (pre.length, pre.length + o.length) = o := by
      rw [← List.append_assoc]; exact slice_append_mid pre o _
    have h2 := ih (pre ++ o)
    simp only [dispatchFrom, List.length_append, List.append_assoc] at h2
    rw [h1, h2]

/-- T04.2 (routing, any row type): cutting the concatenation of the per-emitter results with the
    counts recorded at ask returns, emitter by emitter, exactly what that emitter generated. -/
theorem dispatch_flatten {α : Type} (outs : List (List α)) :
    dispatch (outs.map List.length) outs.flatten = outs := by
  simpa [dispatch] using dispatchFrom_flatten ([] : List α) outs

/-! ## T04.5 the same slices for every per-row array -/

theorem slice_map {α β : Type} (f : α → β) (xs : List α) (p : Nat × Nat) :
    slice (xs.map f) p = (slice xs p).map f := by
  simp [slice, List.map_drop, List.map_take]

/-- T04.5: slicing commutes with any per-row function: the slice of `objective`, `measures`, an
    extra field, the Jacobian or a feedback array handed to an emitter is that array's value on the
    rows of the emitter's slice. -/
theorem dispatch_map {α β : Type} (f : α → β) (counts : List Nat) (xs : List α) :
    dispatch counts (xs.map f) = (dispatch counts xs).map (List.map f) := by
  simp [dispatch, dispatchFrom, slice_map, List.map_map, Function.comp_def]

theorem slice_zip {α β : Type} (xs : List α) (ys : List β) (p : Nat × Nat) :
    slice (xs.zip ys) p = (slice xs p).zip (slice ys p) := by
  simp [slice, List.zip, List.drop_zipWith, List.take_zipWith]

/-- T04.5: rows stay aligned across arrays: slicing two row-aligned arrays separately and pairing
    the pieces is slicing the array of pairs. -/
theorem dispatch_zip {α β : Type} (counts : List Nat) (xs : List α) (ys : List β) :
    dispatch counts (xs.zip ys) = List.zipWith List.zip (dispatch counts xs) (dispatch counts ys) := by
  simp only [dispatch, dispatchFrom]
  induction slices 0 counts with
  | nil => rfl
  | cons p ps ih => simp [slice_zip, ih]

theorem take_range' (s n k : Nat) : (List.range' s n).take k = List.range' s (min k n) := by
  induction k generalizing s n with
  | zero => simp
  | succ k ih =>
    cases n with
    | zero => simp
    | succ n => simp [List.range'_succ, ih, Nat.succ_min_succ]

theorem slice_range (n : Nat) (p : Nat × Nat) (h : p.2 ≤ n) :
    slice (List.range n) p = List.range' p.1 (p.2 - p.1) := by
  simp only [slice, List.range_eq_range']
  rw [List.drop_range', take_range']
  congr 1 <;> omega

theorem slices_le (pos : Nat) (ns : List Nat) : ∀ p ∈ slices pos ns, pos ≤ p.1 ∧ p.2 ≤ pos + ns.sum := by
  induction ns generalizing pos with
  | nil => simp [slices]
  | cons n ns ih =>
    intro p hp
    simp only [slices, List.mem_cons] at hp
    rcases hp with rfl | hp
    · simp
    · have := ih (pos + n) p hp
      simp only [List.sum_cons]; omega

/-- T04.5: every array of length `n ≥ Σ counts` is cut at the same positions: emitter by emitter,
    the slice is the array read at the positions `dispatch counts (range n)`. -/
theorem dispatch_positions {α : Type} (counts : List Nat) (xs : List α) :
    (dispatch counts xs).map (List.map some) =
      (dispatch counts (List.range xs.length)).map (List.map (xs[·]?)) := by
  simp only [dispatch, dispatchFrom, List.map_map]
  apply List.map_congr_left
  intro p _
  simp only [Function.comp, slice]
  apply List.ext_getElem?
  intro i
  simp only [List.getElem?_map, List.getElem?_take, List.getElem?_drop]
  by_cases h : i < p.2 - p.1
  · simp only [h, if_true]
    by_cases h2 : p.1 + i < xs.length
    · simp [h2]
    · simp [h2]
  · simp [h]

/-! ## ask -/

theorem askOk (s : St) : (¬(s.phase = .ask ∨ s.phase = .askDqd)) ↔
    allowed s.phase (.ask []) = true := by
  cases hp : s.phase <;> simp [allowed]

/-- T04.2 `ask_concat`: a legal ask / ask_dqd calls every emitter once, in order, returns the
    concatenation in emitter order of what each generated, and records their lengths. -/
theorem ask_concat (dqd : Bool) (s : St) (ns : List Nat)
    (h : s.phase ≠ .ask ∧ s.phase ≠ .askDqd) :
    doAsk dqd s ns =
      ({ phase := if dqd then .askDqd else .ask, cur := (emit ns).flatten, counts := ns,
         trace := s.trace ++ askEvents dqd 0 ns }, .asked (emit ns).flatten) := by
  simp [doAsk, h.1, h.2, emit, emitFrom_lengths]

/-- the routing table always describes the current batch -/
def WF (s : St) : Prop := s.cur = (emit s.counts).flatten

theorem wf_init : WF init := rfl

theorem wf_step (cfg : Cfg) (s : St) (op : Op) (h : WF s) : WF (step cfg s op).1 := by
  cases op <;> simp only [step, doAsk, doTell] <;> (repeat' split) <;>
    simp_all [WF, emit, emitFrom_lengths]

/-- for every call sequence -/
theorem wf_run (cfg : Cfg) (s : St) (ops : List Op) (h : WF s) : WF (run cfg s ops) := by
  induction ops generalizing s with
  | nil => exact h
  | cons op ops ih => exact ih _ (wf_step cfg s op h)

/-! ## tell -/

/-- spec-shaped: what each emitter must be told. Emitter `e + i` receives as `solution` exactly what
    it generated, and every other per-row array cut at `[pos + Σ_{j<i} n_j, … + n_i)`. -/
def tellSpec (dqd : Bool) (e pos : Nat) (ns : List Nat) : List Event :=
  (List.range ns.length).map fun i =>
    .tell dqd (e + i) (gen (e + i) (ns.getD i 0)) (List.range' (pos + (ns.take i).sum) (ns.getD i 0))

theorem tellSpec_cons (dqd : Bool) (e pos n : Nat) (ns : List Nat) :
    tellSpec dqd e pos (n :: ns) =
      .tell dqd e (gen e n) (List.range' pos n) :: tellSpec dqd (e + 1) (pos + n) ns := by
  simp only [tellSpec, List.length_cons, List.range_succ_eq_map, List.map_cons, List.map_map]
  have hh : ∀ i, Event.tell dqd (e + (i + 1)) (gen (e + (i + 1)) ((n :: ns).getD (i + 1) 0))
        (List.range' (pos + ((n :: ns).take (i + 1)).sum) ((n :: ns).getD (i + 1) 0)) =
      Event.tell dqd (e + 1 + i) (gen (e + 1 + i) (ns.getD i 0))
        (List.range' (pos + n + (ns.take i).sum) (ns.getD i 0)) := by
    intro i
    have h1 : e + (i + 1) = e + 1 + i := by omega
    have h2 : pos + (n + (List.take i ns).sum) = pos + n + (List.take i ns).sum := by omega
    simp [h1, h2]
  simp only [Function.comp_def, Nat.succ_eq_add_one, hh]
  simp

theorem tellEvents_spec (dqd : Bool) (e : Nat) (ns : List Nat) (pre : Nat) (total : Nat)
    (ht : pre + ns.sum ≤ total) :
    tellEvents dqd e (emitFrom e ns) (dispatchFrom pre ns (List.range total)) = tellSpec dqd e pre ns := by
  induction ns generalizing e pre with
  | nil => simp [tellEvents, emitFrom, tellSpec]
  | cons n ns ih =>
    simp only [List.sum_cons] at ht
    simp only [emitFrom, dispatchFrom, slices, List.map_cons, tellEvents, tellSpec_cons]
    have h1 : slice (List.range total) (pre, pre + n) = List.range' pre n := by
      rw [slice_range _ _ (by simp; omega)]
      simp
    have h2 := ih (e + 1) (pre + n) (by omega)
    simp only [dispatchFrom] at h2
    rw [h1, h2]

/-- T04.2/T04.3/T04.5 `tell_routes`: in every state reached by any call sequence (`WF`), a legal
    tell / tell_dqd first submits the rows to the archive(s) (`addToArchives`) and then tells every
    emitter, in order, exactly the solutions that emitter generated together with the rows
    `[Σ_{j<i} n_j, Σ_{j≤i} n_j)` of every per-row array. -/
theorem tell_routes (cfg : Cfg) (dqd : Bool) (s : St) (hwf : WF s)
    (hp : s.phase = if dqd then Phase.askDqd else Phase.ask) :
    doTell cfg dqd false s =
      ({ s with phase := if dqd then .tellDqd else .tell,
                trace := s.trace ++ addToArchives cfg s.counts.sum ++ tellSpec dqd 0 0 s.counts },
       .told) := by
  have hlen : s.cur.length = s.counts.sum := by rw [hwf, emit, flatten_length_emitFrom]
  have hd : dispatch s.counts s.cur = emitFrom 0 s.counts := by
    have := dispatch_flatten (emit s.counts)
    rw [emit, emitFrom_lengths] at this
    rw [hwf]; exact this
  simp only [doTell, hp, ne_eq, not_true_eq_false, if_false, Bool.false_eq_true]
  rw [hd, hlen, dispatch, tellEvents_spec dqd 0 s.counts 0 s.counts.sum (by omega)]

/-! ## T04.3 each row exactly once, before any emitter is told -/

theorem batchesOf_append (r : Bool) (a b : List Event) :
    batchesOf r (a ++ b) = batchesOf r a ++ batchesOf r b := by
  induction a with
  | nil => rfl
  | cons e es ih => cases e <;> simp [batchesOf, ih]; split <;> simp

theorem batchesOf_single_aux (cfg : Cfg) (result : Bool) (l : List Nat) :
    batchesOf result (l.flatMap fun r =>
      Event.add false [r] :: (if cfg.hasResult then [Event.add true [r]] else [])) =
    if result = false ∨ cfg.hasResult = true then l.map (fun r => [r]) else [] := by
  induction l with
  | nil => simp [batchesOf]
  | cons x xs ih =>
    simp only [List.flatMap_cons, batchesOf_append, ih]
    cases result <;> cases hr : cfg.hasResult <;> simp [batchesOf]

/-- T04.3 `each_row_once`: the archive receives the rows `[0, Σ n)` each exactly once and in order
    — one batch in batch mode, singletons in single mode — and so does the result archive when
    there is one (nothing otherwise). -/
theorem each_row_once (cfg : Cfg) (total : Nat) :
    batchesOf false (addToArchives cfg total) =
        (match cfg.mode with
         | .batch => [List.range total]
         | .single => (List.range total).map fun r => [r]) ∧
    batchesOf true (addToArchives cfg total) =
        (if cfg.hasResult then batchesOf false (addToArchives cfg total) else []) := by
  cases hm : cfg.mode
  · cases hr : cfg.hasResult <;> simp [addToArchives, hm, hr, batchesOf]
  · simp only [addToArchives, hm]
    rw [batchesOf_single_aux, batchesOf_single_aux]
    cases hr : cfg.hasResult <;> simp

theorem each_row_once_flat (cfg : Cfg) (total : Nat) :
    (batchesOf false (addToArchives cfg total)).flatten = List.range total ∧
    (batchesOf true (addToArchives cfg total)).flatten =
      if cfg.hasResult then List.range total else [] := by
  have h := each_row_once cfg total
  have hs : ((List.range total).map fun r => [r]).flatten = List.range total := by
    induction List.range total with
    | nil => rfl
    | cons x xs ih => simp [ih]
  cases hm : cfg.mode <;> cases hr : cfg.hasResult <;> simp_all

/-- T04.4 (scheduler part): both add modes submit the same rows in the same order to each archive -/
theorem modes_same_rows (r : Bool) (hasResult : Bool) (total : Nat) :
    (batchesOf r (addToArchives ⟨.batch, hasResult⟩ total)).flatten =
      (batchesOf r (addToArchives ⟨.single, hasResult⟩ total)).flatten := by
  have a := each_row_once_flat ⟨.batch, hasResult⟩ total
  have b := each_row_once_flat ⟨.single, hasResult⟩ total
  cases r
  · rw [a.1, b.1]
  · rw [a.2, b.2]

theorem addToArchives_isAdd (cfg : Cfg) (total : Nat) : ∀ e ∈ addToArchives cfg total, e.isAdd = true := by
  intro e he
  cases hm : cfg.mode <;> cases hr : cfg.hasResult <;>
    simp [addToArchives, hm, hr] at he <;> (try rcases he with rfl | rfl) <;>
    (try obtain ⟨_, _, rfl | rfl⟩ := he) <;> (try obtain ⟨_, _, rfl⟩ := he) <;> simp_all [Event.isAdd]

theorem tellSpec_isTell (dqd : Bool) (e pos : Nat) (ns : List Nat) :
    ∀ ev ∈ tellSpec dqd e pos ns, ev.isTell = true := by
  intro ev h
  simp only [tellSpec, List.mem_map] at h
  obtain ⟨_, _, rfl⟩ := h
  rfl

/-- T04.3 `archives_before_emitters`: the calls made by a legal tell split into archive insertions
    followed by emitter tells: every row is in the archive(s) before any emitter is told. -/
theorem archives_before_emitters (cfg : Cfg) (dqd : Bool) (s : St) (hwf : WF s)
    (hp : s.phase = if dqd then Phase.askDqd else Phase.ask) :
    ∃ adds tells, (doTell cfg dqd false s).1.trace = s.trace ++ adds ++ tells ∧
      (∀ e ∈ adds, e.isAdd = true) ∧ (∀ e ∈ tells, e.isTell = true) ∧
      (batchesOf false adds).flatten = List.range s.counts.sum ∧
      (batchesOf true adds).flatten = (if cfg.hasResult then List.range s.counts.sum else []) ∧
      tells.length = s.counts.length := by
  refine ⟨addToArchives cfg s.counts.sum, tellSpec dqd 0 0 s.counts, ?_, addToArchives_isAdd _ _,
    tellSpec_isTell _ _ _ _, (each_row_once_flat _ _).1, (each_row_once_flat _ _).2, by simp [tellSpec]⟩
  rw [tell_routes cfg dqd s hwf hp]

/-! ## whole histories -/

/-- every emitter is only ever told solutions it generated itself, all of them, in order -/
def OwnTells (tr : List Event) : Prop :=
  ∀ d e sols rows, Event.tell d e sols rows ∈ tr → sols = gen e sols.length ∧ rows.length = sols.length

theorem tellSpec_own (dqd : Bool) (e pos : Nat) (ns : List Nat) : OwnTells (tellSpec dqd e pos ns) := by
  intro d em sols rows h
  simp only [tellSpec, List.mem_map, List.mem_range] at h
  obtain ⟨i, _, hi⟩ := h
  injection hi with _ h2 h3 h4
  subst h2 h3 h4
  simp [gen_length]

theorem ownTells_step (cfg : Cfg) (s : St) (op : Op) (hwf : WF s) (h : OwnTells s.trace) :
    OwnTells (step cfg s op).1.trace := by
  have key : ∀ dqd, OwnTells (doTell cfg dqd false s).1.trace := by
    intro dqd
    by_cases hp : s.phase = if dqd then Phase.askDqd else Phase.ask
    · rw [tell_routes cfg dqd s hwf hp]
      intro d e sols rows hm
      simp only [List.mem_append] at hm
      rcases hm with (hm | hm) | hm
      · exact h d e sols rows hm
      · have := addToArchives_isAdd cfg _ _ hm; simp [Event.isAdd] at this
      · exact tellSpec_own _ _ _ _ d e sols rows hm
    · simp only [doTell, ne_eq, hp, not_false_eq_true, if_true]; exact h
  have keyAsk : ∀ dqd ns, OwnTells (doAsk dqd s ns).1.trace := by
    intro dqd ns
    simp only [doAsk]
    split
    · exact h
    · intro d e sols rows hm
      simp only [List.mem_append] at hm
      rcases hm with hm | hm
      · exact h d e sols rows hm
      · exfalso
        generalize 0 = k at hm
        induction ns generalizing k with
        | nil => simp [askEvents] at hm
        | cons n ns ih =>
          simp only [askEvents, List.mem_cons] at hm
          rcases hm with hm | hm
          · cases hm
          · exact ih _ hm
  cases op with
  | ask ns => exact keyAsk false ns
  | askDqd ns => exact keyAsk true ns
  | tell => exact key false
  | tellDqd => exact key true
  | tellBad =>
    cases ho : (step cfg s .tellBad).2 with
    | error e => rw [(rejected_untouched cfg s .tellBad e ho).1]; exact h
    | asked _ => simp only [step, doTell] at ho; (repeat' split at ho) <;> simp_all
    | told => simp only [step, doTell] at ho; (repeat' split at ho) <;> simp_all
  | tellDqdBad =>
    cases ho : (step cfg s .tellDqdBad).2 with
    | error e => rw [(rejected_untouched cfg s .tellDqdBad e ho).1]; exact h
    | asked _ => simp only [step, doTell] at ho; (repeat' split at ho) <;> simp_all
    | told => simp only [step, doTell] at ho; (repeat' split at ho) <;> simp_all

/-- T04.2 for every history: whatever sequence of ask / ask_dqd / tell / tell_dqd calls (legal or
    not) is made on a fresh scheduler, every emitter `e` is only ever told solutions `(e, 0), …,
    (e, n−1)` — those it generated itself, all of them, in the order it generated them — with as
    many rows of every other array. -/
theorem told_own (cfg : Cfg) (ops : List Op) : OwnTells (run cfg init ops).trace := by
  suffices ∀ s, WF s → OwnTells s.trace → OwnTells (run cfg s ops).trace from
    this init wf_init (by intro _ _ _ _ h; simp [init] at h)
  induction ops with
  | nil => intro s _ h; exact h
  | cons op ops ih =>
    intro s hwf h
    exact ih _ (wf_step cfg s op hwf) (ownTells_step cfg s op hwf h)

/-! ## every ask is answered exactly once (whole histories) -/

/-- sizes of the batches emitter `e` generated (`ask` if `d = false`, `ask_dqd` if `d = true`) -/
def asksOf (d : Bool) (e : Nat) : List Event → List Nat
  | [] => []
  | .ask d' e' n :: es => if d' = d ∧ e' = e then n :: asksOf d e es else asksOf d e es
  | _ :: es => asksOf d e es

/-- sizes of the batches emitter `e` was told about -/
def tellsOf (d : Bool) (e : Nat) : List Event → List Nat
  | [] => []
  | .tell d' e' sols _ :: es =>
    if d' = d ∧ e' = e then sols.length :: tellsOf d e es else tellsOf d e es
  | _ :: es => tellsOf d e es

theorem asksOf_append (d : Bool) (e : Nat) (a b : List Event) :
    asksOf d e (a ++ b) = asksOf d e a ++ asksOf d e b := by
  induction a with
  | nil => rfl
  | cons x xs ih => cases x <;> simp [asksOf, ih]; split <;> simp

theorem tellsOf_append (d : Bool) (e : Nat) (a b : List Event) :
    tellsOf d e (a ++ b) = tellsOf d e a ++ tellsOf d e b := by
  induction a with
  | nil => rfl
  | cons x xs ih => cases x <;> simp [tellsOf, ih]; split <;> simp

theorem asksOf_askEvents (d d' : Bool) (e k : Nat) (ns : List Nat) :
    asksOf d e (askEvents d' k ns) = if d' = d ∧ k ≤ e then (ns[e - k]?).toList else [] := by
  induction ns generalizing k with
  | nil => simp [askEvents, asksOf]
  | cons n ns ih =>
    simp only [askEvents, asksOf, ih]
    by_cases hd : d' = d
    · by_cases hk : k = e
      · subst hk; simp [hd]; omega
      · by_cases hlt : k < e
        · have : e - k = (e - (k + 1)) + 1 := by omega
          simp [hd, hk, this, show k + 1 ≤ e by omega, show k ≤ e by omega]
        · simp [hd, hk, show ¬ k + 1 ≤ e by omega, show ¬ k ≤ e by omega]
    · simp [hd]

theorem tellsOf_askEvents (d d' : Bool) (e k : Nat) (ns : List Nat) :
    tellsOf d e (askEvents d' k ns) = [] := by
  induction ns generalizing k with
  | nil => rfl
  | cons n ns ih => simp [askEvents, tellsOf, ih]

theorem asksOf_tellSpec (d d' : Bool) (e k pos : Nat) (ns : List Nat) :
    asksOf d e (tellSpec d' k pos ns) = [] := by
  induction ns generalizing k pos with
  | nil => rfl
  | cons n ns ih => simp [tellSpec_cons, asksOf, ih]

theorem tellsOf_tellSpec (d d' : Bool) (e k pos : Nat) (ns : List Nat) :
    tellsOf d e (tellSpec d' k pos ns) = if d' = d ∧ k ≤ e then (ns[e - k]?).toList else [] := by
  induction ns generalizing k pos with
  | nil => simp [tellSpec, tellsOf]
  | cons n ns ih =>
    simp only [tellSpec_cons, tellsOf, ih, gen_length]
    by_cases hd : d' = d
    · by_cases hk : k = e
      · subst hk; simp [hd]; omega
      · by_cases hlt : k < e
        · have : e - k = (e - (k + 1)) + 1 := by omega
          simp [hd, hk, this, show k + 1 ≤ e by omega, show k ≤ e by omega]
        · simp [hd, hk, show ¬ k + 1 ≤ e by omega, show ¬ k ≤ e by omega]
    · simp [hd]

theorem asksOf_adds (d : Bool) (e : Nat) (es : List Event) (h : ∀ x ∈ es, x.isAdd = true) :
    asksOf d e es = [] ∧ tellsOf d e es = [] := by
  induction es with
  | nil => exact ⟨rfl, rfl⟩
  | cons x xs ih =>
    have hx := h x (by simp)
    have := ih (fun y hy => h y (by simp [hy]))
    cases x <;> simp_all [Event.isAdd, asksOf, tellsOf]

/-- the batch emitter `e` is still owed a tell for -/
def pending (s : St) (d : Bool) (e : Nat) : List Nat :=
  if (s.phase = .ask ∧ d = false) ∨ (s.phase = .askDqd ∧ d = true) then (s.counts[e]?).toList else []

/-- asks and tells are balanced, emitter by emitter -/
def Balanced (s : St) : Prop :=
  ∀ d e, asksOf d e s.trace = tellsOf d e s.trace ++ pending s d e

theorem balanced_step (cfg : Cfg) (s : St) (op : Op) (hwf : WF s) (hb : Balanced s)
    (hop : op ≠ .tellBad ∧ op ≠ .tellDqdBad) : Balanced (step cfg s op).1 := by
  by_cases ha : allowed s.phase op = true
  case neg =>
    have hf : allowed s.phase op = false := by simpa using ha
    rw [protocol_unchanged cfg s op ((protocol cfg s op).mpr hf)]; exact hb
  have hask : ∀ dqd ns, (s.phase ≠ .ask ∧ s.phase ≠ .askDqd) → Balanced (doAsk dqd s ns).1 := by
    intro dqd ns hph d e
    have h0 := hb d e
    rw [ask_concat dqd s ns hph]
    simp only [pending, hph.1, hph.2, false_and, or_self, if_false, List.append_nil] at h0
    simp only [asksOf_append, tellsOf_append, asksOf_askEvents, tellsOf_askEvents, h0, pending,
      List.append_nil, Nat.zero_le, and_true, Nat.sub_zero]
    cases dqd <;> cases d <;> simp
  have htell : ∀ dqd, s.phase = (if dqd then Phase.askDqd else Phase.ask) →
      Balanced (doTell cfg dqd false s).1 := by
    intro dqd hp d e
    have h0 := hb d e
    rw [tell_routes cfg dqd s hwf hp]
    have hadd := asksOf_adds d e _ (addToArchives_isAdd cfg s.counts.sum)
    simp only [asksOf_append, tellsOf_append, hadd.1, hadd.2, asksOf_tellSpec, tellsOf_tellSpec,
      List.append_nil, h0, pending, Nat.zero_le, and_true, Nat.sub_zero]
    cases dqd <;> cases d <;> simp_all
  cases op with
  | ask ns => exact hask false ns (by cases hp : s.phase <;> simp_all [allowed])
  | askDqd ns => exact hask true ns (by cases hp : s.phase <;> simp_all [allowed])
  | tell => exact htell false (by simpa [allowed] using ha)
  | tellDqd => exact htell true (by simpa [allowed] using ha)
  | tellBad => exact absurd rfl hop.1
  | tellDqdBad => exact absurd rfl hop.2

/-- T04.2/T04.3 for every history: whatever sequence of ask / ask_dqd / tell / tell_dqd calls (legal
    or out of order) is made on a fresh scheduler, for every emitter the batches it was told about
    are, in order and one for one, the batches it generated — plus the one batch still waiting for
    its tell when the last accepted call was an ask.  (A tell rejected with ValueError for a
    wrong-length array is excluded: the code has then already left the ask phase, and the batch is
    never told.) -/
theorem asks_answered (cfg : Cfg) (ops : List Op) (hops : ∀ op ∈ ops, op ≠ .tellBad ∧ op ≠ .tellDqdBad) :
    Balanced (run cfg init ops) := by
  suffices ∀ s, WF s → Balanced s → Balanced (run cfg s ops) from
    this init wf_init (by intro d e; simp [init, asksOf, tellsOf, pending])
  induction ops with
  | nil => intro s _ h; exact h
  | cons op ops ih =>
    intro s hwf h
    exact ih (fun o ho => hops o (by simp [ho])) _ (wf_step cfg s op hwf)
      (balanced_step cfg s op hwf h (hops op (by simp)))

/-! ## what a tell may follow (whole histories) -/

/-- the protocol state an accepted call leaves behind: a tell leaves the ask phase even when it is
    then rejected with ValueError for a wrong-length array (the code records the call first) -/
def opPhase : Op → Phase
  | .ask _ => .ask
  | .askDqd _ => .askDqd
  | .tell => .tell
  | .tellBad => .tell
  | .tellDqd => .tellDqd
  | .tellDqdBad => .tellDqd

theorem phase_after_allowed (cfg : Cfg) (s : St) (op : Op) (h : allowed s.phase op = true) :
    (step cfg s op).1.phase = opPhase op := by
  cases op <;> cases hp : s.phase <;> simp_all [allowed, step, doAsk, doTell, opPhase]

/-- for every call sequence the protocol state is the one left by the last call that was not rejected
    with RuntimeError (the initial state if there is none) -/
theorem phase_run (cfg : Cfg) (s : St) (ops : List Op) :
    (run cfg s ops).phase =
      match (accepted cfg s ops).getLast? with
      | none => s.phase
      | some op => opPhase op := by
  induction ops generalizing s with
  | nil => rfl
  | cons op ops ih =>
    simp only [accepted]
    by_cases ha : allowed s.phase op = true
    · simp only [ha, if_true, run, List.foldl_cons]
      have := ih (step cfg s op).1
      simp only [run] at this
      rw [this, List.getLast?_cons]
      cases (accepted cfg (step cfg s op).1 ops).getLast? with
      | none => simpa using phase_after_allowed cfg s op ha
      | some x => rfl
    · have hf : allowed s.phase op = false := by simpa using ha
      have hs := protocol_unchanged cfg s op ((protocol cfg s op).mpr hf)
      simp only [hf, Bool.false_eq_true, if_false, run, List.foldl_cons, hs]
      exact ih s

/-- T04.1 for whole histories: after any sequence of calls on a fresh scheduler, `tell` is accepted
    exactly when the last call that was not out of order is an `ask` — not an `ask_dqd`, not a tell of
    either kind (accepted, or rejected for a wrong-length array), and not "nothing yet"; dually for
    `tell_dqd` and `ask_dqd`. -/
theorem tell_follows_matching_ask (cfg : Cfg) (ops : List Op) :
    (allowed (run cfg init ops).phase .tell = true ↔
      ∃ ns, (accepted cfg init ops).getLast? = some (.ask ns)) ∧
    (allowed (run cfg init ops).phase .tellDqd = true ↔
      ∃ ns, (accepted cfg init ops).getLast? = some (.askDqd ns)) := by
  rw [phase_run]
  cases h : (accepted cfg init ops).getLast? with
  | none => simp [allowed, init]
  | some op => cases op <;> simp [allowed, opPhase]

/-! ## non-vacuity -/

/-- a concrete history with three emitters, unequal and zero batch sizes, illegal calls in between,
    single mode with a result archive: the final trace is what the theorems say -/
theorem nonvacuous :
    let cfg : Cfg := ⟨.single, true⟩
    let ops := [Op.tell, .ask [2, 0, 1], .ask [5], .tellDqd, .tell, .tell, .askDqd [0, 1, 0], .tellDqd]
    (run cfg init ops).trace =
      [.ask false 0 2, .ask false 1 0, .ask false 2 1,
       .add false [0], .add true [0], .add false [1], .add true [1], .add false [2], .add true [2],
       .tell false 0 [(0, 0), (0, 1)] [0, 1], .tell false 1 [] [], .tell false 2 [(2, 0)] [2],
       .ask true 0 0, .ask true 1 1, .ask true 2 0,
       .add false [0], .add true [0],
       .tell true 0 [] [], .tell true 1 [(1, 0)] [0], .tell true 2 [] []] ∧
    accepted cfg init ops = [.ask [2, 0, 1], .tell, .askDqd [0, 1, 0], .tellDqd] ∧
    (run cfg init ops).phase = .tellDqd := by
  decide

end Pyribs.C04
