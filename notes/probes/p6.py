import numpy as np, warnings
from ribs.archives import GridArchive
from ribs.emitters import GradientArborescenceEmitter
from ribs.schedulers import Scheduler
warnings.simplefilter("ignore")
for go in ("adam","gradient_ascent"):
    arch = GridArchive(solution_dim=3, dims=[4,4], ranges=[(-1,1),(-1,1)])
    e = GradientArborescenceEmitter(arch, x0=np.ones(3), sigma0=1.0, lr=0.1, seed=1, batch_size=4, restart_rule="basic", grad_opt=go)
    s = Scheduler(arch,[e])
    s.ask_dqd(); s.tell_dqd(np.array([1.0]), np.array([[0.1,0.1]]), np.ones((1,3,3)))
    sols = s.ask()
    print(go, "theta before", e._grad_opt.theta.copy())
    s.tell(np.array([-100.,-101.,-102.,-103.]), np.full((4,2), 0.1))
    print(go, "theta after zero-parent tell:", e._grad_opt.theta, "restarts", e.restarts, "itrs", e.itrs)
