/-!
# Util — wire format shared by every machine of the line-protocol driver

Core Lean only (no Mathlib): the driver is linked as a `lean_exe`.

Wire format
* a rational is `n` or `n/d` (decimal integers, optional leading `-`);
* an extended rational additionally allows `-inf` / `inf` (threshold_min);
* lists are comma separated (`-` is the empty list), records are `:` separated,
  batches are space separated.
-/
namespace Pyribs

/-- split on a single character, dropping empty pieces -/
def splitTok (s : String) (sep : String) : List String :=
  (s.splitOn sep).filter (· ≠ "")

def parseRat (s : String) : Option Rat :=
  match s.splitOn "/" with
  | [n] => n.toInt?.map (fun i => (i : Rat))
  | [n, d] =>
    match n.toInt?, d.toNat? with
    | some i, some k => if k = 0 then none else some (mkRat i k)
    | _, _ => none
  | _ => none

def showRat (q : Rat) : String :=
  if q.den = 1 then toString q.num else s!"{q.num}/{q.den}"

/-- comma separated list; `-` (or the empty string) is the empty list -/
def parseListWith {α} (f : String → Option α) (s : String) : Option (List α) :=
  if s = "-" || s = "" then some [] else (s.splitOn ",").mapM f

def parseRatList (s : String) : Option (List Rat) := parseListWith parseRat s
def parseNatList (s : String) : Option (List Nat) := parseListWith String.toNat? s
def parseIntList (s : String) : Option (List Int) := parseListWith String.toInt? s

def showList {α} (f : α → String) (xs : List α) : String :=
  if xs.isEmpty then "-" else String.intercalate "," (xs.map f)

def showRatList (xs : List Rat) : String := showList showRat xs
def showNatList (xs : List Nat) : String := showList toString xs
def showIntList (xs : List Int) : String := showList toString xs

/-- `-inf` ↦ none ; otherwise a rational -/
def parseNegInfRat (s : String) : Option (Option Rat) :=
  if s = "-inf" then some none else (parseRat s).map some

def showNegInfRat : Option Rat → String
  | none => "-inf"
  | some q => showRat q

/-- look up `key=value` among the tokens of a request -/
def kv (toks : List String) (key : String) : Option String :=
  toks.findSome? (fun t =>
    match t.splitOn "=" with
    | [k, v] => if k = key then some v else none
    | _ => none)

def showBool (b : Bool) : String := if b then "1" else "0"

def showOpt {α} (f : α → String) : Option α → String
  | none => "none"
  | some a => f a

end Pyribs
