import numpy as np, random, warnings, matplotlib
matplotlib.use("Agg")
import matplotlib.pyplot as plt
from matplotlib.collections import QuadMesh, PolyCollection, PathCollection, LineCollection
from ribs.archives import GridArchive, CVTArchive, SlidingBoundariesArchive, ProximityArchive
from ribs.visualize import *
warnings.simplefilter("ignore")
bad=0
for seed in range(40):
    rnd=random.Random(seed); nprng=np.random.default_rng(seed)
    n=rnd.randint(1,12); m=np.stack([nprng.uniform(-1,2,n),nprng.uniform(10,14,n)],axis=1); o=nprng.integers(-5,5,n).astype(float)
    s=SlidingBoundariesArchive(solution_dim=1,dims=[3,4],ranges=[(-1,2),(10,14)],remap_frequency=5,buffer_capacity=8)
    s.add(np.zeros((n,1)),o,m)
    p=ProximityArchive(solution_dim=1,measure_dim=2,k_neighbors=2,novelty_threshold=0.3)
    p.add(np.zeros((n,1)),o,m)
    for arch,fn in ((s,sliding_boundaries_archive_heatmap),(p,proximity_archive_plot)):
        for tr in (False,True):
            for usedf in (False,True):
                try:
                    fig,ax=plt.subplots(); df=arch.data(return_type="pandas") if usedf else None
                    kw={"boundary_lw":1.0} if arch is s else {}
                    fn(arch,ax,df=df,transpose_measures=tr,**kw)
                    sc=[c for c in ax.collections if isinstance(c,PathCollection)][0]
                    off=np.asarray(sc.get_offsets()); arr=np.asarray(sc.get_array())
                    d=arch.data(); em=d["measures"][:,::-1] if tr else d["measures"]
                    if not (np.allclose(off,em) and np.array_equal(arr,d["objective"])): print("SCATTER",fn.__name__,seed,tr); bad+=1
                    if arch is s:
                        lcs=[c for c in ax.collections if isinstance(c,LineCollection)]
                        segs=[np.asarray(l.get_segments()) for l in lcs]
                        vx=sorted(set(sg[0,0] for sg in segs[0])); hy=sorted(set(sg[0,1] for sg in segs[1]))
                        bx,by=(arch.boundaries[1],arch.boundaries[0]) if tr else (arch.boundaries[0],arch.boundaries[1])
                        if not (np.allclose(vx,sorted(set(bx))) and np.allclose(hy,sorted(set(by)))): print("LINES",seed,tr,vx,bx); bad+=1
                    plt.close(fig)
                except Exception as e:
                    print("EXC",fn.__name__,seed,tr,usedf,type(e).__name__,e); bad+=1
    # parallel axes
    g=GridArchive(solution_dim=1,dims=[3,3,2],ranges=[(-1,2),(10,14),(0,1)])
    m3=np.concatenate([m,nprng.uniform(0,1,(n,1))],axis=1); g.add(np.zeros((n,1)),o,m3)
    for usedf in (False,True):
        fig,ax=plt.subplots(); df=g.data(return_type="pandas") if usedf else None
        parallel_axes_plot(g,ax,df=df,sort_archive=usedf)
        lines=[l for l in ax.get_lines()]
        d=g.data()
        if len(lines)!=len(d["index"]): print("PAR nlines",seed); bad+=1
        lb,ub=g.lower_bounds,g.upper_bounds
        got=sorted(tuple(np.round(l.get_ydata(),9)) for l in lines)
        exp=[]
        for mm in d["measures"]:
            ys=[mm[0]]+[ (mm[k]-lb[k])/(ub[k]-lb[k])*(ub[0]-lb[0])+lb[0] for k in (1,2)]
            exp.append(tuple(np.round(ys,9)))
        if got!=sorted(exp): print("PAR ys",seed); bad+=1
        plt.close(fig)
print("bad",bad)
