import PyribsModel.Proximity
import PyribsProofs.C01
import Mathlib.Tactic.FieldSimp
import Mathlib.Tactic.Positivity
/-!
Helper lemmas about the `Prox` model (C14): rational square-root brackets, the insertion sort
of neighbours, `nearestSet`, `growCap`, `colMin` / `colMax`, and the spec-shaped form
`mkRows` of the rows produced by `assign`.
-/
namespace Pyribs.C14
open Pyribs Pyribs.Prox Pyribs.Arch

/-! ### rational brackets of square roots -/

theorem scaled_eq (x : Rat) (hx : 0 ≤ x) (p : Nat) :
    x * (((x.den * 2 ^ p : Nat) : Rat)) ^ 2 = ((x.num.toNat * x.den * 4 ^ p : Nat) : Rat) := by
  have hnum : ((x.num.toNat : Nat) : Rat) = (x.num : Rat) := by
    have h : (x.num.toNat : Int) = x.num := Int.toNat_of_nonneg (Rat.num_nonneg.mpr hx)
    have h' : (((x.num.toNat : Nat) : Int) : Rat) = (x.num : Rat) := by rw [h]
    exact (Int.cast_natCast _).symm.trans h'
  have key : x * (x.den : Rat) = x.num := Rat.mul_den_eq_num x
  have h4 : ((2 : Rat) ^ p) ^ 2 = 4 ^ p := by
    rw [← pow_mul, mul_comm, pow_mul]; norm_num
  push_cast
  rw [hnum]
  calc x * ((x.den : Rat) * 2 ^ p) ^ 2 = (x * x.den) * x.den * ((2 : Rat) ^ p) ^ 2 := by ring
    _ = (x.num : Rat) * (x.den : Rat) * 4 ^ p := by rw [key, h4]

theorem den_pos (x : Rat) (p : Nat) : (0 : Rat) < ((x.den * 2 ^ p : Nat) : Rat) := by
  have : 0 < x.den * 2 ^ p := Nat.mul_pos x.den_pos (Nat.pow_pos (by norm_num))
  exact_mod_cast this

theorem sqrtLo_nonneg (x : Rat) (p : Nat) : 0 ≤ sqrtLo x p := by
  unfold sqrtLo
  simp only [Rat.mkRat_eq_div]
  apply div_nonneg
  · exact_mod_cast Nat.zero_le _
  · exact (den_pos x p).le

theorem sqrtLo_sq_le (x : Rat) (hx : 0 ≤ x) (p : Nat) : (sqrtLo x p) ^ 2 ≤ x := by
  unfold sqrtLo
  simp only [Rat.mkRat_eq_div]
  rw [div_pow, div_le_iff₀ (pow_pos (den_pos x p) 2), scaled_eq x hx p]
  have := Nat.sqrt_le (x.num.toNat * x.den * 4 ^ p)
  have h2 : ((Nat.sqrt (x.num.toNat * x.den * 4 ^ p) * Nat.sqrt (x.num.toNat * x.den * 4 ^ p) : Nat) : Rat)
      ≤ ((x.num.toNat * x.den * 4 ^ p : Nat) : Rat) := by exact_mod_cast this
  calc _ = ((Nat.sqrt (x.num.toNat * x.den * 4 ^ p) * Nat.sqrt (x.num.toNat * x.den * 4 ^ p) : Nat) : Rat) := by
        push_cast; ring
    _ ≤ _ := h2

theorem sqrtHi_nonneg (x : Rat) (p : Nat) : 0 ≤ sqrtHi x p := by
  unfold sqrtHi
  simp only [Rat.mkRat_eq_div]
  apply div_nonneg
  · split <;> exact_mod_cast Nat.zero_le _
  · exact (den_pos x p).le

theorem le_sqrtHi_sq (x : Rat) (hx : 0 ≤ x) (p : Nat) : x ≤ (sqrtHi x p) ^ 2 := by
  unfold sqrtHi
  simp only [Rat.mkRat_eq_div]
  rw [div_pow, le_div_iff₀ (pow_pos (den_pos x p) 2), scaled_eq x hx p]
  generalize x.num.toNat * x.den * 4 ^ p = n
  have h1 := Nat.lt_succ_sqrt n
  split
  · rename_i h
    have : ((n : Nat) : Rat) = ((Nat.sqrt n * Nat.sqrt n : Nat) : Rat) := by rw [h]
    rw [this]; push_cast; ring_nf; rfl
  · have h2 : ((n : Nat) : Rat) ≤ (((Nat.sqrt n + 1) * (Nat.sqrt n + 1) : Nat) : Rat) := by
      exact_mod_cast h1.le
    calc _ ≤ _ := h2
      _ = _ := by push_cast; ring

theorem sqrtLo_le_sqrtHi (x : Rat) (p : Nat) : sqrtLo x p ≤ sqrtHi x p := by
  unfold sqrtLo sqrtHi
  simp only [Rat.mkRat_eq_div]
  apply div_le_div_of_nonneg_right _ (den_pos x p).le
  split
  · exact le_refl _
  · push_cast; linarith

/-! ### insertion sort of neighbours, `nearestSet`, `kNearest` -/

theorem nbLe_iff (a b : Nb) :
    nbLe a b = true ↔ a.d2 < b.d2 ∨ (a.d2 = b.d2 ∧ a.idx ≤ b.idx) := by
  simp [nbLe]

theorem nbLe_d2 {a b : Nb} (h : nbLe a b = true) : a.d2 ≤ b.d2 := by
  rcases (nbLe_iff a b).mp h with h | ⟨h, _⟩
  · exact le_of_lt h
  · exact le_of_eq h

theorem nbLe_total (a b : Nb) : nbLe a b = true ∨ nbLe b a = true := by
  rw [nbLe_iff, nbLe_iff]
  rcases lt_trichotomy a.d2 b.d2 with h | h | h
  · exact Or.inl (Or.inl h)
  · rcases Nat.le_total a.idx b.idx with h2 | h2
    · exact Or.inl (Or.inr ⟨h, h2⟩)
    · exact Or.inr (Or.inr ⟨h.symm, h2⟩)
  · exact Or.inr (Or.inl h)

theorem nbLe_trans {a b c : Nb} (h1 : nbLe a b = true) (h2 : nbLe b c = true) : nbLe a c = true := by
  rw [nbLe_iff] at *
  rcases h1 with h1 | ⟨h1, h1'⟩ <;> rcases h2 with h2 | ⟨h2, h2'⟩
  · exact Or.inl (lt_trans h1 h2)
  · exact Or.inl (h2 ▸ h1)
  · exact Or.inl (h1 ▸ h2)
  · exact Or.inr ⟨h1.trans h2, le_trans h1' h2'⟩

theorem insertNb_perm (x : Nb) (l : List Nb) : (insertNb x l).Perm (x :: l) := by
  induction l with
  | nil => simp [insertNb]
  | cons y ys ih =>
    simp only [insertNb]
    split
    · exact List.Perm.refl _
    · exact ((List.Perm.cons y ih).trans (List.Perm.swap x y ys))

theorem sortNb_perm (l : List Nb) : (sortNb l).Perm l := by
  induction l with
  | nil => simp [sortNb]
  | cons x xs ih =>
    simp only [sortNb]
    exact (insertNb_perm x _).trans (List.Perm.cons x ih)

def Sorted (l : List Nb) : Prop := l.Pairwise (fun a b => nbLe a b = true)

theorem insertNb_sorted (x : Nb) (l : List Nb) (h : Sorted l) : Sorted (insertNb x l) := by
  induction l with
  | nil => simp [insertNb, Sorted]
  | cons y ys ih =>
    unfold Sorted at h ih ⊢
    rw [List.pairwise_cons] at h
    simp only [insertNb]
    split
    · rename_i hxy
      rw [List.pairwise_cons]
      refine ⟨?_, List.pairwise_cons.mpr h⟩
      intro z hz
      rcases List.mem_cons.mp hz with rfl | hz
      · exact hxy
      · exact nbLe_trans hxy (h.1 z hz)
    · rename_i hxy
      rw [List.pairwise_cons]
      refine ⟨?_, ih h.2⟩
      intro z hz
      have hz' := (insertNb_perm x ys).mem_iff.mp hz
      rcases List.mem_cons.mp hz' with rfl | hz'
      · rcases nbLe_total z y with h1 | h1
        · exact absurd h1 hxy
        · exact h1
      · exact h.1 z hz'

theorem sortNb_sorted (l : List Nb) : Sorted (sortNb l) := by
  induction l with
  | nil => simp [sortNb, Sorted]
  | cons x xs ih => exact insertNb_sorted x _ ih

/-- the shape of `nearestSet` on a sorted list -/
def headTies (l : List Nb) : List Nat :=
  match l with
  | [] => []
  | a :: rest => a.idx :: (rest.filter (fun b => decide (b.d2 = a.d2))).map (·.idx)

theorem mem_headTies (l : List Nb) (hs : Sorted l) (j : Nat) :
    j ∈ headTies l ↔ ∃ b ∈ l, b.idx = j ∧ ∀ c ∈ l, b.d2 ≤ c.d2 := by
  cases l with
  | nil => simp [headTies]
  | cons a rest =>
    unfold Sorted at hs
    rw [List.pairwise_cons] at hs
    have hmin : ∀ c ∈ a :: rest, a.d2 ≤ c.d2 := by
      intro c hc
      rcases List.mem_cons.mp hc with rfl | hc
      · exact le_refl _
      · exact nbLe_d2 (hs.1 c hc)
    simp only [headTies, List.mem_cons, List.mem_map, List.mem_filter, decide_eq_true_eq]
    constructor
    · rintro (rfl | ⟨b, ⟨hb, hbd⟩, rfl⟩)
      · exact ⟨a, Or.inl rfl, rfl, fun c hc => hmin c (List.mem_cons.mpr hc)⟩
      · exact ⟨b, Or.inr hb, rfl, fun c hc => hbd ▸ hmin c (List.mem_cons.mpr hc)⟩
    · rintro ⟨b, hb, rfl, hbmin⟩
      rcases hb with rfl | hb
      · exact Or.inl rfl
      · refine Or.inr ⟨b, ⟨hb, ?_⟩, rfl⟩
        exact le_antisymm (hbmin a (Or.inl rfl)) (hmin b (List.mem_cons.mpr (Or.inr hb)))

theorem nearestSet_eq (p : Prox) (m : List Rat) :
    p.nearestSet m = headTies (sortNb (p.neighbours m)) := by
  unfold nearestSet headTies
  cases sortNb (p.neighbours m) <;> rfl

theorem mem_entries (p : Prox) (i : Nat) (e : Elite) :
    (i, e) ∈ p.entries ↔ i < p.capacity ∧ p.arch.cellOf i = some e := by
  unfold entries Arch.cellOf
  simp only [List.mem_filterMap, List.mem_range, Option.map_eq_some_iff, Prod.mk.injEq]
  constructor
  · rintro ⟨k, hk, e', he, rfl, rfl⟩; exact ⟨hk, he⟩
  · rintro ⟨hk, he⟩; exact ⟨i, hk, e, he, rfl, rfl⟩

theorem mem_neighbours (p : Prox) (m : List Rat) (b : Nb) :
    b ∈ p.neighbours m ↔ ∃ i e, i < p.capacity ∧ p.arch.cellOf i = some e ∧
      b = ⟨dist2 e.meas m, i, e.obj⟩ := by
  unfold neighbours
  simp only [List.mem_map, Prod.exists]
  constructor
  · rintro ⟨i, e, hie, rfl⟩
    exact ⟨i, e, ((mem_entries p i e).mp hie).1, ((mem_entries p i e).mp hie).2, rfl⟩
  · rintro ⟨i, e, h1, h2, rfl⟩
    exact ⟨i, e, (mem_entries p i e).mpr ⟨h1, h2⟩, rfl⟩

theorem nearestSet_spec (p : Prox) (m : List Rat) (j : Nat) :
    j ∈ p.nearestSet m ↔
      ∃ e, j < p.capacity ∧ p.arch.cellOf j = some e ∧
        ∀ i e', i < p.capacity → p.arch.cellOf i = some e' → dist2 e.meas m ≤ dist2 e'.meas m := by
  rw [nearestSet_eq, mem_headTies _ (sortNb_sorted _)]
  have hmem : ∀ b, b ∈ sortNb (p.neighbours m) ↔ b ∈ p.neighbours m :=
    fun b => (sortNb_perm _).mem_iff
  constructor
  · rintro ⟨b, hb, rfl, hmin⟩
    obtain ⟨i, e, hi, he, rfl⟩ := (mem_neighbours p m b).mp ((hmem b).mp hb)
    refine ⟨e, hi, he, ?_⟩
    intro i' e' hi' he'
    exact hmin ⟨dist2 e'.meas m, i', e'.obj⟩
      ((hmem _).mpr ((mem_neighbours p m _).mpr ⟨i', e', hi', he', rfl⟩))
  · rintro ⟨e, hj, he, hmin⟩
    refine ⟨⟨dist2 e.meas m, j, e.obj⟩, (hmem _).mpr ((mem_neighbours p m _).mpr ⟨j, e, hj, he, rfl⟩),
      rfl, ?_⟩
    intro c hc
    obtain ⟨i', e', hi', he', rfl⟩ := (mem_neighbours p m c).mp ((hmem c).mp hc)
    exact hmin i' e' hi' he'

theorem kNearest_spec (p : Prox) (m : List Rat) :
    ∃ rest, (p.neighbours m).Perm (p.kNearest m ++ rest) ∧
      (p.kNearest m).length = min p.cfg.k (p.neighbours m).length ∧
      ∀ a ∈ p.kNearest m, ∀ b ∈ rest, nbLe a b = true := by
  refine ⟨(sortNb (p.neighbours m)).drop p.cfg.k, ?_, ?_, ?_⟩
  · unfold kNearest
    rw [List.take_append_drop]
    exact (sortNb_perm _).symm
  · unfold kNearest
    rw [List.length_take, (sortNb_perm _).length_eq]
  · have hs := sortNb_sorted (p.neighbours m)
    unfold Sorted at hs
    rw [← List.take_append_drop p.cfg.k (sortNb (p.neighbours m)), List.pairwise_append] at hs
    exact hs.2.2

/-! ### `growCap`, `colMin`, `colMax` -/

theorem growCap_ge_cap (cap n fuel : Nat) : cap ≤ growCap cap n fuel := by
  induction fuel generalizing cap with
  | zero => simp [growCap]
  | succ f ih =>
    simp only [growCap]
    split
    · exact le_refl _
    · exact le_trans (by omega) (ih (2 * cap))

theorem growCap_of_le (cap n fuel : Nat) (h : n ≤ cap) : growCap cap n fuel = cap := by
  cases fuel <;> simp [growCap, h]

theorem growCap_pow (cap n fuel : Nat) : ∃ j, growCap cap n fuel = cap * 2 ^ j := by
  induction fuel generalizing cap with
  | zero => exact ⟨0, by simp [growCap]⟩
  | succ f ih =>
    simp only [growCap]
    split
    · exact ⟨0, by simp⟩
    · obtain ⟨j, hj⟩ := ih (2 * cap)
      exact ⟨j + 1, by rw [hj, Nat.pow_succ]; ring⟩

theorem growCap_ge_aux (cap n fuel : Nat) (h : n ≤ cap * 2 ^ fuel) : n ≤ growCap cap n fuel := by
  induction fuel generalizing cap with
  | zero => simpa [growCap] using h
  | succ f ih =>
    simp only [growCap]
    split
    · assumption
    · apply ih; rw [Nat.pow_succ] at h; calc n ≤ cap * (2 ^ f * 2) := h
        _ = 2 * cap * 2 ^ f := by ring

theorem le_two_pow (n : Nat) : n ≤ 2 ^ n := Nat.le_of_lt Nat.lt_two_pow_self

theorem le_mul_two_pow (cap n fuel : Nat) (hc : 0 < cap) (hf : n ≤ fuel) : n ≤ cap * 2 ^ fuel :=
  calc n ≤ fuel := hf
    _ ≤ 2 ^ fuel := le_two_pow fuel
    _ = 1 * 2 ^ fuel := by ring
    _ ≤ cap * 2 ^ fuel := Nat.mul_le_mul_right _ hc

theorem growCap_ge (cap n fuel : Nat) (hc : 0 < cap) (hf : n ≤ fuel) : n ≤ growCap cap n fuel :=
  growCap_ge_aux cap n fuel (le_mul_two_pow cap n fuel hc hf)

theorem growCap_lt_aux (cap n fuel : Nat) (hc : 0 < cap) (hlt : cap < n) (h : n ≤ cap * 2 ^ fuel) :
    growCap cap n fuel < 2 * n := by
  induction fuel generalizing cap with
  | zero => simp at h; omega
  | succ f ih =>
    simp only [growCap]
    rw [if_neg (by omega)]
    by_cases h2 : n ≤ 2 * cap
    · rw [growCap_of_le _ _ _ h2]; omega
    · apply ih (2 * cap) (by omega) (by omega)
      rw [Nat.pow_succ] at h
      calc n ≤ cap * (2 ^ f * 2) := h
        _ = 2 * cap * 2 ^ f := by ring

theorem growCap_lt (cap n fuel : Nat) (hc : 0 < cap) (hlt : cap < n) (hf : n ≤ fuel) :
    growCap cap n fuel < 2 * n :=
  growCap_lt_aux cap n fuel hc hlt (le_mul_two_pow cap n fuel hc hf)

/-! colMin / colMax -/
theorem colMin_cons (x : Rat) (xs : List Rat) : colMin (x :: xs) = some (xs.foldl min x) := by
  unfold colMin
  simp only [List.foldl_cons]
  generalize x = a
  induction xs generalizing a with
  | nil => rfl
  | cons y ys ih => simp only [List.foldl_cons]; exact ih (min a y)

theorem colMax_cons (x : Rat) (xs : List Rat) : colMax (x :: xs) = some (xs.foldl max x) := by
  unfold colMax
  simp only [List.foldl_cons]
  generalize x = a
  induction xs generalizing a with
  | nil => rfl
  | cons y ys ih => simp only [List.foldl_cons]; exact ih (max a y)

theorem foldl_min_spec (a : Rat) (xs : List Rat) :
    (xs.foldl min a ≤ a ∧ ∀ x ∈ xs, xs.foldl min a ≤ x) ∧ (xs.foldl min a = a ∨ xs.foldl min a ∈ xs) := by
  induction xs generalizing a with
  | nil => simp
  | cons y ys ih =>
    simp only [List.foldl_cons, List.mem_cons]
    obtain ⟨⟨h1, h2⟩, h3⟩ := ih (min a y)
    refine ⟨⟨le_trans h1 (min_le_left _ _), ?_⟩, ?_⟩
    · rintro x (rfl | hx)
      · exact le_trans h1 (min_le_right _ _)
      · exact h2 x hx
    · rcases h3 with h3 | h3
      · rcases min_choice a y with h | h
        · exact Or.inl (h3.trans h)
        · exact Or.inr (Or.inl (h3.trans h))
      · exact Or.inr (Or.inr h3)

theorem foldl_max_spec (a : Rat) (xs : List Rat) :
    (a ≤ xs.foldl max a ∧ ∀ x ∈ xs, x ≤ xs.foldl max a) ∧ (xs.foldl max a = a ∨ xs.foldl max a ∈ xs) := by
  induction xs generalizing a with
  | nil => simp
  | cons y ys ih =>
    simp only [List.foldl_cons, List.mem_cons]
    obtain ⟨⟨h1, h2⟩, h3⟩ := ih (max a y)
    refine ⟨⟨le_trans (le_max_left _ _) h1, ?_⟩, ?_⟩
    · rintro x (rfl | hx)
      · exact le_trans (le_max_right _ _) h1
      · exact h2 x hx
    · rcases h3 with h3 | h3
      · rcases max_choice a y with h | h
        · exact Or.inl (h3.trans h)
        · exact Or.inr (Or.inl (h3.trans h))
      · exact Or.inr (Or.inr h3)

theorem colMin_spec (xs : List Rat) (hne : xs ≠ []) :
    ∃ m, colMin xs = some m ∧ m ∈ xs ∧ ∀ x ∈ xs, m ≤ x := by
  cases xs with
  | nil => exact absurd rfl hne
  | cons a as =>
    obtain ⟨⟨h1, h2⟩, h3⟩ := foldl_min_spec a as
    refine ⟨_, colMin_cons a as, ?_, ?_⟩
    · rcases h3 with h | h
      · rw [h]; exact List.mem_cons_self
      · exact List.mem_cons_of_mem _ h
    · intro x hx; rcases List.mem_cons.mp hx with rfl | hx
      · exact h1
      · exact h2 x hx

theorem colMax_spec (xs : List Rat) (hne : xs ≠ []) :
    ∃ m, colMax xs = some m ∧ m ∈ xs ∧ ∀ x ∈ xs, x ≤ m := by
  cases xs with
  | nil => exact absurd rfl hne
  | cons a as =>
    obtain ⟨⟨h1, h2⟩, h3⟩ := foldl_max_spec a as
    refine ⟨_, colMax_cons a as, ?_, ?_⟩
    · rcases h3 with h | h
      · rw [h]; exact List.mem_cons_self
      · exact List.mem_cons_of_mem _ h
    · intro x hx; rcases List.mem_cons.mp hx with rfl | hx
      · exact h1
      · exact h2 x hx

/-! ### `assign` -/

/-- spec-shaped form of the rows `assign` produces, as a function of the admission flags -/
def mkRows (lc : Bool) : List Hinted → List Bool → Nat → List (Nat × Cand)
  | h :: hs, true :: fs, next => (next, h.c) :: mkRows lc hs fs (next + 1)
  | h :: hs, false :: fs, next =>
    if lc then
      match h.near with
      | some j => (j, h.c) :: mkRows lc hs fs next
      | none => mkRows lc hs fs next
    else mkRows lc hs fs next
  | _, _, _ => []

/-- what `assign` checked for one candidate with flag `b` -/
def Checked (p : Prox) (h : Hinted) (b : Bool) : Prop :=
  p.admitDec h = .ok b ∧
    (b = false → p.cfg.lc = true → ∃ j, h.near = some j ∧ j ∈ p.nearestSet h.c.meas)

theorem assign_spec (p : Prox) (hs : List Hinted) (next : Nat) (rows : List (Nat × Cand))
    (flags : List Bool) (h : p.assign hs next = .ok (rows, flags)) :
    flags.length = hs.length ∧ rows = mkRows p.cfg.lc hs flags next ∧
      ∀ x ∈ hs.zip flags, Checked p x.1 x.2 := by
  induction hs generalizing next rows flags with
  | nil =>
    simp only [assign, Except.ok.injEq, Prod.mk.injEq] at h
    obtain ⟨rfl, rfl⟩ := h
    simp [mkRows]
  | cons h0 hs ih =>
    simp only [assign, bind, Except.bind] at h
    cases hd : p.admitDec h0 with
    | error e => rw [hd] at h; simp at h
    | ok nov =>
      rw [hd] at h
      simp only at h
      cases nov with
      | true =>
        simp only [if_true] at h
        cases hr : p.assign hs (next + 1) with
        | error e => rw [hr] at h; simp at h
        | ok rf =>
          obtain ⟨rows', flags'⟩ := rf
          rw [hr] at h
          simp only [pure, Except.pure, Except.ok.injEq, Prod.mk.injEq] at h
          obtain ⟨rfl, rfl⟩ := h
          obtain ⟨h1, h2, h3⟩ := ih _ _ _ hr
          refine ⟨by simp [h1], by simp [mkRows, h2], ?_⟩
          intro x hx
          simp only [List.zip_cons_cons, List.mem_cons] at hx
          rcases hx with rfl | hx
          · exact ⟨hd, by simp⟩
          · exact h3 x hx
      | false =>
        simp only [Bool.false_eq_true, if_false] at h
        by_cases hlc : p.cfg.lc = true
        · simp only [hlc, if_true] at h
          cases hn : h0.near with
          | none => rw [hn] at h; simp at h
          | some j =>
            rw [hn] at h
            simp only at h
            by_cases hj : (p.nearestSet h0.c.meas).contains j = true
            · rw [if_pos hj] at h
              cases hr : p.assign hs next with
              | error e => rw [hr] at h; simp at h
              | ok rf =>
                obtain ⟨rows', flags'⟩ := rf
                rw [hr] at h
                simp only [pure, Except.pure, Except.ok.injEq, Prod.mk.injEq] at h
                obtain ⟨rfl, rfl⟩ := h
                obtain ⟨h1, h2, h3⟩ := ih _ _ _ hr
                refine ⟨by simp [h1], by simp [mkRows, h2, hlc, hn], ?_⟩
                intro x hx
                simp only [List.zip_cons_cons, List.mem_cons] at hx
                rcases hx with rfl | hx
                · exact ⟨hd, fun _ _ => ⟨j, hn, by simpa using hj⟩⟩
                · exact h3 x hx
            · rw [if_neg hj] at h; simp at h
        · simp only [hlc] at h
          cases hr : p.assign hs next with
          | error e => rw [hr] at h; simp at h
          | ok rf =>
            obtain ⟨rows', flags'⟩ := rf
            rw [hr] at h
            simp only [pure, Except.pure] at h
            obtain ⟨rfl, rfl⟩ := h
            obtain ⟨h1, h2, h3⟩ := ih _ _ _ hr
            refine ⟨by simp [h1], by simp [mkRows, h2, hlc], ?_⟩
            intro x hx
            simp only [List.zip_cons_cons, List.mem_cons] at hx
            rcases hx with rfl | hx
            · exact ⟨hd, fun _ h' => absurd h' hlc⟩
            · exact h3 x hx

/-- the candidates flagged novel, in batch order -/
def novels (hs : List Hinted) (fs : List Bool) : List Cand :=
  ((hs.zip fs).filter (fun x => x.2)).map (fun x => x.1.c)

/-- the non-novel candidates whose row targets the stored entry `t` (local competition only) -/
def competitors (lc : Bool) (hs : List Hinted) (fs : List Bool) (t : Nat) : List Cand :=
  if lc then ((hs.zip fs).filter (fun x => !x.2 && x.1.near == some t)).map (fun x => x.1.c) else []

/-- every non-novel candidate's target is below `B` -/
def TB (lc : Bool) (hs : List Hinted) (fs : List Bool) (B : Nat) : Prop :=
  lc = true → ∀ x ∈ hs.zip fs, x.2 = false → ∀ j, x.1.near = some j → j < B

theorem rowsTo_cons (r : Nat × Cand) (rows : List (Nat × Cand)) (i : Nat) :
    rowsTo (r :: rows) i = if r.1 = i then r.2 :: rowsTo rows i else rowsTo rows i := by
  unfold rowsTo
  by_cases h : r.1 = i <;> simp [h]

theorem novels_length (hs : List Hinted) (fs : List Bool) (h : fs.length = hs.length) :
    (novels hs fs).length = (fs.filter id).length := by
  induction hs generalizing fs with
  | nil => cases fs <;> simp_all [novels]
  | cons h0 hs ih =>
    cases fs with
    | nil => simp at h
    | cons f fs =>
      have := ih fs (by simpa using h)
      unfold novels at this ⊢
      cases f <;> simp_all

theorem TB_tail {lc : Bool} {h0 : Hinted} {hs : List Hinted} {f : Bool} {fs : List Bool} {B : Nat}
    (h : TB lc (h0 :: hs) (f :: fs) B) : TB lc hs fs B := by
  intro hl x hx
  exact h hl x (by simp [hx])

theorem rowsTo_mkRows_lt (lc : Bool) (hs : List Hinted) (fs : List Bool) (next i : Nat)
    (hi : i < next) : rowsTo (mkRows lc hs fs next) i = competitors lc hs fs i := by
  induction hs generalizing fs next with
  | nil => cases lc <;> simp [mkRows, rowsTo, competitors]
  | cons h0 hs ih =>
    cases fs with
    | nil => cases lc <;> simp [mkRows, rowsTo, competitors]
    | cons f fs =>
      cases f with
      | true =>
        simp only [mkRows]
        rw [rowsTo_cons, if_neg (by simp; omega), ih fs (next + 1) (by omega)]
        cases lc <;> simp [competitors]
      | false =>
        simp only [mkRows]
        cases lc with
        | false => simp only [Bool.false_eq_true, if_false]; rw [ih fs next hi]; simp [competitors]
        | true =>
          simp only [if_true]
          cases hn : h0.near with
          | none =>
            simp only
            rw [ih fs next hi]
            simp [competitors, hn]
          | some j =>
            simp only
            rw [rowsTo_cons, ih fs next hi]
            by_cases hj : j = i
            · subst hj; simp [competitors, hn]
            · simp [competitors, hn, hj]

theorem rowsTo_mkRows_ge (lc : Bool) (hs : List Hinted) (fs : List Bool) (B next i : Nat)
    (htb : TB lc hs fs B) (hB : B ≤ next) (hi : B ≤ i) :
    rowsTo (mkRows lc hs fs next) i =
      if i < next then [] else ((novels hs fs)[i - next]?).toList := by
  induction hs generalizing fs next with
  | nil => simp [mkRows, rowsTo, novels]
  | cons h0 hs ih =>
    cases fs with
    | nil => simp [mkRows, rowsTo, novels]
    | cons f fs =>
      have ih' := fun next hB => ih fs next (TB_tail htb) hB
      cases f with
      | true =>
        simp only [mkRows]
        rw [rowsTo_cons, ih' (next + 1) (by omega)]
        have hnov : novels (h0 :: hs) (true :: fs) = h0.c :: novels hs fs := by simp [novels]
        rw [hnov]
        by_cases h1 : i < next
        · have : ¬ next = i := by omega
          simp [h1, this]; omega
        · by_cases h2 : next = i
          · subst h2; simp
          · have h3 : ¬ i < next + 1 := by omega
            have h4 : i - next = (i - (next + 1)) + 1 := by omega
            simp only [h1, h2, h3, if_false]
            rw [h4, List.getElem?_cons_succ]
      | false =>
        have hnov : novels (h0 :: hs) (false :: fs) = novels hs fs := by simp [novels]
        rw [hnov]
        simp only [mkRows]
        cases lc with
        | false => simp only [Bool.false_eq_true, if_false]; exact ih' next hB
        | true =>
          simp only [if_true]
          cases hn : h0.near with
          | none => simp only; exact ih' next hB
          | some j =>
            simp only
            have hj : j < B := htb rfl (h0, false) (by simp) rfl j hn
            rw [rowsTo_cons, if_neg (by simp; omega)]
            exact ih' next hB

theorem mem_mkRows (lc : Bool) (hs : List Hinted) (fs : List Bool) (B next i : Nat) (c : Cand)
    (htb : TB lc hs fs B) (hB : B ≤ next) (hfl : fs.length = hs.length)
    (h : (i, c) ∈ mkRows lc hs fs next) : i < next + (fs.filter id).length := by
  have hm : c ∈ rowsTo (mkRows lc hs fs next) i := mem_rowsTo.mpr h
  by_cases hi : i < next
  · omega
  · rw [rowsTo_mkRows_ge lc hs fs B next i htb hB (by omega), if_neg hi] at hm
    cases hg : (novels hs fs)[i - next]? with
    | none => rw [hg] at hm; simp at hm
    | some c' =>
      have := (List.getElem?_eq_some_iff.mp hg).1
      rw [novels_length hs fs hfl] at this
      omega

end Pyribs.C14
