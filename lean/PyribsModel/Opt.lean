import PyribsModel.Util
/-!
# Opt — model of the optimizers in `ribs/emitters/opt/`

Everything is computed over exact rationals.  `log`, `sqrt` and `exp` never
occur in the model: wherever the Python code calls them, the model takes the
*value* as a supplied parameter (`…Sup` structures) and reports the argument it
was needed for (`Diag.sqrtArgs`, `Diag.expArg`), together with a check that the
supplied value brackets the true one (`sqrtOk`, `logsOk`, `expOk`).

Vectors are functions `Fin n → Rat` and matrices `Fin n → Fin n → Rat` (so that
they *are* Mathlib's `Matrix (Fin n) (Fin n) ℚ` in the proof files); batches of
rows are lists.

Code shape (what mirrors what):
* `weights`                 ↔ first three lines of `_calc_strat_params` (all three files);
* `ranked`, `selectParents` ↔ `self._solutions[ranking_indices][:num_parents]`;
* `recombine`               ↔ `np.sum(parents * weights[:, None], axis=0)`;
* `cmaParams`, `sepParams`  ↔ `_calc_strat_params` of `_cma_es.py`, `_sep_cma_es.py`;
* `psUpdate`, `hsigLeft/Right`, `pcUpdate`, `c1aOf`, `rankMu`, `cmaCovUpdate`,
  `sepCovUpdate`, `sigmaArg`, `cmaCore`/`cmaTell`, `sepCore`/`sepTell`
                            ↔ `tell` / `_calc_cov_update` of the two files;
* `lmTransform`, `lmCore`/`lmTell` ↔ `_lm_ma_es.py`;
* `assignRanks`, `normRank`, `openaiGrad`, `openaiGradMirror`, `openaiTell`
                            ↔ `OpenAIEvolutionStrategy.tell`;
* `adamStep`, `ascentStep`  ↔ `AdamOpt.step`, `GradientAscentOpt.step`;
* `roundStep`, `resample`, `askRows`, `mirror`
                            ↔ the `while len(remaining_indices) > 0` loop of every `ask`;
* `cmaReset`, `sepReset`, `lmReset`, `adamReset` ↔ `reset`.

The model describes the behaviour the property demands.  In particular the
resampling loop keeps, for every row, the draw that produced the row
(`Rows.draw`); the unrepaired `OpenAIEvolutionStrategy.ask` overwrites
`self.noise` with the draws of the *last* round only (defect D14).

Where the property is silent the model follows the code as written: the `pc`
update uses `y = mean' − mean` without the `1/σ` of Hansen's purecma, the
rank-one term of `_calc_cov_update` carries `c1` twice, `OpenAIEvolutionStrategy.tell`
does not read `num_parents`, and LM-MA-ES with `batch_size = solution_dim` has
`csigma = 2` (its path stays zero).  None of these affects the clauses proved
in `PyribsProofs/C18.lean` (positive semi-definiteness holds for every
non-negative rank-one coefficient).
-/
namespace Pyribs.Opt

inductive Err
  | index      -- IndexError (ranking index out of range)
  | value      -- ValueError (shape mismatch: more parents than ranked rows, wrong number of rows)
  | badLog     -- supplied log values are not strictly increasing / wrong count
  | badSigma   -- step size not positive
  | divZero    -- a division by zero in the Python code (solution_dim = 0, 1 − β₁ᵗ = 0, …)
  | notPerm    -- ranking indices are not a permutation of range(batch_size)
  | exhausted  -- the resampling loop did not terminate on the supplied stream
  | shape      -- a round of the stream has the wrong number of draws
  | fracPow    -- 2·current_eval/batch_size is not an integer (outside the modelled fragment)
  deriving DecidableEq, Repr

def Err.name : Err → String
  | .index => "index" | .value => "value" | .badLog => "badLog" | .badSigma => "badSigma"
  | .divZero => "divZero" | .notPerm => "notPerm" | .exhausted => "exhausted"
  | .shape => "shape" | .fracPow => "fracPow"

abbrev Vec (n : Nat) := Fin n → Rat
abbrev Mat (n : Nat) := Fin n → Fin n → Rat

/-! ## small numeric helpers -/

/-- Σ over the coordinates -/
def fsum {n : Nat} (f : Fin n → Rat) : Rat := ((List.finRange n).map f).sum

def dot {n : Nat} (a b : Vec n) : Rat := fsum fun i => a i * b i

def matVec {n : Nat} (M : Mat n) (v : Vec n) : Vec n := fun i => fsum fun j => M i j * v j

/-- read a materialised vector -/
def vget {n : Nat} (a : Vector Rat n) : Vec n := fun i => a[i.val]'(i.isLt)

/-- `vget (Vector.ofFn v)` evaluates `v` once (the closure is replaced by a table); it is `v` -/
theorem vget_ofFn {n : Nat} (v : Vec n) : vget (Vector.ofFn v) = v := by
  funext i; simp [vget]

/-- natural power by repeated multiplication -/
def rpow (x : Rat) : Nat → Rat
  | 0 => 1
  | k + 1 => rpow x k * x

def rmin (a b : Rat) : Rat := if a ≤ b then a else b
def rmax (a b : Rat) : Rat := if a ≤ b then b else a

def vecOfList (n : Nat) (l : List Rat) : Option (Vec n) :=
  if h : l.length = n then some (fun i => l[i.val]'(by omega)) else none

def vecToList {n : Nat} (v : Vec n) : List Rat := (List.finRange n).map v

def identMat (n : Nat) : Mat n := fun i j => if i = j then 1 else 0

/-- Σₖ wₖ·xₖ[j] over a list of rows -/
def wsum {n : Nat} (ws : List Rat) (xs : List (Vec n)) : Vec n :=
  fun j => (List.zipWith (fun w x => w * x j) ws xs).sum

/-! ## supplied values and their brackets -/

/-- relative width of the bracket a supplied square root must satisfy: 2⁻⁴⁴ -/
def tolSup : Rat := 1 / 17592186044416

/-- `s` is an admissible value for `√a` : `s ≥ 0` and `|s² − a| ≤ 2⁻⁴⁴·a` -/
def sqrtOk (a s : Rat) : Bool :=
  decide (0 ≤ s) && decide (-(a * tolSup) ≤ s * s - a) && decide (s * s - a ≤ a * tolSup)

/-- `e` is an admissible value for `exp x` : positive and not below `1 + x` (up to 2⁻⁴⁰) -/
def expOk (x e : Rat) : Bool :=
  decide (0 < e) && decide (1 + x ≤ e * (1 + 1 / 1099511627776))

def increasing : List Rat → Bool
  | [] => true
  | [_] => true
  | a :: b :: t => decide (a < b) && increasing (b :: t)

/-- supplied logs `ls = [log 1, …, log μ]`, `lh = log(μ+½)` : right count, strictly
increasing, all below `lh` (this is all the theorems need from `log`) -/
def logsOk (lh : Rat) (ls : List Rat) (mu : Nat) : Bool :=
  ls.length == mu && increasing ls && ls.all (fun l => decide (l < lh))

/-! ## recombination weights -/

section Weights
variable {α : Type} [Sub α] [Add α] [Zero α] [Div α]

/-- `np.log(num_parents + 0.5) − np.log(np.arange(1, num_parents + 1))` from supplied logs -/
def rawWeights (lh : α) (ls : List α) : List α := ls.map fun l => lh - l

/-- `weights / np.sum(weights)` -/
def weights (lh : α) (ls : List α) : List α :=
  (rawWeights lh ls).map fun r => r / (rawWeights lh ls).sum

end Weights

/-- `np.sum(weights)**2 / np.sum(weights**2)` -/
def mueffOf (w : List Rat) : Rat := (w.sum * w.sum) / (w.map fun x => x * x).sum

/-! ## parent selection and recombination -/

/-- `rows[ranking_indices]` (IndexError when an index is out of range) -/
def ranked {α : Type} (rows : List α) : List Nat → Except Err (List α)
  | [] => .ok []
  | i :: t =>
    match rows[i]?, ranked rows t with
    | some r, .ok rs => .ok (r :: rs)
    | none, _ => .error .index
    | _, .error e => .error e

/-- `rows[ranking_indices][:num_parents]` -/
def selectParents {α : Type} (rows : List α) (perm : List Nat) (mu : Nat) : Except Err (List α) :=
  match ranked rows perm with
  | .error e => .error e
  | .ok rs => if rs.length < mu then .error .value else .ok (rs.take mu)

/-- new mean: `np.sum(parents * weights[:, None], axis=0)` -/
def recombine {n : Nat} (ws : List Rat) (parents : List (Vec n)) : Vec n := wsum ws parents

/-! ## diagnostics returned beside every update -/

structure Diag where
  /-- arguments whose square roots must be supplied (in the order of the `…Sup` fields) -/
  sqrtArgs : List Rat := []
  /-- argument of the `exp` in the step-size update -/
  expArg : Rat := 0
  /-- `left − right` of the `hsig` test (distance to the discontinuity) -/
  hsigMargin : Rat := 1
  /-- `1 − c1a − cμ·Σw`, the coefficient of the old covariance -/
  decay : Rat := 1
  /-- the other covariance coefficients (`cμ`, `c1`) -/
  cmu : Rat := 0
  c1 : Rat := 0
  /-- all supplied values pass their bracket checks -/
  supOk : Bool := true

/-! ## CMA-ES (`_cma_es.py`) -/

structure StratParams where
  w : List Rat
  mueff : Rat
  cc : Rat
  cs : Rat
  c1 : Rat
  cmu : Rat

/-- `CMAEvolutionStrategy._calc_strat_params` after the weights -/
def cmaParams (n : Nat) (w : List Rat) : StratParams :=
  let N : Rat := n
  let mueff := mueffOf w
  let cc := (4 + mueff / N) / (N + 4 + 2 * mueff / N)
  let cs := (mueff + 2) / (N + mueff + 5)
  let c1 := 2 / ((N + 13 / 10) * (N + 13 / 10) + mueff)
  let cmu := rmin (1 - c1) (2 * (mueff - 2 + 1 / mueff) / ((N + 2) * (N + 2) + mueff))
  ⟨w, mueff, cc, cs, c1, cmu⟩

/-- `damps = 1 + 2·max(0, √((mueff−1)/(n+1)) − 1) + cs` with the root supplied -/
def dampsOf (cs sDamp : Rat) : Rat := 1 + 2 * rmax 0 (sDamp - 1) + cs

/-- `ps = (1−cs)·ps + (√(cs(2−cs)mueff)/σ)·z` with the root supplied -/
def psUpdate {n : Nat} (cs sPs sigma : Rat) (ps z : Vec n) : Vec n :=
  fun j => (1 - cs) * ps j + (sPs / sigma) * z j

/-- `left = Σps²/n/(1 − (1−cs)^(2·current_eval/batch_size))`, `k` = the exponent -/
def hsigLeft {n : Nat} (cs : Rat) (ps : Vec n) (k : Nat) : Rat :=
  dot ps ps / (n : Rat) / (1 - rpow (1 - cs) k)

/-- `right = 2 + 4/(n+1)` -/
def hsigRight (n : Nat) : Rat := 2 + 4 / ((n : Rat) + 1)

def hsigOf (left right : Rat) : Rat := if left < right then 1 else 0

/-- `pc = (1−cc)·pc + hsig·√(cc(2−cc)mueff)·y` with the root supplied -/
def pcUpdate {n : Nat} (cc sPc hsig : Rat) (pc y : Vec n) : Vec n :=
  fun j => (1 - cc) * pc j + hsig * sPc * y j

/-- `c1a = c1·(1 − (1−hsig²)·cc·(2−cc))` -/
def c1aOf (c1 cc hsig : Rat) : Rat := c1 * (1 - (1 - hsig * hsig) * cc * (2 - cc))

/-- coefficient of the old covariance: `1 − c1a − cμ·np.sum(weights)` -/
def decayOf (c1a cmu : Rat) (w : List Rat) : Rat := 1 - c1a - cmu * w.sum

/-- `np.einsum("ki,kj", weighted_ys, ys)` = Σₖ wₖ·yₖ yₖᵀ -/
def rankMu {n : Nat} (w : List Rat) (ys : List (Vec n)) : Mat n :=
  fun i j => (List.zipWith (fun wk y => wk * y i * y j) w ys).sum

/-- `CMAEvolutionStrategy._calc_cov_update` (the rank-one term carries `c1` twice, as in the code) -/
def cmaCovUpdate {n : Nat} (C : Mat n) (c1a cmu c1 : Rat) (pc : Vec n) (sigma : Rat)
    (rm : Mat n) (w : List Rat) : Mat n :=
  fun i j => C i j * decayOf c1a cmu w + (c1 * (pc i * pc j)) * c1 + rm i j * cmu / (sigma * sigma)

/-- argument of the exponential in the step-size update: `min(1, cn·(Σps²/n − 1)/2)` -/
def sigmaArg {n : Nat} (cn : Rat) (ps : Vec n) : Rat :=
  rmin 1 (cn * (dot ps ps / (n : Rat) - 1) / 2)

structure CmaState (n : Nat) where
  evals : Nat        -- current_eval
  mean : Vec n
  sigma : Rat
  pc : Vec n
  ps : Vec n
  cov : Mat n

structure CmaSup (n : Nat) where
  lh : Rat           -- log(μ+½)
  ls : List Rat      -- log 1 … log μ
  sDamp : Rat        -- √((mueff−1)/(n+1))
  sPs : Rat          -- √(cs(2−cs)mueff)
  sPc : Rat          -- √(cc(2−cc)mueff)
  invsqrt : Mat n    -- C^(-1/2), taken from the implementation's public state
  expV : Rat         -- exp(sigmaArg)

def cmaReset {n : Nat} (sigma0 : Rat) (x0 : Vec n) : CmaState n :=
  ⟨0, x0, sigma0, fun _ => 0, fun _ => 0, identMat n⟩

/-- body of `CMAEvolutionStrategy.tell` for `num_parents > 0`; `k = 2·current_eval/batch_size` -/
def cmaCore (n k evals : Nat) (st : CmaState n) (parents : List (Vec n)) (sup : CmaSup n) :
    CmaState n × Diag :=
  let w := weights sup.lh sup.ls
  let p := cmaParams n w
  let dmp := dampsOf p.cs sup.sDamp
  let mean' := recombine w parents
  let y : Vec n := fun j => mean' j - st.mean j
  let z := matVec sup.invsqrt y
  let ps' := psUpdate p.cs sup.sPs st.sigma st.ps z
  let left := hsigLeft p.cs ps' k
  let hs := hsigOf left (hsigRight n)
  let pc' := pcUpdate p.cc sup.sPc hs st.pc y
  let ys : List (Vec n) := parents.map fun x => fun j => x j - st.mean j
  let c1a := c1aOf p.c1 p.cc hs
  let cov' := cmaCovUpdate st.cov c1a p.cmu p.c1 pc' st.sigma (rankMu w ys) w
  let x := sigmaArg (p.cs / dmp) ps'
  let args := [(p.mueff - 1) / ((n : Rat) + 1), p.cs * (2 - p.cs) * p.mueff,
               p.cc * (2 - p.cc) * p.mueff]
  (⟨evals, mean', st.sigma * sup.expV, pc', ps', cov'⟩,
   { sqrtArgs := args, expArg := x, hsigMargin := left - hsigRight n,
     decay := decayOf c1a p.cmu w, cmu := p.cmu, c1 := p.c1,
     supOk := sqrtOk ((p.mueff - 1) / ((n : Rat) + 1)) sup.sDamp
              && sqrtOk (p.cs * (2 - p.cs) * p.mueff) sup.sPs
              && sqrtOk (p.cc * (2 - p.cc) * p.mueff) sup.sPc && expOk x sup.expV })

/-- `CMAEvolutionStrategy.tell(ranking_indices, _, num_parents)`; the ranking values are not an
argument: the update never reads them -/
def cmaTell (n batch : Nat) (st : CmaState n) (sols : List (Vec n)) (perm : List Nat) (mu : Nat)
    (sup : CmaSup n) : Except Err (CmaState n × Diag) :=
  match ranked sols perm with
  | .error e => .error e
  | .ok rows =>
    let evals := st.evals + perm.length
    if mu = 0 then .ok ({ st with evals := evals }, {})
    else if rows.length < mu then .error .value
    else if n = 0 ∨ batch = 0 then .error .divZero
    else if (2 * evals) % batch ≠ 0 then .error .fracPow
    else if 2 * evals / batch = 0 then .error .divZero
    else if st.sigma ≤ 0 then .error .badSigma
    else if !logsOk sup.lh sup.ls mu then .error .badLog
    else .ok (cmaCore n (2 * evals / batch) evals st (rows.take mu) sup)

/-- `mean + transform_mat @ u` (`u` = the N(0,σ) draw, i.e. σ·z) -/
def cmaTransform {n : Nat} (mean : Vec n) (T : Mat n) (u : Vec n) : Vec n :=
  fun i => fsum (fun j => T i j * u j) + mean i

/-! ## sep-CMA-ES (`_sep_cma_es.py`) -/

/-- `SeparableCMAEvolutionStrategy._calc_strat_params`; `sN` = supplied `√solution_dim`.
Returns `(weights, mueff, cc_sep, cs, c1_sep, cmu_sep)`. -/
def sepParams (n : Nat) (w : List Rat) (sN : Rat) : StratParams :=
  let N : Rat := n
  let mueff := mueffOf w
  let ccSep := (1 + 1 / N + mueff / N) / (sN + 1 / N + 2 * mueff / N)
  let cs := (mueff + 2) / (N + mueff + 5)
  let c1 := 2 / ((N + 13 / 10) * (N + 13 / 10) + mueff)
  let conedf := 1 / (N + 2 * sN + mueff / N)
  let c1Sep := c1 * conedf
  let cmudf := (0 + mueff + 1 / mueff - 2) / (N + 4 * sN + mueff / 2)
  let cmuSep := rmin (1 - c1Sep) cmudf
  ⟨w, mueff, ccSep, cs, c1Sep, cmuSep⟩

/-- diagonal `_calc_cov_update` -/
def sepCovUpdate {n : Nat} (C : Vec n) (c1a cmu c1 : Rat) (pc : Vec n) (sigma : Rat)
    (rm : Vec n) (w : List Rat) : Vec n :=
  fun j => C j * decayOf c1a cmu w + (c1 * (pc j * pc j)) * c1 + rm j * cmu / (sigma * sigma)

/-- `np.sum(weighted_ys * ys, axis=0)` -/
def sepRankMu {n : Nat} (w : List Rat) (ys : List (Vec n)) : Vec n :=
  fun j => (List.zipWith (fun wk y => wk * y j * y j) w ys).sum

structure SepState (n : Nat) where
  evals : Nat
  mean : Vec n
  sigma : Rat
  pc : Vec n
  ps : Vec n
  cov : Vec n        -- the diagonal

structure SepSup (n : Nat) where
  lh : Rat
  ls : List Rat
  sN : Rat           -- √n
  sDamp : Rat
  sPs : Rat
  sPc : Rat
  sCov : Vec n       -- √cov (for invsqrt = 1/√cov)
  expV : Rat

def sepReset {n : Nat} (sigma0 : Rat) (x0 : Vec n) : SepState n :=
  ⟨0, x0, sigma0, fun _ => 0, fun _ => 0, fun _ => 1⟩

def sepCore (n k evals : Nat) (st : SepState n) (parents : List (Vec n)) (sup : SepSup n) :
    SepState n × Diag :=
  let w := weights sup.lh sup.ls
  let p := sepParams n w sup.sN
  let dmp := dampsOf p.cs sup.sDamp
  let mean' := recombine w parents
  let y : Vec n := fun j => mean' j - st.mean j
  let z : Vec n := fun j => 1 / sup.sCov j * y j
  let ps' := psUpdate p.cs sup.sPs st.sigma st.ps z
  let left := hsigLeft p.cs ps' k
  let hs := hsigOf left (hsigRight n)
  let pc' := pcUpdate p.cc sup.sPc hs st.pc y
  let ys : List (Vec n) := parents.map fun x => fun j => x j - st.mean j
  let c1a := c1aOf p.c1 p.cc hs
  let cov' := sepCovUpdate st.cov c1a p.cmu p.c1 pc' st.sigma (sepRankMu w ys) w
  let x := sigmaArg (p.cs / dmp) ps'
  let args := [(n : Rat), (p.mueff - 1) / ((n : Rat) + 1), p.cs * (2 - p.cs) * p.mueff,
               p.cc * (2 - p.cc) * p.mueff] ++ vecToList st.cov
  (⟨evals, mean', st.sigma * sup.expV, pc', ps', cov'⟩,
   { sqrtArgs := args, expArg := x, hsigMargin := left - hsigRight n,
     decay := decayOf c1a p.cmu w, cmu := p.cmu, c1 := p.c1,
     supOk := sqrtOk (n : Rat) sup.sN
              && sqrtOk ((p.mueff - 1) / ((n : Rat) + 1)) sup.sDamp
              && sqrtOk (p.cs * (2 - p.cs) * p.mueff) sup.sPs
              && sqrtOk (p.cc * (2 - p.cc) * p.mueff) sup.sPc
              && (List.finRange n).all (fun j => sqrtOk (st.cov j) (sup.sCov j))
              && expOk x sup.expV })

/-- `SeparableCMAEvolutionStrategy.tell` -/
def sepTell (n batch : Nat) (st : SepState n) (sols : List (Vec n)) (perm : List Nat) (mu : Nat)
    (sup : SepSup n) : Except Err (SepState n × Diag) :=
  match ranked sols perm with
  | .error e => .error e
  | .ok rows =>
    let evals := st.evals + perm.length
    if mu = 0 then .ok ({ st with evals := evals }, {})
    else if rows.length < mu then .error .value
    else if n = 0 ∨ batch = 0 then .error .divZero
    else if (2 * evals) % batch ≠ 0 then .error .fracPow
    else if 2 * evals / batch = 0 then .error .divZero
    else if st.sigma ≤ 0 then .error .badSigma
    else if (List.finRange n).any (fun j => decide (sup.sCov j = 0)) then .error .divZero
    else if !logsOk sup.lh sup.ls mu then .error .badLog
    else .ok (sepCore n (2 * evals / batch) evals st (rows.take mu) sup)

/-- `mean + transform_vec * u` -/
def sepTransform {n : Nat} (mean tvec : Vec n) (u : Vec n) : Vec n :=
  fun i => tvec i * u i + mean i

/-! ## LM-MA-ES (`_lm_ma_es.py`) -/

structure LmCfg where
  n : Nat
  batch : Nat
  nvec : Nat

/-- `csigma = 2·batch_size/solution_dim` -/
def lmCsigma (c : LmCfg) : Rat := 2 * (c.batch : Rat) / (c.n : Rat)
/-- `cd[i] = 1/(1.5^i · n)` -/
def lmCd (c : LmCfg) (i : Nat) : Rat := 1 / (rpow (3 / 2) i * (c.n : Rat))
/-- `cc[i] = batch_size/(4^i · n)` -/
def lmCc (c : LmCfg) (i : Nat) : Rat := (c.batch : Rat) / (rpow 4 i * (c.n : Rat))

structure LmState (n : Nat) where
  gens : Nat         -- current_gens
  mean : Vec n
  sigma : Rat
  ps : Vec n
  m : List (Vec n)   -- n_vectors rows

structure LmSup where
  lh : Rat
  ls : List Rat
  sPs : Rat          -- √(mueff·csigma·(2−csigma))
  sM : List Rat      -- √(mueff·cc[i]·(2−cc[i])) for every i
  expV : Rat

def lmReset (c : LmCfg) (sigma0 : Rat) (x0 : Vec c.n) : LmState c.n :=
  ⟨0, x0, sigma0, fun _ => 0, List.replicate c.nvec (fun _ => 0)⟩

/-- the loop of `_transform_and_check_sol`: `d ← (1−cd[j])·d + cd[j]·m[j]·(m[j]·d)` for the rows
`ms = m[:itrs]`, `j` counting from `j0` -/
def lmLoop (c : LmCfg) : Nat → List (Vec c.n) → Vec c.n → Vec c.n
  | _, [], d => d
  | j, mj :: rest, d =>
    let s := dot mj d
    let cd := lmCd c j
    lmLoop c (j + 1) rest (vget (Vector.ofFn fun i => (1 - cd) * d i + cd * mj i * s))

/-- `mean + σ·d(z)` with `itrs = min(current_gens, n_vectors)` -/
def lmTransform (c : LmCfg) (st : LmState c.n) (z : Vec c.n) : Vec c.n :=
  let d := lmLoop c 0 (st.m.take (min st.gens c.nvec)) z
  fun i => st.mean i + st.sigma * d i

def lmCore (c : LmCfg) (st : LmState c.n) (parents zParents : List (Vec c.n)) (sup : LmSup) :
    LmState c.n × Diag :=
  let w := weights sup.lh sup.ls
  let mueff := mueffOf w
  let cs := lmCsigma c
  let zMean := wsum w zParents
  let mean' := recombine w parents
  let ps' : Vec c.n := fun j => (1 - cs) * st.ps j + sup.sPs * zMean j
  let m' : List (Vec c.n) :=
    (st.m.zip sup.sM).zipIdx.map fun ((mi, s), i) => fun j => (1 - lmCc c i) * mi j + s * zMean j
  let x := cs / 2 * (dot ps' ps' / (c.n : Rat) - 1)
  let mArgs := (List.range st.m.length).map fun i => mueff * lmCc c i * (2 - lmCc c i)
  (⟨st.gens + 1, mean', st.sigma * sup.expV, ps', m'⟩,
   { sqrtArgs := (mueff * cs * (2 - cs)) :: mArgs, expArg := x,
     supOk := sqrtOk (mueff * cs * (2 - cs)) sup.sPs
              && (mArgs.zip sup.sM).all (fun (a, s) => sqrtOk a s)
              && expOk x sup.expV })

/-- `LMMAEvolutionStrategy.tell`; `zs` = the recorded `_solution_z` -/
def lmTell (c : LmCfg) (st : LmState c.n) (sols zs : List (Vec c.n)) (perm : List Nat) (mu : Nat)
    (sup : LmSup) : Except Err (LmState c.n × Diag) :=
  if mu = 0 then .ok (st, {})   -- zero parents change nothing: the generation counter too (it selects the direction vectors `ask` applies)
  else
    match ranked sols perm, ranked zs perm with
    | .error e, _ => .error e
    | _, .error e => .error e
    | .ok rows, .ok zrows =>
      if rows.length < mu ∨ zrows.length < mu then .error .value
      else if c.n = 0 then .error .divZero
      else if sup.sM.length ≠ st.m.length then .error .shape
      else if !logsOk sup.lh sup.ls mu then .error .badLog
      else .ok (lmCore c st (rows.take mu) (zrows.take mu) sup)

/-! ## gradient optimizers (`_adam_opt.py`, `_gradient_ascent_opt.py`) -/

/-- `GradientAscentOpt.step` : θ ← θ + lr·g -/
def ascentStep {n : Nat} (lr : Rat) (theta g : Vec n) : Vec n := fun j => theta j + lr * g j

structure AdamCfg where
  lr : Rat
  b1 : Rat
  b2 : Rat
  eps : Rat
  l2 : Rat

structure AdamState (n : Nat) where
  theta : Vec n
  m : Vec n
  v : Vec n
  t : Nat

def adamReset {n : Nat} (theta0 : Vec n) : AdamState n := ⟨theta0, fun _ => 0, fun _ => 0, 0⟩

/-- the gradient Adam works with: `−g + l2·θ` (ascent sign flip, L2 term) -/
def adamEffGrad {n : Nat} (cfg : AdamCfg) (theta g : Vec n) : Vec n :=
  fun j => -(g j) + cfg.l2 * theta j

/-- first and second moment updates -/
def adamM {n : Nat} (cfg : AdamCfg) (m gr : Vec n) : Vec n :=
  fun j => cfg.b1 * m j + (1 - cfg.b1) * gr j
def adamV {n : Nat} (cfg : AdamCfg) (v gr : Vec n) : Vec n :=
  fun j => cfg.b2 * v j + (1 - cfg.b2) * (gr j * gr j)

/-- `a = lr·√(1−β₂ᵗ)/(1−β₁ᵗ)` with the root supplied -/
def adamA (cfg : AdamCfg) (t : Nat) (sB2 : Rat) : Rat := cfg.lr * sB2 / (1 - rpow cfg.b1 t)

/-- `AdamOpt.step` with `sB2 = √(1−β₂ᵗ)` and `sV = √v` (new `v`) supplied -/
def adamStep {n : Nat} (cfg : AdamCfg) (st : AdamState n) (g : Vec n) (sB2 : Rat) (sV : Vec n) :
    AdamState n :=
  let gr := adamEffGrad cfg st.theta g
  let t := st.t + 1
  let a := adamA cfg t sB2
  let m := adamM cfg st.m gr
  let v := adamV cfg st.v gr
  ⟨fun j => st.theta j + -a * m j / (sV j + cfg.eps), m, v, t⟩

/-- arguments of the two square roots of a step: `1 − β₂ᵗ` and the new `v` -/
def adamSqrtArgs {n : Nat} (cfg : AdamCfg) (st : AdamState n) (g : Vec n) : List Rat :=
  (1 - rpow cfg.b2 (st.t + 1)) :: vecToList (adamV cfg st.v (adamEffGrad cfg st.theta g))

/-- `AdamOpt.step` with the divisions guarded -/
def adamStepChecked {n : Nat} (cfg : AdamCfg) (st : AdamState n) (g : Vec n) (sB2 : Rat)
    (sV : Vec n) : Except Err (AdamState n × Diag) :=
  if 1 - rpow cfg.b1 (st.t + 1) = 0 then .error .divZero
  else if (List.finRange n).any (fun j => decide (sV j + cfg.eps = 0)) then .error .divZero
  else
    let args := adamSqrtArgs cfg st g
    let v := adamV cfg st.v (adamEffGrad cfg st.theta g)
    .ok (adamStep cfg st g sB2 sV,
         { sqrtArgs := args,
           supOk := sqrtOk (1 - rpow cfg.b2 (st.t + 1)) sB2
                    && (List.finRange n).all (fun j => sqrtOk (v j) (sV j)) })

/-! ## OpenAI-ES (`_openai_es.py`) -/

/-- `ranks[ranking_indices[::-1]] = np.arange(batch_size)` : the writes run from the last ranking
index to the first, so the head of `perm` is written last (and gets `batch_size − 1`) -/
def assignRanks : List Nat → Nat → Option Nat
  | [], _ => none
  | p :: t, i => if i = p then some t.length else assignRanks t i

/-- spec shape of the same: rank of row `i` = `len − 1 − position of i` -/
def rankAt (perm : List Nat) (i : Nat) : Nat := perm.length - 1 - perm.idxOf i

/-- `ranks/(batch_size − 1) − 0.5` -/
def normRank (b : Nat) (r : Nat) : Rat := (r : Rat) / ((b : Rat) - 1) - 1 / 2

def isPerm (b : Nat) (perm : List Nat) : Bool :=
  perm.length == b && (List.range b).all (fun i => perm.contains i)

/-- non-mirror gradient: `np.sum(noise * ranks[:, None], axis=0) / (batch_size·σ₀)` -/
def openaiGrad {n : Nat} (b : Nat) (sigma0 : Rat) (noise : List (Vec n)) (rk : Nat → Rat) : Vec n :=
  fun j => (noise.zipIdx.map fun (x, i) => x j * rk i).sum / ((b : Rat) * sigma0)

/-- mirror gradient: `np.sum(noise[:h] * (ranks[:h] − ranks[h:])[:, None], axis=0) / (h·σ₀)` -/
def openaiGradMirror {n : Nat} (b : Nat) (sigma0 : Rat) (noise : List (Vec n)) (rk : Nat → Rat) :
    Vec n :=
  fun j => ((noise.take (b / 2)).zipIdx.map fun (x, i) => x j * (rk i - rk (i + b / 2))).sum
            / (((b / 2 : Nat) : Rat) * sigma0)

structure OpenaiCfg where
  batch : Nat
  sigma0 : Rat
  mirror : Bool
  adam : AdamCfg

/-- the gradient estimate of `OpenAIEvolutionStrategy.tell` (`num_parents` is not used by the code) -/
def openaiGradient {n : Nat} (c : OpenaiCfg) (noise : List (Vec n)) (perm : List Nat) :
    Except Err (Vec n) :=
  if c.batch < 2 ∨ c.sigma0 = 0 then .error .divZero
  else if !isPerm c.batch perm then .error .notPerm
  else if noise.length ≠ c.batch then .error .value
  else
    let rk := fun i => normRank c.batch (rankAt perm i)
    .ok (if c.mirror then openaiGradMirror c.batch c.sigma0 noise rk
         else openaiGrad c.batch c.sigma0 noise rk)

/-- `OpenAIEvolutionStrategy.tell`: gradient estimate, then one Adam step -/
def openaiTell {n : Nat} (c : OpenaiCfg) (st : AdamState n) (noise : List (Vec n)) (perm : List Nat)
    (sB2 : Rat) (sV : Vec n) : Except Err (Vec n × AdamState n × Diag) :=
  match openaiGradient c noise perm with
  | .error e => .error e
  | .ok g =>
    let g' := vget (Vector.ofFn g)
    match adamStepChecked c.adam st g' sB2 sV with
    | .error e => .error e
    | .ok (st', d) => .ok (g', st', d)

/-- `theta + σ₀·noise` -/
def openaiTransform {n : Nat} (theta : Vec n) (sigma0 : Rat) (z : Vec n) : Vec n :=
  fun i => theta i + sigma0 * z i

/-! ## the resample-until-in-bounds loop of every `ask` -/

/-- `¬(x < lower ∨ x > upper)` in every coordinate; `none` = unbounded on that side -/
def inBounds {n : Nat} (lb ub : Fin n → Option Rat) (x : Vec n) : Bool :=
  (List.finRange n).all fun i =>
    (match lb i with | none => true | some l => decide (l ≤ x i)) &&
    (match ub i with | none => true | some u => decide (x i ≤ u))

/-- rows of `_solutions` and, per row, the draw recorded for it (and where in the stream it came from) -/
structure Rows (n : Nat) where
  sol : Nat → Option (Vec n)
  draw : Nat → Option (Vec n)
  src : Nat → Option (Nat × Nat)

def Rows.empty {n : Nat} : Rows n := ⟨fun _ => none, fun _ => none, fun _ => none⟩

def Rows.set {n : Nat} (r : Rows n) (i : Nat) (x d : Vec n) (s : Nat × Nat) : Rows n :=
  ⟨fun k => if k = i then some x else r.sol k,
   fun k => if k = i then some d else r.draw k,
   fun k => if k = i then some s else r.src k⟩

/-- one pass of the loop body over the (remaining index, draw) pairs of round `r`:
`_solutions[remaining] = transform(draws)`, the draws are recorded for the same rows, and the
indices whose new row is out of bounds are returned -/
def roundStep {n : Nat} (tf : Vec n → Vec n) (inB : Vec n → Bool) (r : Nat) :
    Nat → List (Nat × Vec n) → Rows n → Rows n × List Nat
  | _, [], rows => (rows, [])
  | k, (i, d) :: t, rows =>
    let x := vget (Vector.ofFn (tf d))
    let res := roundStep tf inB r (k + 1) t (rows.set i x d (r, k))
    (res.1, if inB x then res.2 else i :: res.2)

/-- `while len(remaining_indices) > 0:` over a stream of rounds of draws -/
def resample {n : Nat} (tf : Vec n → Vec n) (inB : Vec n → Bool) :
    List (List (Vec n)) → Nat → List Nat → Rows n → Except Err (Rows n × Nat)
  | _, r, [], rows => .ok (rows, r)
  | [], _, _ :: _, _ => .error .exhausted
  | ds :: rest, r, i :: rem, rows =>
    if ds.length ≠ (i :: rem).length then .error .shape
    else
      let res := roundStep tf inB r 0 ((i :: rem).zip ds) rows
      resample tf inB rest (r + 1) res.2 res.1

/-- `ask()` : all rows `0 … b−1` start as remaining -/
def askRows {n : Nat} (tf : Vec n → Vec n) (lb ub : Fin n → Option Rat) (b : Nat)
    (stream : List (List (Vec n))) : Except Err (Rows n × Nat) :=
  resample tf (inBounds lb ub) stream 0 (List.range b) Rows.empty

/-- mirror sampling: `np.concatenate((noise_half, −noise_half))` -/
def mirror {n : Nat} (half : List (Vec n)) : List (Vec n) :=
  half ++ half.map fun z => fun i => -(z i)

/-! ## API-shaped wrappers (the Python signatures take `ranking_values`; the updates ignore them) -/

def cmaTellApi (n batch : Nat) (st : CmaState n) (sols : List (Vec n)) (perm : List Nat)
    (_rankingValues : List (List Rat)) (mu : Nat) (sup : CmaSup n) :=
  cmaTell n batch st sols perm mu sup
def sepTellApi (n batch : Nat) (st : SepState n) (sols : List (Vec n)) (perm : List Nat)
    (_rankingValues : List (List Rat)) (mu : Nat) (sup : SepSup n) :=
  sepTell n batch st sols perm mu sup
def lmTellApi (c : LmCfg) (st : LmState c.n) (sols zs : List (Vec c.n)) (perm : List Nat)
    (_rankingValues : List (List Rat)) (mu : Nat) (sup : LmSup) :=
  lmTell c st sols zs perm mu sup
def openaiTellApi {n : Nat} (c : OpenaiCfg) (st : AdamState n) (noise : List (Vec n))
    (perm : List Nat) (_rankingValues : List (List Rat)) (_numParents : Nat) (sB2 : Rat)
    (sV : Vec n) :=
  openaiTell c st noise perm sB2 sV

end Pyribs.Opt
