import numpy as np, warnings, pickle, random
from ribs.archives import GridArchive, CVTArchive, SlidingBoundariesArchive, ProximityArchive
from ribs.emitters import *
from ribs.schedulers import Scheduler
warnings.simplefilter("ignore")
def mk(kind):
    if kind=="sba": return SlidingBoundariesArchive(solution_dim=4,dims=[4,4],ranges=[(-2,2),(-2,2)],remap_frequency=7,buffer_capacity=20,seed=3)
    if kind=="prox": return ProximityArchive(solution_dim=4,measure_dim=2,k_neighbors=3,novelty_threshold=0.2,seed=3)
    if kind=="proxlc": return ProximityArchive(solution_dim=4,measure_dim=2,k_neighbors=3,novelty_threshold=0.2,local_competition=True,seed=3)
    if kind=="cvt": return CVTArchive(solution_dim=4,cells=12,ranges=[(-2,2),(-2,2)],samples=500,seed=3)
    if kind=="mae": return GridArchive(solution_dim=4,dims=[5,5],ranges=[(-2,2),(-2,2)],learning_rate=0.3,threshold_min=-10.,seed=3)
def run(kind, ckpt=None, dqd=False, seedshift=0):
    np.random.seed(1); random.seed(1)
    a=mk(kind); res=GridArchive(solution_dim=4,dims=[5,5],ranges=[(-2,2),(-2,2)]) if kind=="mae" else None
    rk="nov" if kind.startswith("prox") else "2imp"
    ems=[EvolutionStrategyEmitter(a,x0=np.zeros(4),sigma0=0.5,ranker=rk,batch_size=5,seed=10+seedshift),
         GaussianEmitter(a,sigma=0.2,x0=np.zeros(4),batch_size=3,seed=11),
         IsoLineEmitter(a,x0=np.zeros(4),batch_size=3,seed=np.random.SeedSequence(12))]
    if dqd: ems=[GradientArborescenceEmitter(a,x0=np.zeros(4),sigma0=0.5,lr=0.1,batch_size=4,seed=13),GradientOperatorEmitter(a,sigma=0.1,sigma_g=0.2,x0=np.zeros(4),batch_size=3,seed=14,measure_gradients=True)]+ems[1:]
    s=Scheduler(a,ems,result_archive=res)
    outs=[]
    for it in range(8):
        if ckpt==it: s=pickle.loads(pickle.dumps(s))
        np.random.rand(2)
        if dqd:
            sol=s.ask_dqd(); outs.append(sol.copy())
            jac=np.stack([np.stack([-2*x, np.eye(4)[0], np.eye(4)[1]]) for x in sol]) if len(sol) else np.zeros((0,3,4))
            s.tell_dqd(-np.sum(sol**2,axis=1), sol[:,:2], jac)
        sol=s.ask(); outs.append(sol.copy())
        s.tell(-np.sum(sol**2,axis=1), sol[:,:2])
    d=s.archive.data()
    return outs,d
for kind in ["sba","prox","proxlc","cvt","mae"]:
    for dqd in (False,True):
        if dqd and kind.startswith("prox"): continue
        try:
            a,da=run(kind,dqd=dqd); b,db=run(kind,ckpt=4,dqd=dqd); c,dc=run(kind,dqd=dqd)
            same=lambda x,y,dx,dy: all(np.array_equal(p,q) for p,q in zip(x,y)) and all(np.array_equal(dx[k],dy[k]) for k in dx)
            print(kind,"dqd" if dqd else "", "repeat-identical",same(a,c,da,dc),"pickle-continue",same(a,b,da,db))
        except Exception as e: print(kind,dqd,"raised",type(e).__name__,str(e)[:120])
