import PyribsModel.Ranker
/-!
Line-protocol machine `ranker` for the `Ranker` model.

```
new kind=<imp|2imp|rd|2rd|obj|2obj|nov|density>          → ok
setdir d=<rats>                                           → ok
reset z=<rats> lo=<rats> hi=<rats>                        → ok
dir                                                       → dir=none | dir=<rats>
rank obj=<rats> meas=<row;row;…> st=<nats> val=<rats> nov=<rats|none> dens=<rats|none>
                                                          → idx=<nats> vals=<v,…> | vals=<s:v,…>
                                                          | err=<runtime|attribute|value|key>
```
`reset` is `bad-op` unless `z`, `lo`, `hi` have one length (the harness draws
exactly `measure_dim` normals, as the implementation does).
-/
namespace Pyribs.RankerDrv
open Pyribs Ranker

structure St where
  kind : Kind
  st   : Ranker.St

def init : St := ⟨.imp, Ranker.init⟩

def parseKind : String → Option Kind
  | "imp" => some .imp
  | "2imp" => some .imp2
  | "rd" => some .rd
  | "2rd" => some .rd2
  | "obj" => some .obj
  | "2obj" => some .obj2
  | "nov" => some .nov
  | "density" => some .density
  | _ => none

def showErr : Err → String
  | .runtime => "err=runtime"
  | .attribute => "err=attribute"
  | .value => "err=value"
  | .key => "err=key"

/-- `none` ↦ absent field -/
def parseOptRatList (s : String) : Option (Option (List Rat)) :=
  if s = "none" then some none else (parseRatList s).map some

/-- rows separated by `;`, `-` is the empty batch -/
def parseRows (s : String) : Option (List (List Rat)) :=
  if s = "-" || s = "" then some [] else (s.splitOn ";").mapM parseRatList

def showVals : Vals → String
  | .one v => showRatList v
  | .two v => showList (fun p => s!"{p.1}:{showRat p.2}") v

def parseBatch (toks : List String) : Option Batch := do
  let obj ← (kv toks "obj") >>= parseRatList
  let meas ← (kv toks "meas") >>= parseRows
  let st ← (kv toks "st") >>= parseNatList
  let val ← (kv toks "val") >>= parseRatList
  let nov ← (kv toks "nov") >>= parseOptRatList
  let dens ← (kv toks "dens") >>= parseOptRatList
  pure ⟨obj, meas, st, val, nov, dens⟩

def step (s : St) (toks : List String) : St × String :=
  match toks with
  | ["new", k] =>
    match (kv [k] "kind") >>= parseKind with
    | some k => (⟨k, Ranker.init⟩, "ok")
    | none => (s, "bad-op")
  | ["setdir", d] =>
    match (kv [d] "d") >>= parseRatList with
    | some d => ({ s with st := (Ranker.step s.kind s.st (.setDir d)).1 }, "ok")
    | none => (s, "bad-op")
  | "reset" :: rest =>
    match (kv rest "z") >>= parseRatList, (kv rest "lo") >>= parseRatList,
          (kv rest "hi") >>= parseRatList with
    | some z, some lo, some hi =>
      if z.length = lo.length ∧ lo.length = hi.length then
        ({ s with st := (Ranker.step s.kind s.st (.reset z lo hi)).1 }, "ok")
      else (s, "bad-op")
    | _, _, _ => (s, "bad-op")
  | ["dir"] => (s, "dir=" ++ showOpt showRatList s.st.dir)
  | "rank" :: rest =>
    match parseBatch rest with
    | some b =>
      match Ranker.step s.kind s.st (.rank b) with
      | (st', some (.ok (idx, vals))) =>
        ({ s with st := st' }, s!"idx={showNatList idx} vals={showVals vals}")
      | (st', some (.error e)) => ({ s with st := st' }, showErr e)
      | (_, none) => (s, "bad-op")
    | none => (s, "bad-op")
  | _ => (s, "bad-op")

end Pyribs.RankerDrv
