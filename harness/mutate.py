"""Systematic first-order mutants of /repo/ribs against the checks (a complement to the independently seeded changes).

usage: mutate.py [--files a.py,b.py] [--max N] [--jobs J] [--seed S] [--out DIR]

For every mutant: a private copy of /repo/ribs with ONE small syntactic change (comparison / arithmetic / boolean
operator, small constant, dropped statement, dropped `not`, dropped copy) -> import smoke test -> the quick checks
mapped to the mutated file (VERIF_REPO / PYTHONPATH pointing at the copy).  A mutant is KILLED when some mapped check
exits 1, CRASHED when a check exits 2 (a harness that cannot cope -- counted separately), otherwise it SURVIVES.
Survivors are written to <out>/survivors/<k>.diff for inspection (equivalent mutant? blind spot?); nothing here is
evidence for a property.
"""
import argparse
import ast
import difflib
import json
import os
import random
import shutil
import subprocess
import sys
import tempfile
from concurrent.futures import ThreadPoolExecutor

VERIF = os.path.dirname(os.path.dirname(os.path.abspath(__file__)))

FILE_CHECKS = {
    "ribs/archives/_transforms.py": ["C01", "C02", "C05", "C06", "C14"],
    "ribs/archives/_array_store.py": ["C13", "C11", "C01", "C12"],
    "ribs/archives/_archive_base.py": ["C01", "C02", "C06", "C07", "C11", "C12"],
    "ribs/archives/_grid_archive.py": ["C03", "C07", "C11"],
    "ribs/archives/_cvt_archive.py": ["C03", "C07", "C11", "C09"],
    "ribs/archives/_sliding_boundaries_archive.py": ["C15", "C07", "C11"],
    "ribs/archives/_proximity_archive.py": ["C14", "C07", "C11"],
    "ribs/_utils.py": ["C11", "C01", "C13", "C04", "C19", "C14", "C02"],
    "ribs/schedulers/_scheduler.py": ["C04", "C12"],
    "ribs/schedulers/_bandit_scheduler.py": ["C16", "C04"],
    "ribs/emitters/rankers.py": ["C17"],
    "ribs/emitters/_evolution_strategy_emitter.py": ["C10", "C08"],
    "ribs/emitters/_gradient_arborescence_emitter.py": ["C10", "C19"],
    "ribs/emitters/_gradient_operator_emitter.py": ["C19", "C08", "C12", "C09"],
    "ribs/emitters/_gaussian_emitter.py": ["C08", "C12"],
    "ribs/emitters/_iso_line_emitter.py": ["C08", "C09"],
    "ribs/emitters/opt/_cma_es.py": ["C18", "C08"],
    "ribs/emitters/opt/_sep_cma_es.py": ["C18", "C08"],
    "ribs/emitters/opt/_lm_ma_es.py": ["C18", "C08"],
    "ribs/emitters/opt/_openai_es.py": ["C18", "C08"],
    "ribs/emitters/opt/_adam_opt.py": ["C18", "C19"],
    "ribs/emitters/opt/_gradient_ascent_opt.py": ["C19", "C18"],
    "ribs/emitters/opt/_pycma_es.py": ["C18", "C08", "C09"],
    "ribs/emitters/_emitter_base.py": ["C08"],
    "ribs/emitters/_genetic_algorithm_emitter.py": ["C08", "C09"],
    "ribs/emitters/operators/_gaussian.py": ["C08"],
    "ribs/emitters/operators/_iso_line.py": ["C08"],
    "ribs/archives/_archive_data_frame.py": ["C12", "C20"],
    "ribs/visualize/_grid_archive_heatmap.py": ["C20"],
    "ribs/visualize/_cvt_archive_heatmap.py": ["C20"],
    "ribs/visualize/_sliding_boundaries_archive_heatmap.py": ["C20"],
    "ribs/visualize/_parallel_axes_plot.py": ["C20"],
    "ribs/visualize/_proximity_archive_plot.py": ["C20"],
    "ribs/visualize/_utils.py": ["C20"],
}

CMP = {ast.Lt: ast.LtE, ast.LtE: ast.Lt, ast.Gt: ast.GtE, ast.GtE: ast.Gt, ast.Eq: ast.NotEq, ast.NotEq: ast.Eq}
ARI = {ast.Add: ast.Sub, ast.Sub: ast.Add, ast.Mult: ast.Div, ast.Div: ast.Mult, ast.FloorDiv: ast.Div}


class Collector(ast.NodeVisitor):
    """Enumerates mutation points as (kind, lineno, col, extra)."""

    def __init__(self):
        self.points = []
        self.in_doc = False

    def visit_Compare(self, node):
        for i, op in enumerate(node.ops):
            if type(op) in CMP:
                self.points.append(("cmp", node.lineno, node.col_offset, i))
        self.generic_visit(node)

    def visit_BinOp(self, node):
        if type(node.op) in ARI and not isinstance(node.left, ast.Constant) or type(node.op) in ARI:
            if not (isinstance(node.left, ast.Constant) and isinstance(node.left.value, str)):
                self.points.append(("ari", node.lineno, node.col_offset, None))
        self.generic_visit(node)

    def visit_BoolOp(self, node):
        self.points.append(("bool", node.lineno, node.col_offset, None))
        self.generic_visit(node)

    def visit_UnaryOp(self, node):
        if isinstance(node.op, ast.Not):
            self.points.append(("not", node.lineno, node.col_offset, None))
        self.generic_visit(node)

    def visit_Constant(self, node):
        if isinstance(node.value, bool):
            self.points.append(("flag", node.lineno, node.col_offset, None))
        elif isinstance(node.value, int) and 0 <= node.value <= 3:
            self.points.append(("int", node.lineno, node.col_offset, None))
        self.generic_visit(node)

    def visit_Call(self, node):
        name = ast.unparse(node.func)
        if name in ("np.copy", "np.array") and len(node.args) == 1 and not node.keywords:
            self.points.append(("copy", node.lineno, node.col_offset, None))
        self.generic_visit(node)

    def generic_stmt(self, node):
        if isinstance(node, (ast.Assign, ast.AugAssign)) or (isinstance(node, ast.Expr) and isinstance(node.value, ast.Call)):
            self.points.append(("drop", node.lineno, node.col_offset, None))

    def visit(self, node):
        if isinstance(node, ast.stmt):
            self.generic_stmt(node)
        return super().visit(node)


class Mutator(ast.NodeTransformer):
    def __init__(self, point):
        self.kind, self.line, self.col, self.extra = point
        self.done = False

    def hit(self, node):
        return not self.done and getattr(node, "lineno", None) == self.line and getattr(node, "col_offset", None) == self.col

    def visit_Compare(self, node):
        if self.kind == "cmp" and self.hit(node):
            node.ops[self.extra] = CMP[type(node.ops[self.extra])]()
            self.done = True
            return node
        return self.generic_visit(node)

    def visit_BinOp(self, node):
        if self.kind == "ari" and self.hit(node) and type(node.op) in ARI:
            node.op = ARI[type(node.op)]()
            self.done = True
            return node
        return self.generic_visit(node)

    def visit_BoolOp(self, node):
        if self.kind == "bool" and self.hit(node):
            node.op = ast.Or() if isinstance(node.op, ast.And) else ast.And()
            self.done = True
            return node
        return self.generic_visit(node)

    def visit_UnaryOp(self, node):
        if self.kind == "not" and self.hit(node) and isinstance(node.op, ast.Not):
            self.done = True
            return node.operand
        return self.generic_visit(node)

    def visit_Constant(self, node):
        if self.kind == "flag" and self.hit(node) and isinstance(node.value, bool):
            self.done = True
            return ast.copy_location(ast.Constant(not node.value), node)
        if self.kind == "int" and self.hit(node) and isinstance(node.value, int) and not isinstance(node.value, bool):
            self.done = True
            return ast.copy_location(ast.Constant(node.value + 1), node)
        return node

    def visit_Call(self, node):
        if self.kind == "copy" and self.hit(node):
            self.done = True
            return node.args[0]
        return self.generic_visit(node)

    def visit(self, node):
        if self.kind == "drop" and isinstance(node, ast.stmt) and self.hit(node) and \
                (isinstance(node, (ast.Assign, ast.AugAssign)) or isinstance(node, ast.Expr)):
            self.done = True
            return ast.copy_location(ast.Pass(), node)
        return super().visit(node)


def docstring_lines(tree):
    out = set()
    for n in ast.walk(tree):
        if isinstance(n, (ast.FunctionDef, ast.ClassDef, ast.Module)) and n.body and isinstance(n.body[0], ast.Expr) \
                and isinstance(n.body[0].value, ast.Constant) and isinstance(n.body[0].value.value, str):
            d = n.body[0]
            out.update(range(d.lineno, d.end_lineno + 1))
    return out


def mutants_of(path, src):
    tree = ast.parse(src)
    doc = docstring_lines(tree)
    col = Collector()
    col.visit(tree)
    pts = [p for p in dict.fromkeys(col.points) if p[1] not in doc]
    # skip error-message construction and pure bookkeeping of warnings
    lines = src.split("\n")
    keep = []
    for p in pts:
        text = lines[p[1] - 1]
        if "raise " in text or "warnings.warn" in text or text.strip().startswith(("f\"", "\"", "'")):
            continue
        keep.append(p)
    return keep


def apply_point(src, point):
    tree = ast.parse(src)
    m = Mutator(point)
    new = m.visit(tree)
    if not m.done:
        return None
    ast.fix_missing_locations(new)
    # splice only the changed line(s): unparse the smallest enclosing statement
    try:
        return ast.unparse(new) + "\n"
    except Exception:   # pylint: disable=broad-except
        return None


def sh(cmd, env=None, cwd=None, timeout=900):
    # own session, so that a timeout takes the whole process tree with it (a check stuck in a mutant's endless loop)
    p = subprocess.Popen(cmd, shell=True, stdout=subprocess.PIPE, stderr=subprocess.STDOUT, text=True, env=env, cwd=cwd,
                         start_new_session=True)
    try:
        out, _ = p.communicate(timeout=timeout)
        return p.returncode, out
    except subprocess.TimeoutExpired:
        try:
            os.killpg(p.pid, 9)
        except OSError:
            pass
        p.wait()
        return 124, "timeout"


def run_mutant(k, rel, point, src, out_dir, seed, translate=False):
    new_src = apply_point(src, point)
    if new_src is None:
        return None
    # the baseline for the diff is the unparsed original (formatting-insensitive)
    base = ast.unparse(ast.parse(src)) + "\n"
    if new_src == base:
        return None
    diff = "".join(difflib.unified_diff(base.splitlines(True), new_src.splitlines(True), rel, rel, n=2))
    root = tempfile.mkdtemp(prefix=f"mut{k}_", dir="/tmp")
    try:
        shutil.copytree("/repo/ribs", os.path.join(root, "ribs"))
        with open(os.path.join(root, rel), "w") as f:
            f.write(new_src)
        env = dict(os.environ, PYTHONPATH=root, VERIF_REPO=root, VERIF_SEED=str(seed))
        if not translate:   # the generated Lean files are shared: translation only with --jobs 1
            env["VERIF_NO_TRANSLATE"] = "1"
        rc, out = sh("/venv/bin/python -c 'import ribs, ribs.archives, ribs.emitters, ribs.schedulers, ribs.visualize'",
                     env=env, cwd="/tmp", timeout=120)
        if rc != 0:
            return {"k": k, "file": rel, "point": list(point), "verdict": "NOIMPORT"}
        verdict, by = "SURVIVED", None
        for c in FILE_CHECKS[rel]:
            rc, out = sh(f"./check {c} quick", env=env, cwd=VERIF, timeout=900)
            if rc == 1:
                verdict, by = "KILLED", c
                break
            if rc == 124:
                verdict, by = "TIMEOUT", c
                break
            if rc == 2:
                verdict, by = "CRASHED", c
                tail = out[-1500:]
                with open(os.path.join(out_dir, f"crash_{k}.txt"), "w") as f:
                    f.write(diff + "\n" + tail)
                break
        if verdict == "SURVIVED":
            os.makedirs(os.path.join(out_dir, "survivors"), exist_ok=True)
            with open(os.path.join(out_dir, "survivors", f"{k}.diff"), "w") as f:
                f.write(diff)
        return {"k": k, "file": rel, "point": list(point), "verdict": verdict, "by": by,
                "line": src.split("\n")[point[1] - 1].strip()[:120]}
    finally:
        shutil.rmtree(root, ignore_errors=True)


def main():
    ap = argparse.ArgumentParser()
    ap.add_argument("--files")
    ap.add_argument("--max", type=int, default=120)
    ap.add_argument("--jobs", type=int, default=5)
    ap.add_argument("--seed", type=int, default=0)
    ap.add_argument("--out", default="/tmp/mutation_run")
    ap.add_argument("--rerun", help="results.json of an earlier run: run again the mutants with --verdicts")
    ap.add_argument("--verdicts", default="SURVIVED,CRASHED")
    ap.add_argument("--translate", action="store_true", help="let the checks regenerate the Lean model parts from the "
                    "mutant (serial: forces --jobs 1)")
    a = ap.parse_args()
    if a.translate:
        a.jobs = 1
    files = a.files.split(",") if a.files else list(FILE_CHECKS)
    os.makedirs(a.out, exist_ok=True)
    rng = random.Random(a.seed)
    work = []
    for rel in files:
        src = open(os.path.join("/repo", rel)).read()
        pts = mutants_of(rel, src)
        rng.shuffle(pts)
        share = max(3, a.max * len(pts) // max(1, sum(1 for _ in files)) // 40)
        for p in pts[:share]:
            work.append((rel, p, src))
    rng.shuffle(work)
    work = work[:a.max]
    if a.rerun:
        want = set(a.verdicts.split(","))
        work = [(r["file"], tuple(r["point"]), open(os.path.join("/repo", r["file"])).read())
                for r in json.load(open(a.rerun)) if r["verdict"] in want]
    print(f"{len(work)} mutants over {len(files)} files, {a.jobs} jobs")
    results = []
    with ThreadPoolExecutor(a.jobs) as ex:
        futs = [ex.submit(run_mutant, k, rel, p, src, a.out, a.seed, a.translate) for k, (rel, p, src) in enumerate(work)]
        for f in futs:
            r = f.result()
            if r:
                results.append(r)
                print(f"{r['verdict']:9s} {r.get('by') or '-':4s} #{r['k']} {r['file']}:{r['point'][1]} [{r['point'][0]}] {r.get('line', '')}",
                      flush=True)
    json.dump(results, open(os.path.join(a.out, "results.json"), "w"), indent=1)
    tally = {}
    for r in results:
        tally[r["verdict"]] = tally.get(r["verdict"], 0) + 1
    print(tally)
    # put back /repo's own generated model parts
    sh(f"/venv/bin/python {VERIF}/harness/translate/formulas.py /repo {VERIF}/lean/PyribsGen/Formulas.lean")
    sh(f"/venv/bin/python {VERIF}/harness/translate/control.py /repo {VERIF}/lean/PyribsGen/Control.lean")
    sh(f"/venv/bin/python -c \"import sys; sys.path.insert(0, '{VERIF}/harness'); from translate import rng_sites; "
       f"rng_sites.translate('/repo', '{VERIF}/lean/PyribsGen/RngSites.lean')\"")


if __name__ == "__main__":
    sys.exit(main())
