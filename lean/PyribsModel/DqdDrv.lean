import PyribsModel.Dqd
/-!
Line-protocol machine `dqd` for the `Dqd` model (property C19).  A row is a comma separated list of
rationals; a Jacobian is its rows joined by `;`.

GradientArborescenceEmitter
* `gae new n= m= batch= sel=mu|filter rule=basic|noimp|every:<k> norm=0|1 eps= opt=ascent:<lr>|ext x0=<row>` → `ok`
* `gae askdqd` → `ok <theta>`
* `gae telldqd norms=<rats|-> tol=<rat> <jacobian>` → `ok normok=0|1` | `err value`
* `gae ask <coeff-row>…` → `ok <row>…` | `err runtime`
* `gae tell status=<nats> ranking=<nats> weights=<rats> stop=0|1 elite=<row>|none ext=<row>|- sols <row>…`
  → `ok restarted=0|1 np=<k> grad=<row>|- theta=<row>` | `err runtime|index`
  (`ext` = θ as left by an external optimizer's step, or `adam1:<lr>:<l2>:<eps'>` for Adam's first step after
  a reset, which the model computes itself; used only with `opt=ext`)
* `gae state` → `jac=0|1 itrs= restarts= resets= theta=`

GradientOperatorEmitter
* `gop new n= m= mg=0|1 sg= norm=0|1 eps= [lo=<list> hi=<list>]` (bound entries rational, `-inf`, `inf`;
  absent = unbounded; `init=<row>;<row>…` = initial_solutions instead of x0) → `ok`
* `gop askdqd <row>…` (perturbed parents; the model clips, stores and returns them) → `ok <row>…`
* `gop askdqd <parent-row>…` → `ok`
* `gop telldqd tol=<rat> <jacobian>|<norms>…` → `ok normok=0|1` | `err value`
* `gop ask <noise-row>…` → `ok <row>…` | `err runtime|value`
* `gop tell` → `ok`
* `gop observe 0|1` — what `archive.empty` is from now on (sent before every ask_dqd / ask) → `ok`
* `gop state` → `jac=0|1`
-/
namespace Pyribs.DqdDrv
open Pyribs Dqd

structure St where
  gc : Gae.Cfg
  gs : Gae.St
  oc : Gop.Cfg
  os : Gop.St

def init : St :=
  ⟨⟨0, 0, 0, .filter, .basic, false, 0, .ascent 0⟩, Gae.init vzero, ⟨0, 0, false, 0, false, 0, fun _ => none, fun _ => none, none⟩, Gop.init⟩

def showErr : Err → String
  | .runtime => "err runtime"
  | .value => "err value"
  | .index => "err index"

def showVec (n : Nat) (v : Vec) : String := showRatList (toList n v)
def showVecs (n : Nat) (vs : List Vec) : String :=
  if vs.isEmpty then "ok" else "ok " ++ String.intercalate " " (vs.map (showVec n))

def parseRow (s : String) : Option (List Rat) := parseRatList s
def parseJac (s : String) : Option (List (List Rat)) :=
  if s = "-" then some [] else (s.splitOn ";").mapM parseRow

def parseRule (s : String) : Option Rule :=
  match s.splitOn ":" with
  | ["basic"] => some .basic
  | ["noimp"] => some .noImprovement
  | ["every", k] => k.toNat?.map .every
  | _ => none

def parseSel : String → Option Sel
  | "mu" => some .mu
  | "filter" => some .filter
  | _ => none

def parseOpt (s : String) : Option (Option Rat) :=
  match s.splitOn ":" with
  | ["ascent", lr] => (parseRat lr).map some
  | ["ext"] => some none
  | _ => none

def allNormOk (n m : Nat) (J : Mat) (norms : Nat → Rat) (tol : Rat) : Bool :=
  (List.range m).all (fun j => normOk n (J j) (norms j) tol)

def gaeStep (st : St) (toks : List String) : St × String :=
  match toks with
  | "new" :: rest =>
    match (kv rest "n").bind String.toNat?, (kv rest "m").bind String.toNat?,
          (kv rest "batch").bind String.toNat?, (kv rest "sel").bind parseSel,
          (kv rest "rule").bind parseRule, kv rest "norm", (kv rest "eps").bind parseRat,
          (kv rest "opt").bind parseOpt, (kv rest "x0").bind parseRow with
    | some n, some m, some batch, some sel, some rule, some norm, some eps, some opt, some x0 =>
      let o : GradOpt := match opt with
        | some lr => .ascent lr
        | none => .other (fun θ _ => θ)     -- replaced per tell by the supplied result
      ({ st with gc := ⟨n, m, batch, sel, rule, norm = "1", eps, o⟩, gs := Gae.init (ofList x0) }, "ok")
    | _, _, _, _, _, _, _, _, _ => (st, "bad-op")
  | ["askdqd"] =>
    match Gae.step st.gc st.gs .askDqd with
    | (_, .theta θ) => (st, "ok " ++ showVec st.gc.n θ)
    | _ => (st, "bad-op")
  | ["telldqd", norms, tol, jac] =>
    match (kv [norms] "norms").bind parseRatList, (kv [tol] "tol").bind parseRat, parseJac jac with
    | some norms, some tol, some rows =>
      let nf := ofList norms
      match Gae.step st.gc st.gs (.tellDqd rows nf) with
      | (s', .done _ _) =>
        let ok := !st.gc.norm || allNormOk st.gc.n st.gc.m (matOfLists rows) nf tol
        ({ st with gs := s' }, s!"ok normok={showBool ok}")
      | (s', .error e) => ({ st with gs := s' }, showErr e)
      | _ => (st, "bad-op")
    | _, _, _ => (st, "bad-op")
  | "ask" :: rows =>
    match rows.mapM parseRow with
    | some cs =>
      match Gae.step st.gc st.gs (.ask (cs.map ofList)) with
      | (s', .rows rs) => ({ st with gs := s' }, showVecs st.gc.n rs)
      | (s', .error e) => ({ st with gs := s' }, showErr e)
      | _ => (st, "bad-op")
    | none => (st, "bad-op")
  | "tell" :: status :: ranking :: weights :: stop :: elite :: ext :: "sols" :: rows =>
    match (kv [status] "status").bind parseNatList, (kv [ranking] "ranking").bind parseNatList,
          (kv [weights] "weights").bind parseRatList, kv [stop] "stop", kv [elite] "elite",
          kv [ext] "ext", rows.mapM parseRow with
    | some status, some ranking, some weights, some stop, some elite, some ext, some sols =>
      let elite? : Option (Option Vec) :=
        if elite = "none" then some none else (parseRow elite).map (fun r => some (ofList r))
      -- `ext=adam1:<lr>:<l2>:<eps'>` : this is Adam's first step after a reset -> closed form with the L2 term
      let adam1? : Option (Rat × Rat × Rat) := match ext.splitOn ":" with
        | ["adam1", lr, l2, e] => do
          let lr ← parseRat lr; let l2 ← parseRat l2; let e ← parseRat e; pure (lr, l2, e)
        | _ => none
      let ext? : Option (Option Vec) :=
        if ext = "-" || adam1?.isSome then some none else (parseRow ext).map (fun r => some (ofList r))
      match elite?, ext? with
      | some elite, some ext =>
        let t : Gae.TellIn := ⟨sols.map ofList, status, ranking, ofList weights, stop = "1", elite⟩
        let c : Gae.Cfg := match st.gc.opt, ext, adam1? with
          | .other _, _, some (lr, l2, e) => { st.gc with opt := adamFirst lr l2 e }
          | .other _, some θ', _ => { st.gc with opt := .other (fun _ _ => θ') }
          | _, _, _ => st.gc
        let np := numParents c.sel c.batch status
        let grad := if np = 0 then "-" else showVec c.n (Gae.tellGrad st.gs.θ t np)
        match Gae.step c st.gs (.tell t) with
        | (s', .done r k) =>
          ({ st with gs := s' }, s!"ok restarted={showBool r} np={k} grad={grad} theta={showVec c.n s'.θ}")
        | (s', .error e) => ({ st with gs := s' }, showErr e)
        | _ => (st, "bad-op")
      | _, _ => (st, "bad-op")
    | _, _, _, _, _, _, _ => (st, "bad-op")
  | ["state"] =>
    (st, s!"jac={showBool st.gs.jac.isSome} itrs={st.gs.itrs} restarts={st.gs.restarts} " ++
         s!"resets={st.gs.esResets} theta={showVec st.gc.n st.gs.θ}")
  | _ => (st, "bad-op")

def parseJacNorms (s : String) : Option (List (List Rat) × List Rat) :=
  match s.splitOn "|" with
  | [j, n] => do let j ← parseJac j; let n ← parseRatList n; pure (j, n)
  | _ => none

def gopStep (st : St) (toks : List String) : St × String :=
  match toks with
  | "new" :: rest =>
    match (kv rest "n").bind String.toNat?, (kv rest "m").bind String.toNat?, kv rest "mg",
          (kv rest "sg").bind parseRat, kv rest "norm", (kv rest "eps").bind parseRat with
    | some n, some m, some mg, some sg, some norm, some eps =>
      let lo? : Option (List (Option Rat)) := match kv rest "lo" with
        | none => some []
        | some l => parseListWith (fun t => if t = "-inf" then some none else (parseRat t).map some) l
      let hi? : Option (List (Option Rat)) := match kv rest "hi" with
        | none => some []
        | some l => parseListWith (fun t => if t = "inf" then some none else (parseRat t).map some) l
      match lo?, hi? with
      | some lo, some hi =>
        -- `init=<row>;<row>…` : initial_solutions (absent / `none`: the emitter was configured with x0)
        let init? : Option (Option (List Vec)) := match kv rest "init" with
          | none => some none
          | some "none" => some none
          | some l => (parseJac l).map (fun rows => some (rows.map ofList))
        match init? with
        | some ini =>
          ({ st with oc := ⟨n, m, mg = "1", sg, norm = "1", eps, fun k => lo.getD k none, fun k => hi.getD k none,
                             ini⟩, os := Gop.init }, "ok")
        | none => (st, "bad-op")
      | _, _ => (st, "bad-op")
    | _, _, _, _, _, _ => (st, "bad-op")
  | "askdqd" :: rows =>
    match rows.mapM parseRow with
    | some ps =>
      match Gop.step st.oc st.os (.askDqd (ps.map ofList)) with
      | (s', .rows rs) => ({ st with os := s' }, showVecs st.oc.n rs)
      | _ => (st, "bad-op")
    | none => (st, "bad-op")
  | "telldqd" :: tol :: jacs =>
    match (kv [tol] "tol").bind parseRat, jacs.mapM parseJacNorms with
    | some tol, some jns =>
      let norms := jns.map (fun p => ofList p.2)
      match Gop.step st.oc st.os (.tellDqd (jns.map (·.1)) norms) with
      | (s', .done) =>
        let ok := !st.oc.norm ||
          jns.all (fun p => allNormOk st.oc.n st.oc.m (matOfLists p.1) (ofList p.2) tol)
        ({ st with os := s' }, s!"ok normok={showBool ok}")
      | (s', .error e) => ({ st with os := s' }, showErr e)
      | _ => (st, "bad-op")
    | _, _ => (st, "bad-op")
  | "ask" :: rows =>
    match rows.mapM parseRow with
    | some zs =>
      match Gop.step st.oc st.os (.ask (zs.map ofList)) with
      | (s', .rows rs) => ({ st with os := s' }, showVecs st.oc.n rs)
      | (s', .error e) => ({ st with os := s' }, showErr e)
      | _ => (st, "bad-op")
    | none => (st, "bad-op")
  | ["tell"] => ({ st with os := (Gop.step st.oc st.os .tell).1 }, "ok")
  | ["observe", b] => ({ st with os := (Gop.step st.oc st.os (.observe (b = "1"))).1 }, "ok")
  | ["state"] => (st, s!"jac={showBool st.os.jac.isSome}")
  | _ => (st, "bad-op")

def step (st : St) (toks : List String) : St × String :=
  match toks with
  | "gae" :: rest => gaeStep st rest
  | "gop" :: rest => gopStep st rest
  | _ => (st, "bad-op")

end Pyribs.DqdDrv
