import PyribsModel.Util
/-!
# Scheduler — model of `ribs/schedulers/_scheduler.py` (Scheduler)

The scheduler owns a protocol flag (`_last_called`), the batch returned by the
last ask (`_cur_solutions`) and the number of rows each emitter produced in it
(`_num_emitted`).  Everything it *does* to the outside world is a call on the
archive, the result archive or an emitter; the model records those calls, in
order, in `trace`.  "Archive and emitters untouched" is therefore "the trace did
not grow".

Abstractions
* a solution is the token `(e, k)` = "row `k` of what emitter `e` generated in
  this ask" (the harness encodes exactly this pair, and the iteration, in the
  solution values of its spy emitters);
* an evaluated row is its position `p` in the batch returned by ask; every
  per-row array handed to `tell` (objective, measures, extra fields, Jacobian)
  and every array of the archive's add feedback is row-aligned with the batch,
  so what an emitter receives from any of them is `slice arr (pos, end)` for the
  *same* `(pos, end)` — the model hands out the positions;
* the archive is the list of row batches it received (`Event.add false rows`),
  the result archive likewise (`Event.add true rows`).

Code shape (what mirrors what)
* `doAsk`          ↔ `Scheduler.ask` / `Scheduler.ask_dqd`
* `doTell`         ↔ `Scheduler.tell` / `Scheduler.tell_dqd`
* `addToArchives`  ↔ `Scheduler._add_to_archives`
* `slices`         ↔ the `pos = 0; for …: end = pos + n; …; pos = end` loop
* `slice`          ↔ `arr[pos:end]`
* `emit`/`flatten` ↔ the per-emitter `ask()` results and `np.concatenate`
-/
namespace Pyribs.Scheduler

/-- `_last_called` -/
inductive Phase | none | ask | askDqd | tell | tellDqd
deriving DecidableEq, Repr

/-- `add_mode` -/
inductive Mode | batch | single
deriving DecidableEq, Repr

/-- rejections made by the scheduler itself -/
inductive Err
  | runtime   -- call out of ask→tell / ask_dqd→tell_dqd order
  | value     -- a malformed argument of tell: wrong length (`_check_length`), NaN / inf, wrong inner shape
deriving DecidableEq, Repr

structure Cfg where
  mode      : Mode
  hasResult : Bool
deriving DecidableEq, Repr

/-- a generated solution: (emitter, position within that emitter's batch) -/
abbrev Sol := Nat × Nat

/-- one call made by the scheduler on a collaborator -/
inductive Event
  /-- `emitter.ask()` (`dqd = false`) / `emitter.ask_dqd()` on emitter `em`, which returned `n` rows -/
  | ask (dqd : Bool) (em n : Nat)
  /-- `archive.add` / `archive.add_single` (`result = false`) or the same on the result archive,
      with these rows (positions in the current batch), in this order -/
  | add (result : Bool) (rows : List Nat)
  /-- `emitter.tell` / `emitter.tell_dqd` on emitter `em`: the `solution` argument and the
      positions from which every other per-row argument (and every add-feedback array) was cut -/
  | tell (dqd : Bool) (em : Nat) (sols : List Sol) (rows : List Nat)
deriving DecidableEq, Repr

structure St where
  phase  : Phase
  cur    : List Sol      -- `_cur_solutions`
  counts : List Nat      -- `_num_emitted`
  trace  : List Event
deriving DecidableEq, Repr

def init : St := ⟨.none, [], [], []⟩

/-! ### ask -/

/-- what emitter `e` returns when it generates `n` rows -/
def gen (e n : Nat) : List Sol := (List.range n).map (fun k => (e, k))

/-- per-emitter results of one ask, emitters numbered from `e`; `ns` = batch sizes -/
def emitFrom : Nat → List Nat → List (List Sol)
  | _, [] => []
  | e, n :: ns => gen e n :: emitFrom (e + 1) ns

def emit (ns : List Nat) : List (List Sol) := emitFrom 0 ns

/-- one `ask` call per emitter, in emitter order -/
def askEvents (dqd : Bool) : Nat → List Nat → List Event
  | _, [] => []
  | e, n :: ns => .ask dqd e n :: askEvents dqd (e + 1) ns

inductive Out
  | asked (sols : List Sol)   -- return value of ask / ask_dqd
  | told
  | error (e : Err)
deriving DecidableEq, Repr

/-- `Scheduler.ask` (`dqd = false`) / `Scheduler.ask_dqd` (`dqd = true`); `ns` are the
    batch sizes the emitters produce in this call -/
def doAsk (dqd : Bool) (s : St) (ns : List Nat) : St × Out :=
  if s.phase = .ask ∨ s.phase = .askDqd then (s, .error .runtime)
  else
    let outs := emit ns
    ({ phase := if dqd then .askDqd else .ask
       cur := outs.flatten                     -- np.concatenate(..., axis=0)
       counts := outs.map List.length          -- _num_emitted[i] = len(emitter_sols)
       trace := s.trace ++ askEvents dqd 0 ns },
     .asked outs.flatten)

/-! ### tell -/

/-- the `(pos, end)` pairs of the dispatch loop, starting at `pos` -/
def slices : Nat → List Nat → List (Nat × Nat)
  | _, [] => []
  | pos, n :: ns => (pos, pos + n) :: slices (pos + n) ns

/-- `arr[pos:end]` -/
def slice {α : Type} (xs : List α) (p : Nat × Nat) : List α := (xs.drop p.1).take (p.2 - p.1)

/-- what each emitter receives of a per-row array `xs` -/
def dispatchFrom {α : Type} (pos : Nat) (counts : List Nat) (xs : List α) : List (List α) :=
  (slices pos counts).map (slice xs)

def dispatch {α : Type} (counts : List Nat) (xs : List α) : List (List α) := dispatchFrom 0 counts xs

/-- `_add_to_archives`: batch mode = one `add` with all rows (then one on the result archive);
    single mode = per row one `add_single` (then one on the result archive), in row order -/
def addToArchives (cfg : Cfg) (total : Nat) : List Event :=
  match cfg.mode with
  | .batch =>
    .add false (List.range total) :: (if cfg.hasResult then [.add true (List.range total)] else [])
  | .single =>
    (List.range total).flatMap fun r =>
      .add false [r] :: (if cfg.hasResult then [.add true [r]] else [])

/-- one `tell` per emitter, in emitter order, emitters numbered from `e` -/
def tellEvents (dqd : Bool) : Nat → List (List Sol) → List (List Nat) → List Event
  | e, ss :: sss, rs :: rss => .tell dqd e ss rs :: tellEvents dqd (e + 1) sss rss
  | _, _, _ => []

/-- `Scheduler.tell` (`dqd = false`) / `Scheduler.tell_dqd` (`dqd = true`).
    `badLength`: some argument is rejected by validation — wrong length (`_check_length`), or right
    length but non-finite / wrong inner shape (the Jacobian check of `tell_dqd`, the archive's own
    validation of a batch): ValueError before any row is inserted or any emitter told. -/
def doTell (cfg : Cfg) (dqd : Bool) (badLength : Bool) (s : St) : St × Out :=
  if s.phase ≠ (if dqd then Phase.askDqd else Phase.ask) then (s, .error .runtime)
  else
    let ph := if dqd then Phase.tellDqd else Phase.tell
    -- the flag is set before `_validate_tell_data`: a ValueError leaves the scheduler in the
    -- tell phase (the property is silent about this; archive and emitters are untouched)
    if badLength then ({ s with phase := ph }, .error .value)
    else
      let rows := List.range s.cur.length
      ({ s with
         phase := ph
         trace := s.trace ++ addToArchives cfg s.cur.length ++
           tellEvents dqd 0 (dispatch s.counts s.cur) (dispatch s.counts rows) },
       .told)

/-! ### the machine -/

inductive Op
  | ask (ns : List Nat)
  | askDqd (ns : List Nat)
  | tell
  | tellDqd
  | tellBad       -- tell with a malformed (wrong-length, non-finite, mis-shaped) argument
  | tellDqdBad
deriving DecidableEq, Repr

def step (cfg : Cfg) (s : St) : Op → St × Out
  | .ask ns => doAsk false s ns
  | .askDqd ns => doAsk true s ns
  | .tell => doTell cfg false false s
  | .tellDqd => doTell cfg true false s
  | .tellBad => doTell cfg false true s
  | .tellDqdBad => doTell cfg true true s

def run (cfg : Cfg) (s : St) (ops : List Op) : St := ops.foldl (fun s op => (step cfg s op).1) s

/-! ### reading the trace -/

/-- the batches the archive (`result = false`) / the result archive (`result = true`) received
    among some events, in order -/
def batchesOf (result : Bool) : List Event → List (List Nat)
  | [] => []
  | .add r rows :: es => if r = result then rows :: batchesOf result es else batchesOf result es
  | _ :: es => batchesOf result es

def Event.isAdd : Event → Bool
  | .add _ _ => true
  | _ => false

def Event.isTell : Event → Bool
  | .tell _ _ _ _ => true
  | _ => false

end Pyribs.Scheduler
