import PyribsModel.Cqd
import Mathlib.Algebra.Order.Field.Rat
import Mathlib.Tactic.Linarith
/-! C06 (T06.6): the CQD score is a function of the *set* of current elites. -/
namespace Pyribs.Cqd

theorem maxL_spec {l : List Rat} {m : Rat} (h : maxL l = some m) : m ∈ l ∧ ∀ x ∈ l, x ≤ m := by
  induction l generalizing m with
  | nil => simp [maxL] at h
  | cons x xs ih =>
    simp only [maxL] at h
    cases hm : maxL xs with
    | none =>
      rw [hm] at h; simp at h; subst h
      have : xs = [] := by
        cases xs with
        | nil => rfl
        | cons y ys => simp only [maxL] at hm; cases hy : maxL ys <;> simp [hy] at hm
      subst this; simp
    | some m' =>
      rw [hm] at h; simp at h; subst h
      obtain ⟨hmem, hub⟩ := ih hm
      constructor
      · rcases max_cases x m' with ⟨h1, _⟩ | ⟨h1, _⟩
        · rw [h1]; exact List.mem_cons_self
        · rw [h1]; exact List.mem_cons_of_mem _ hmem
      · intro y hy
        rcases List.mem_cons.mp hy with rfl | hy
        · exact le_max_left _ _
        · exact le_trans (hub y hy) (le_max_right _ _)

theorem maxL_isSome {l : List Rat} (h : l ≠ []) : ∃ m, maxL l = some m := by
  cases l with
  | nil => exact absurd rfl h
  | cons x xs => simp only [maxL]; cases maxL xs <;> simp

/-- the maximum does not depend on the order of the list -/
theorem maxL_perm {l l' : List Rat} (p : l.Perm l') : maxL l = maxL l' := by
  by_cases hl : l = []
  · subst hl
    have : l' = [] := (List.Perm.nil_eq p).symm
    subst this; rfl
  · have hl' : l' ≠ [] := fun h => hl (by subst h; exact List.Perm.eq_nil p)
    obtain ⟨m, hm⟩ := maxL_isSome hl
    obtain ⟨m', hm'⟩ := maxL_isSome hl'
    obtain ⟨h1, h2⟩ := maxL_spec hm
    obtain ⟨h1', h2'⟩ := maxL_spec hm'
    have : m = m' := le_antisymm (h2' m (p.subset h1)) (h2 m' (p.symm.subset h1'))
    rw [hm, hm', this]

/-- **T06.6 `score_perm_invariant`** : the score only depends on the set of current elites,
not on the order in which the archive lists them (hence not on the history that produced them). -/
theorem score_perm_invariant (ord : Ord) (span dmax : Rat) (pens : List Rat)
    (elites elites' : List Elite) (targets : List (List Rat)) (p : elites.Perm elites') :
    scoreIter ord span dmax pens elites targets = scoreIter ord span dmax pens elites' targets := by
  unfold scoreIter
  have : ∀ pen t, maxL (elites.map (valueAt ord span dmax pen t)) =
      maxL (elites'.map (valueAt ord span dmax pen t)) :=
    fun pen t => maxL_perm (p.map _)
  simp only [this]

/-- the defining formula, spelled out for one penalty and one target: the maximum over the
current elites of `objective/span − penalty · dist/dist_max` -/
theorem score_eq_formula (ord : Ord) (span dmax pen : Rat) (elites : List Elite) (t : List Rat) :
    scoreIter ord span dmax [pen] elites [t] =
      (maxL (elites.map (valueAt ord span dmax pen t))).map (fun m => m + 0 + 0) ∧
    ∀ e, valueAt ord span dmax pen t e = e.obj / span - pen * (dist ord e.meas t / dmax) := by
  refine ⟨?_, fun _ => rfl⟩
  unfold scoreIter
  cases h : maxL (elites.map (valueAt ord span dmax pen t)) <;>
    simp [List.mapM_cons, List.mapM_nil, h]

/-- a point of the measure space: coordinate-wise between the bounds -/
def InBox : List Rat → List Rat → List Rat → Prop
  | l :: ls, h :: hs, x :: xs => l ≤ x ∧ x ≤ h ∧ InBox ls hs xs
  | [], [], [] => True
  | _, _, _ => False

theorem absR_le {x c : Rat} (h1 : -c ≤ x) (h2 : x ≤ c) : absR x ≤ c := by
  unfold absR; split <;> linarith

theorem absR_nonneg (x : Rat) : 0 ≤ absR x := by
  unfold absR; split <;> linarith

theorem absR_of_nonneg {x : Rat} (h : 0 ≤ x) : absR x = x := by
  unfold absR; split
  · linarith
  · rfl

/-- **T06.7 `dist_le_defaultDistMax`** : with the default `dist_max` (same norm order as the
distances) every distance between two points of the measure space is at most `dist_max`, so the
normalised distance `dist / dist_max` that the penalty multiplies lies in `[0, 1]` for *every*
`dist_ord` — the reason the default must be computed with `ord = dist_ord`. -/
theorem dist_le_defaultDistMax (ord : Ord) (lo hi a b : List Rat)
    (ha : InBox lo hi a) (hb : InBox lo hi b) :
    0 ≤ dist ord a b ∧ dist ord a b ≤ defaultDistMax ord lo hi := by
  unfold defaultDistMax
  induction lo generalizing hi a b with
  | nil =>
    cases hi <;> cases a <;> cases b <;> simp [InBox] at ha hb
    cases ord <;> simp [dist, distL1, distLinf]
  | cons l ls ih =>
    cases hi with
    | nil => cases a <;> simp [InBox] at ha
    | cons h hs =>
      cases a with
      | nil => simp [InBox] at ha
      | cons x xs =>
        cases b with
        | nil => simp [InBox] at hb
        | cons y ys =>
          obtain ⟨hx1, hx2, hxs⟩ := ha
          obtain ⟨hy1, hy2, hys⟩ := hb
          have hd : absR (x - y) ≤ h - l := absR_le (by linarith) (by linarith)
          have hhl : absR (h - l) = h - l := absR_of_nonneg (by linarith)
          have h0 := absR_nonneg (x - y)
          cases ord with
          | l1 =>
            have := ih hs xs ys hxs hys
            simp only [dist] at this ⊢
            simp only [distL1, hhl]
            constructor <;> linarith [this.1, this.2]
          | linf =>
            have := ih hs xs ys hxs hys
            simp only [dist] at this ⊢
            simp only [distLinf, hhl]
            constructor
            · exact le_trans h0 (le_max_left _ _)
            · exact max_le (le_trans hd (le_max_left _ _)) (le_trans this.2 (le_max_right _ _))

/-- the two orders give different defaults on a non-square space (why the order matters) -/
theorem defaultDistMax_depends_on_ord :
    defaultDistMax .l1 [0, 0] [3, 4] = 7 ∧ defaultDistMax .linf [0, 0] [3, 4] = 4 := by
  decide +kernel

theorem nonvacuous :
    scoreIter .l1 2 4 [0, 1] [⟨4, [0, 0]⟩, ⟨2, [2, 2]⟩] [[2, 2], [0, 1]] = some (27/4) ∧
    scoreIter .l1 2 4 [0, 1] [⟨2, [2, 2]⟩, ⟨4, [0, 0]⟩] [[2, 2], [0, 1]] = some (27/4) := by
  decide +kernel

end Pyribs.Cqd
