import PyribsProofs.Lemmas.Archive
/-!
# C02 — add() feedback (status, value) is computed against the pre-call archive

All statements hold for **every** archive state `a` (reachable or not), every
configuration and every batch.
-/
namespace Pyribs.C02
open Pyribs Arch Store

/-- T02.1 `judge_spec` : the feedback of a batch add is, row by row, `judge` applied
to the content of the row's cell **before the call**. -/
theorem judge_spec (a : Arch) (rows : List (Nat × Cand)) :
    (a.addBatch rows).2 = rows.map (fun r => judge a.cfg (a.cellOf r.1) r.2) := rfl

theorem judge_spec_single (a : Arch) (r : Nat × Cand) :
    (a.addSingle r).2 = judge a.cfg (a.cellOf r.1) r.2 := rfl

/-- `judge` is literally the property: status 2 iff the cell was empty and the
objective exceeds `threshold_min` (always, when it is −∞) … -/
theorem status_empty (cfg : Cfg) (c : Cand) :
    status cfg none c =
      (match cfg.tmin with
       | none => 2
       | some t => if t < c.obj then 2 else 0) := by
  unfold status canInsert cmpThr
  cases cfg.tmin with
  | none => simp
  | some t => by_cases h : t < c.obj <;> simp [h]

/-- … 1 iff the cell was occupied and the objective strictly exceeds its threshold, otherwise 0 … -/
theorem status_occupied (cfg : Cfg) (e : Elite) (c : Cand) :
    status cfg (some e) c = if e.thr < c.obj then 1 else 0 := by
  unfold status canInsert cmpThr
  by_cases h : e.thr < c.obj <;> simp [h]

/-- … and value = objective − prior threshold (0 for an empty cell in default mode,
`threshold_min` when it is finite). -/
theorem value_spec (cfg : Cfg) (pre : Option Elite) (c : Cand) :
    (judge cfg pre c).2 = c.obj -
      (match pre with
       | some e => e.thr
       | none => match cfg.tmin with
                 | none => 0
                 | some t => t) := by
  unfold judge baseline
  cases pre with
  | some e => rfl
  | none => cases cfg.tmin <;> rfl

theorem status_ne_zero_iff (cfg : Cfg) (pre : Option Elite) (c : Cand) :
    status cfg pre c ≠ 0 ↔ canInsert cfg pre c = true := by
  unfold status
  by_cases h : canInsert cfg pre c = true
  · simp only [h, if_true]; cases pre <;> simp
  · simp [h]

/-- an equal-or-lower objective than the prior threshold is never accepted (strictness) -/
theorem status_zero_of_le (cfg : Cfg) (e : Elite) (c : Cand) (h : c.obj ≤ e.thr) :
    status cfg (some e) c = 0 := by
  rw [status_occupied]; simp [not_lt.mpr h]

/-- T02.3 `same_prestate` : two candidates of one batch aimed at the same cell are judged
against one and the same pre-call cell content (never an intermediate state). -/
theorem same_prestate (a : Arch) (rows : List (Nat × Cand)) (k1 k2 : Nat) (r1 r2 : Nat × Cand)
    (h1 : rows[k1]? = some r1) (h2 : rows[k2]? = some r2) (hc : r1.1 = r2.1) :
    (a.addBatch rows).2[k1]? = some (judge a.cfg (a.cellOf r1.1) r1.2) ∧
    (a.addBatch rows).2[k2]? = some (judge a.cfg (a.cellOf r1.1) r2.2) := by
  rw [judge_spec]
  simp [List.getElem?_map, h1, h2, hc]

/-- T02.2 `stored_only_if_selected` : whatever a batch add puts into a cell is a candidate
of the batch routed to that cell whose status is non-zero. -/
theorem stored_only_if_selected (a : Arch) (rows : List (Nat × Cand)) (i : Nat) (e : Elite)
    (h : (a.addBatch rows).1.cellOf i = some e) (hne : a.cellOf i ≠ some e) :
    ∃ c, (i, c) ∈ rows ∧ e.toCand = c ∧ status a.cfg (a.cellOf i) c ≠ 0 := by
  rw [cellOf_addBatch] at h
  by_cases hi : i < a.store.cap
  · rw [if_pos hi] at h
    unfold cellWrite at h
    cases hm : argmaxFirst (cellAcc (accRows a.cfg a.store.cells rows) i) with
    | none => rw [hm] at h; simp at h; exact absurd h hne
    | some w =>
      rw [hm] at h
      simp only [Option.map_some, Option.some_or, Option.some.injEq] at h
      have hw := (argmaxFirst_spec hm).1
      rw [cellAcc_accRows] at hw
      obtain ⟨hw1, hw2⟩ := List.mem_filter.mp hw
      refine ⟨w, mem_rowsTo.mp hw1, ?_, (status_ne_zero_iff _ _ _).mpr hw2⟩
      rw [← h]; rfl
  · rw [if_neg hi] at h; exact absurd h hne

/-- the same for `add_single` -/
theorem stored_only_if_selected_single (a : Arch) (r : Nat × Cand) (hr : r.1 < a.store.cap)
    (i : Nat) (e : Elite) (h : (a.addSingle r).1.cellOf i = some e) (hne : a.cellOf i ≠ some e) :
    i = r.1 ∧ e.toCand = r.2 ∧ status a.cfg (a.cellOf r.1) r.2 ≠ 0 := by
  rw [cellOf_addSingle a r hr] at h
  split at h
  · rename_i hc
    simp only [Option.some.injEq] at h
    exact ⟨hc.1, by rw [← h]; rfl, hc.2⟩
  · exact absurd h hne

/-- a candidate whose status is 0 changes nothing -/
theorem status_zero_single_noop (a : Arch) (r : Nat × Cand) (hr : r.1 < a.store.cap)
    (h : status a.cfg (a.cellOf r.1) r.2 = 0) (i : Nat) :
    (a.addSingle r).1.cellOf i = a.cellOf i := by
  rw [cellOf_addSingle a r hr]; simp [h]

/-! ### T02.4 add_single agrees with add on a batch of one -/

/-- a configuration produced by the constructor: `threshold_min = -inf` forces `learning_rate = 1` -/
def ValidCfg (cfg : Cfg) : Prop := cfg.tmin = none → cfg.lr = 1

theorem mkCfg_valid (lr : Option Rat) (tmin : Option Rat) (off : Rat) (cfg : Cfg)
    (h : mkCfg lr tmin off = some cfg) : ValidCfg cfg := by
  unfold mkCfg at h
  intro ht
  cases lr with
  | none =>
    cases tmin with
    | none => simp at h; subst h; rfl
    | some t => simp at h
  | some l =>
    cases tmin with
    | none =>
      simp only at h
      split at h
      · simp at h; subst h; rfl
      · simp at h
    | some t => simp at h; subst h; simp at ht

theorem filterMap_range_single {ρ : Type} (g : Nat → Option ρ) (n i : Nat) (hi : i < n)
    (hg : ∀ j, j ≠ i → g j = none) :
    (List.range n).filterMap (fun j => (g j).map (fun e => (j, e))) =
      ((g i).map (fun e => (i, e))).toList := by
  induction n with
  | zero => omega
  | succ n ih =>
    rw [List.range_succ, List.filterMap_append]
    by_cases hlt : i < n
    · rw [ih hlt]
      have : g n = none := hg n (by omega)
      simp [this]
    · have hin : i = n := by omega
      subst hin
      have : (List.range i).filterMap (fun j => (g j).map (fun e => (j, e))) = [] := by
        apply List.filterMap_eq_nil_iff.mpr
        intro j hj
        have : j ≠ i := by have := List.mem_range.mp hj; omega
        simp [hg j this]
      rw [this]
      simp only [List.filterMap_cons, List.filterMap_nil, List.nil_append]
      cases hgi : g i <;> simp

theorem newThr_single_eq_batch (cfg : Cfg) (hv : ValidCfg cfg) (pre : Option Elite) (c : Cand) :
    newThrBatch cfg pre [c] c = newThrSingle cfg pre c := by
  unfold newThrBatch newThrSingle
  cases ht : cfg.tmin with
  | none =>
    have := hv ht
    simp [this]
  | some t =>
    simp only [List.length_cons, List.length_nil, objSum, List.map_cons, List.map_nil,
      List.sum_cons, List.sum_nil]
    push_cast
    ring

theorem batchWrites_single (a : Arch) (hv : ValidCfg a.cfg) (r : Nat × Cand) (hr : r.1 < a.store.cap) :
    batchWrites a.cfg a.store.cap a.store.cells [r] =
      if status a.cfg (a.store.cells r.1) r.2 = 0 then []
      else [(r.1, r.2.withThr (newThrSingle a.cfg (a.store.cells r.1) r.2))] := by
  unfold batchWrites
  simp only
  rw [filterMap_range_single _ _ r.1 hr]
  · unfold cellWrite
    rw [cellAcc_accRows, rowsTo_single]
    simp only [if_true]
    by_cases hc : canInsert a.cfg (a.store.cells r.1) r.2 = true
    · have hs : status a.cfg (a.store.cells r.1) r.2 ≠ 0 := (status_ne_zero_iff _ _ _).mpr hc
      simp [hc, hs, argmaxFirst, newThr_single_eq_batch a.cfg hv]
    · have hs : status a.cfg (a.store.cells r.1) r.2 = 0 := by
        by_contra h; exact hc ((status_ne_zero_iff _ _ _).mp h)
      simp [hc, hs, argmaxFirst]
  · intro j hj
    unfold cellWrite
    rw [cellAcc_accRows, rowsTo_single]
    have : ¬ r.1 = j := fun h => hj h.symm
    simp [this, argmaxFirst]

/-- T02.4 `single_eq_batch_one` : `add_single` and `add` on a batch of one yield the same
archive (contents, order, statistics) and the same feedback. -/
theorem single_eq_batch_one (a : Arch) (hv : ValidCfg a.cfg) (r : Nat × Cand) (hr : r.1 < a.store.cap) :
    (a.addSingle r).1 = (a.addBatch [r]).1 ∧ [(a.addSingle r).2] = (a.addBatch [r]).2 := by
  constructor
  · unfold addSingle addBatch
    simp only
    rw [batchWrites_single a hv r hr]
  · rfl

/-! ### non-vacuity -/

def demo : Arch := ((Arch.new ⟨1, none, 0⟩ 4).addBatch [(1, ⟨10, 3, []⟩)]).1

/-- a concrete batch: two candidates aimed at the occupied cell 1 (one equal to the threshold,
one above), one at the empty cell 2 — judged against the pre-call state -/
theorem nonvacuous :
    (demo.addBatch [(1, ⟨11, 3, []⟩), (1, ⟨12, 5, []⟩), (2, ⟨13, -1, []⟩), (1, ⟨14, 4, []⟩)]).2
      = [(0, 0), (1, 2), (2, -1), (1, 1)] ∧
    ((demo.addBatch [(1, ⟨11, 3, []⟩), (1, ⟨12, 5, []⟩), (2, ⟨13, -1, []⟩), (1, ⟨14, 4, []⟩)]).1.cellOf 1).map (·.tok)
      = some 12 := by
  decide +kernel

end Pyribs.C02
