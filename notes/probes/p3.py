import numpy as np, warnings
from ribs.archives import GridArchive, CVTArchive, SlidingBoundariesArchive, ProximityArchive
warnings.simplefilter("ignore")
print("== D6 SBA buffer pollution by rejected call")
def mk(): return SlidingBoundariesArchive(solution_dim=1, dims=[2], ranges=[(0,1)], remap_frequency=3, buffer_capacity=10, extra_fields={"foo": ((), np.float64)})
a=mk(); b=mk()
for arch in (a,b):
    arch.add_single([1.],1.0,[0.2],foo=1.0)
try:
    a.add_single([7.],7.0,[0.9])   # missing extra field -> rejected
except Exception as e: print("rejected:", type(e).__name__)
print("a len", len(a), "b len", len(b), "a total", a._total_num_sol, "b total", b._total_num_sol, "a buf", a._buffer.size, "b buf", b._buffer.size)
for arch,name in ((a,'a'),(b,'b')):
    try:
        arch.add_single([2.],2.0,[0.4],foo=2.0)
        arch.add_single([3.],3.0,[0.6],foo=3.0)
        print(name, "boundaries", arch.boundaries, "objs", sorted(arch.data("objective").tolist()))
    except Exception as e:
        print(name, "later valid add raised", type(e).__name__, e)

print("== D7 SBA aliasing: caller mutates solution after add")
a = SlidingBoundariesArchive(solution_dim=2, dims=[2], ranges=[(0,1)], remap_frequency=3, buffer_capacity=10)
sol = np.array([1.,1.]); meas=np.array([0.2])
a.add_single(sol, 1.0, meas)
sol[:] = 99.; meas[:] = 0.9
a.add_single(np.array([2.,2.]), 0.5, np.array([0.7]))
a.add_single(np.array([3.,3.]), 0.1, np.array([0.75]))  # remap
print(a.data("solution"), a.data("measures"), a.boundaries)

print("== D8 SBA remap uses stale bounds")
a = SlidingBoundariesArchive(solution_dim=1, dims=[4], ranges=[(0,1)], remap_frequency=4, buffer_capacity=10)
ms=[5.0,6.0,7.0,8.0]
for i,m in enumerate(ms):
    a.add_single([float(i)], float(i), [m])
print("boundaries", a.boundaries, "bounds", a.lower_bounds, a.upper_bounds)
d=a.data()
print("stored idx", d["index"], "measures", d["measures"].ravel(), "index_of(own measures)", a.index_of(d["measures"]))
occ, r = a.retrieve(d["measures"])
print("retrieve own: occupied", occ, "obj", r["objective"], "vs", d["objective"])
