import PyribsModel.Alias
/-!
# C12 — no aliasing: caller arrays are never mutated or retained, outputs are copies

* T12.1 `soundness` : monitored execution of an accepted program on ANY heap, with ANY data
  function, leaves every caller region bit-identical, leaves nothing stored in `self` that
  reaches a caller region, and hands out only read-only values or regions `self` cannot reach.
  `monitor_total` : the verdict of the monitor does not depend on array contents at all, so
  an accepted program runs to completion on every heap.
* T12.2 `entries_accepted` (+ one named theorem per entry point): every transcribed entry
  point is accepted for every combination of its branch bits (`decide`);
  `negatives_rejected` (+ one per defect): the transcriptions of the current defective code
  (D7, D10, D15, D19, D20) and of the listed mutants are rejected.
  `entry_safe` combines T12.1 and T12.2.
* T12.3 `read_paths_agree` : dict / tuple / single-field / pandas (`get_field`, `iterelites`)
  views and iteration are all `map`s over the same `olist` order of the same rows.
-/
namespace Pyribs.C12
open Pyribs Pyribs.Alias

/-! ## T12.1 soundness of the monitor -/

/-- well-formedness of a monitor state -/
structure WF (c : Ctl) : Prop where
  nextFresh : ∀ r, c.next ≤ r → c.own r ≠ .caller
  envBound  : ∀ x v, c.env x = some v → v.reg < c.next
  selfInt   : ∀ f v, c.self f = some v → c.own v.reg = .internal ∧ v.reg < c.next
  storedInt : ∀ v, v ∈ c.stored → c.own v.reg = .internal ∧ v.reg < c.next

/-- the invariant of a run started in `(c0, h0)` -/
structure Safe {κ} (c0 : Ctl) (h0 : Nat → κ) (c : Ctl) (h : Nat → κ) : Prop where
  wf : WF c
  callerFixed : ∀ r, c0.own r = .caller → c.own r = .caller ∧ h r = h0 r

theorem safe_bind {κ} {c0 : Ctl} {h0 h : Nat → κ} {c : Ctl} (hs : Safe c0 h0 c h)
    (x : Nat) (v : Val) (hv : v.reg < c.next) : Safe c0 h0 (c.bind x v) h := by
  refine ⟨⟨hs.wf.nextFresh, ?_, hs.wf.selfInt, hs.wf.storedInt⟩, hs.callerFixed⟩
  intro y v' hy
  simp only [Ctl.bind, upd] at hy
  split at hy
  · simp only [Option.some.injEq] at hy; subst hy; exact hv
  · exact hs.wf.envBound y v' hy

theorem safe_alloc {κ} {c0 : Ctl} {h0 h : Nat → κ} {c : Ctl} (hs : Safe c0 h0 c h)
    (x : Nat) (k : κ) : Safe c0 h0 (c.alloc x) (upd h c.next k) := by
  have hnc : ∀ r, c0.own r = .caller → r ≠ c.next := by
    intro r hr e
    exact hs.wf.nextFresh r (by omega) (hs.callerFixed r hr).1
  refine ⟨⟨?_, ?_, ?_, ?_⟩, ?_⟩
  · intro r hr
    simp only [Ctl.alloc, upd] at hr ⊢
    split
    · simp
    · exact hs.wf.nextFresh r (by omega)
  · intro y v hy
    simp only [Ctl.alloc, upd] at hy ⊢
    split at hy
    · simp only [Option.some.injEq] at hy; subst hy; simp
    · have := hs.wf.envBound y v hy; omega
  · intro f v hf
    have := hs.wf.selfInt f v hf
    simp only [Ctl.alloc, upd]
    have hne : v.reg ≠ c.next := by omega
    simp [hne, this.1]; omega
  · intro v hv
    have := hs.wf.storedInt v hv
    simp only [Ctl.alloc, upd]
    have hne : v.reg ≠ c.next := by omega
    simp [hne, this.1]; omega
  · intro r hr
    have hne := hnc r hr
    simp [Ctl.alloc, upd, hne, hs.callerFixed r hr]

theorem step_safe {κ} (D : Data κ) {c0 : Ctl} {h0 h : Nat → κ} {c c' : Ctl} {e : Eff} (p : Stmt)
    (hs : Safe c0 h0 c h) (hstep : c.step p = .ok (c', e)) : Safe c0 h0 c' (applyEff D h e) := by
  cases p with
  | asarray x y cp =>
    simp only [Ctl.step] at hstep
    split at hstep
    · cases hstep
    · rename_i v hv
      split at hstep
      · cases hstep; exact safe_alloc hs x _
      · cases hstep; exact safe_bind hs x v (hs.wf.envBound y v hv)
  | view x y =>
    simp only [Ctl.step] at hstep
    split at hstep
    · cases hstep
    · rename_i v hv
      cases hstep; exact safe_bind hs x v (hs.wf.envBound y v hv)
  | ro x y =>
    simp only [Ctl.step] at hstep
    split at hstep
    · cases hstep
    · rename_i v hv
      cases hstep; exact safe_bind hs x ⟨v.reg, false⟩ (hs.wf.envBound y v hv)
  | fancy x y =>
    simp only [Ctl.step] at hstep
    split at hstep
    · cases hstep
    · cases hstep; exact safe_alloc hs x _
  | copy x y =>
    simp only [Ctl.step] at hstep
    split at hstep
    · cases hstep
    · cases hstep; exact safe_alloc hs x _
  | arith x ys =>
    simp only [Ctl.step] at hstep
    split at hstep
    · cases hstep
    · cases hstep; exact safe_alloc hs x _
  | new x =>
    simp only [Ctl.step] at hstep
    cases hstep; exact safe_alloc hs x _
  | write x ys =>
    simp only [Ctl.step] at hstep
    split at hstep
    · cases hstep
    · rename_i vx hvx
      split at hstep
      · cases hstep
      · split at hstep
        · cases hstep
        · rename_i hnc
          split at hstep
          · cases hstep
          · cases hstep
            refine ⟨hs.wf, ?_⟩
            intro r hr
            have hcf := hs.callerFixed r hr
            have hne : r ≠ vx.reg := by intro e; subst e; exact hnc hcf.1
            simp [applyEff, upd, hne, hcf]
  | store f x =>
    simp only [Ctl.step] at hstep
    split at hstep
    · cases hstep
    · rename_i v hv
      split at hstep
      · cases hstep
      · rename_i hnc
        cases hstep
        have hvb := hs.wf.envBound x v hv
        refine ⟨⟨?_, hs.wf.envBound, ?_, ?_⟩, ?_⟩
        · intro r hr
          simp only [upd]
          split
          · simp
          · exact hs.wf.nextFresh r hr
        · intro f' v' hf'
          simp only [upd] at hf' ⊢
          split at hf'
          · simp only [Option.some.injEq] at hf'; subst hf'; simp [hvb]
          · have := hs.wf.selfInt f' v' hf'
            refine ⟨?_, this.2⟩
            split
            · rfl
            · exact this.1
        · intro v' hv'
          simp only [List.mem_cons] at hv'
          simp only [upd]
          rcases hv' with rfl | hv'
          · simp [hvb]
          · have := hs.wf.storedInt v' hv'
            refine ⟨?_, this.2⟩
            split
            · rfl
            · exact this.1
        · intro r hr
          have hcf := hs.callerFixed r hr
          have hne : r ≠ v.reg := by intro e; subst e; exact hnc hcf.1
          simp [applyEff, upd, hne, hcf]
  | load x f =>
    simp only [Ctl.step] at hstep
    split at hstep
    · cases hstep
    · rename_i v hv
      cases hstep; exact safe_bind hs x v (hs.wf.selfInt f v hv).2
  | ret x =>
    simp only [Ctl.step] at hstep
    split at hstep
    · cases hstep
    · cases hstep
      exact ⟨⟨hs.wf.nextFresh, hs.wf.envBound, hs.wf.selfInt, hs.wf.storedInt⟩, hs.callerFixed⟩

theorem runH_safe {κ} (D : Data κ) {c0 : Ctl} {h0 : Nat → κ} (ps : List Stmt) :
    ∀ {c c' : Ctl} {h h' : Nat → κ}, Safe c0 h0 c h → runH D (c, h) ps = .ok (c', h') →
      Safe c0 h0 c' h' := by
  induction ps with
  | nil => intro c c' h h' hs hr; simp only [runH] at hr; cases hr; exact hs
  | cons p ps ih =>
    intro c c' h h' hs hr
    simp only [runH, stepH] at hr
    split at hr
    · cases hr
    · rename_i s' hs'
      split at hs'
      · cases hs'
      · rename_i c1 e1 hstep
        cases hs'
        exact ih (step_safe D p hs hstep) hr

/-- the heap-carrying run and the monitor-only run make the same decisions -/
theorem runH_fst {κ} (D : Data κ) (ps : List Stmt) :
    ∀ (c : Ctl) (h : Nat → κ),
      (match runH D (c, h) ps with | .ok s => Except.ok s.1 | .error e => .error e) = c.run ps := by
  induction ps with
  | nil => intro c h; simp [runH, Ctl.run]
  | cons p ps ih =>
    intro c h
    simp only [runH, stepH, Ctl.run]
    cases hstep : c.step p with
    | error e => simp
    | ok r => obtain ⟨c1, e1⟩ := r; simpa using ih c1 (applyEff D h e1)

/-- **the monitor never reads array data**: if the monitor accepts a program, the program runs to
completion on every heap with every data function, reaching exactly the monitor's final state. -/
theorem monitor_total {κ} (D : Data κ) (ps : List Stmt) (c c' : Ctl) (h : Nat → κ)
    (hrun : c.run ps = .ok c') : ∃ h', runH D (c, h) ps = .ok (c', h') := by
  have := runH_fst D ps c h
  rw [hrun] at this
  cases hr : runH D (c, h) ps with
  | error e => rw [hr] at this; cases this
  | ok s => rw [hr] at this; cases this; exact ⟨s.2, rfl⟩

theorem retCheck_ok (c : Ctl) : ∀ (l : List (Nat × Val)), c.retCheck l = .ok () →
    ∀ x v, (x, v) ∈ l → v.w = false ∨ c.own v.reg ≠ .internal := by
  intro l
  induction l with
  | nil => intro _ x v hm; cases hm
  | cons a l ih =>
    intro hc x v hm
    obtain ⟨x', v'⟩ := a
    simp only [Ctl.retCheck] at hc
    split at hc
    · cases hc
    · rename_i hn
      simp only [List.mem_cons, Prod.mk.injEq] at hm
      rcases hm with ⟨rfl, rfl⟩ | hm
      · cases hw : v.w with
        | false => exact Or.inl rfl
        | true => exact Or.inr (fun hi => hn ⟨hw, hi⟩)
      · exact ih hc x v hm

/-- **T12.1 soundness.**  Let a program be accepted by the monitor from a well-formed state `c0`
(`c0.exec ps = ok c'`).  Then on ANY heap `h0` over ANY content type with ANY data function the
program runs to completion, and in the final state
1. every caller region is still a caller region and holds bit-identical contents;
2. nothing kept by `self` (fields, and every value ever stored in a container) lies in a caller
   region: it is internal;
3. every value handed to the caller is read-only or lies in a region that is not internal, and
4. such a non-internal region is unreachable from `self` (it is fresh, or the caller's own). -/
theorem soundness {κ} (D : Data κ) (c0 c' : Ctl) (h0 : Nat → κ) (ps : List Stmt)
    (hwf : WF c0) (hacc : c0.exec ps = .ok c') :
    ∃ h', runH D (c0, h0) ps = .ok (c', h') ∧
      (∀ r, c0.own r = .caller → c'.own r = .caller ∧ h' r = h0 r) ∧
      (∀ v, (v ∈ c'.stored ∨ ∃ f, c'.self f = some v) → c'.own v.reg = .internal) ∧
      (∀ x v, (x, v) ∈ c'.rets → v.w = false ∨ c'.own v.reg ≠ .internal) ∧
      (∀ x v, (x, v) ∈ c'.rets → c'.own v.reg ≠ .internal →
        ∀ u, (u ∈ c'.stored ∨ ∃ f, c'.self f = some u) → u.reg ≠ v.reg) := by
  simp only [Ctl.exec] at hacc
  split at hacc
  · cases hacc
  · rename_i c1 hrun
    split at hacc
    · cases hacc
    · rename_i hchk
      cases hacc
      obtain ⟨h', hH⟩ := monitor_total D ps c0 c' h0 hrun
      have hs : Safe c0 h0 c' h' :=
        runH_safe D ps ⟨hwf, fun r hr => ⟨hr, rfl⟩⟩ hH
      have hint : ∀ v, (v ∈ c'.stored ∨ ∃ f, c'.self f = some v) → c'.own v.reg = .internal := by
        intro v hv
        rcases hv with hv | ⟨f, hf⟩
        · exact (hs.wf.storedInt v hv).1
        · exact (hs.wf.selfInt f v hf).1
      refine ⟨h', hH, hs.callerFixed, hint, ?_, ?_⟩
      · intro x v hm
        exact retCheck_ok c' _ hchk x v (by simpa using hm)
      · intro x v _ hni u hu e
        exact hni (e ▸ hint u hu)

/-- the initial state of every entry point is well-formed -/
theorem init_wf (args : List Own) (nself : Nat) : WF (Ctl.init args nself) := by
  refine ⟨?_, ?_, ?_, ?_⟩
  · intro r hr
    simp only [Ctl.init] at hr ⊢
    have : args[r]? = none := by simp; omega
    rw [this]
    simp only
    split
    · omega
    · simp
  · intro x v hx
    simp only [Ctl.init] at hx ⊢
    split at hx
    · simp only [Option.some.injEq] at hx; subst hx; simp; omega
    · cases hx
  · intro f v hf
    simp only [Ctl.init] at hf ⊢
    split at hf
    · simp only [Option.some.injEq] at hf; subst hf
      have : args[args.length + f]? = none := by simp
      simp only [this]
      refine ⟨?_, by omega⟩
      split
      · rfl
      · omega
    · cases hf
  · intro v hv; simp [Ctl.init] at hv

/-! ## T12.2 every transcribed entry point is accepted, in every branch

The monitor is evaluated by the kernel (`decide +kernel`: definitional unfolding in the kernel,
no compiler, no extra axiom).  One evaluation per branch combination covers every array
content and shape (`monitor_total`). -/

theorem mem_allBits : ∀ (n : Nat) (bits : List Bool), bits.length = n → bits ∈ allBits n := by
  intro n
  induction n with
  | zero => intro bits h; simp [allBits, List.length_eq_zero_iff.mp h]
  | succ n ih =>
    intro bits h
    cases bits with
    | nil => simp at h
    | cons b bs =>
      have hb := ih bs (by simpa using h)
      cases b <;> simp [allBits, hb]

theorem accepts_of_all (E : Entry) (h : E.acceptedAll = true) :
    ∀ bits : List Bool, bits.length = E.nbits → E.accepts bits = true := by
  intro bits hb
  exact (List.all_eq_true.mp h) bits (mem_allBits _ bits hb)

theorem all_StoreAdd : eStoreAdd.acceptedAll = true := by decide +kernel
theorem all_StoreRetrieve : eStoreRetrieve.acceptedAll = true := by decide +kernel
theorem all_StoreData : eStoreData.acceptedAll = true := by decide +kernel
theorem all_StoreIter : eStoreIter.acceptedAll = true := by decide +kernel
theorem all_StoreRaw : eStoreRaw.acceptedAll = true := by decide +kernel
theorem all_XfBatch : eXfBatch.acceptedAll = true := by decide +kernel
theorem all_XfSingle : eXfSingle.acceptedAll = true := by decide +kernel
theorem all_XfObjSum : eXfObjSum.acceptedAll = true := by decide +kernel
theorem all_XfBestIdx : eXfBestIdx.acceptedAll = true := by decide +kernel
theorem all_ValidateBatch : eValidateBatch.acceptedAll = true := by decide +kernel
theorem all_ValidateSingle : eValidateSingle.acceptedAll = true := by decide +kernel
theorem all_Add : eAdd.acceptedAll = true := by decide +kernel
theorem all_AddSingle : eAddSingle.acceptedAll = true := by decide +kernel
theorem all_Retrieve : eRetrieve.acceptedAll = true := by decide +kernel
theorem all_RetrieveSingle : eRetrieveSingle.acceptedAll = true := by decide +kernel
theorem all_SampleElites : eSampleElites.acceptedAll = true := by decide +kernel
theorem all_BestElite : eBestElite.acceptedAll = true := by decide +kernel
theorem all_Data : eData.acceptedAll = true := by decide +kernel
theorem all_Iter : eIter.acceptedAll = true := by decide +kernel
theorem all_Cqd : eCqd.acceptedAll = true := by decide +kernel
theorem all_BufferAdd : eBufferAdd.acceptedAll = true := by decide +kernel
theorem all_SbaAddSingle : eSbaAddSingle.acceptedAll = true := by decide +kernel
theorem all_SbaAdd : eSbaAdd.acceptedAll = true := by decide +kernel
theorem all_ProxAdd : eProxAdd.acceptedAll = true := by decide +kernel
theorem all_SchedTell : eSchedTell.acceptedAll = true := by decide +kernel
theorem all_SchedTellDqd : eSchedTellDqd.acceptedAll = true := by decide +kernel
theorem all_BanditTell : eBanditTell.acceptedAll = true := by decide +kernel
theorem all_EsTell : eEsTell.acceptedAll = true := by decide +kernel
theorem all_GaTell : eGaTell.acceptedAll = true := by decide +kernel
theorem all_GaTellDqd : eGaTellDqd.acceptedAll = true := by decide +kernel
theorem all_GoTellDqd : eGoTellDqd.acceptedAll = true := by decide +kernel
theorem all_AdamStep : eAdamStep.acceptedAll = true := by decide +kernel
theorem all_AscentStep : eAscentStep.acceptedAll = true := by decide +kernel
theorem all_ParallelAxes : eParallelAxes.acceptedAll = true := by decide +kernel
theorem all_HeatmapDf : eHeatmapDf.acceptedAll = true := by decide +kernel
theorem all_FromRaw : eFromRaw.acceptedAll = true := by decide +kernel
theorem all_CvtInit : eCvtInit.acceptedAll = true := by decide +kernel
theorem all_GridInit : eGridInit.acceptedAll = true := by decide +kernel
theorem all_EmitterInit : eEmitterInit.acceptedAll = true := by decide +kernel
theorem all_OptInit : eOptInit.acceptedAll = true := by decide +kernel

/-- `eStoreAdd` is accepted for both branches of every `asarray` and every code branch -/
theorem accepted_StoreAdd : ∀ bits : List Bool, bits.length = eStoreAdd.nbits → eStoreAdd.accepts bits = true :=
  accepts_of_all _ all_StoreAdd
/-- `eStoreRetrieve` is accepted for both branches of every `asarray` and every code branch -/
theorem accepted_StoreRetrieve : ∀ bits : List Bool, bits.length = eStoreRetrieve.nbits → eStoreRetrieve.accepts bits = true :=
  accepts_of_all _ all_StoreRetrieve
/-- `eStoreData` is accepted for both branches of every `asarray` and every code branch -/
theorem accepted_StoreData : ∀ bits : List Bool, bits.length = eStoreData.nbits → eStoreData.accepts bits = true :=
  accepts_of_all _ all_StoreData
/-- `eStoreIter` is accepted for both branches of every `asarray` and every code branch -/
theorem accepted_StoreIter : ∀ bits : List Bool, bits.length = eStoreIter.nbits → eStoreIter.accepts bits = true :=
  accepts_of_all _ all_StoreIter
/-- `eStoreRaw` is accepted for both branches of every `asarray` and every code branch -/
theorem accepted_StoreRaw : ∀ bits : List Bool, bits.length = eStoreRaw.nbits → eStoreRaw.accepts bits = true :=
  accepts_of_all _ all_StoreRaw
/-- `eXfBatch` is accepted for both branches of every `asarray` and every code branch -/
theorem accepted_XfBatch : ∀ bits : List Bool, bits.length = eXfBatch.nbits → eXfBatch.accepts bits = true :=
  accepts_of_all _ all_XfBatch
/-- `eXfSingle` is accepted for both branches of every `asarray` and every code branch -/
theorem accepted_XfSingle : ∀ bits : List Bool, bits.length = eXfSingle.nbits → eXfSingle.accepts bits = true :=
  accepts_of_all _ all_XfSingle
/-- `eXfObjSum` is accepted for both branches of every `asarray` and every code branch -/
theorem accepted_XfObjSum : ∀ bits : List Bool, bits.length = eXfObjSum.nbits → eXfObjSum.accepts bits = true :=
  accepts_of_all _ all_XfObjSum
/-- `eXfBestIdx` is accepted for both branches of every `asarray` and every code branch -/
theorem accepted_XfBestIdx : ∀ bits : List Bool, bits.length = eXfBestIdx.nbits → eXfBestIdx.accepts bits = true :=
  accepts_of_all _ all_XfBestIdx
/-- `eValidateBatch` is accepted for both branches of every `asarray` and every code branch -/
theorem accepted_ValidateBatch : ∀ bits : List Bool, bits.length = eValidateBatch.nbits → eValidateBatch.accepts bits = true :=
  accepts_of_all _ all_ValidateBatch
/-- `eValidateSingle` is accepted for both branches of every `asarray` and every code branch -/
theorem accepted_ValidateSingle : ∀ bits : List Bool, bits.length = eValidateSingle.nbits → eValidateSingle.accepts bits = true :=
  accepts_of_all _ all_ValidateSingle
/-- `eAdd` is accepted for both branches of every `asarray` and every code branch -/
theorem accepted_Add : ∀ bits : List Bool, bits.length = eAdd.nbits → eAdd.accepts bits = true :=
  accepts_of_all _ all_Add
/-- `eAddSingle` is accepted for both branches of every `asarray` and every code branch -/
theorem accepted_AddSingle : ∀ bits : List Bool, bits.length = eAddSingle.nbits → eAddSingle.accepts bits = true :=
  accepts_of_all _ all_AddSingle
/-- `eRetrieve` is accepted for both branches of every `asarray` and every code branch -/
theorem accepted_Retrieve : ∀ bits : List Bool, bits.length = eRetrieve.nbits → eRetrieve.accepts bits = true :=
  accepts_of_all _ all_Retrieve
/-- `eRetrieveSingle` is accepted for both branches of every `asarray` and every code branch -/
theorem accepted_RetrieveSingle : ∀ bits : List Bool, bits.length = eRetrieveSingle.nbits → eRetrieveSingle.accepts bits = true :=
  accepts_of_all _ all_RetrieveSingle
/-- `eSampleElites` is accepted for both branches of every `asarray` and every code branch -/
theorem accepted_SampleElites : ∀ bits : List Bool, bits.length = eSampleElites.nbits → eSampleElites.accepts bits = true :=
  accepts_of_all _ all_SampleElites
/-- `eBestElite` is accepted for both branches of every `asarray` and every code branch -/
theorem accepted_BestElite : ∀ bits : List Bool, bits.length = eBestElite.nbits → eBestElite.accepts bits = true :=
  accepts_of_all _ all_BestElite
/-- `eData` is accepted for both branches of every `asarray` and every code branch -/
theorem accepted_Data : ∀ bits : List Bool, bits.length = eData.nbits → eData.accepts bits = true :=
  accepts_of_all _ all_Data
/-- `eIter` is accepted for both branches of every `asarray` and every code branch -/
theorem accepted_Iter : ∀ bits : List Bool, bits.length = eIter.nbits → eIter.accepts bits = true :=
  accepts_of_all _ all_Iter
/-- `eCqd` is accepted for both branches of every `asarray` and every code branch -/
theorem accepted_Cqd : ∀ bits : List Bool, bits.length = eCqd.nbits → eCqd.accepts bits = true :=
  accepts_of_all _ all_Cqd
/-- `eBufferAdd` is accepted for both branches of every `asarray` and every code branch -/
theorem accepted_BufferAdd : ∀ bits : List Bool, bits.length = eBufferAdd.nbits → eBufferAdd.accepts bits = true :=
  accepts_of_all _ all_BufferAdd
/-- `eSbaAddSingle` is accepted for both branches of every `asarray` and every code branch -/
theorem accepted_SbaAddSingle : ∀ bits : List Bool, bits.length = eSbaAddSingle.nbits → eSbaAddSingle.accepts bits = true :=
  accepts_of_all _ all_SbaAddSingle
/-- `eSbaAdd` is accepted for both branches of every `asarray` and every code branch -/
theorem accepted_SbaAdd : ∀ bits : List Bool, bits.length = eSbaAdd.nbits → eSbaAdd.accepts bits = true :=
  accepts_of_all _ all_SbaAdd
/-- `eProxAdd` is accepted for both branches of every `asarray` and every code branch -/
theorem accepted_ProxAdd : ∀ bits : List Bool, bits.length = eProxAdd.nbits → eProxAdd.accepts bits = true :=
  accepts_of_all _ all_ProxAdd
/-- `eSchedTell` is accepted for both branches of every `asarray` and every code branch -/
theorem accepted_SchedTell : ∀ bits : List Bool, bits.length = eSchedTell.nbits → eSchedTell.accepts bits = true :=
  accepts_of_all _ all_SchedTell
/-- `eSchedTellDqd` is accepted for both branches of every `asarray` and every code branch -/
theorem accepted_SchedTellDqd : ∀ bits : List Bool, bits.length = eSchedTellDqd.nbits → eSchedTellDqd.accepts bits = true :=
  accepts_of_all _ all_SchedTellDqd
/-- `eBanditTell` is accepted for both branches of every `asarray` and every code branch -/
theorem accepted_BanditTell : ∀ bits : List Bool, bits.length = eBanditTell.nbits → eBanditTell.accepts bits = true :=
  accepts_of_all _ all_BanditTell
/-- `eEsTell` is accepted for both branches of every `asarray` and every code branch -/
theorem accepted_EsTell : ∀ bits : List Bool, bits.length = eEsTell.nbits → eEsTell.accepts bits = true :=
  accepts_of_all _ all_EsTell
/-- `eGaTell` is accepted for both branches of every `asarray` and every code branch -/
theorem accepted_GaTell : ∀ bits : List Bool, bits.length = eGaTell.nbits → eGaTell.accepts bits = true :=
  accepts_of_all _ all_GaTell
/-- `eGaTellDqd` is accepted for both branches of every `asarray` and every code branch -/
theorem accepted_GaTellDqd : ∀ bits : List Bool, bits.length = eGaTellDqd.nbits → eGaTellDqd.accepts bits = true :=
  accepts_of_all _ all_GaTellDqd
/-- `eGoTellDqd` is accepted for both branches of every `asarray` and every code branch -/
theorem accepted_GoTellDqd : ∀ bits : List Bool, bits.length = eGoTellDqd.nbits → eGoTellDqd.accepts bits = true :=
  accepts_of_all _ all_GoTellDqd
/-- `eAdamStep` is accepted for both branches of every `asarray` and every code branch -/
theorem accepted_AdamStep : ∀ bits : List Bool, bits.length = eAdamStep.nbits → eAdamStep.accepts bits = true :=
  accepts_of_all _ all_AdamStep
/-- `eAscentStep` is accepted for both branches of every `asarray` and every code branch -/
theorem accepted_AscentStep : ∀ bits : List Bool, bits.length = eAscentStep.nbits → eAscentStep.accepts bits = true :=
  accepts_of_all _ all_AscentStep
/-- `eParallelAxes` is accepted for both branches of every `asarray` and every code branch -/
theorem accepted_ParallelAxes : ∀ bits : List Bool, bits.length = eParallelAxes.nbits → eParallelAxes.accepts bits = true :=
  accepts_of_all _ all_ParallelAxes
/-- `eHeatmapDf` is accepted for both branches of every `asarray` and every code branch -/
theorem accepted_HeatmapDf : ∀ bits : List Bool, bits.length = eHeatmapDf.nbits → eHeatmapDf.accepts bits = true :=
  accepts_of_all _ all_HeatmapDf
/-- `eFromRaw` is accepted for both branches of every `asarray` and every code branch -/
theorem accepted_FromRaw : ∀ bits : List Bool, bits.length = eFromRaw.nbits → eFromRaw.accepts bits = true :=
  accepts_of_all _ all_FromRaw
/-- `eCvtInit` is accepted for both branches of every `asarray` and every code branch -/
theorem accepted_CvtInit : ∀ bits : List Bool, bits.length = eCvtInit.nbits → eCvtInit.accepts bits = true :=
  accepts_of_all _ all_CvtInit
/-- `eGridInit` is accepted for both branches of every `asarray` and every code branch -/
theorem accepted_GridInit : ∀ bits : List Bool, bits.length = eGridInit.nbits → eGridInit.accepts bits = true :=
  accepts_of_all _ all_GridInit
/-- `eEmitterInit` is accepted for both branches of every `asarray` and every code branch -/
theorem accepted_EmitterInit : ∀ bits : List Bool, bits.length = eEmitterInit.nbits → eEmitterInit.accepts bits = true :=
  accepts_of_all _ all_EmitterInit
/-- `eOptInit` is accepted for both branches of every `asarray` and every code branch -/
theorem accepted_OptInit : ∀ bits : List Bool, bits.length = eOptInit.nbits → eOptInit.accepts bits = true :=
  accepts_of_all _ all_OptInit

/-- **T12.2** all transcriptions at once -/
theorem entries_accepted : ∀ E, E ∈ entries → ∀ bits : List Bool, bits.length = E.nbits →
    E.accepts bits = true := by
  intro E hE
  simp only [entries, List.mem_cons, List.not_mem_nil, or_false] at hE
  rcases hE with rfl | rfl | rfl | rfl | rfl | rfl | rfl | rfl | rfl | rfl | rfl | rfl | rfl | rfl | rfl | rfl | rfl | rfl | rfl | rfl | rfl | rfl | rfl | rfl | rfl | rfl | rfl | rfl | rfl | rfl | rfl | rfl | rfl | rfl | rfl | rfl | rfl | rfl | rfl | rfl
  · exact accepted_StoreAdd
  · exact accepted_StoreRetrieve
  · exact accepted_StoreData
  · exact accepted_StoreIter
  · exact accepted_StoreRaw
  · exact accepted_XfBatch
  · exact accepted_XfSingle
  · exact accepted_XfObjSum
  · exact accepted_XfBestIdx
  · exact accepted_ValidateBatch
  · exact accepted_ValidateSingle
  · exact accepted_Add
  · exact accepted_AddSingle
  · exact accepted_Retrieve
  · exact accepted_RetrieveSingle
  · exact accepted_SampleElites
  · exact accepted_BestElite
  · exact accepted_Data
  · exact accepted_Iter
  · exact accepted_Cqd
  · exact accepted_BufferAdd
  · exact accepted_SbaAddSingle
  · exact accepted_SbaAdd
  · exact accepted_ProxAdd
  · exact accepted_SchedTell
  · exact accepted_SchedTellDqd
  · exact accepted_BanditTell
  · exact accepted_EsTell
  · exact accepted_GaTell
  · exact accepted_GaTellDqd
  · exact accepted_GoTellDqd
  · exact accepted_AdamStep
  · exact accepted_AscentStep
  · exact accepted_ParallelAxes
  · exact accepted_HeatmapDf
  · exact accepted_FromRaw
  · exact accepted_CvtInit
  · exact accepted_GridInit
  · exact accepted_EmitterInit
  · exact accepted_OptInit

/-- **T12.1 + T12.2 combined**: for every transcribed entry point, every branch combination, every
content type, data function and initial heap: the transcription runs to completion, caller regions
are bit-identical afterwards, nothing `self` keeps reaches caller memory, and whatever is handed
out is read-only or not internal. -/
theorem entry_safe {κ} (D : Data κ) (h0 : Nat → κ) (E : Entry) (hE : E ∈ entries)
    (bits : List Bool) (hb : bits.length = E.nbits) :
    ∃ ps c' h', E.prog bits = some ps ∧
      runH D (Ctl.init E.args E.nself, h0) ps = .ok (c', h') ∧
      (∀ r, (Ctl.init E.args E.nself).own r = .caller → c'.own r = .caller ∧ h' r = h0 r) ∧
      (∀ v, (v ∈ c'.stored ∨ ∃ f, c'.self f = some v) → c'.own v.reg = .internal) ∧
      (∀ x v, (x, v) ∈ c'.rets → v.w = false ∨ c'.own v.reg ≠ .internal) := by
  have hacc := entries_accepted E hE bits hb
  simp only [Entry.accepts, Entry.check] at hacc
  cases hp : E.prog bits with
  | none => rw [hp] at hacc; simp [isOk] at hacc
  | some ps =>
    rw [hp] at hacc
    simp only at hacc
    cases hx : (Ctl.init E.args E.nself).exec ps with
    | error e => rw [hx] at hacc; simp [isOk] at hacc
    | ok c' =>
      obtain ⟨h', h1, h2, h3, h4, _⟩ := soundness D _ c' h0 ps (init_wf _ _) hx
      exact ⟨ps, c', h', rfl, h1, h2, h3, h4⟩

theorem retCallerCheck_ok (c : Ctl) : ∀ (l : List (Nat × Val)), c.retCallerCheck l = .ok () →
    ∀ x v, (x, v) ∈ l → c.own v.reg ≠ .caller := by
  intro l
  induction l with
  | nil => intro _ x v hm; cases hm
  | cons a l ih =>
    intro hc x v hm
    obtain ⟨x', v'⟩ := a
    simp only [Ctl.retCallerCheck] at hc
    split at hc
    · cases hc
    · rename_i hn
      simp only [List.mem_cons, Prod.mk.injEq] at hm
      rcases hm with ⟨rfl, rfl⟩ | hm
      · exact hn
      · exact ih hc x v hm

/-- **outputs are copies**: a public (`strict`) entry point that is accepted hands out nothing that lies in
memory of the caller either — every output is in a region the call itself allocated, or a read-only view of
internal storage. (Internal helpers such as `validate_batch` and the transforms pass the caller's arrays on by
design and are not `strict`.) -/
theorem public_outputs_not_caller (E : Entry) (hs : E.strict = true) (bits : List Bool) (c : Ctl)
    (h : E.check bits = .ok c) : ∀ x v, (x, v) ∈ c.rets → c.own v.reg ≠ .caller := by
  simp only [Entry.check] at h
  split at h
  · cases h
  · split at h
    · cases h
    · rename_i c1 _
      rw [hs] at h
      simp only [if_true] at h
      split at h
      · cases h
      · rename_i hchk
        cases h
        intro x v hm
        exact retCallerCheck_ok c _ hchk x v (by simpa using hm)

/-! ### negative examples: the current defective code and the listed mutants are rejected -/

theorem rejected_D7 : nD7.holds = true := by decide +kernel
theorem rejected_D10 : nD10.holds = true := by decide +kernel
theorem rejected_D10b : nD10b.holds = true := by decide +kernel
theorem rejected_D15 : nD15.holds = true := by decide +kernel
theorem rejected_D19 : nD19.holds = true := by decide +kernel
theorem rejected_D20 : nD20.holds = true := by decide +kernel
theorem rejected_RetrieveSlice : nRetrieveSlice.holds = true := by decide +kernel
theorem rejected_DataField : nDataField.holds = true := by decide +kernel
theorem rejected_AdamInplace : nAdamInplace.holds = true := by decide +kernel
theorem rejected_AddKeeps : nAddKeeps.holds = true := by decide +kernel
theorem rejected_XfWritesNew : nXfWritesNew.holds = true := by decide +kernel
theorem rejected_RawWrite : nRawWrite.holds = true := by decide +kernel
theorem rejected_D38cvt : nD38cvt.holds = true := by decide +kernel
theorem rejected_D38init : nD38init.holds = true := by decide +kernel
theorem rejected_D41 : nD41.holds = true := by decide +kernel
theorem rejected_D36 : nD36.holds = true := by decide +kernel
theorem rejected_ObjAsStored : nObjAsStored.holds = true := by decide +kernel
theorem rejected_BestFromBatch : nBestFromBatch.holds = true := by decide +kernel
theorem rejected_TellDqdKeepsSolution : nTellDqdKeepsSolution.holds = true := by decide +kernel
theorem rejected_CqdNoCopy : nCqdNoCopy.holds = true := by decide +kernel

theorem negatives_rejected : ∀ n, n ∈ negatives → n.E.verdict n.bits = some n.why := by
  intro n hn
  simp only [negatives, List.mem_cons, List.not_mem_nil, or_false] at hn
  have key : ∀ m : Neg, m.holds = true → m.E.verdict m.bits = some m.why := by
    intro m hm; simpa [Neg.holds] using hm
  rcases hn with rfl | rfl | rfl | rfl | rfl | rfl | rfl | rfl | rfl | rfl | rfl | rfl | rfl | rfl | rfl | rfl | rfl | rfl | rfl | rfl
  · exact key _ rejected_D7
  · exact key _ rejected_D10
  · exact key _ rejected_D10b
  · exact key _ rejected_D15
  · exact key _ rejected_D19
  · exact key _ rejected_D20
  · exact key _ rejected_RetrieveSlice
  · exact key _ rejected_DataField
  · exact key _ rejected_AdamInplace
  · exact key _ rejected_AddKeeps
  · exact key _ rejected_XfWritesNew
  · exact key _ rejected_RawWrite
  · exact key _ rejected_D38cvt
  · exact key _ rejected_D38init
  · exact key _ rejected_D41
  · exact key _ rejected_D36
  · exact key _ rejected_ObjAsStored
  · exact key _ rejected_BestFromBatch
  · exact key _ rejected_TellDqdKeepsSolution
  · exact key _ rejected_CqdNoCopy

/-- seeded C12-7: handing out entries of object fields "as stored" is fine for numeric fields' copies and
rejected exactly in the object-field branch. -/
theorem object_entries_only_object_branch :
    nObjAsStored.E.verdict [true] = some (.retInternal 6) ∧ nObjAsStored.E.verdict [false] = none := by
  decide +kernel

/-- D10 only shows when no conversion happens: with a list / other-dtype Jacobian the very same
defective code is accepted — the reason example-based tests do not see it. -/
theorem D10_only_without_conversion :
    nD10.E.verdict [false] = some (.writeCaller 16) ∧ nD10.E.verdict [true] = none := by
  decide +kernel

/-- non-vacuity: `ArchiveBase.add` on float ndarrays (no conversion) with a stats update really has
caller regions in play (`data["solution"]` IS the caller's array), writes internal storage, keeps
the new best elite, and returns two arrays; the list of entry points is not empty. -/
theorem nonvacuous :
    (match eAdd.check [false, false, false, false, false, true] with
     | .ok c => decide (c.own 0 = .caller ∧ c.env 10 = some ⟨0, true⟩ ∧ c.stored.length = 2 ∧
                        c.rets.length = 2 ∧ c.own 65 = .internal ∧ c.own 33 = .fresh)
     | .error _ => false) = true ∧ entries.length = 40 ∧ negatives.length = 20 := by
  decide +kernel

/-! ## T12.3 all read paths present the same rows in the same order -/

namespace ReadPaths
open Pyribs.Store Pyribs.Alias.Read
variable {ρ φ : Type}

theorem single_eq (s : Store ρ) (π : ρ → φ) :
    single s π = s.data.map (fun p => p.2.map π) := by
  simp [single, column, Store.retrieve, Store.data, List.map_map, Function.comp_def]

theorem index_eq (s : Store ρ) : index s = s.data.map (·.1) := by
  simp [index, Store.data, List.map_map, Function.comp_def]

theorem iterate_eq (s : Store ρ) : ∀ (fuel p : Nat),
    iterate s fuel ⟨p, s.adds, s.clears⟩ = ((s.olist.drop p).take fuel).map (fun i => (i, s.cells i)) := by
  intro fuel
  induction fuel with
  | zero => intro p; simp [iterate]
  | succ n ih =>
    intro p
    simp only [iterate, Iter.next]
    have hn : ¬ (s.adds ≠ s.adds ∨ s.clears ≠ s.clears) := by simp
    simp only [hn, if_false]
    cases hg : s.olist[p]? with
    | none =>
      have : s.olist.drop p = [] := by
        apply List.drop_eq_nil_of_le
        exact List.getElem?_eq_none_iff.mp hg
      simp [this]
    | some i =>
      obtain ⟨hlt, hi⟩ := List.getElem?_eq_some_iff.mp hg
      have hd : s.olist.drop p = i :: s.olist.drop (p + 1) := by
        rw [← hi]; exact List.drop_eq_getElem_cons hlt
      simp only [hd, List.take_succ_cons, List.map_cons]
      rw [ih (p + 1)]

/-- iterating an unmodified store yields exactly `data()`, in order, and then stops -/
theorem iterAll_eq (s : Store ρ) : iterAll s = s.data := by
  simp only [iterAll, Store.iter, iterate_eq, List.drop_zero, Store.data, Store.len]
  rw [List.take_of_length_le (by omega)]

theorem getField_frame (s : Store ρ) (fs : List (String × (ρ → φ))) (name : String) (π : ρ → φ)
    (h : fs.find? (fun f => f.1 == name) = some (name, π)) :
    getField (frame s fs) name = some (single s π) := by
  simp only [getField, frame, dict, List.find?_map, Function.comp_def, h]
  rfl

theorem iterelites_eq (s : Store ρ) (fs : List (String × (ρ → φ))) :
    iterelites (frame s fs) s.len =
      s.data.map (fun p => fs.map (fun f => (f.1, some (p.2.map f.2)))) := by
  simp only [iterelites, frame, dict, Store.len, Store.data, List.map_map, Function.comp_def]
  apply List.ext_getElem
  · simp
  · intro k h1 h2
    simp only [List.getElem_map, List.getElem_range]
    have hk : k < s.olist.length := by simpa using h2
    apply List.map_congr_left
    intro f _
    simp [single, column, Store.retrieve, hk]

end ReadPaths

open Pyribs.Store Pyribs.Alias.Read in
/-- **T12.3 `read_paths_agree`**: with `rows = s.data` (the rows of `occupied_list`, in that
order), every read path is a `map` over `rows`:
a single field, the index column, every entry of the dict and of the tuple, `get_field` on the
frame, the rows of `iterelites`, and iteration (which yields exactly `rows` in order when the store
is not modified meanwhile, and whose entries project to the same columns). -/
theorem read_paths_agree {ρ φ : Type} (s : Store ρ) (fs : List (String × (ρ → φ))) :
    let rows := s.data
    (∀ π : ρ → φ, single s π = rows.map (fun p => p.2.map π)) ∧
    index s = rows.map (·.1) ∧
    dict s fs = fs.map (fun f => (f.1, rows.map (fun p => p.2.map f.2))) ∧
    tuple s fs = fs.map (fun f => rows.map (fun p => p.2.map f.2)) ∧
    (∀ name π, fs.find? (fun f => f.1 == name) = some (name, π) →
      getField (frame s fs) name = some (rows.map (fun p => p.2.map π))) ∧
    iterelites (frame s fs) s.len = rows.map (fun p => fs.map (fun f => (f.1, some (p.2.map f.2)))) ∧
    iterAll s = rows ∧
    (∀ π : ρ → φ, (iterAll s).map (fun e => e.2.map π) = single s π) := by
  refine ⟨ReadPaths.single_eq s, ReadPaths.index_eq s, ?_, ?_, ?_, ReadPaths.iterelites_eq s fs,
    ReadPaths.iterAll_eq s, ?_⟩
  · simp [dict, ReadPaths.single_eq]
  · simp [tuple, ReadPaths.single_eq]
  · intro name π h
    rw [ReadPaths.getField_frame s fs name π h, ReadPaths.single_eq]
  · intro π
    rw [ReadPaths.iterAll_eq, ReadPaths.single_eq]

/-- non-vacuity of T12.3: a store with three rows inserted out of index order -/
theorem read_paths_nonvacuous :
    let s : Store (Nat × Nat) := Store.rawAdd (Store.rawAdd (Store.empty 5) [(3, (30, 31)), (1, (10, 11))]) [(0, (0, 1))]
    Read.iterAll s = [(1, some (10, 11)), (3, some (30, 31)), (0, some (0, 1))] ∧
    Read.single s Prod.fst = [some 10, some 30, some 0] ∧ Read.index s = [1, 3, 0] := by
  decide

end Pyribs.C12
