/-! spike: scheduler slice partition law and mixed-radix index bijection (core Lean only) -/
def slices : Nat → List Nat → List (Nat × Nat)
  | _, [] => []
  | pos, n :: ns => (pos, pos + n) :: slices (pos + n) ns

/-- concatenating the slices handed to the emitters, in emitter order, is the identity on the batch -/
theorem slices_partition (pos : Nat) (ns : List Nat) :
    (slices pos ns).flatMap (fun p => List.range' p.1 (p.2 - p.1)) = List.range' pos ns.sum := by
  induction ns generalizing pos with
  | nil => simp [slices]
  | cons n ns ih =>
    simp only [slices, List.flatMap_cons, ih, List.sum_cons]
    rw [show pos + n - pos = n by omega, List.range'_append_1]

/-- slice i starts at the sum of the counts before it -/
theorem slices_getElem (pos : Nat) (ns : List Nat) (i : Nat) (h : i < ns.length) :
    (slices pos ns)[i]? = some (pos + (ns.take i).sum, pos + (ns.take (i+1)).sum) := by
  induction ns generalizing pos i with
  | nil => simp at h
  | cons n ns ih =>
    cases i with
    | zero => simp [slices]
    | succ i =>
      simp only [slices, List.getElem?_cons_succ, List.take_succ_cons, List.sum_cons]
      rw [ih (pos + n) i (by simpa using h)]
      simp [Nat.add_assoc]

/-! mixed radix (row-major ravel / unravel as in numpy) -/
def prod : List Nat → Nat
  | [] => 1
  | d :: ds => d * prod ds
def ravel : List Nat → List Nat → Nat
  | _ :: ds, i :: is => i * prod ds + ravel ds is
  | _, _ => 0
def unravel : List Nat → Nat → List Nat
  | [], _ => []
  | _ :: ds, n => (n / prod ds) :: unravel ds (n % prod ds)

theorem prod_pos (ds : List Nat) (h : ∀ d ∈ ds, 0 < d) : 0 < prod ds := by
  induction ds with
  | nil => simp [prod]
  | cons d ds ih =>
    simp only [prod]
    exact Nat.mul_pos (h d (by simp)) (ih fun x hx => h x (by simp [hx]))

theorem ravel_unravel (ds : List Nat) (h : ∀ d ∈ ds, 0 < d) (n : Nat) (hn : n < prod ds) :
    ravel ds (unravel ds n) = n := by
  induction ds generalizing n with
  | nil => simp [prod] at hn; simp [ravel, unravel, hn]
  | cons d ds ih =>
    have hp := prod_pos ds fun x hx => h x (by simp [hx])
    simp only [unravel, ravel]
    rw [ih (fun x hx => h x (by simp [hx])) _ (Nat.mod_lt _ hp)]
    exact Nat.div_add_mod' n _

def InRange : List Nat → List Nat → Prop
  | [], [] => True
  | d :: ds, i :: is => i < d ∧ InRange ds is
  | _, _ => False

theorem ravel_lt (ds is : List Nat) (h : InRange ds is) : ravel ds is < prod ds := by
  induction ds generalizing is with
  | nil => cases is <;> simp_all [InRange, ravel, prod]
  | cons d ds ih =>
    cases is with
    | nil => simp [InRange] at h
    | cons i is =>
      obtain ⟨h0, hr⟩ := h
      have hrest := ih is hr
      simp only [ravel, prod]
      calc i * prod ds + ravel ds is < i * prod ds + prod ds := by omega
        _ = (i + 1) * prod ds := by rw [Nat.add_mul, Nat.one_mul]
        _ ≤ d * prod ds := Nat.mul_le_mul_right _ h0

theorem unravel_ravel (ds is : List Nat) (h : InRange ds is) : unravel ds (ravel ds is) = is := by
  induction ds generalizing is with
  | nil => cases is <;> simp_all [InRange, unravel]
  | cons d ds ih =>
    cases is with
    | nil => simp [InRange] at h
    | cons i is =>
      obtain ⟨_, hr⟩ := h
      have hlt := ravel_lt ds is hr
      have hp : 0 < prod ds := Nat.lt_of_le_of_lt (Nat.zero_le _) hlt
      simp only [ravel, unravel]
      rw [Nat.mul_comm, Nat.mul_add_div hp, Nat.div_eq_of_lt hlt, Nat.mul_add_mod, Nat.mod_eq_of_lt hlt,
        ih is hr]
      simp

theorem unravel_inRange (ds : List Nat) (h : ∀ d ∈ ds, 0 < d) (n : Nat) (hn : n < prod ds) :
    InRange ds (unravel ds n) := by
  induction ds generalizing n with
  | nil => simp [InRange, unravel]
  | cons d ds ih =>
    have hp := prod_pos ds fun x hx => h x (by simp [hx])
    simp only [prod] at hn
    simp only [unravel, InRange]
    refine ⟨?_, ih (fun x hx => h x (by simp [hx])) _ (Nat.mod_lt _ hp)⟩
    rw [Nat.div_lt_iff_lt_mul hp]; exact hn
#print axioms unravel_ravel
