import PyribsModel.Emit
import Mathlib.Tactic.Linarith
import Mathlib.Algebra.Order.Field.Rat
/-!
# C08 — emitters always emit finite, in-bounds, correctly shaped and typed solutions

Theorems about `PyribsModel.Emit`, for every bound layout (including infinite bounds, `none`),
every parent / noise / draw stream, every batch size and dimension.

* T08.1 `clip_in_bounds`, `clipRow_in_bounds`, `clip_between` (clip is the nearest in-bounds point)
* T08.2 `zero_noise_exact` (+ `iso_zero_noise_exact`, `gopLine_zero_noise_exact`, `ask_zero_noise_rows_of_archive`,
        `ask_empty_x0`)
* T08.3 `perturbation_only`, `perturbation_only_coord`, `clip_cases`
* T08.4 `resample_post`
* T08.5 `dtype_is_solution_dtype`, `dtype_defect_witness`, `dtype_defect_iff`, `dtype_defect_gae_witness`
* T08.6 `gaussianOp_shape`, `isoLineOp_shape`, `emitterAsk_shape`, `emitterAsk_in_bounds`
* `parseBounds_length`, `parseBounds_none`, `parseBounds_entry`, `parseBounds_lo_none_iff`, `parseBounds_error_iff`

"Finite" is not a theorem: the model computes in ℚ, where every value is finite; finiteness of the
floating-point results is monitored by the correspondence check (see PARTIAL in `harness/props/c08.py`).
-/
namespace Pyribs.C08
open Pyribs Emit

/-! ## in-bounds predicates -/

/-- `lo ≤ y ≤ hi`, with `none` meaning −∞ / +∞ -/
def InB (lo hi : Option Rat) (y : Rat) : Prop :=
  (∀ l, lo = some l → l ≤ y) ∧ (∀ h, hi = some h → y ≤ h)

/-- the configured interval is not empty -/
def Ordered (lo hi : Option Rat) : Prop := ∀ l h, lo = some l → hi = some h → l ≤ h

/-- every coordinate of `y` is inside its bounds, and `y` has as many coordinates as there are bounds -/
def RowInB : Bounds → Row → Prop
  | [], [] => True
  | p :: b, y :: ys => InB p.1 p.2 y ∧ RowInB b ys
  | _, _ => False

def BoundsOrdered (b : Bounds) : Prop := ∀ p ∈ b, Ordered p.1 p.2

theorem inB1_iff (lo hi : Option Rat) (y : Rat) : inB1 lo hi y = true ↔ InB lo hi y := by
  cases lo <;> cases hi <;> simp [inB1, InB]

theorem inBRow_iff : ∀ (b : Bounds) (y : Row), inBRow b y = true ↔ RowInB b y
  | [], [] => by simp [inBRow, RowInB]
  | [], _ :: _ => by simp [inBRow, RowInB]
  | _ :: _, [] => by simp [inBRow, RowInB]
  | p :: b, y :: ys => by
    simp only [inBRow, Bool.and_eq_true, RowInB, inB1_iff]
    exact and_congr Iff.rfl (inBRow_iff b ys)

theorem RowInB.length : ∀ {b : Bounds} {y : Row}, RowInB b y → y.length = b.length
  | [], [], _ => rfl
  | [], _ :: _, h => by simp [RowInB] at h
  | _ :: _, [], h => by simp [RowInB] at h
  | _ :: b, _ :: ys, h => by
    simp only [RowInB] at h
    simp [RowInB.length h.2]

/-! ## T08.1 clipping lands inside the bounds -/

theorem maxLo_cases (lo : Option Rat) (x : Rat) :
    (maxLo lo x = x ∧ ∀ l, lo = some l → l ≤ x) ∨ (lo = some (maxLo lo x) ∧ x < maxLo lo x) := by
  cases lo with
  | none => left; exact ⟨rfl, by intro l h; cases h⟩
  | some l =>
    by_cases h : x < l
    · right; simp [maxLo, h]
    · left; simp only [maxLo, h, if_false]
      refine ⟨trivial, ?_⟩
      intro l' hl; cases hl; exact not_lt.mp h

theorem minHi_cases (hi : Option Rat) (y : Rat) :
    (minHi hi y = y ∧ ∀ h, hi = some h → y ≤ h) ∨ (hi = some (minHi hi y) ∧ minHi hi y < y) := by
  cases hi with
  | none => left; exact ⟨rfl, by intro l h; cases h⟩
  | some u =>
    by_cases h : u < y
    · right; simp [minHi, h]
    · left; simp only [minHi, h, if_false]
      refine ⟨trivial, ?_⟩
      intro l' hl; cases hl; exact not_lt.mp h

/-- T08.1 `clip_in_bounds` : for every `x` and every non-empty interval — bounded, one-sided or
unbounded — `np.clip` returns a point of the interval. -/
theorem clip_in_bounds (lo hi : Option Rat) (x : Rat) (h : Ordered lo hi) : InB lo hi (clip1 lo hi x) := by
  unfold clip1 InB
  rcases maxLo_cases lo x with ⟨e1, h1⟩ | ⟨e1, h1⟩ <;>
    rcases minHi_cases hi (maxLo lo x) with ⟨e2, h2⟩ | ⟨e2, h2⟩
  · rw [e2, e1]; exact ⟨h1, by rw [e1] at h2; exact h2⟩
  · constructor
    · intro l hl; exact h l _ hl e2
    · intro u hu; rw [e2] at hu; cases hu; exact le_refl _
  · constructor
    · intro l hl; rw [e2]; rw [e1] at hl; cases hl; exact le_refl _
    · intro u hu; rw [e2]; exact h2 u hu
  · constructor
    · intro l hl; exact h l _ hl e2
    · intro u hu; rw [e2] at hu; cases hu; exact le_refl _

/-- a point that is already inside is returned unchanged (no hypothesis on the interval) -/
theorem clip_of_inB (lo hi : Option Rat) (x : Rat) (h : InB lo hi x) : clip1 lo hi x = x := by
  obtain ⟨h1, h2⟩ := h
  unfold clip1
  rcases maxLo_cases lo x with ⟨e1, _⟩ | ⟨e1, h1'⟩
  · rw [e1]
    rcases minHi_cases hi x with ⟨e2, _⟩ | ⟨e2, h2'⟩
    · exact e2
    · have := h2 _ e2; linarith
  · have := h1 _ e1; linarith

/-- T08.3 (coordinate): the clipped value is the argument itself or one of the two bounds -/
theorem clip_cases (lo hi : Option Rat) (x : Rat) :
    clip1 lo hi x = x ∨ lo = some (clip1 lo hi x) ∨ hi = some (clip1 lo hi x) := by
  unfold clip1
  rcases minHi_cases hi (maxLo lo x) with ⟨e2, _⟩ | ⟨e2, _⟩
  · rw [e2]
    rcases maxLo_cases lo x with ⟨e1, _⟩ | ⟨e1, _⟩
    · left; exact e1
    · right; left; exact e1
  · right; right; exact e2

/-- T08.1 / T08.3: `clip` is the in-bounds point nearest to `x` — it lies between `x` and *every*
in-bounds point `y` (so it moves `x` towards the box and never further than needed). -/
theorem clip_between (lo hi : Option Rat) (x y : Rat) (hy : InB lo hi y) :
    (x ≤ y → x ≤ clip1 lo hi x ∧ clip1 lo hi x ≤ y) ∧ (y ≤ x → y ≤ clip1 lo hi x ∧ clip1 lo hi x ≤ x) := by
  obtain ⟨h1, h2⟩ := hy
  unfold clip1
  rcases maxLo_cases lo x with ⟨e1, g1⟩ | ⟨e1, g1⟩ <;>
    rcases minHi_cases hi (maxLo lo x) with ⟨e2, g2⟩ | ⟨e2, g2⟩
  · rw [e2, e1]
    exact ⟨fun h => ⟨le_refl _, h⟩, fun h => ⟨h, le_refl _⟩⟩
  · have hy2 := h2 _ e2
    rw [e1] at g2 hy2 ⊢
    constructor
    · intro h; linarith
    · intro h; exact ⟨hy2, le_of_lt g2⟩
  · have hy1 := h1 _ e1
    rw [e2]
    constructor
    · intro h; exact ⟨le_of_lt g1, hy1⟩
    · intro h; linarith
  · have hy1 := h1 _ e1
    have hy2 := h2 _ e2
    constructor
    · intro h; linarith
    · intro h; linarith

/-- T08.1 on rows: a clipped row is inside the bounds in every coordinate -/
theorem clipRow_in_bounds : ∀ (b : Bounds) (x : Row), BoundsOrdered b → x.length = b.length →
    RowInB b (clipRow b x)
  | [], [], _, _ => by simp [clipRow, RowInB]
  | [], _ :: _, _, h => by simp at h
  | _ :: _, [], _, h => by simp at h
  | p :: b, x :: xs, ho, hl => by
    simp only [clipRow, List.zipWith_cons_cons, RowInB]
    refine ⟨clip_in_bounds _ _ _ (ho p (by simp)), ?_⟩
    exact clipRow_in_bounds b xs (fun q hq => ho q (by simp [hq])) (by simpa using hl)

theorem clipRow_of_inB : ∀ (b : Bounds) (x : Row), RowInB b x → clipRow b x = x
  | [], [], _ => by simp [clipRow]
  | [], _ :: _, h => by simp [RowInB] at h
  | _ :: _, [], h => by simp [RowInB] at h
  | p :: b, x :: xs, h => by
    simp only [RowInB] at h
    simp only [clipRow, List.zipWith_cons_cons]
    rw [clip_of_inB _ _ _ h.1]
    have := clipRow_of_inB b xs h.2
    simp only [clipRow] at this
    rw [this]

theorem clipRow_length (b : Bounds) (x : Row) (h : x.length = b.length) : (clipRow b x).length = b.length := by
  simp [clipRow, h]

/-! ## T08.2 zero noise is exact -/

theorem addRow_zero : ∀ (p n : Row), (∀ z ∈ n, z = 0) → n.length = p.length → addRow p n = p
  | [], [], _, _ => by simp [addRow]
  | [], _ :: _, _, h => by simp at h
  | _ :: _, [], _, h => by simp at h
  | x :: p, z :: n, hz, hl => by
    have h0 : z = 0 := hz z (by simp)
    have := addRow_zero p n (fun w hw => hz w (by simp [hw])) (by simpa using hl)
    simp only [addRow] at this
    simp [addRow, h0, this]

/-- T08.2 `zero_noise_exact` : with zero noise and a parent inside the bounds, the Gaussian operator
returns the parent exactly. -/
theorem zero_noise_exact (b : Bounds) (p n : Row) (hp : RowInB b p) (hz : ∀ z ∈ n, z = 0)
    (hl : n.length = p.length) : gaussRow b p n = p := by
  unfold gaussRow
  rw [addRow_zero p n hz hl]
  exact clipRow_of_inB b p hp

theorem scaled_dir_zero : ∀ (p₂ p₁ : Row), p₂.length = p₁.length →
    (∀ z ∈ (List.zipWith (· - ·) p₂ p₁).map ((0 : Rat) * ·), z = 0) ∧
    ((List.zipWith (· - ·) p₂ p₁).map ((0 : Rat) * ·)).length = p₁.length := by
  intro p₂ p₁ h
  constructor
  · intro z hz
    simp only [List.mem_map] at hz
    obtain ⟨a, _, rfl⟩ := hz
    simp
  · simp [h]

/-- T08.2 for Iso+LineDD: zero isotropic noise and a zero line coefficient return the first parent -/
theorem iso_zero_noise_exact (b : Bounds) (p₁ p₂ iso : Row) (hp : RowInB b p₁) (hz : ∀ z ∈ iso, z = 0)
    (hl : iso.length = p₁.length) (hl₂ : p₂.length = p₁.length) : isoRow b p₁ p₂ iso 0 = p₁ := by
  unfold isoRow isoRaw
  rw [addRow_zero p₁ iso hz hl]
  obtain ⟨h1, h2⟩ := scaled_dir_zero p₂ p₁ hl₂
  rw [addRow_zero p₁ _ h1 h2]
  exact clipRow_of_inB b p₁ hp

theorem self_dir_zero (line : Rat) : ∀ (p : Row), ∀ z ∈ (List.zipWith (· - ·) p p).map (line * ·), z = 0
  | [], z, hz => by simp at hz
  | x :: xs, z, hz => by
    simp only [List.zipWith_cons_cons, List.map_cons, List.mem_cons] at hz
    rcases hz with rfl | hz
    · simp
    · exact self_dir_zero line xs z hz

theorem addRow_zero_right : ∀ (q d : Row), (∀ z ∈ d, z = 0) → q.length ≤ d.length → addRow q d = q
  | [], _, _, _ => by simp [addRow]
  | _ :: _, [], _, h => by simp at h
  | x :: q, z :: d, hz, hl => by
    have h0 : z = 0 := hz z (by simp)
    have := addRow_zero_right q d (fun w hw => hz w (by simp [hw])) (by simpa using hl)
    simp only [addRow] at this
    simp [addRow, h0, this]

/-- a zero-length direction (both parents equal — e.g. `x0` repeated on an empty archive) switches the
line term off, whatever the line draw: Iso+LineDD degenerates to the Gaussian operator -/
theorem iso_same_parent (b : Bounds) (p iso : Row) (line : Rat) :
    isoRow b p p iso line = gaussRow b p iso := by
  unfold isoRow isoRaw gaussRow
  rw [addRow_zero_right _ _ (self_dir_zero line p)]
  simp [addRow]

/-- T08.2 for the `iso_line_dd` branch of `GradientOperatorEmitter.ask_dqd` -/
theorem gopLine_zero_noise_exact (b : Bounds) (p₁ p₂ noise : Row) (hp : RowInB b p₁)
    (hz : ∀ z ∈ noise, z = 0) (hl : noise.length = p₁.length) (hl₂ : p₂.length = p₁.length) :
    gopLineRow b p₁ p₂ noise 0 = p₁ := by
  unfold gopLineRow gopLineRaw
  obtain ⟨h1, h2⟩ := scaled_dir_zero p₂ p₁ hl₂
  rw [addRow_zero p₁ _ h1 h2, addRow_zero p₁ noise hz hl]
  exact clipRow_of_inB b p₁ hp

/-! ## T08.3 the output differs from the parent only by the clipped perturbation -/

/-- T08.3 `perturbation_only` : the operator's row is the clipped sum of parent and perturbation, and
it *is* parent + perturbation whenever that point is inside the bounds. -/
theorem perturbation_only (b : Bounds) (p n : Row) :
    gaussRow b p n = clipRow b (addRow p n) ∧ (RowInB b (addRow p n) → gaussRow b p n = addRow p n) :=
  ⟨rfl, fun h => clipRow_of_inB b _ h⟩

/-- T08.3, coordinate by coordinate (for every index of the output): the coordinate is
`clip(parent + noise)`; it equals `parent + noise` where that is in bounds, and otherwise the bound
that was crossed. -/
theorem perturbation_only_coord (b : Bounds) (p n : Row) (k : Nat) (hk : k < (gaussRow b p n).length) :
    ∃ (hb : k < b.length) (hp : k < p.length) (hn : k < n.length),
      (gaussRow b p n)[k] = clip1 b[k].1 b[k].2 (p[k] + n[k]) ∧
      (InB b[k].1 b[k].2 (p[k] + n[k]) → (gaussRow b p n)[k] = p[k] + n[k]) ∧
      ((gaussRow b p n)[k] = p[k] + n[k] ∨ b[k].1 = some (gaussRow b p n)[k] ∨
        b[k].2 = some (gaussRow b p n)[k]) := by
  have hk' := hk
  simp only [gaussRow, clipRow, addRow, List.length_zipWith] at hk'
  have hb : k < b.length := by omega
  have hp : k < p.length := by omega
  have hn : k < n.length := by omega
  refine ⟨hb, hp, hn, ?_⟩
  have e : (gaussRow b p n)[k] = clip1 b[k].1 b[k].2 (p[k] + n[k]) := by
    simp [gaussRow, clipRow, addRow]
  refine ⟨e, ?_, ?_⟩
  · intro h; rw [e]; exact clip_of_inB _ _ _ h
  · rw [e]; exact clip_cases _ _ _

/-! ## T08.6 shape -/

theorem gaussRow_length (b : Bounds) (p n : Row) (hp : p.length = b.length) (hn : n.length = b.length) :
    (gaussRow b p n).length = b.length := by
  simp [gaussRow, clipRow, addRow, hp, hn]

/-- T08.6 `shape` (Gaussian operator): `(batch, dim)` in, `(batch, dim)` out -/
theorem gaussianOp_shape (b : Bounds) (P N : List Row) (batch : Nat)
    (hP : P.length = batch) (hN : N.length = batch)
    (hp : ∀ p ∈ P, p.length = b.length) (hn : ∀ n ∈ N, n.length = b.length) :
    (gaussianOp b P N).length = batch ∧ ∀ r ∈ gaussianOp b P N, r.length = b.length := by
  constructor
  · simp [gaussianOp, hP, hN]
  · intro r hr
    simp only [gaussianOp] at hr
    obtain ⟨k, hk, rfl⟩ := List.getElem_of_mem hr
    simp only [List.getElem_zipWith]
    simp only [List.length_zipWith] at hk
    exact gaussRow_length b _ _ (hp _ (List.getElem_mem _)) (hn _ (List.getElem_mem _))

theorem mem_zipWith4 {α β γ δ ε} (f : α → β → γ → δ → ε) :
    ∀ (as : List α) (bs : List β) (cs : List γ) (ds : List δ) (y : ε),
      y ∈ zipWith4 f as bs cs ds → ∃ a ∈ as, ∃ b ∈ bs, ∃ c ∈ cs, ∃ d ∈ ds, y = f a b c d
  | [], _, _, _, y => by simp [zipWith4]
  | _ :: _, [], _, _, y => by simp [zipWith4]
  | _ :: _, _ :: _, [], _, y => by simp [zipWith4]
  | _ :: _, _ :: _, _ :: _, [], y => by simp [zipWith4]
  | a :: as, b :: bs, c :: cs, d :: ds, y => by
    intro h
    simp only [zipWith4, List.mem_cons] at h
    rcases h with rfl | h
    · exact ⟨a, by simp, b, by simp, c, by simp, d, by simp, rfl⟩
    · obtain ⟨a', ha, b', hb, c', hc, d', hd, e⟩ := mem_zipWith4 f as bs cs ds y h
      exact ⟨a', by simp [ha], b', by simp [hb], c', by simp [hc], d', by simp [hd], e⟩

theorem zipWith4_length {α β γ δ ε} (f : α → β → γ → δ → ε) :
    ∀ (n : Nat) (as : List α) (bs : List β) (cs : List γ) (ds : List δ),
      as.length = n → bs.length = n → cs.length = n → ds.length = n → (zipWith4 f as bs cs ds).length = n
  | 0, [], _, _, _, _, _, _, _ => by simp [zipWith4]
  | 0, _ :: _, _, _, _, h, _, _, _ => by simp at h
  | n + 1, [], _, _, _, h, _, _, _ => by simp at h
  | n + 1, _ :: _, [], _, _, _, h, _, _ => by simp at h
  | n + 1, _ :: _, _ :: _, [], _, _, _, h, _ => by simp at h
  | n + 1, _ :: _, _ :: _, _ :: _, [], _, _, _, h => by simp at h
  | n + 1, a :: as, b :: bs, c :: cs, d :: ds, ha, hb, hc, hd => by
    simp only [zipWith4, List.length_cons]
    rw [zipWith4_length f n as bs cs ds (by simpa using ha) (by simpa using hb) (by simpa using hc)
      (by simpa using hd)]

theorem isoRow_length (b : Bounds) (p₁ p₂ iso : Row) (line : Rat) (h1 : p₁.length = b.length)
    (h2 : p₂.length = b.length) (h3 : iso.length = b.length) : (isoRow b p₁ p₂ iso line).length = b.length := by
  simp [isoRow, isoRaw, clipRow, addRow, h1, h2, h3]

theorem gopLineRow_length (b : Bounds) (p₁ p₂ noise : Row) (line : Rat) (h1 : p₁.length = b.length)
    (h2 : p₂.length = b.length) (h3 : noise.length = b.length) :
    (gopLineRow b p₁ p₂ noise line).length = b.length := by
  simp [gopLineRow, gopLineRaw, clipRow, addRow, h1, h2, h3]

/-- T08.6 `shape` (Iso+LineDD operator) -/
theorem isoLineOp_shape (b : Bounds) (P₁ P₂ I : List Row) (L : List Rat) (batch : Nat)
    (h1 : P₁.length = batch) (h2 : P₂.length = batch) (h3 : I.length = batch) (h4 : L.length = batch)
    (hp₁ : ∀ p ∈ P₁, p.length = b.length) (hp₂ : ∀ p ∈ P₂, p.length = b.length)
    (hi : ∀ n ∈ I, n.length = b.length) :
    (isoLineOp b P₁ P₂ I L).length = batch ∧ ∀ r ∈ isoLineOp b P₁ P₂ I L, r.length = b.length := by
  constructor
  · exact zipWith4_length _ batch _ _ _ _ h1 h2 h3 h4
  · intro r hr
    obtain ⟨p₁, hm1, p₂, hm2, i, hm3, l, _, rfl⟩ := mem_zipWith4 _ _ _ _ _ _ hr
    exact isoRow_length b _ _ _ _ (hp₁ _ hm1) (hp₂ _ hm2) (hi _ hm3)

theorem gopLineOp_shape (b : Bounds) (P₁ P₂ I : List Row) (L : List Rat) (batch : Nat)
    (h1 : P₁.length = batch) (h2 : P₂.length = batch) (h3 : I.length = batch) (h4 : L.length = batch)
    (hp₁ : ∀ p ∈ P₁, p.length = b.length) (hp₂ : ∀ p ∈ P₂, p.length = b.length)
    (hi : ∀ n ∈ I, n.length = b.length) :
    (gopLineOp b P₁ P₂ I L).length = batch ∧ ∀ r ∈ gopLineOp b P₁ P₂ I L, r.length = b.length := by
  constructor
  · exact zipWith4_length _ batch _ _ _ _ h1 h2 h3 h4
  · intro r hr
    obtain ⟨p₁, hm1, p₂, hm2, i, hm3, l, _, rfl⟩ := mem_zipWith4 _ _ _ _ _ _ hr
    exact gopLineRow_length b _ _ _ _ (hp₁ _ hm1) (hp₂ _ hm2) (hi _ hm3)

/-! ## the emitters' `ask`: shape, bounds and parent provenance -/

/-- a well-formed configuration: what the constructors check (`check_shape`, `check_batch_shape`,
`_process_bounds`) -/
structure WfCfg (c : Cfg) : Prop where
  bounds_len : c.bounds.length = c.dim
  x0_len     : ∀ x, c.x0 = some x → x.length = c.dim
  init_len   : ∀ I, c.init = some I → ∀ r ∈ I, r.length = c.dim
  ordered    : BoundsOrdered c.bounds

/-- the draws have the shape the operator asks its generator for -/
structure WfDraws (c : Cfg) (d : Draws) : Prop where
  noise_len  : d.noise.length = c.batch
  noise_rows : ∀ n ∈ d.noise, n.length = c.dim
  lines_len  : d.lines.length = c.batch

theorem pick_spec (archive : List Row) : ∀ (idx : List Nat) (ps : List Row), pick archive idx = .ok ps →
    ps.length = idx.length ∧ ∀ p ∈ ps, p ∈ archive
  | [], ps, h => by
    simp only [pick, List.mapM_nil] at h
    cases h
    simp
  | i :: idx, ps, h => by
    simp only [pick, List.mapM_cons] at h
    cases hi : archive[i]? with
    | none => simp [hi, bind, Except.bind] at h
    | some r =>
      cases hrest : pick archive idx with
      | error e =>
        simp only [pick] at hrest
        simp [hi, hrest, bind, Except.bind] at h
      | ok qs =>
        have := pick_spec archive idx qs hrest
        simp only [pick] at hrest
        simp only [hi, hrest, bind, Except.bind, pure, Except.pure] at h
        cases h
        refine ⟨by simp [this.1], ?_⟩
        intro p hp
        simp only [List.mem_cons] at hp
        rcases hp with rfl | hp
        · exact List.mem_of_getElem? hi
        · exact this.2 p hp

/-- every row the emitter can hand to its operator while the archive is non-empty is a row of the
archive **as it is at the time of the call** -/
theorem pick_rows_of_archive (archive : List Row) (idx : List Nat) (ps : List Row)
    (h : pick archive idx = .ok ps) : ∀ p ∈ ps, p ∈ archive := (pick_spec archive idx ps h).2

theorem mem_replicate_eq {α} {n : Nat} {a x : α} (h : x ∈ List.replicate n a) : x = a :=
  (List.mem_replicate.mp h).2

/-- Parents used by `emitterAsk` (spec side): `x0` repeated on an empty archive, otherwise rows of the
archive.  Returns the rows each output row was derived from. -/
theorem emitterAsk_gaussian_spec (c : Cfg) (archive : List Row) (d : Draws) (rows : List Row)
    (hk : c.kind = .gaussian) (h : emitterAsk c archive d = .ok rows) :
    (archive = [] ∧ ∃ I, c.init = some I ∧ rows = if c.dqd then [] else clipRows c.bounds I) ∨
    (archive = [] ∧ c.init = none ∧ ∃ x, c.x0 = some x ∧
      rows = gaussianOp c.bounds (List.replicate c.batch x) d.noise) ∨
    (archive ≠ [] ∧ ∃ ps, ps.length = c.batch ∧ (∀ p ∈ ps, p ∈ archive) ∧
      rows = gaussianOp c.bounds ps d.noise) := by
  unfold emitterAsk at h
  by_cases he : archive.isEmpty = true
  · have ha : archive = [] := List.isEmpty_iff.mp he
    rw [if_pos he] at h
    cases hi : c.init with
    | some I =>
      left
      rw [hi] at h
      simp only [Except.ok.injEq] at h
      exact ⟨ha, I, rfl, h.symm⟩
    | none =>
      right; left
      rw [hi] at h
      cases hx : c.x0 with
      | none => rw [hx] at h; simp at h
      | some x =>
        rw [hx] at h
        simp only [hk, Except.ok.injEq] at h
        exact ⟨ha, rfl, x, rfl, h.symm⟩
  · right; right
    have ha : archive ≠ [] := fun e => he (by simp [e])
    rw [if_neg he] at h
    simp only [hk] at h
    by_cases hl : d.idx.length ≠ c.batch
    · rw [if_pos hl] at h; simp at h
    · rw [if_neg hl] at h
      cases hp : pick archive d.idx with
      | error e => rw [hp] at h; simp at h
      | ok ps =>
        rw [hp] at h
        simp only [Except.ok.injEq] at h
        obtain ⟨h1, h2⟩ := pick_spec archive d.idx ps hp
        exact ⟨ha, ps, by omega, h2, h.symm⟩

theorem gaussianOp_rows (b : Bounds) (P N : List Row) (r : Row) (hr : r ∈ gaussianOp b P N) :
    ∃ p ∈ P, ∃ n ∈ N, r = gaussRow b p n := by
  simp only [gaussianOp] at hr
  obtain ⟨k, hk, rfl⟩ := List.getElem_of_mem hr
  simp only [List.length_zipWith] at hk
  exact ⟨P[k]'(by omega), List.getElem_mem _, N[k]'(by omega), List.getElem_mem _, by simp⟩

/-- T08.2 (emitter level): a Gaussian-type emitter with zero noise on a non-empty archive whose elites
are inside the bounds returns rows of the **current** archive, exactly. -/
theorem ask_zero_noise_rows_of_archive (c : Cfg) (archive : List Row) (d : Draws) (rows : List Row)
    (hk : c.kind = .gaussian) (hw : WfCfg c) (hd : WfDraws c d)
    (hne : archive ≠ []) (harch : ∀ a ∈ archive, RowInB c.bounds a)
    (hz : ∀ n ∈ d.noise, ∀ z ∈ n, z = 0)
    (h : emitterAsk c archive d = .ok rows) : rows.length = c.batch ∧ ∀ r ∈ rows, r ∈ archive := by
  rcases emitterAsk_gaussian_spec c archive d rows hk h with ⟨ha, _⟩ | ⟨ha, _⟩ | ⟨_, ps, hl, hps, rfl⟩
  · exact absurd ha hne
  · exact absurd ha hne
  · constructor
    · simp [gaussianOp, hl, hd.noise_len]
    · intro r hr
      obtain ⟨p, hp, n, hn, rfl⟩ := gaussianOp_rows _ _ _ _ hr
      have hpb := harch p (hps p hp)
      have : n.length = p.length := by rw [hd.noise_rows n hn, hpb.length, hw.bounds_len]
      rw [zero_noise_exact c.bounds p n hpb (hz n hn) this]
      exact hps p hp

/-- T08.2 (emitter level, empty archive): with zero noise every row is `x0` itself -/
theorem ask_empty_x0 (c : Cfg) (d : Draws) (rows : List Row) (x : Row)
    (hk : c.kind = .gaussian) (hw : WfCfg c) (hd : WfDraws c d) (hi : c.init = none) (hx : c.x0 = some x)
    (hxb : RowInB c.bounds x) (hz : ∀ n ∈ d.noise, ∀ z ∈ n, z = 0)
    (h : emitterAsk c [] d = .ok rows) : rows.length = c.batch ∧ ∀ r ∈ rows, r = x := by
  rcases emitterAsk_gaussian_spec c [] d rows hk h with ⟨_, I, hI, _⟩ | ⟨_, _, x', hx', rfl⟩ | ⟨hne, _⟩
  · rw [hi] at hI; cases hI
  · rw [hx] at hx'; cases hx'
    constructor
    · simp [gaussianOp, hd.noise_len]
    · intro r hr
      obtain ⟨p, hp, n, hn, rfl⟩ := gaussianOp_rows _ _ _ _ hr
      have hp' : p = x := mem_replicate_eq hp
      subst hp'
      have : n.length = p.length := by rw [hd.noise_rows n hn, hxb.length, hw.bounds_len]
      exact zero_noise_exact c.bounds p n hxb (hz n hn) this
  · exact absurd rfl hne

/-- the rows sampled from the archive have the configured dimension when the archive's rows have -/
theorem emitterAsk_shape (c : Cfg) (archive : List Row) (d : Draws) (rows : List Row)
    (hw : WfCfg c) (hd : WfDraws c d) (harch : ∀ a ∈ archive, a.length = c.dim)
    (h : emitterAsk c archive d = .ok rows) :
    (∀ r ∈ rows, r.length = c.dim) ∧
    (rows.length = c.batch ∨ (archive = [] ∧ ∃ I, c.init = some I ∧ rows.length = if c.dqd then 0 else I.length)) := by
  have hbl := hw.bounds_len
  have rep : ∀ x, c.x0 = some x → ∀ p ∈ List.replicate c.batch x, p.length = c.bounds.length := by
    intro x hx p hp; rw [mem_replicate_eq hp, hw.x0_len x hx, hbl]
  have nz : ∀ n ∈ d.noise, n.length = c.bounds.length := fun n hn => by rw [hd.noise_rows n hn, hbl]
  unfold emitterAsk at h
  by_cases he : archive.isEmpty = true
  · have ha : archive = [] := List.isEmpty_iff.mp he
    rw [if_pos he] at h
    cases hi : c.init with
    | some I =>
      rw [hi] at h
      simp only [Except.ok.injEq] at h
      subst h
      constructor
      · intro r hr
        by_cases hq : c.dqd = true
        · simp [hq] at hr
        · simp only [hq, Bool.false_eq_true, if_false, clipRows, List.mem_map] at hr
          obtain ⟨x, hx, rfl⟩ := hr
          rw [clipRow_length _ _ (by rw [hw.init_len I hi x hx, hbl]), hbl]
      · right
        refine ⟨ha, I, rfl, ?_⟩
        by_cases hq : c.dqd = true <;> simp [hq, clipRows]
    | none =>
      rw [hi] at h
      cases hx : c.x0 with
      | none => rw [hx] at h; simp at h
      | some x =>
        rw [hx] at h
        cases hk : c.kind with
        | gaussian =>
          simp only [hk, Except.ok.injEq] at h
          subst h
          have := gaussianOp_shape c.bounds (List.replicate c.batch x) d.noise c.batch (by simp)
            hd.noise_len (rep x hx) nz
          exact ⟨fun r hr => by rw [this.2 r hr, hbl], Or.inl this.1⟩
        | isoline =>
          simp only [hk, Except.ok.injEq] at h
          subst h
          have := isoLineOp_shape c.bounds (List.replicate c.batch x) (List.replicate c.batch x) d.noise
            d.lines c.batch (by simp) (by simp) hd.noise_len hd.lines_len (rep x hx) (rep x hx) nz
          exact ⟨fun r hr => by rw [this.2 r hr, hbl], Or.inl this.1⟩
        | gopLine =>
          simp only [hk, Except.ok.injEq] at h
          subst h
          have := gopLineOp_shape c.bounds (List.replicate c.batch x) (List.replicate c.batch x) d.noise
            d.lines c.batch (by simp) (by simp) hd.noise_len hd.lines_len (rep x hx) (rep x hx) nz
          exact ⟨fun r hr => by rw [this.2 r hr, hbl], Or.inl this.1⟩
  · rw [if_neg he] at h
    have parch : ∀ idx ps, pick archive idx = .ok ps → ∀ p ∈ ps, p.length = c.bounds.length := by
      intro idx ps hp p hm
      rw [harch p ((pick_spec archive idx ps hp).2 p hm), hbl]
    cases hk : c.kind with
    | gaussian =>
      simp only [hk] at h
      by_cases hl : d.idx.length ≠ c.batch
      · rw [if_pos hl] at h; simp at h
      · rw [if_neg hl] at h
        cases hp : pick archive d.idx with
        | error e => rw [hp] at h; simp at h
        | ok ps =>
          rw [hp] at h
          simp only [Except.ok.injEq] at h
          subst h
          have hlen := (pick_spec archive d.idx ps hp).1
          have := gaussianOp_shape c.bounds ps d.noise c.batch (by omega) hd.noise_len
            (parch _ _ hp) nz
          exact ⟨fun r hr => by rw [this.2 r hr, hbl], Or.inl this.1⟩
    | isoline =>
      simp only [hk] at h
      by_cases hl : d.idx.length ≠ 2 * c.batch
      · rw [if_pos hl] at h; simp at h
      · rw [if_neg hl] at h
        cases hp : pick archive d.idx with
        | error e => rw [hp] at h; simp at h
        | ok ps =>
          rw [hp] at h
          simp only [Except.ok.injEq] at h
          subst h
          have hlen := (pick_spec archive d.idx ps hp).1
          have := isoLineOp_shape c.bounds (ps.take c.batch) (ps.drop c.batch) d.noise d.lines c.batch
            (by simp; omega) (by simp; omega) hd.noise_len hd.lines_len
            (fun p hm => parch _ _ hp p (List.mem_of_mem_take hm))
            (fun p hm => parch _ _ hp p (List.mem_of_mem_drop hm)) nz
          exact ⟨fun r hr => by rw [this.2 r hr, hbl], Or.inl this.1⟩
    | gopLine =>
      simp only [hk] at h
      by_cases hl : d.idx.length ≠ c.batch ∨ d.idx₂.length ≠ c.batch
      · rw [if_pos hl] at h; simp at h
      · rw [if_neg hl] at h
        cases hp : pick archive d.idx with
        | error e => rw [hp] at h; simp at h
        | ok ps =>
          cases hq : pick archive d.idx₂ with
          | error e => rw [hp, hq] at h; simp at h
          | ok qs =>
            rw [hp, hq] at h
            simp only [Except.ok.injEq] at h
            subst h
            have hlen := (pick_spec archive d.idx ps hp).1
            have hlen₂ := (pick_spec archive d.idx₂ qs hq).1
            have := gopLineOp_shape c.bounds ps qs d.noise d.lines c.batch (by omega) (by omega)
              hd.noise_len hd.lines_len (parch _ _ hp) (parch _ _ hq) nz
            exact ⟨fun r hr => by rw [this.2 r hr, hbl], Or.inl this.1⟩

/-- every row an operator returns is a clipped row -/
theorem emitterAsk_rows_clipped (c : Cfg) (archive : List Row) (d : Draws) (rows : List Row)
    (h : emitterAsk c archive d = .ok rows) : ∀ r ∈ rows, ∃ x : Row, r = clipRow c.bounds x := by
  intro r hr
  unfold emitterAsk at h
  have gauss : ∀ P N, r ∈ gaussianOp c.bounds P N → ∃ x : Row, r = clipRow c.bounds x := by
    intro P N hm
    obtain ⟨p, _, n, _, rfl⟩ := gaussianOp_rows _ _ _ _ hm
    exact ⟨_, rfl⟩
  have iso : ∀ P Q N L, r ∈ isoLineOp c.bounds P Q N L → ∃ x : Row, r = clipRow c.bounds x := by
    intro P Q N L hm
    obtain ⟨p, _, q, _, n, _, l, _, rfl⟩ := mem_zipWith4 _ _ _ _ _ _ hm
    exact ⟨_, rfl⟩
  have gop : ∀ P Q N L, r ∈ gopLineOp c.bounds P Q N L → ∃ x : Row, r = clipRow c.bounds x := by
    intro P Q N L hm
    obtain ⟨p, _, q, _, n, _, l, _, rfl⟩ := mem_zipWith4 _ _ _ _ _ _ hm
    exact ⟨_, rfl⟩
  by_cases he : archive.isEmpty = true
  · rw [if_pos he] at h
    cases hi : c.init with
    | some I =>
      rw [hi] at h
      simp only [Except.ok.injEq] at h
      subst h
      by_cases hq : c.dqd = true
      · simp [hq] at hr
      · simp only [hq, Bool.false_eq_true, if_false, clipRows, List.mem_map] at hr
        obtain ⟨x, _, rfl⟩ := hr
        exact ⟨x, rfl⟩
    | none =>
      rw [hi] at h
      cases hx : c.x0 with
      | none => rw [hx] at h; simp at h
      | some x =>
        rw [hx] at h
        cases hk : c.kind <;> simp only [hk, Except.ok.injEq] at h <;> subst h
        · exact gauss _ _ hr
        · exact iso _ _ _ _ hr
        · exact gop _ _ _ _ hr
  · rw [if_neg he] at h
    cases hk : c.kind with
    | gaussian =>
      simp only [hk] at h
      split at h
      · simp at h
      · cases hp : pick archive d.idx with
        | error e => rw [hp] at h; simp at h
        | ok ps => rw [hp] at h; simp only [Except.ok.injEq] at h; subst h; exact gauss _ _ hr
    | isoline =>
      simp only [hk] at h
      split at h
      · simp at h
      · cases hp : pick archive d.idx with
        | error e => rw [hp] at h; simp at h
        | ok ps => rw [hp] at h; simp only [Except.ok.injEq] at h; subst h; exact iso _ _ _ _ hr
    | gopLine =>
      simp only [hk] at h
      split at h
      · simp at h
      · cases hp : pick archive d.idx with
        | error e => rw [hp] at h; simp at h
        | ok ps =>
          cases hq : pick archive d.idx₂ with
          | error e => rw [hp, hq] at h; simp at h
          | ok qs => rw [hp, hq] at h; simp only [Except.ok.injEq] at h; subst h; exact gop _ _ _ _ hr

/-- **C08, bounds clause for the clipping emitters**: for every archive content, every draw and
every noise, every returned row has the configured dimension and lies inside the bounds. -/
theorem emitterAsk_in_bounds (c : Cfg) (archive : List Row) (d : Draws) (rows : List Row)
    (hw : WfCfg c) (hd : WfDraws c d) (harch : ∀ a ∈ archive, a.length = c.dim)
    (h : emitterAsk c archive d = .ok rows) : ∀ r ∈ rows, RowInB c.bounds r := by
  intro r hr
  have hlen := (emitterAsk_shape c archive d rows hw hd harch h).1 r hr
  obtain ⟨x, rfl⟩ := emitterAsk_rows_clipped c archive d rows h r hr
  have hx : x.length ≥ c.bounds.length := by
    simp only [clipRow, List.length_zipWith] at hlen
    have := hw.bounds_len
    omega
  -- clipping ignores coordinates beyond the number of bounds
  have key : ∀ (b : Bounds) (x : Row), BoundsOrdered b → x.length ≥ b.length → RowInB b (clipRow b x) := by
    intro b
    induction b with
    | nil => intro x _ _; simp [clipRow, RowInB]
    | cons p b ih =>
      intro x ho hx
      cases x with
      | nil => simp at hx
      | cons y ys =>
        simp only [clipRow, List.zipWith_cons_cons, RowInB]
        exact ⟨clip_in_bounds _ _ _ (ho p (by simp)),
          ih ys (fun q hq => ho q (by simp [hq])) (by simpa using hx)⟩
  exact key c.bounds x hw.ordered hx

/-! ## T08.4 the resample loop -/

/-- the entry names a candidate that the stream really produced -/
def Recorded (draw : Nat → Nat → List Row) (e : Entry) : Prop :=
  (draw e.round e.count)[e.pos]? = some e.row

theorem fill_spec (inB : Row → Bool) (round count : Nat) :
    ∀ (ss : List Slot) (cs : List Row) (p : Nat) (ss' : List Slot),
      fill inB round count ss cs p = some ss' →
      ss'.length = ss.length ∧
      ∀ e, Slot.done e ∈ ss' → Slot.done e ∈ ss ∨
        (inB e.row = true ∧ e.round = round ∧ e.count = count ∧ ∃ j, cs[j]? = some e.row ∧ e.pos = p + j)
  | [], [], p, ss', h => by
    simp only [fill, Option.some.injEq] at h
    subst h; simp
  | [], _ :: _, p, ss', h => by simp [fill] at h
  | .done e₀ :: ss, cs, p, ss', h => by
    simp only [fill, Option.map_eq_some_iff] at h
    obtain ⟨t, ht, rfl⟩ := h
    obtain ⟨hl, hm⟩ := fill_spec inB round count ss cs p t ht
    refine ⟨by simp [hl], ?_⟩
    intro e he
    simp only [List.mem_cons] at he
    rcases he with he | he
    · left; rw [he]; simp
    · rcases hm e he with h1 | h1
      · left; simp [h1]
      · right; exact h1
  | .pending :: _, [], p, ss', h => by simp [fill] at h
  | .pending :: ss, c :: cs, p, ss', h => by
    simp only [fill, Option.map_eq_some_iff] at h
    obtain ⟨t, ht, rfl⟩ := h
    obtain ⟨hl, hm⟩ := fill_spec inB round count ss cs (p + 1) t ht
    refine ⟨by simp [hl], ?_⟩
    intro e he
    simp only [List.mem_cons] at he
    rcases he with he | he
    · right
      by_cases hc : inB c = true
      · simp only [hc, if_true, Slot.done.injEq] at he
        subst he
        exact ⟨hc, rfl, rfl, 0, by simp, by simp⟩
      · simp [hc] at he
    · rcases hm e he with h1 | ⟨h1, h2, h3, j, h4, h5⟩
      · left; simp [h1]
      · right
        exact ⟨h1, h2, h3, j + 1, by simpa using h4, by omega⟩

theorem mem_settled : ∀ (ss : List Slot) (e : Entry), e ∈ settled ss ↔ Slot.done e ∈ ss
  | [], e => by simp [settled]
  | .done e₀ :: ss, e => by simp [settled, mem_settled ss e]
  | .pending :: ss, e => by simp [settled, mem_settled ss e]

theorem settled_length : ∀ (ss : List Slot), pendingCount ss = 0 → (settled ss).length = ss.length
  | [], _ => by simp [settled]
  | .done e₀ :: ss, h => by simp [settled, settled_length ss (by simpa [pendingCount] using h)]
  | .pending :: ss, h => by simp [pendingCount] at h

theorem resampleFrom_spec (draw : Nat → Nat → List Row) (inB : Row → Bool) :
    ∀ (fuel round : Nat) (slots : List Slot) (es : List Entry),
      (∀ e, Slot.done e ∈ slots → inB e.row = true ∧ Recorded draw e) →
      resampleFrom draw inB fuel round slots = some es →
      es.length = slots.length ∧ ∀ e ∈ es, inB e.row = true ∧ Recorded draw e := by
  intro fuel
  induction fuel with
  | zero =>
    intro round slots es hgood h
    unfold resampleFrom at h
    by_cases hp : pendingCount slots = 0
    · rw [if_pos hp] at h
      simp only [Option.some.injEq] at h
      subst h
      exact ⟨settled_length slots hp, fun e he => hgood e ((mem_settled slots e).mp he)⟩
    · rw [if_neg hp] at h; simp at h
  | succ fuel ih =>
    intro round slots es hgood h
    unfold resampleFrom at h
    by_cases hp : pendingCount slots = 0
    · rw [if_pos hp] at h
      simp only [Option.some.injEq] at h
      subst h
      exact ⟨settled_length slots hp, fun e he => hgood e ((mem_settled slots e).mp he)⟩
    · rw [if_neg hp] at h
      simp only at h
      cases hf : fill inB round (pendingCount slots) slots (draw round (pendingCount slots)) 0 with
      | none => rw [hf] at h; simp at h
      | some slots' =>
        rw [hf] at h
        simp only at h
        obtain ⟨hl, hm⟩ := fill_spec inB round _ slots _ 0 slots' hf
        have hgood' : ∀ e, Slot.done e ∈ slots' → inB e.row = true ∧ Recorded draw e := by
          intro e he
          rcases hm e he with h1 | ⟨h1, h2, h3, j, h4, h5⟩
          · exact hgood e h1
          · refine ⟨h1, ?_⟩
            unfold Recorded
            rw [h2, h3, h5, Nat.zero_add]
            exact h4
        obtain ⟨r1, r2⟩ := ih (round + 1) slots' es hgood' h
        exact ⟨by rw [r1, hl], r2⟩

/-- T08.4 `resample_post` : **if the loop returns**, it returns exactly `batch` rows, every row is in
bounds, and every row is the candidate recorded for it (candidate `pos` of the `count` candidates of
round `round` of the stream). -/
theorem resample_post (draw : Nat → Nat → List Row) (inB : Row → Bool) (fuel batch : Nat)
    (es : List Entry) (h : resample draw inB fuel batch = some es) :
    es.length = batch ∧ ∀ e ∈ es, inB e.row = true ∧ Recorded draw e := by
  have := resampleFrom_spec draw inB fuel 0 (List.replicate batch .pending) es
    (by intro e he; simp [List.mem_replicate] at he) h
  simpa using this

/-- with the emitter's bounds as the acceptance test: every returned row is inside the bounds -/
theorem resample_rows_in_bounds (draw : Nat → Nat → List Row) (b : Bounds) (fuel batch : Nat)
    (es : List Entry) (h : resample draw (inBRow b) fuel batch = some es) :
    es.length = batch ∧ ∀ e ∈ es, RowInB b e.row ∧ e.row.length = b.length := by
  obtain ⟨h1, h2⟩ := resample_post draw (inBRow b) fuel batch es h
  refine ⟨h1, fun e he => ?_⟩
  have := (inBRow_iff b e.row).mp (h2 e he).1
  exact ⟨this, this.length⟩

/-! ## T08.5 dtype -/

/-- T08.5 `dtype_is_solution_dtype` : with the bounds created in the solution dtype, every emitter's
`ask` / `ask_dqd` returns the archive's solution dtype, for every combination of solution, measures
and Jacobian dtype. -/
theorem dtype_is_solution_dtype (k : EmitterKind) (sol meas jac : DType) :
    askDType k sol (boundsDType sol meas) jac = sol := by
  cases k <;> cases sol <;> cases meas <;> cases jac <;> rfl

/-- D12 (negative example): with the bounds created in the *measures* dtype, a float32-solution /
float64-measures archive gets float64 solutions out of the Gaussian emitter. -/
theorem dtype_defect_witness :
    askDType .gaussian .f32 (boundsDTypeCurrent .f32 .f64) .f64 = .f64 := rfl

/-- D12, exactly: the measures-dtype expression is right iff it is not the (f32, f64) combination -/
theorem dtype_defect_iff (k : EmitterKind) (sol meas jac : DType)
    (hk : k ∈ [EmitterKind.gaussian, .isoLine, .gaGaussian, .gaIsoLine, .gopAskDqd]) :
    askDTypeCurrent k sol (boundsDTypeCurrent sol meas) jac = sol ↔ ¬ (sol = .f32 ∧ meas = .f64) := by
  simp only [List.mem_cons, List.mem_nil_iff, or_false] at hk
  rcases hk with rfl | rfl | rfl | rfl | rfl <;> cases sol <;> cases meas <;> cases jac <;> decide

/-- D13 / Jacobian dtype (negative examples): on the unchanged tree `GradientOperatorEmitter.ask` with
measure gradients and `GradientArborescenceEmitter.ask` with a float64 Jacobian return float64 from a
float32-solution archive even when every archive dtype is float32. -/
theorem dtype_defect_gae_witness :
    askDTypeCurrent .gaeAsk .f32 (boundsDTypeCurrent .f32 .f32) .f64 = .f64 ∧
    askDTypeCurrent .gopAskMeasureGrads .f32 (boundsDTypeCurrent .f32 .f32) .f32 = .f64 := ⟨rfl, rfl⟩

/-! ## `_process_bounds` -/

theorem parseAll_spec : ∀ (l : List BndArg) (b : Bounds), parseAll l = .ok b →
    b.length = l.length ∧ ∀ k (h1 : k < l.length) (h2 : k < b.length), parseOne l[k] = .ok b[k]
  | [], b, h => by
    simp only [parseAll, Except.ok.injEq] at h
    subst h
    exact ⟨rfl, fun k h1 _ => absurd h1 (by simp)⟩
  | a :: as, b, h => by
    simp only [parseAll] at h
    cases ha : parseOne a with
    | error e => rw [ha] at h; cases h
    | ok p =>
      rw [ha] at h
      simp only at h
      cases hr : parseAll as with
      | error e => rw [hr] at h; cases h
      | ok bs =>
        rw [hr] at h
        simp only [Except.ok.injEq] at h
        subst h
        obtain ⟨hl, hk⟩ := parseAll_spec as bs hr
        refine ⟨by simp [hl], ?_⟩
        intro k h1 h2
        cases k with
        | zero => simpa using ha
        | succ k =>
          simp only [List.getElem_cons_succ]
          exact hk k (by simpa using h1) (by simpa using h2)

/-- the result always has `solution_dim` entries -/
theorem parseBounds_length (arg : Option (List BndArg)) (dim : Nat) (b : Bounds)
    (h : parseBounds arg dim = .ok b) : b.length = dim := by
  cases arg with
  | none =>
    simp only [parseBounds, Except.ok.injEq] at h
    subst h; simp
  | some l =>
    simp only [parseBounds] at h
    by_cases hl : l.length ≠ dim
    · rw [if_pos hl] at h; cases h
    · rw [if_neg hl] at h
      have := (parseAll_spec l b h).1
      omega

/-- `bounds=None` : unbounded in every dimension -/
theorem parseBounds_none (dim : Nat) : parseBounds none dim = .ok (List.replicate dim (none, none)) := rfl

/-- entry by entry: dimension `k` of the result is what `parseOne` makes of argument `k` -/
theorem parseBounds_entry (l : List BndArg) (dim : Nat) (b : Bounds)
    (h : parseBounds (some l) dim = .ok b) (k : Nat) (hk : k < dim) :
    ∃ (h1 : k < l.length) (h2 : k < b.length), parseOne l[k] = .ok b[k] := by
  have hlen := parseBounds_length _ _ _ h
  simp only [parseBounds] at h
  by_cases hl : l.length ≠ dim
  · rw [if_pos hl] at h; cases h
  · rw [if_neg hl] at h
    have hf := (parseAll_spec l b h).2
    have h1 : k < l.length := by omega
    have h2 : k < b.length := by omega
    exact ⟨h1, h2, hf k h1 h2⟩

/-- the lower bound is −∞ **exactly** where the caller passed `None` (for the dimension or for its
lower entry); likewise the upper bound -/
theorem parseBounds_lo_none_iff (l : List BndArg) (dim : Nat) (b : Bounds)
    (h : parseBounds (some l) dim = .ok b) (k : Nat) (hk : k < dim) :
    ∃ (h1 : k < l.length) (h2 : k < b.length),
      (b[k].1 = none ↔ (l[k] = .none ∨ ∃ hi, l[k] = .seq [none, hi])) ∧
      (b[k].2 = none ↔ (l[k] = .none ∨ ∃ lo, l[k] = .seq [lo, none])) := by
  obtain ⟨h1, h2, he⟩ := parseBounds_entry l dim b h k hk
  refine ⟨h1, h2, ?_⟩
  generalize l[k] = a at he
  generalize b[k] = p at he
  cases a with
  | none =>
    simp only [parseOne, Except.ok.injEq] at he
    subst he; simp
  | seq es =>
    match es, he with
    | [lo, hi], he =>
      simp only [parseOne, Except.ok.injEq] at he
      subst he
      constructor
      · constructor
        · intro h0; right; simp only at h0; subst h0; exact ⟨hi, rfl⟩
        · rintro (h0 | ⟨hi', h0⟩)
          · cases h0
          · simp only [BndArg.seq.injEq, List.cons.injEq, and_true] at h0
            exact h0.1
      · constructor
        · intro h0; right; simp only at h0; subst h0; exact ⟨lo, rfl⟩
        · rintro (h0 | ⟨lo', h0⟩)
          · cases h0
          · simp only [BndArg.seq.injEq, List.cons.injEq, and_true] at h0
            exact h0.2
    | [], he => simp [parseOne] at he
    | [_], he => simp [parseOne] at he
    | _ :: _ :: _ :: _, he => simp [parseOne] at he

theorem parseOne_error_iff (a : BndArg) :
    (∃ e, parseOne a = .error e) ↔ ∃ es, a = .seq es ∧ es.length ≠ 2 := by
  cases a with
  | none => simp [parseOne]
  | seq es =>
    match es with
    | [] => simp [parseOne]
    | [_] => simp [parseOne]
    | [_, _] => simp [parseOne]
    | _ :: _ :: _ :: _ => simp [parseOne]

theorem parseAll_error_iff : ∀ (l : List BndArg),
    (∃ e, parseAll l = .error e) ↔ ∃ a ∈ l, ∃ es, a = .seq es ∧ es.length ≠ 2
  | [] => by simp [parseAll]
  | a :: as => by
    simp only [parseAll, List.mem_cons, exists_eq_or_imp]
    rw [← parseOne_error_iff a, ← parseAll_error_iff as]
    cases ha : parseOne a with
    | error e => simp
    | ok p =>
      cases hr : parseAll as with
      | error e => simp
      | ok bs => simp

/-- `ValueError` exactly for a wrong number of entries or an entry that is not a pair -/
theorem parseBounds_error_iff (l : List BndArg) (dim : Nat) :
    (∃ e, parseBounds (some l) dim = .error e) ↔
      (l.length ≠ dim ∨ ∃ a ∈ l, ∃ es, a = .seq es ∧ es.length ≠ 2) := by
  simp only [parseBounds]
  by_cases hl : l.length ≠ dim
  · simp [hl]
  · rw [if_neg hl, parseAll_error_iff]
    simp [hl]

/-! ## non-vacuity -/

def exBounds : Bounds := [(some (-1), some 1), (none, some (1 / 2)), (some 0, none)]

/-- concrete instances: a clipped Gaussian row (one coordinate clipped at each kind of bound), a
zero-noise row returned exactly, a resample run in which row 1 is redrawn in a second round, bounds
parsing with `None` entries and a rejected layout, and the emitter-level ask on a two-elite archive. -/
theorem nonvacuous :
    BoundsOrdered exBounds ∧
    gaussRow exBounds [1 / 2, 1 / 4, 1] [1, 1, -2] = [1, 1 / 2, 0] ∧
    gaussRow exBounds [1 / 2, 1 / 4, 1] [0, 0, 0] = [1 / 2, 1 / 4, 1] ∧
    inBRow exBounds [1 / 2, 1 / 4, 1] = true ∧
    isoRow exBounds [0, 0, 0] [1, 1, 1] [1 / 4, 0, 0] (1 / 2) = [3 / 4, 1 / 2, 1 / 2] ∧
    resample (fun r _ => if r = 0 then [[0, 0, 0], [5, 5, 5], [0, 0, 1]] else [[1, 0, 0]]) (inBRow exBounds) 5 3
      = some [⟨[0, 0, 0], 0, 3, 0⟩, ⟨[1, 0, 0], 1, 1, 0⟩, ⟨[0, 0, 1], 0, 3, 2⟩] ∧
    resample (fun _ _ => [[5, 5, 5]]) (inBRow exBounds) 7 1 = none ∧
    parseBounds (some [.seq [some (-1), some 1], .seq [none, some (1 / 2)], .none]) 3
      = .ok [(some (-1), some 1), (none, some (1 / 2)), (none, none)] ∧
    parseBounds (some [.seq [some 1], .none]) 2 = .error .value ∧
    parseBounds (some [.none]) 2 = .error .value ∧
    emitterAsk ⟨.gaussian, 3, 2, some [0, 0, 0], none, exBounds, false⟩ [[1 / 2, 0, 0], [0, 1 / 4, 1]]
      ⟨[1, 0], [], [[0, 0, 0], [1, 1, 1]], []⟩ = .ok [[0, 1 / 4, 1], [1, 1 / 2, 1]] ∧
    emitterAsk ⟨.gaussian, 3, 2, some [0, 0, 0], none, exBounds, false⟩ []
      ⟨[], [], [[0, 0, 0], [2, 2, 2]], []⟩ = .ok [[0, 0, 0], [1, 1 / 2, 2]] := by
  refine ⟨?_, by decide +kernel, by decide +kernel, by decide +kernel, by decide +kernel,
    by decide +kernel, by decide +kernel, by decide +kernel, by decide +kernel, by decide +kernel,
    by decide +kernel, by decide +kernel⟩
  intro p hp
  simp only [exBounds, List.mem_cons, List.mem_nil_iff, or_false] at hp
  rcases hp with rfl | rfl | rfl <;> intro l h h1 h2 <;> simp at h1 h2
  obtain ⟨rfl, rfl⟩ := And.intro h1 h2
  decide +kernel

end Pyribs.C08
