import numpy as np, warnings, pickle, random
from ribs.archives import GridArchive, CVTArchive, SlidingBoundariesArchive, ProximityArchive
from ribs.emitters import *
from ribs.schedulers import Scheduler, BanditScheduler
warnings.simplefilter("ignore")
print("== SeedSequence seeds")
for method in ["kmeans","random"]:
    try:
        a = CVTArchive(solution_dim=1, cells=4, ranges=[(0,1)], seed=np.random.SeedSequence(1), centroid_method=method, samples=100); print(method, "ok")
    except Exception as e: print(method, "raised", type(e).__name__, str(e)[:100])
def run(es, n_it=6, ckpt=None, foreign=False, ranker="2imp", sched="plain"):
    np.random.seed(123); random.seed(5)
    arch = GridArchive(solution_dim=4, dims=[6,6], ranges=[(-2,2),(-2,2)], seed=7)
    ems = [EvolutionStrategyEmitter(arch, x0=np.zeros(4), sigma0=0.5, es=es, ranker=ranker, batch_size=4 if es!="lm_ma_es" else 4, seed=11+i) for i in range(2)]
    ems.append(GaussianEmitter(arch, sigma=0.3, x0=np.zeros(4), batch_size=3, seed=5))
    ems.append(IsoLineEmitter(arch, x0=np.zeros(4), batch_size=3, seed=6))
    s = Scheduler(arch, ems) if sched=="plain" else BanditScheduler(arch, ems, 2)
    out=[]
    g0 = (np.random.get_state()[1].copy(), np.random.get_state()[2], random.getstate())
    for it in range(n_it):
        if foreign: np.random.rand(3); random.random()
        if ckpt is not None and it==ckpt:
            s = pickle.loads(pickle.dumps(s))
        sols = s.ask(); out.append(sols.copy())
        obj = -np.sum(sols**2,axis=1); meas = sols[:,:2]
        s.tell(obj, meas)
    g1 = (np.random.get_state()[1].copy(), np.random.get_state()[2], random.getstate())
    untouched = np.array_equal(g0[0],g1[0]) and g0[1]==g1[1] and g0[2]==g1[2]
    return np.concatenate(out), s.archive.data(), untouched
for es in ["cma_es","sep_cma_es","lm_ma_es","openai_es","pycma_es"]:
    for sched in ("plain","bandit"):
        try:
            a, da, u = run(es, sched=sched); b, db, _ = run(es, foreign=True, sched=sched)
            line = f"{es} {sched}: repro-with-foreign-draws={np.array_equal(a,b)} global-untouched={u}"
            if es!="pycma_es":
                c, dc, _ = run(es, ckpt=3, sched=sched)
                line += f" pickle-continue={np.array_equal(a,c) and all(np.array_equal(da[k],dc[k]) for k in da)}"
            print(line)
        except Exception as e: print(es, sched, "raised", type(e).__name__, str(e)[:200])
