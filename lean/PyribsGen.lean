import PyribsGen.RngSites
import PyribsGen.Formulas
