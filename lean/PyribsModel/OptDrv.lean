import PyribsModel.Opt
/-!
Line-protocol machine `opt` for the `Opt` model.  Every request is stateless:
`<op> key=value …` ; the response is `ok key=value …` or `err <name>`.

Wire: vectors `a,b,c`; batches of rows / matrices `row;row;row` (`-` = no rows);
streams of rounds `round|round` ; bounds use `-inf` / `inf` for "unbounded".
-/
namespace Pyribs.OptDrv
open Pyribs Opt

def init : Unit := ()

/-! ### parsing -/

def getRat (toks : List String) (k : String) : Option Rat := (kv toks k).bind parseRat
def getNat (toks : List String) (k : String) : Option Nat := (kv toks k).bind String.toNat?
def getRatList (toks : List String) (k : String) : Option (List Rat) := (kv toks k).bind parseRatList
def getNatList (toks : List String) (k : String) : Option (List Nat) := (kv toks k).bind parseNatList

def parseVec (n : Nat) (s : String) : Option (Vec n) := (parseRatList s).bind (vecOfList n)
def getVec (n : Nat) (toks : List String) (k : String) : Option (Vec n) := (kv toks k).bind (parseVec n)

def parseRows (n : Nat) (s : String) : Option (List (Vec n)) :=
  if s = "-" || s = "" then some [] else (s.splitOn ";").mapM (parseVec n)
def getRows (n : Nat) (toks : List String) (k : String) : Option (List (Vec n)) :=
  (kv toks k).bind (parseRows n)

def matOfRows {n : Nat} (rows : List (Vec n)) : Option (Mat n) :=
  if h : rows.length = n then some (fun i => rows[i.val]'(by omega)) else none
def getMat (n : Nat) (toks : List String) (k : String) : Option (Mat n) :=
  (getRows n toks k).bind matOfRows

def parseBound (s : String) : Option (Option Rat) :=
  if s = "-inf" || s = "inf" then some none else (parseRat s).map some
def getBounds (n : Nat) (toks : List String) (k : String) : Option (Fin n → Option Rat) :=
  match (kv toks k).bind (parseListWith parseBound) with
  | some l => if h : l.length = n then some (fun i => l[i.val]'(by omega)) else none
  | none => none

def parseStream (n : Nat) (s : String) : Option (List (List (Vec n))) :=
  if s = "-" || s = "" then some [] else (s.splitOn "|").mapM (parseRows n)

/-! ### printing -/

def showVec {n : Nat} (v : Vec n) : String := showRatList (vecToList v)
def showRows {n : Nat} (rows : List (Vec n)) : String :=
  if rows.isEmpty then "-" else String.intercalate ";" (rows.map showVec)
def showMat {n : Nat} (M : Mat n) : String := showRows ((List.finRange n).map fun i => M i)

def showDiag (d : Diag) : String :=
  s!"sqrtargs={showRatList d.sqrtArgs} exparg={showRat d.expArg} hmargin={showRat d.hsigMargin} " ++
  s!"decay={showRat d.decay} cmu={showRat d.cmu} c1={showRat d.c1} supok={showBool d.supOk}"

def errStr (e : Err) : String := s!"err {e.name}"

/-! ### requests -/

def doWeights (toks : List String) : Option String := do
  let lh ← getRat toks "lh"
  let ls ← getRatList toks "ls"
  let w := weights lh ls
  pure s!"ok w={showRatList w} sum={showRat w.sum} logsok={showBool (logsOk lh ls ls.length)}"

def doCmaTell (toks : List String) : Option String := do
  let n ← getNat toks "n"
  let batch ← getNat toks "batch"
  let st : CmaState n := ⟨← getNat toks "evals", ← getVec n toks "mean", ← getRat toks "sigma",
    ← getVec n toks "pc", ← getVec n toks "ps", ← getMat n toks "cov"⟩
  let sup : CmaSup n := ⟨← getRat toks "lh", ← getRatList toks "ls", ← getRat toks "sdamp",
    ← getRat toks "sps", ← getRat toks "spc", ← getMat n toks "invsqrt", ← getRat toks "exp"⟩
  let sols ← getRows n toks "sols"
  let perm ← getNatList toks "perm"
  let mu ← getNat toks "mu"
  match cmaTell n batch st sols perm mu sup with
  | .error e => pure (errStr e)
  | .ok (s, d) =>
    pure (s!"ok evals={s.evals} mean={showVec s.mean} sigma={showRat s.sigma} pc={showVec s.pc} " ++
      s!"ps={showVec s.ps} cov={showMat s.cov} " ++ showDiag d)

def doSepTell (toks : List String) : Option String := do
  let n ← getNat toks "n"
  let batch ← getNat toks "batch"
  let st : SepState n := ⟨← getNat toks "evals", ← getVec n toks "mean", ← getRat toks "sigma",
    ← getVec n toks "pc", ← getVec n toks "ps", ← getVec n toks "cov"⟩
  let sup : SepSup n := ⟨← getRat toks "lh", ← getRatList toks "ls", ← getRat toks "sn",
    ← getRat toks "sdamp", ← getRat toks "sps", ← getRat toks "spc", ← getVec n toks "scov",
    ← getRat toks "exp"⟩
  let sols ← getRows n toks "sols"
  let perm ← getNatList toks "perm"
  let mu ← getNat toks "mu"
  match sepTell n batch st sols perm mu sup with
  | .error e => pure (errStr e)
  | .ok (s, d) =>
    pure (s!"ok evals={s.evals} mean={showVec s.mean} sigma={showRat s.sigma} pc={showVec s.pc} " ++
      s!"ps={showVec s.ps} cov={showVec s.cov} " ++ showDiag d)

def getLmCfg (toks : List String) : Option LmCfg := do
  pure ⟨← getNat toks "n", ← getNat toks "batch", ← getNat toks "nvec"⟩

def getLmState (c : LmCfg) (toks : List String) : Option (LmState c.n) := do
  pure ⟨← getNat toks "gens", ← getVec c.n toks "mean", ← getRat toks "sigma",
    ← getVec c.n toks "ps", ← getRows c.n toks "m"⟩

def doLmTell (toks : List String) : Option String := do
  let c ← getLmCfg toks
  let st ← getLmState c toks
  let sup : LmSup := ⟨← getRat toks "lh", ← getRatList toks "ls", ← getRat toks "sps",
    ← getRatList toks "sm", ← getRat toks "exp"⟩
  let sols ← getRows c.n toks "sols"
  let zs ← getRows c.n toks "zs"
  let perm ← getNatList toks "perm"
  let mu ← getNat toks "mu"
  match lmTell c st sols zs perm mu sup with
  | .error e => pure (errStr e)
  | .ok (s, d) =>
    pure (s!"ok gens={s.gens} mean={showVec s.mean} sigma={showRat s.sigma} ps={showVec s.ps} " ++
      s!"m={showRows s.m} " ++ showDiag d)

def getAdamCfg (toks : List String) : Option AdamCfg := do
  pure ⟨← getRat toks "lr", ← getRat toks "b1", ← getRat toks "b2", ← getRat toks "eps",
    ← getRat toks "l2"⟩

def getAdamState (n : Nat) (toks : List String) : Option (AdamState n) := do
  pure ⟨← getVec n toks "theta", ← getVec n toks "m", ← getVec n toks "v", ← getNat toks "t"⟩

def showAdam {n : Nat} (s : AdamState n) : String :=
  s!"theta={showVec s.theta} m={showVec s.m} v={showVec s.v} t={s.t}"

def doAdamStep (toks : List String) : Option String := do
  let n ← getNat toks "n"
  let cfg ← getAdamCfg toks
  let st ← getAdamState n toks
  let g ← getVec n toks "g"
  let sB2 ← getRat toks "sb2"
  let sV ← getVec n toks "sv"
  match adamStepChecked cfg st g sB2 sV with
  | .error e => pure (errStr e)
  | .ok (s, d) => pure (s!"ok {showAdam s} " ++ showDiag d)

def doAscentStep (toks : List String) : Option String := do
  let n ← getNat toks "n"
  let lr ← getRat toks "lr"
  let theta ← getVec n toks "theta"
  let g ← getVec n toks "g"
  pure s!"ok theta={showVec (ascentStep lr theta g)}"

def doOpenaiTell (toks : List String) : Option String := do
  let n ← getNat toks "n"
  let cfg : OpenaiCfg := ⟨← getNat toks "batch", ← getRat toks "sigma0",
    (← getNat toks "mirror") != 0, ← getAdamCfg toks⟩
  let st ← getAdamState n toks
  let noise ← getRows n toks "noise"
  let perm ← getNatList toks "perm"
  let sB2 ← getRat toks "sb2"
  let sV ← getVec n toks "sv"
  match openaiTell cfg st noise perm sB2 sV with
  | .error e => pure (errStr e)
  | .ok (g, s, d) => pure (s!"ok grad={showVec g} {showAdam s} " ++ showDiag d)

/-- smallest distance of any candidate coordinate to a finite bound (`none` = no finite bound) -/
def marginOf {n : Nat} (lb ub : Fin n → Option Rat) (xs : List (Vec n)) : Option Rat :=
  let ds : List Rat := xs.flatMap fun x => (List.finRange n).flatMap fun i =>
    (match lb i with | none => [] | some l => [if x i ≤ l then l - x i else x i - l]) ++
    (match ub i with | none => [] | some u => [if x i ≤ u then u - x i else x i - u])
  match ds with
  | [] => none
  | d :: t => some (t.foldl rmin d)

def showAsk {n : Nat} (b : Nat) (res : Except Err (Rows n × Nat)) (margin : Option Rat) : String :=
  match res with
  | .error e => s!"{errStr e} margin={showOpt showRat margin}"
  | .ok (rows, used) =>
    let idx := List.range b
    let sols := idx.filterMap rows.sol
    let draws := idx.filterMap rows.draw
    let src := idx.filterMap rows.src
    s!"ok rows={showRows sols} draws={showRows draws} " ++
    s!"src={showList (fun (p : Nat × Nat) => s!"{p.1}:{p.2}") src} used={used} " ++
    s!"margin={showOpt showRat margin}"

def runAsk {n : Nat} (toks : List String) (tf : Vec n → Vec n) (mirrored : Bool) : Option String := do
  let b ← getNat toks "b"
  let lb ← getBounds n toks "lb"
  let ub ← getBounds n toks "ub"
  let stream0 ← (kv toks "rounds").bind (parseStream n)
  let stream := if mirrored then stream0.map mirror else stream0
  let margin := marginOf lb ub (stream.flatten.map tf)
  pure (showAsk b (askRows tf lb ub b stream) margin)

def doAsk (toks : List String) : Option String := do
  let kind ← kv toks "kind"
  let n ← getNat toks "n"
  match kind with
  | "cma" =>
    let mean ← getVec n toks "mean"
    let T ← getMat n toks "T"
    runAsk toks (cmaTransform mean T) false
  | "sep" =>
    let mean ← getVec n toks "mean"
    let tvec ← getVec n toks "tvec"
    runAsk toks (sepTransform mean tvec) false
  | "lm" =>
    let c : LmCfg := ⟨n, ← getNat toks "batch", ← getNat toks "nvec"⟩
    let st ← getLmState c toks
    runAsk (n := c.n) toks (lmTransform c st) false
  | "openai" =>
    let theta ← getVec n toks "theta"
    let sigma0 ← getRat toks "sigma0"
    let mir ← getNat toks "mirror"
    runAsk toks (openaiTransform theta sigma0) (mir != 0)
  | _ => none

/-- `reset(x0)` of each native strategy (state of a fresh optimizer) -/
def doReset (toks : List String) : Option String := do
  let kind ← kv toks "kind"
  let n ← getNat toks "n"
  let sigma0 ← getRat toks "sigma0"
  match kind with
  | "cma" =>
    let s := cmaReset sigma0 (← getVec n toks "x0")
    pure (s!"ok evals={s.evals} mean={showVec s.mean} sigma={showRat s.sigma} pc={showVec s.pc} " ++
      s!"ps={showVec s.ps} cov={showMat s.cov}")
  | "sep" =>
    let s := sepReset sigma0 (← getVec n toks "x0")
    pure (s!"ok evals={s.evals} mean={showVec s.mean} sigma={showRat s.sigma} pc={showVec s.pc} " ++
      s!"ps={showVec s.ps} cov={showVec s.cov}")
  | "lm" =>
    let c : LmCfg := ⟨n, ← getNat toks "batch", ← getNat toks "nvec"⟩
    let s := lmReset c sigma0 (← getVec c.n toks "x0")
    let idx := List.range c.nvec
    pure (s!"ok gens={s.gens} mean={showVec s.mean} sigma={showRat s.sigma} ps={showVec s.ps} " ++
      s!"m={showRows s.m} csigma={showRat (lmCsigma c)} cd={showRatList (idx.map (lmCd c))} " ++
      s!"cc={showRatList (idx.map (lmCc c))}")
  | "adam" =>
    let s := adamReset (← getVec n toks "x0")
    pure s!"ok {showAdam s}"
  | _ => none

def step (st : Unit) (toks : List String) : Unit × String :=
  let r : Option String :=
    match toks with
    | "weights" :: rest => doWeights rest
    | "cma-tell" :: rest => doCmaTell rest
    | "sep-tell" :: rest => doSepTell rest
    | "lm-tell" :: rest => doLmTell rest
    | "openai-tell" :: rest => doOpenaiTell rest
    | "adam-step" :: rest => doAdamStep rest
    | "ascent-step" :: rest => doAscentStep rest
    | "ask" :: rest => doAsk rest
    | "reset" :: rest => doReset rest
    | _ => none
  (st, r.getD "bad-op")

end Pyribs.OptDrv
