import Mathlib.LinearAlgebra.Matrix.PosDef
import Mathlib.Algebra.Order.Star.Real
import Mathlib.Analysis.SpecialFunctions.Log.Basic
open Matrix
/-- rank-one part of the CMA covariance update keeps positive semidefiniteness -/
example {n : Type} [Fintype n] [DecidableEq n] (C : Matrix n n ℝ) (hC : C.PosSemidef) (a : ℝ) (ha : 0 ≤ a)
   (v : n → ℝ) (b : ℝ) (hb : 0 ≤ b) : (a • C + b • vecMulVec v (star v)).PosSemidef := by
  apply PosSemidef.add
  · exact hC.smul ha
  · exact (posSemidef_vecMulVec_self_star v).smul hb
/-- CMA recombination weights log(μ+½) − log i are positive for 1 ≤ i ≤ μ -/
example (mu : ℕ) (i : ℕ) (hi : 1 ≤ i) (him : i ≤ mu) : 0 < Real.log (mu + 1/2) - Real.log i := by
  have hi' : (0:ℝ) < i := by exact_mod_cast hi
  have : (i:ℝ) < mu + 1/2 := by
    have : (i:ℝ) ≤ mu := by exact_mod_cast him
    linarith
  have := Real.log_lt_log hi' this
  linarith
