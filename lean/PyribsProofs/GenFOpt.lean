import PyribsGen.Formulas
import PyribsModel.Opt
import Mathlib.Algebra.Order.Field.Rat
import Mathlib.Tactic.Ring
import Mathlib.Tactic.Linarith
import Mathlib.Tactic.NormNum
/-!
# GenFOpt — the gradient optimizers' update rules are those of the source tree under check

`GenF.ascentTheta` and `GenF.adamTheta / adamM / adamV / adamT` are produced by symbolic execution
of the bodies of `GradientAscentOpt.step` and `AdamOpt.step` (`harness/translate/formulas.py`,
straight-line mode; arrays read coordinate-wise; `np.sqrt` is the uninterpreted function `sq`).
The theorems state that the model's `ascentStep` / `adamStep` (C18, used by C19) compute exactly
these values in every coordinate, for every configuration, state and gradient — given that the
square roots supplied to the model are the values of `sq` at the arguments the code passes to
`np.sqrt`.
-/
namespace Pyribs.GenFProofs
open Pyribs Pyribs.Opt

theorem rpow_eq_pow (x : Rat) (k : Nat) : rpow x k = x ^ k := by
  induction k with
  | zero => simp [rpow]
  | succ k ih => rw [rpow, ih, pow_succ]

/-- **G18a `ascent_matches`** : `theta += lr * gradient` -/
theorem ascent_matches {n : Nat} (lr : Rat) (theta g : Vec n) (j : Fin n) :
    ascentStep lr theta g j = GenF.ascentTheta lr (theta j) (g j) := by
  unfold ascentStep GenF.ascentTheta
  ring

/-- **G18b `adam_matches`** : one `AdamOpt.step`, all four state components, coordinate-wise -/
theorem adam_matches {n : Nat} (cfg : AdamCfg) (st : AdamState n) (g : Vec n) (sq : Rat → Rat)
    (sB2 : Rat) (sV : Vec n)
    (h1 : sq ((1 : Rat) - (cfg.b2 ^ (st.t + 1))) = sB2)
    (h2 : ∀ j, sq (GenF.adamV sq cfg.lr cfg.b1 cfg.b2 cfg.eps cfg.l2 (st.theta j) (st.m j) (st.v j) st.t (g j))
            = sV j)
    (j : Fin n) :
    (adamStep cfg st g sB2 sV).theta j =
        GenF.adamTheta sq cfg.lr cfg.b1 cfg.b2 cfg.eps cfg.l2 (st.theta j) (st.m j) (st.v j) st.t (g j) ∧
    (adamStep cfg st g sB2 sV).m j =
        GenF.adamM sq cfg.lr cfg.b1 cfg.b2 cfg.eps cfg.l2 (st.theta j) (st.m j) (st.v j) st.t (g j) ∧
    (adamStep cfg st g sB2 sV).v j =
        GenF.adamV sq cfg.lr cfg.b1 cfg.b2 cfg.eps cfg.l2 (st.theta j) (st.m j) (st.v j) st.t (g j) ∧
    (adamStep cfg st g sB2 sV).t =
        GenF.adamT sq cfg.lr cfg.b1 cfg.b2 cfg.eps cfg.l2 (st.theta j) (st.m j) (st.v j) st.t (g j) := by
  have h2j := h2 j
  simp only [GenF.adamV] at h2j
  refine ⟨?_, ?_, ?_, ?_⟩
  · simp only [adamStep, adamA, Opt.adamM, Opt.adamV, adamEffGrad, GenF.adamTheta, rpow_eq_pow]
    rw [h1, h2j]
    try ring
  · simp only [adamStep, Opt.adamM, adamEffGrad, GenF.adamM]
    try ring
  · simp only [adamStep, Opt.adamV, adamEffGrad, GenF.adamV]
    try ring
  · simp only [adamStep, GenF.adamT]

/-- **G18c `cma_params_match`** : the learning rates `cc`, `cs`, `c1`, `cmu` of
`CMAEvolutionStrategy._calc_strat_params` as functions of `mueff` and the dimension (the literal
`1.3` is read as the source spells it, 13/10) -/
theorem cma_params_match (n : Nat) (w : List Rat) :
    (cmaParams n w).cc = GenF.cmaCc (mueffOf w) (n : Rat) ∧
    (cmaParams n w).cs = GenF.cmaCs (mueffOf w) (n : Rat) ∧
    (cmaParams n w).c1 = GenF.cmaC1 (mueffOf w) (n : Rat) ∧
    (cmaParams n w).cmu = GenF.cmaCmu (mueffOf w) (n : Rat) := by
  refine ⟨?_, ?_, ?_, ?_⟩
  · simp only [cmaParams, GenF.cmaCc]; try ring
  · simp only [cmaParams, GenF.cmaCs]; try ring
  · simp only [cmaParams, GenF.cmaC1]; try ring
  · simp only [cmaParams, GenF.cmaCmu, rmin]
    have e1 : ((n : Rat) + 13 / 10) * ((n : Rat) + 13 / 10) = ((n : Rat) + 13 / 10) ^ 2 := by ring
    have e2 : ((n : Rat) + 2) * ((n : Rat) + 2) = ((n : Rat) + 2) ^ 2 := by ring
    rw [e1, e2]

/-- **G18d `cma_tell_steps_match`** : the scalar steps of `CMAEvolutionStrategy.tell` — `damps`, the
`ps` and `pc` updates (coordinate-wise), `left` / `right` of the `hsig` test, `c1a` and the argument
and product of the step-size update — are, as the code spells them now, the small functions the
model's `cmaCore` is composed of; `sq` / `ex` stand for `np.sqrt` / `np.exp`, the model receives
their values as supplied numbers (`sDamp`, `sPs`, `sPc`, `expV`) -/
theorem cma_tell_steps_match {n : Nat} (sq ex : Rat → Rat) (mueff cs cc c1 sigma hsig cn : Rat)
    (ps pc y z : Vec n) (k : Nat) :
    dampsOf cs (sq ((mueff - 1) / ((n : Rat) + 1))) = GenF.cmaDamps sq mueff (n : Rat) cs ∧
    (∀ j, psUpdate cs (sq (cs * (2 - cs) * mueff)) sigma ps z j
        = GenF.cmaPs sq mueff cs sigma (ps j) (z j)) ∧
    hsigLeft cs ps k = GenF.cmaLeft cs (n : Rat) (dot ps ps) k ∧
    hsigRight n = GenF.cmaRight (n : Rat) ∧
    (∀ j, pcUpdate cc (sq (cc * (2 - cc) * mueff)) hsig pc y j
        = GenF.cmaPc sq mueff cc hsig (pc j) (y j)) ∧
    c1aOf c1 cc hsig = GenF.cmaC1a c1 cc hsig ∧
    sigma * ex (sigmaArg cn ps) = GenF.cmaSigma ex cn (n : Rat) (dot ps ps) sigma := by
  refine ⟨?_, ?_, ?_, ?_, ?_, ?_, ?_⟩
  · unfold dampsOf GenF.cmaDamps rmax
    split <;> ring
  · intro j; unfold psUpdate GenF.cmaPs; ring
  · unfold hsigLeft GenF.cmaLeft; rw [rpow_eq_pow]
  · unfold hsigRight GenF.cmaRight; rfl
  · intro j; unfold pcUpdate GenF.cmaPc; ring
  · unfold c1aOf GenF.cmaC1a; ring
  · unfold sigmaArg GenF.cmaSigma rmin; rfl

/-- **G18f `sep_tell_steps_match`** : the same steps in `SeparableCMAEvolutionStrategy.tell` (they are
spelled separately in that file) -/
theorem sep_tell_steps_match {n : Nat} (sq ex : Rat → Rat) (mueff cs cc c1 sigma hsig cn : Rat)
    (ps pc y z : Vec n) (k : Nat) :
    dampsOf cs (sq ((mueff - 1) / ((n : Rat) + 1))) = GenF.sepDamps sq mueff (n : Rat) cs ∧
    (∀ j, psUpdate cs (sq (cs * (2 - cs) * mueff)) sigma ps z j
        = GenF.sepPs sq mueff cs sigma (ps j) (z j)) ∧
    hsigLeft cs ps k = GenF.sepLeft cs (n : Rat) (dot ps ps) k ∧
    hsigRight n = GenF.sepRight (n : Rat) ∧
    (∀ j, pcUpdate cc (sq (cc * (2 - cc) * mueff)) hsig pc y j
        = GenF.sepPc sq mueff cc hsig (pc j) (y j)) ∧
    c1aOf c1 cc hsig = GenF.sepC1a c1 cc hsig ∧
    sigma * ex (sigmaArg cn ps) = GenF.sepSigma ex cn (n : Rat) (dot ps ps) sigma := by
  refine ⟨?_, ?_, ?_, ?_, ?_, ?_, ?_⟩
  · unfold dampsOf GenF.sepDamps rmax
    split <;> ring
  · intro j; unfold psUpdate GenF.sepPs; ring
  · unfold hsigLeft GenF.sepLeft; rw [rpow_eq_pow]
  · unfold hsigRight GenF.sepRight; rfl
  · intro j; unfold pcUpdate GenF.sepPc; ring
  · unfold c1aOf GenF.sepC1a; ring
  · unfold sigmaArg GenF.sepSigma rmin; rfl

/-- **G18g `cov_updates_match`** : `_calc_cov_update` of CMA-ES (entry `i, j`) and of sep-CMA-ES
(coordinate `j`), including the rank-one term that carries `c1` twice -/
theorem cov_updates_match {n : Nat} (c1a cmu c1 sigma : Rat) (w : List Rat) :
    (∀ (C rm : Mat n) (pc : Vec n) (i j : Fin n),
      cmaCovUpdate C c1a cmu c1 pc sigma rm w i j
        = GenF.cmaCov (C i j) c1a cmu c1 (pc i * pc j) sigma (rm i j) w.sum) ∧
    (∀ (C rm pc : Vec n) (j : Fin n),
      sepCovUpdate C c1a cmu c1 pc sigma rm w j
        = GenF.sepCov (C j) c1a cmu c1 (pc j) sigma (rm j) w.sum) := by
  constructor
  · intro C rm pc i j
    unfold cmaCovUpdate GenF.cmaCov decayOf; ring
  · intro C rm pc j
    unfold sepCovUpdate GenF.sepCov decayOf; ring

/-- **G18h `sep_params_match`** : the learning rates of sep-CMA-ES (`_calc_strat_params` with
`_conedf` / `_cmudf`), given the square root of the dimension the model is supplied with -/
theorem sep_params_match (sq : Rat → Rat) (n : Nat) (w : List Rat) :
    let p := sepParams n w (sq (n : Rat))
    let mueff := mueffOf w
    let c1sep := GenF.sepC1Sep (GenF.sepC1 mueff (n : Rat)) (GenF.sepConedf sq (n : Rat) mueff (n : Rat))
    p.cc = GenF.sepCcSep sq mueff (n : Rat) ∧
    p.cs = GenF.sepCs mueff (n : Rat) ∧
    p.c1 = c1sep ∧
    p.cmu = GenF.sepCmuSep c1sep (GenF.sepCmudf sq (n : Rat) mueff 0) := by
  intro p mueff c1sep
  refine ⟨?_, ?_, ?_, ?_⟩
  · simp only [p, mueff, sepParams, GenF.sepCcSep]
  · simp only [p, mueff, sepParams, GenF.sepCs]; try ring
  · simp only [p, mueff, c1sep, sepParams, GenF.sepC1Sep, GenF.sepC1, GenF.sepConedf]; ring
  · simp only [p, mueff, c1sep, sepParams, GenF.sepCmuSep, GenF.sepC1Sep, GenF.sepC1, GenF.sepConedf,
      GenF.sepCmudf, rmin]
    have e1 : ((n : Rat) + 13 / 10) * ((n : Rat) + 13 / 10) = ((n : Rat) + 13 / 10) ^ 2 := by ring
    rw [e1]

/-- **G18i `lm_matches`** : LM-MA-ES — the constants `csigma`, `cd[i]`, `cc[i]` of `__init__` and, in
`tell`, the path update (coordinate `j`), the update of row `i` of the low-rank matrix and the
step-size update (argument of the exponential: `lmCore`'s `expArg`) -/
theorem lm_matches (c : LmCfg) (sq ex : Rat → Rat) (mueff sigma : Rat) (i : Nat) :
    lmCsigma c = GenF.lmCsigma c.batch c.n ∧
    lmCd c i = GenF.lmCd i c.n ∧
    lmCc c i = GenF.lmCc i c.n c.batch ∧
    (∀ (ps zm : Vec c.n) (j : Fin c.n),
      (1 - lmCsigma c) * ps j + sq (mueff * lmCsigma c * (2 - lmCsigma c)) * zm j
        = GenF.lmPs sq (lmCsigma c) mueff (ps j) (zm j)) ∧
    (∀ (mi zm : Vec c.n) (j : Fin c.n),
      (1 - lmCc c i) * mi j + sq (mueff * lmCc c i * (2 - lmCc c i)) * zm j
        = GenF.lmM sq (lmCc c i) mueff (mi j) (zm j)) ∧
    (∀ (ps : Vec c.n),
      sigma * ex (lmCsigma c / 2 * (dot ps ps / (c.n : Rat) - 1))
        = GenF.lmSigma ex (lmCsigma c) (c.n : Rat) (dot ps ps) sigma) := by
  refine ⟨?_, ?_, ?_, ?_, ?_, ?_⟩
  · unfold lmCsigma GenF.lmCsigma; push_cast; ring
  · unfold lmCd GenF.lmCd; rw [rpow_eq_pow]
  · unfold lmCc GenF.lmCc; rw [rpow_eq_pow]
  · intro ps zm j; unfold GenF.lmPs; ring
  · intro mi zm j; unfold GenF.lmM; ring
  · intro ps; unfold GenF.lmSigma; rfl

/-- **G18e `openai_norm_rank_matches`** : `ranks / (batch_size - 1) - 0.5` -/
theorem openai_norm_rank_matches (b r : Nat) : normRank b r = GenF.openaiNormRank r b := by
  unfold normRank GenF.openaiNormRank
  ring

/-- the best of `b ≥ 2` ranks gets `+1/2`, the worst `-1/2` (the weights of the gradient estimate
are centred) -/
theorem openai_norm_rank_ends (b : Nat) (hb : 2 ≤ b) :
    GenF.openaiNormRank (b - 1) b = 1 / 2 ∧ GenF.openaiNormRank 0 b = -1 / 2 := by
  unfold GenF.openaiNormRank
  have h1 : ((b - 1 : Nat) : Rat) = (b : Rat) - 1 := by
    rw [Nat.cast_sub (by omega)]; simp
  have hne : (b : Rat) - 1 ≠ 0 := by
    have : (2 : Rat) ≤ (b : Rat) := by exact_mod_cast hb
    intro h; linarith
  constructor
  · rw [h1, div_self hne]; norm_num
  · simp; norm_num

end Pyribs.GenFProofs
