/-! scratch prototype: elitist per-cell core -/
structure Cand where
  cell : Nat
  obj  : Rat
  id   : Nat
deriving Repr, DecidableEq

/-- sequential spec: incumbent replaced only by strictly better -/
def better (inc : Option Cand) (c : Cand) : Option Cand :=
  match inc with
  | none => some c
  | some i => if i.obj < c.obj then some c else some i

def bestOf (inc : Option Cand) (cs : List Cand) : Option Cand := cs.foldl better inc

/-- code-shaped batch: filter accepted against the *pre-call* incumbent, argmax first-wins, then write -/
def accepted (inc : Option Cand) (cs : List Cand) : List Cand :=
  cs.filter (fun c => match inc with | none => true | some i => decide (i.obj < c.obj))

/-- first element with maximal objective (numpy_groupies argmax semantics) -/
def argmaxFirst : List Cand → Option Cand
  | [] => none
  | c :: cs => match argmaxFirst cs with
    | none => some c
    | some m => if c.obj < m.obj then some m else some c

def batch (inc : Option Cand) (cs : List Cand) : Option Cand :=
  match argmaxFirst (accepted inc cs) with
  | none => inc
  | some m => some m
