import PyribsGen.Formulas
import PyribsModel.Opt
import Mathlib.Algebra.Order.Field.Rat
import Mathlib.Tactic.Ring
/-!
# GenFOpt — the gradient optimizers' update rules are those of the source tree under check

`GenF.ascentTheta` and `GenF.adamTheta / adamM / adamV / adamT` are produced by symbolic execution
of the bodies of `GradientAscentOpt.step` and `AdamOpt.step` (`harness/translate/formulas.py`,
straight-line mode; arrays read coordinate-wise; `np.sqrt` is the uninterpreted function `sq`).
The theorems state that the model's `ascentStep` / `adamStep` (C18, used by C19) compute exactly
these values in every coordinate, for every configuration, state and gradient — given that the
square roots supplied to the model are the values of `sq` at the arguments the code passes to
`np.sqrt`.
-/
namespace Pyribs.GenFProofs
open Pyribs Pyribs.Opt

theorem rpow_eq_pow (x : Rat) (k : Nat) : rpow x k = x ^ k := by
  induction k with
  | zero => simp [rpow]
  | succ k ih => rw [rpow, ih, pow_succ]

/-- **G18a `ascent_matches`** : `theta += lr * gradient` -/
theorem ascent_matches {n : Nat} (lr : Rat) (theta g : Vec n) (j : Fin n) :
    ascentStep lr theta g j = GenF.ascentTheta lr (theta j) (g j) := by
  unfold ascentStep GenF.ascentTheta
  ring

/-- **G18b `adam_matches`** : one `AdamOpt.step`, all four state components, coordinate-wise -/
theorem adam_matches {n : Nat} (cfg : AdamCfg) (st : AdamState n) (g : Vec n) (sq : Rat → Rat)
    (sB2 : Rat) (sV : Vec n)
    (h1 : sq ((1 : Rat) - (cfg.b2 ^ (st.t + 1))) = sB2)
    (h2 : ∀ j, sq (GenF.adamV sq cfg.lr cfg.b1 cfg.b2 cfg.eps cfg.l2 (st.theta j) (st.m j) (st.v j) st.t (g j))
            = sV j)
    (j : Fin n) :
    (adamStep cfg st g sB2 sV).theta j =
        GenF.adamTheta sq cfg.lr cfg.b1 cfg.b2 cfg.eps cfg.l2 (st.theta j) (st.m j) (st.v j) st.t (g j) ∧
    (adamStep cfg st g sB2 sV).m j =
        GenF.adamM sq cfg.lr cfg.b1 cfg.b2 cfg.eps cfg.l2 (st.theta j) (st.m j) (st.v j) st.t (g j) ∧
    (adamStep cfg st g sB2 sV).v j =
        GenF.adamV sq cfg.lr cfg.b1 cfg.b2 cfg.eps cfg.l2 (st.theta j) (st.m j) (st.v j) st.t (g j) ∧
    (adamStep cfg st g sB2 sV).t =
        GenF.adamT sq cfg.lr cfg.b1 cfg.b2 cfg.eps cfg.l2 (st.theta j) (st.m j) (st.v j) st.t (g j) := by
  have h2j := h2 j
  simp only [GenF.adamV] at h2j
  refine ⟨?_, ?_, ?_, ?_⟩
  · simp only [adamStep, adamA, Opt.adamM, Opt.adamV, adamEffGrad, GenF.adamTheta, rpow_eq_pow]
    rw [h1, h2j]
    try ring
  · simp only [adamStep, Opt.adamM, adamEffGrad, GenF.adamM]
    try ring
  · simp only [adamStep, Opt.adamV, adamEffGrad, GenF.adamV]
    try ring
  · simp only [adamStep, GenF.adamT]

/-- **G18c `cma_params_match`** : the learning rates `cc`, `cs`, `c1`, `cmu` of
`CMAEvolutionStrategy._calc_strat_params` as functions of `mueff` and the dimension (the literal
`1.3` is read as the source spells it, 13/10) -/
theorem cma_params_match (n : Nat) (w : List Rat) :
    (cmaParams n w).cc = GenF.cmaCc (mueffOf w) (n : Rat) ∧
    (cmaParams n w).cs = GenF.cmaCs (mueffOf w) (n : Rat) ∧
    (cmaParams n w).c1 = GenF.cmaC1 (mueffOf w) (n : Rat) ∧
    (cmaParams n w).cmu = GenF.cmaCmu (mueffOf w) (n : Rat) := by
  refine ⟨?_, ?_, ?_, ?_⟩
  · simp only [cmaParams, GenF.cmaCc]; try ring
  · simp only [cmaParams, GenF.cmaCs]; try ring
  · simp only [cmaParams, GenF.cmaC1]; try ring
  · simp only [cmaParams, GenF.cmaCmu, rmin]
    have e1 : ((n : Rat) + 13 / 10) * ((n : Rat) + 13 / 10) = ((n : Rat) + 13 / 10) ^ 2 := by ring
    have e2 : ((n : Rat) + 2) * ((n : Rat) + 2) = ((n : Rat) + 2) ^ 2 := by ring
    rw [e1, e2]

end Pyribs.GenFProofs
