# scratch fuzz: elitist + CMA-MAE grid archive vs exact Fraction reference (dyadic inputs)
import numpy as np, warnings, random
from fractions import Fraction as F
from ribs.archives import GridArchive, CVTArchive
warnings.simplefilter("ignore")
rnd = random.Random(1)
def run(seed, lr, tmin, dtype, ncell=4, steps=30):
    rnd = random.Random(seed)
    kw = {} if lr is None else dict(learning_rate=lr, threshold_min=tmin)
    a = GridArchive(solution_dim=1, dims=[ncell], ranges=[(0,ncell)], dtype=dtype, qd_score_offset=-3.0, **kw)
    lrF = F(1) if lr is None else F(lr); tminF = None if lr is None else F(tmin)
    cells = {}  # c -> dict(obj, thr, sid)
    sid = 0; objmax=None; issues=[]
    for st in range(steps):
        op = rnd.random()
        if op < 0.08:
            a.clear(); cells={}; objmax=None; continue
        n = 1 if op < 0.4 else rnd.randint(0,6)
        cs = [rnd.randrange(ncell) for _ in range(n)]
        objs = [F(rnd.randint(-16,16),4) for _ in range(n)]
        sols = list(range(sid, sid+n)); sid += n
        meas = [[c+0.5] for c in cs]
        single = (op < 0.4)
        if single:
            r = a.add_single([float(sols[0])], float(objs[0]), meas[0]); st_=[int(r["status"])]; val=[r["value"]]
        else:
            r = a.add(np.array(sols,dtype=float).reshape(n,1), np.array([float(o) for o in objs]), np.array(meas).reshape(n,1)); st_=r["status"].tolist(); val=r["value"].tolist()
        # reference
        exp_st=[]; exp_val=[]
        for c,o in zip(cs,objs):
            if c in cells:
                t=cells[c]["thr"]; s = 1 if o>t else 0; v=o-t
            else:
                if tminF is None: s=2; v=o
                else: s = 2 if o>tminF else 0; v=o-tminF
            exp_st.append(s); exp_val.append(v)
        if exp_st!=st_: issues.append(("status",st,cs,objs,exp_st,st_))
        if [F(float(v)) for v in val]!=exp_val: issues.append(("value",st,exp_val,val))
        # update
        bycell={}
        for i,(c,o,s) in enumerate(zip(cs,objs,exp_st)):
            if s: bycell.setdefault(c,[]).append((o,i))
        for c,lst in bycell.items():
            k=len(lst); m=sum(o for o,_ in lst)/k
            best=max(lst,key=lambda x:(x[0],-x[1]))
            t0 = cells[c]["thr"] if c in cells else (tminF if tminF is not None else None)
            if tminF is None: t1=best[0]
            elif single: t1=(1-lrF)*t0+lrF*lst[0][0]
            else: t1=(1-lrF)**k*t0+(1-(1-lrF)**k)*m
            cells[c]=dict(obj=best[0],thr=t1,sid=sols[best[1]])
            objmax = best[0] if objmax is None or best[0]>objmax else objmax
        d=a.data()
        got={int(i):(F(float(o)),F(float(t)),int(s[0])) for i,o,t,s in zip(d["index"],d["objective"],d["threshold"],d["solution"])}
        exp={c:(v["obj"],v["thr"],v["sid"]) for c,v in cells.items()}
        if got!=exp: issues.append(("contents",st,exp,got)); break
        s_=a.stats
        if s_.num_elites!=len(cells): issues.append(("num",st))
        if cells:
            if F(float(s_.qd_score))!=sum(v["obj"]+3 for v in cells.values()): issues.append(("qd",st,float(s_.qd_score),float(sum(v["obj"]+3 for v in cells.values()))))
            if F(float(s_.obj_max))!=objmax: issues.append(("objmax",st,s_.obj_max,objmax))
            if F(float(a.best_elite["objective"]))!=objmax: issues.append(("best",st))
    return issues
tot=0
for seed in range(300):
    for (lr,tmin) in [(None,None),(0.5,-2.0),(1.0,-2.0),(0.0,-2.0),(0.25,0.0)]:
        for dt in (np.float64,np.float32):
            iss = run(seed, lr, tmin, dt)
            if iss:
                tot+=1
                if tot<6: print(seed, lr, tmin, dt.__name__, iss[:2])
print("runs with issues", tot)
