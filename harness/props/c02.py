"""C02 — add() feedback (status, value) is computed against the pre-call archive."""
import archdispatch
import archlib

ID = "C02"
from genf import translate  # noqa: E402,F401  (regenerates lean/PyribsGen/Formulas.lean from the tree under check)
PROOF_MODULES = ["PyribsProofs.C02", "PyribsGen.Formulas", "PyribsProofs.GenF", "PyribsGen.Control",
                 "PyribsProofs.GenFArch"]
THEOREMS = [
    "Pyribs.GenFProofs.single_status_from_source",
    "Pyribs.GenFProofs.single_value_from_source",
    "Pyribs.GenFProofs.batch_status_from_source",
    "Pyribs.GenFProofs.batch_value_from_source",
    "Pyribs.GenFProofs.batch_single_agree_from_source",
    "Pyribs.GenFProofs.batch_feedback_spec_from_source",
    "Pyribs.GenFProofs.value_matches",
    "Pyribs.GenFProofs.batch_value_matches",
    "Pyribs.C02.judge_spec",
    "Pyribs.C02.judge_spec_single",
    "Pyribs.C02.status_empty",
    "Pyribs.C02.status_occupied",
    "Pyribs.C02.value_spec",
    "Pyribs.C02.status_zero_of_le",
    "Pyribs.C02.same_prestate",
    "Pyribs.C02.stored_only_if_selected",
    "Pyribs.C02.stored_only_if_selected_single",
    "Pyribs.C02.status_zero_single_noop",
    "Pyribs.C02.mkCfg_valid",
    "Pyribs.C02.single_eq_batch_one",
    "Pyribs.C02.nonvacuous",
]
RULE = ("lock-step histories on GridArchive / CVTArchive / SlidingBoundariesArchive with default and CMA-MAE "
        "settings (learning rates 0..1, finite threshold_min), float32/float64; every add's status and value are "
        "judged by the oracle against data() snapshotted before the call, every batch-of-one / add_single is also "
        "run in the other form on a deep copy; non-trivial when a cell receives two or more candidates; distinct "
        "by op list")
PARTIAL = ["float rounding of `value` and of CMA-MAE thresholds is compared with a relative tolerance "
           "(2^-40 float64, 2^-18 float32); status is always compared exactly"]
ASSUMPTIONS = list(__import__("props.c01", fromlist=["x"]).ASSUMPTIONS)
PROPS = {"C02"}


def gen(profile, **kw):
    def g(rng):
        case = archlib.gen_case(rng, profile, **kw)
        case["profile"] = profile
        return case
    return g


def run_case(case):
    return archdispatch.run_case(case, PROPS)


def run(ctx):
    budget = 7 if ctx.quick else 80
    for name, prof, kw, n in [("mixed", "mixed", {}, ctx.n(120, 10000)),
                              ("ties", "ties", {}, ctx.n(100, 8000)),
                              ("cma", "cma", {"cma": True}, ctx.n(160, 12000)),
                              ("cma-ties", "ties", {"cma": True}, ctx.n(80, 6000)),
                              ("cma-tmin-edge", "tminedge", {"cma": True, "kinds": ("grid", "cvt")}, ctx.n(100, 6000)),
                              ("collide", "collide", {}, ctx.n(100, 6000))]:
        ctx.explore(name, gen(prof, **kw), run_case, n, nontrivial=archlib.nontrivial_c01, time_budget=budget)
    # remapping insertions of SlidingBoundariesArchive and ProximityArchive with local competition
    ctx.explore("sliding-remaps", archdispatch.gen_sliding, run_case, ctx.n(80, 6000), time_budget=budget)
    ctx.explore("proximity-lc", archdispatch.gen_prox(lc=True), run_case, ctx.n(80, 6000), time_budget=budget)
    # a user subclass overriding the documented routing hook `index_of`: every entry point must go through it
    ctx.explore("hooks", archlib.gen_hooks, run_case, ctx.n(60, 3000), time_budget=budget)


def replay(ctx, case):
    return run_case(case)
