"""C08 — emitters always emit finite, in-bounds, correctly shaped and typed solutions.

Correspondence: every emitter class of `ribs.emitters` is driven through ask / tell (ask_dqd / tell_dqd)
histories over the finite configuration lattice

    emitter kind x solution dtype x measures dtype x bounds layout x archive kind x archive state

and compared with the Lean `Emit` model (`PyribsModel/Emit.lean`, machine `emit`):

* bounds parsing (`parseBounds`) against `emitter.lower_bounds / upper_bounds`;
* the clipping emitters (Gaussian, IsoLine, GeneticAlgorithm x {gaussian, isoline}, and
  GradientOperatorEmitter.ask_dqd) against `emitterAsk` on exact rationals: the operator's noise is
  reproduced from the seed (same generator construction and call order), the sampled parents are
  replayed on a deep copy of the archive taken just before `ask` (public API only), and the model's
  `clip(parents + noise)` must equal what `ask` returned (bit for bit for the Gaussian operator, after
  one correct rounding to the solution dtype; within 2^-40 / 2^-18 relative for Iso+LineDD);
* the native evolution strategies' resample loop against `resample`: the candidate stream is obtained
  from a deep copy of the strategy whose bounds were removed (`copy.ask(k)` = the k candidates of the
  next round), the model decides round by round which rows remain, and the final rows must be equal;
* the dtype algebra (`askDType`) against the dtype `ask` returns.

Oracle (read directly on the implementation): finite, shape, dtype == archive.dtypes["solution"],
every coordinate inside `emitter.lower_bounds / upper_bounds`, `initial_solutions` (clipped) while the
archive is empty, and -- with zero noise -- every row is a row of `archive.data("solution")` (x0 when
the archive is empty).
"""
import copy
import signal
import warnings
from fractions import Fraction

import numpy as np

from core import Driver, Failure, q

ID = "C08"
PROOF_MODULES = ["PyribsProofs.C08"]
THEOREMS = [
    "Pyribs.C08.clip_in_bounds",
    "Pyribs.C08.clip_of_inB",
    "Pyribs.C08.clip_cases",
    "Pyribs.C08.clip_between",
    "Pyribs.C08.clipRow_in_bounds",
    "Pyribs.C08.zero_noise_exact",
    "Pyribs.C08.iso_zero_noise_exact",
    "Pyribs.C08.iso_same_parent",
    "Pyribs.C08.gopLine_zero_noise_exact",
    "Pyribs.C08.perturbation_only",
    "Pyribs.C08.perturbation_only_coord",
    "Pyribs.C08.gaussianOp_shape",
    "Pyribs.C08.isoLineOp_shape",
    "Pyribs.C08.gopLineOp_shape",
    "Pyribs.C08.pick_rows_of_archive",
    "Pyribs.C08.ask_zero_noise_rows_of_archive",
    "Pyribs.C08.ask_empty_x0",
    "Pyribs.C08.emitterAsk_shape",
    "Pyribs.C08.emitterAsk_in_bounds",
    "Pyribs.C08.resample_post",
    "Pyribs.C08.resample_rows_in_bounds",
    "Pyribs.C08.dtype_is_solution_dtype",
    "Pyribs.C08.dtype_defect_witness",
    "Pyribs.C08.dtype_defect_iff",
    "Pyribs.C08.dtype_defect_gae_witness",
    "Pyribs.C08.parseBounds_length",
    "Pyribs.C08.parseBounds_none",
    "Pyribs.C08.parseBounds_entry",
    "Pyribs.C08.parseBounds_lo_none_iff",
    "Pyribs.C08.parseBounds_error_iff",
    "Pyribs.C08.nonvacuous",
]
RULE = ("the lattice emitter kind (GaussianEmitter, IsoLineEmitter, GeneticAlgorithmEmitter x {gaussian, isoline}, "
        "GradientOperatorEmitter x {isotropic, iso_line_dd} x {measure gradients on/off}, EvolutionStrategyEmitter x "
        "{cma_es, sep_cma_es, lm_ma_es, openai_es (mirror only when unbounded), pycma_es}, "
        "GradientArborescenceEmitter x Jacobian dtype) x solution dtype x measures dtype x bounds layout (none, box, "
        "one-sided mix, tight, non-dyadic box; a box excluding x0 only for the clipping emitters) x archive kind "
        "(Grid, CVT, SlidingBoundaries, Proximity) x archive state (empty, one elite, many, cleared again) is walked "
        "point by point (thorough: the full product; quick: every (kind, dtypes, bounds) point with archive kind and "
        "state rotating so that all pairs occur); batch size, dimension, seeds, sigma (zero in a third of the "
        "clipping cases), initial_solutions vs x0 (handed over as a list, an ndarray of exactly the solution dtype or of "
        "the other dtype; ndarrays are overwritten by the caller right after construction), restart rule and the 5 "
        "(quick) to 30 (thorough) operations (ask/tell iteration, iteration in which nothing is inserted, external add, "
        "clear) are drawn at random; every batch a clipping emitter's ask() hands out is overwritten in place after "
        "it was read, and initial_solutions cases end with clear / ask sequences, so that the configured initial "
        "solutions must come back on every later empty archive. In three iterations of ten the caller makes a call the "
        "emitter must refuse and goes on (tell_dqd with a NaN / inf entry in the Jacobian, a Jacobian of the wrong "
        "trailing shape or number of gradients, a wrong-length objective; tell with a wrong-length / NaN objective or "
        "solutions of the wrong dimension; GradientArborescenceEmitter.ask / tell before any gradients): every later "
        "ask is read as if the refused call had not been made; in a fifth of the iterations of the evolution-strategy and "
        "gradient-arborescence emitters the caller clips the batch into a box of its own before evaluating and telling "
        "it (told != asked), and the gradient arborescence emitter is also driven through ask_dqd -> tell_dqd -> ask -> "
        "ask_dqd -> tell_dqd -> tell. Stratum pycma_shared: two pycma_es emitters (different "
        "batch sizes, bounds, seeds) built from ONE shared es_kwargs dict, run past their restarts. Strata big_<es>: deterministic size-threshold cases for every strategy (batch 64-256 on "
        "solution_dim 1-3 with selection_rule mu on a sphere; LM-MA-ES with batch 32-48 on dimension 40-64 and with "
        "es_kwargs n_vectors 40 / 64; 26-70 uninterrupted generations), every ask read. Strata long_<es>: "
        "deterministic long histories (260-400 iterations) of every strategy on the linear objective f(x) = x[0]. The ES "
        "bounds layouts include 'halfspace' (every dimension bounded on one side only). A case is non-trivial when it asks at least "
        "once on a non-empty archive and the configuration has a finite bound or mixed dtypes; counted once per "
        "distinct operation list (the first entry names the configuration).")
PARTIAL = [
    "open finding D51 (sep_cma_es diverges to inf on the linear objective f(x) = x[0]; float32 at iteration 108): one "
    "deterministic case on every run (stratum long_sep_cma_es), printed as KNOWN-FINDING while the entry is open; the "
    "strata long_<es> run every strategy for 260-400 iterations on that objective and read finite / shape / dtype",
    "'finite' is monitored on every sampled iteration, not proved: the model computes in Q, and an adversarial "
    "ranking sequence makes sigma overflow in any CMA-ES after enough iterations",
    "pycma_es is a black box: held to the observable clauses (finite, shape, dtype, bounds) only",
    "the resample loop's termination is not claimed (documented not to terminate for bounds that exclude the mean); "
    "T08.4 is the post-condition 'if the loop returns'",
]
ASSUMPTIONS = [
    "constructor keywords whose generated value equals the documented default (DOC_DEFAULTS, read off the signatures / "
    "docstrings; default batch sizes: 64, resp. 4 + floor(3 ln n) for the strategies) are left out of the call, so the "
    "defaults themselves run while oracle and model use the documented values; the arrays handed to tell / tell_dqd "
    "are private copies that are overwritten with garbage right after the call",
    "inputs near the dtype's overflow threshold are outside the quantifier: e.g. IsoLineEmitter with elites at +-3e38 "
    "in a float32 archive (the direction p2 - p1 overflows) is not read as a violation of 'finite'",
    "a bounded OpenAI-ES whose Adam step moves the mean outside the box makes ask() resample indefinitely: the "
    "resampling strategies are documented not to terminate when the mean is outside the bounds, so this is not read "
    "as a violation (the narrow-slab cases of openai_es are limited to one iteration for that reason)",
    "operator noise is reproduced from the emitter's seed with the same generator construction and call order as the "
    "code (np.random.default_rng(seed).normal(scale=sigma, size=...).astype(solution dtype))",
    "parents are replayed by calling sample_elites on a deep copy of the archive taken immediately before ask",
    "one IEEE addition is correctly rounded: the Gaussian operator's float result is the correct rounding of the "
    "model's exact rational (rounding commutes with clipping because the bounds are representable in the dtype)",
    "a deep copy of a native evolution strategy with its bounds set to +-inf yields, through ask(k), exactly the k "
    "candidates the bounded original examines in its next resampling round",
]
TECHNIQUE = "Lean 4 model + theorems; lock-step correspondence over the configuration lattice; property oracle"
LEVEL_TEXT = ("proof: clipping, zero-noise exactness, perturbation-only, the resample post-condition, the dtype algebra, "
              "shapes and bounds parsing are Lean theorems about the Emit model for all inputs; the model is tied to "
              "the code by an exact (rational) lock-step comparison over the whole configuration lattice; 'finite' and "
              "pycma are monitored, not proved")

D = {"f32": np.float32, "f64": np.float64}
TOL = {"f32": Fraction(1, 2**18), "f64": Fraction(1, 2**40)}
ASK_TIMEOUT = 20  # seconds; a resample loop that never returns is reported, not waited for

CLIP_KINDS = ["gauss", "ga_gauss"]
ISO_KINDS = ["iso", "ga_iso"]
GOP_KINDS = ["gop_iso", "gop_iso_mg", "gop_line", "gop_line_mg"]
ES_KINDS = ["cma_es", "sep_cma_es", "lm_ma_es", "openai_es", "pycma_es"]
GAE_KINDS = ["gae_j32", "gae_j64"]
DTYPES = [("f64", "f64"), ("f32", "f64"), ("f64", "f32"), ("f32", "f32")]
ARCHS = ["grid", "cvt", "sba", "prox"]
STATES = ["empty", "one", "many", "cleared"]
BOUNDS_CLIP = ["none", "box", "onesided", "tight", "nondyadic", "excl"]
BOUNDS_ES = ["none", "box", "onesided", "halfspace", "tight", "nondyadic", "narrow"]


# --------------------------------------------------------------------------
# exact arithmetic helpers


def fr(x):
    return Fraction(float(x))


def frow(row):
    return [Fraction(float(v)) for v in row]


def round_frac(x, dt):
    """Correct rounding (round-half-even) of a rational to float32 / float64, as a Fraction."""
    p, emin = (24, -126) if dt == "f32" else (53, -1022)
    if x == 0:
        return Fraction(0)
    s = -1 if x < 0 else 1
    a = -x if x < 0 else x
    e = a.numerator.bit_length() - a.denominator.bit_length()
    if Fraction(2)**e > a:
        e -= 1
    elif Fraction(2)**(e + 1) <= a:
        e += 1
    e = max(e, emin)
    quantum = Fraction(2)**(e - p + 1)
    t = a / quantum
    n = t.numerator // t.denominator
    rem = t - n
    if rem > Fraction(1, 2) or (rem == Fraction(1, 2) and n % 2 == 1):
        n += 1
    return s * n * quantum


def _selftest_round():
    rng = np.random.default_rng(12345)
    for _ in range(200):
        a, b = rng.normal(size=2) * 10.0**rng.integers(-5, 5)
        exact = Fraction(float(a)) + Fraction(float(b))
        assert round_frac(exact, "f64") == Fraction(float(a) + float(b))
        a32, b32 = np.float32(a), np.float32(b)
        exact = Fraction(float(a32)) + Fraction(float(b32))
        assert round_frac(exact, "f32") == Fraction(float(a32 + b32))


_selftest_round()


def rowtok(row):
    return ",".join(q(v) for v in row)


def parse_rows(resp):
    toks = resp.split()
    if not toks or toks[0] != "ok":
        return None
    return [[Fraction(t) for t in r.split(",")] for r in toks[1:]]


def lo_tok(v):
    return "-inf" if v == -np.inf else q(Fraction(float(v)))


def hi_tok(v):
    return "inf" if v == np.inf else q(Fraction(float(v)))


class AskTimeout(Exception):
    pass


def _alarm(*_):
    raise AskTimeout()


def timed(fn):
    """Run fn() under a wall-clock limit (the loops under test are Python-level loops)."""
    old = signal.signal(signal.SIGALRM, _alarm)
    signal.setitimer(signal.ITIMER_REAL, ASK_TIMEOUT)
    try:
        return fn()
    finally:
        signal.setitimer(signal.ITIMER_REAL, 0)
        signal.signal(signal.SIGALRM, old)


# --------------------------------------------------------------------------
# configuration


def bounds_layout(name, dim):
    """(bounds argument, x0) for a layout; None entries exercise every branch of _process_bounds.

    x0 has pairwise distinct, non-zero dyadic coordinates of alternating sign (a constant x0 hides every bug that
    mixes up its coordinates); it lies strictly inside the box of every layout except `excl`, where every coordinate
    lies outside."""
    sgn = lambda i: 1.0 if i % 2 == 0 else -1.0
    x0 = [sgn(i) * (i + 1) / 16 for i in range(dim)]            # 1/16, -1/8, 3/16, -1/4
    if name == "halfspace":
        x0 = [sgn(i) * (i + 1) / 64 for i in range(dim)]        # inside (-1/8, 1/8)
    elif name == "tight":
        x0 = [sgn(i) * (i + 1) / 512 for i in range(dim)]       # inside (-1/64, 1/64)
    elif name == "narrow":
        x0 = [1 / 1024] + [sgn(i) * (i + 1) / 16 for i in range(1, dim)]
    elif name == "excl":
        x0 = [-(i + 1) / 16 for i in range(dim)]                # below the box [1/4, 1] in every coordinate
    if name == "none":
        return None, x0
    if name == "box":
        return [(-1.0, 1.0)] * dim, x0
    if name == "onesided":
        cyc = [(None, 0.5), (-0.5, None), None, (-1.0, 1.0), (None, None)]
        return [cyc[i % len(cyc)] for i in range(dim)], x0
    if name == "halfspace":
        # every dimension bounded on ONE side only (no dimension has both bounds): lower bounds only (the
        # "non-negativity" kind of box), upper bounds only, or alternating -- by dimension count
        if dim == 2:
            return [(-1 / 8, None)] * dim, x0
        if dim == 3:
            return [(None, 1 / 8)] * dim, x0
        return [(-1 / 8, None) if i % 2 == 0 else (None, 1 / 8) for i in range(dim)], x0
    if name == "tight":
        return [(-1 / 64, 1 / 64)] * dim, x0
    if name == "narrow":
        # a slab so thin relative to sigma that a sample survives hundreds of resampling passes (ES kinds only)
        return [(-1 / 256, 1 / 256)] + [(-4.0, 4.0)] * (dim - 1), x0
    if name == "nondyadic":
        return [(-0.3, 0.7)] * dim, x0
    if name == "excl":  # the box does not contain x0 (clipping emitters only)
        return [(0.25, 1.0)] * dim, x0
    raise ValueError(name)


def mk_archive(kind, dim, sd, md, seed):
    from ribs.archives import CVTArchive, GridArchive, ProximityArchive, SlidingBoundariesArchive
    dt = {"solution": D[sd], "objective": np.float64, "measures": D[md]}
    if kind == "grid":
        return GridArchive(solution_dim=dim, dims=[4, 4], ranges=[(-2, 2), (-2, 2)], dtype=dt, seed=seed)
    if kind == "cvt":
        cents = np.array([[-1, -1], [1, 1], [-1, 1], [1, -1], [0, 0], [0.5, -0.5], [-0.5, 0.25]], dtype=D[md])
        return CVTArchive(solution_dim=dim, cells=len(cents), ranges=[(-2, 2), (-2, 2)], dtype=dt, seed=seed,
                          custom_centroids=cents)
    if kind == "sba":
        return SlidingBoundariesArchive(solution_dim=dim, dims=[4, 4], ranges=[(-2, 2), (-2, 2)], dtype=dt,
                                        seed=seed, remap_frequency=7, buffer_capacity=20)
    if kind == "prox":
        return ProximityArchive(solution_dim=dim, measure_dim=2, k_neighbors=2, novelty_threshold=1 / 16, dtype=dt,
                                seed=seed)
    raise ValueError(kind)


def evaluate(sols):
    sols = np.asarray(sols, dtype=np.float64)
    obj = -np.sum(sols**2, axis=1)
    meas = np.zeros((len(sols), 2))                 # solution_dim == 1: the second measure is 0
    cols = min(2, sols.shape[1]) if sols.ndim == 2 else 0
    if cols:
        meas[:, :cols] = np.clip(sols[:, :cols], -1e6, 1e6)
    return obj, meas


class Shadow:
    """Replays the noise an emitter's operator draws (same construction, same call order)."""

    def __init__(self, seed):
        self.rng = np.random.default_rng(seed)

    def normal(self, scale, size, dtype):
        return self.rng.normal(loc=0.0, scale=scale, size=size).astype(dtype)


# Documented defaults of the constructors (from the signatures / docstrings of ribs.emitters).  A keyword whose value in
# the case EQUALS the documented default is left out of the call, so that the default itself is what runs while the
# oracle and the model keep using the documented value; the generators draw the default values on purpose.
DOC_DEFAULTS = {
    "GaussianEmitter": {"x0": None, "initial_solutions": None, "bounds": None, "batch_size": 64, "seed": None},
    "IsoLineEmitter": {"iso_sigma": 0.01, "line_sigma": 0.2, "x0": None, "initial_solutions": None, "bounds": None,
                       "batch_size": 64, "seed": None},
    "GeneticAlgorithmEmitter": {"x0": None, "initial_solutions": None, "bounds": None, "batch_size": 64,
                                "operator_kwargs": None},
    "GradientOperatorEmitter": {"initial_solutions": None, "x0": None, "line_sigma": 0.0, "measure_gradients": False,
                                "normalize_grad": False, "epsilon": 1e-8, "operator_type": "isotropic", "bounds": None,
                                "batch_size": 64, "seed": None},
    "EvolutionStrategyEmitter": {"ranker": "2imp", "es": "cma_es", "es_kwargs": None, "selection_rule": "filter",
                                 "restart_rule": "no_improvement", "bounds": None, "batch_size": None, "seed": None},
    "GradientArborescenceEmitter": {"ranker": "2imp", "selection_rule": "filter", "restart_rule": "no_improvement",
                                    "grad_opt": "adam", "grad_opt_kwargs": None, "es": "cma_es", "es_kwargs": None,
                                    "normalize_grad": True, "bounds": None, "batch_size": None, "epsilon": 1e-8,
                                    "seed": None},
}


def omit_defaults(cls_name, kwargs):
    """kwargs without the keywords whose value equals the documented default (an empty dict counts as None)"""
    out = {}
    for k, v in kwargs.items():
        if k in DOC_DEFAULTS[cls_name]:
            d = DOC_DEFAULTS[cls_name][k]
            if isinstance(v, dict) and not v:
                v = None
            same = (v is None and d is None) or (
                v is not None and d is not None and not isinstance(v, (np.ndarray, list, tuple, dict)) and
                not callable(v) and type(v) in (bool, int, float, str) and type(d) in (bool, int, float, str) and
                isinstance(v, bool) == isinstance(d, bool) and v == d)
            if same:
                continue
        out[k] = v
    return out


def default_batch(kind, dim):
    """the documented default batch size: 64 for the operator emitters; for the evolution strategies the CMA-ES
    population size 4 + floor(3 ln n) of the strategy's search space (made even by OpenAI-ES; the gradient
    arborescence strategy searches the 1 + measure_dim = 3 coefficients)"""
    if kind in ES_KINDS:
        b = 4 + int(3 * np.log(dim))
        return b + (b % 2) if kind == "openai_es" else b
    if kind in GAE_KINDS:
        return 4 + int(3 * np.log(3))
    return 64


def build(case):
    """Construct archive + emitter for a case.  Returns a dict of everything run_case needs."""
    from ribs import emitters as E
    from ribs.emitters import opt as O
    kind, dim, batch = case["kind"], case["dim"], case["batch"]
    sd, md = case["sd"], case["md"]
    arch = mk_archive(case["arch"], dim, sd, md, case["aseed"])
    barg, x0 = bounds_layout(case["bounds"], dim)
    seed = case["seed"]
    sig = float(Fraction(case["sigma"]))
    lsig = float(Fraction(case.get("line_sigma", "1/2")))
    init = None
    init_arg = None
    if case.get("init"):
        init = [[float(Fraction(v)) for v in r] for r in case["init"]]
        # what the caller passes: a list, or an ndarray (of exactly the solution dtype / of the other dtype) that the
        # caller keeps using -- it is overwritten right after the constructor returns (see the end of build)
        form = case.get("init_form", "list")
        init_arg = init
        if form == "same":
            init_arg = np.array(init, dtype=D[sd])
        elif form == "other":
            init_arg = np.array(init, dtype=D["f32" if sd == "f64" else "f64"])
    x0arg = None if init is not None else x0
    info = {"arch": arch, "x0": None if init is not None else np.array(x0, dtype=D[sd]), "init": init,
            "barg": barg, "es": None, "shadow": None, "sigma": sig, "line_sigma": lsig}
    sdt = D[sd]
    if kind == "gauss":
        em = E.GaussianEmitter(arch, **omit_defaults("GaussianEmitter", dict(
            sigma=sig, x0=x0arg, initial_solutions=init_arg, bounds=barg, batch_size=batch, seed=seed)))
        info.update(shadow=Shadow(seed), scale=np.array(sig, dtype=sdt), op="gaussian", ek="gaussian")
    elif kind == "ga_gauss":
        em = E.GeneticAlgorithmEmitter(arch, **omit_defaults("GeneticAlgorithmEmitter", dict(
            x0=x0arg, initial_solutions=init_arg, bounds=barg, batch_size=batch, operator="gaussian",
            operator_kwargs={"sigma": sig, "seed": seed})))
        info.update(shadow=Shadow(seed), scale=sig, op="gaussian", ek="gaGaussian")
    elif kind == "iso":
        em = E.IsoLineEmitter(arch, **omit_defaults("IsoLineEmitter", dict(
            iso_sigma=sig, line_sigma=lsig, x0=x0arg, initial_solutions=init_arg, bounds=barg, batch_size=batch,
            seed=seed)))
        info.update(shadow=Shadow(seed), scale=sdt(sig), lscale=sdt(lsig), op="isoline", ek="isoLine")
    elif kind == "ga_iso":
        em = E.GeneticAlgorithmEmitter(arch, **omit_defaults("GeneticAlgorithmEmitter", dict(
            x0=x0arg, initial_solutions=init_arg, bounds=barg, batch_size=batch, operator="isoline",
            operator_kwargs={"iso_sigma": sig, "line_sigma": lsig, "seed": seed})))
        info.update(shadow=Shadow(seed), scale=sig, lscale=lsig, op="isoline", ek="gaIsoLine")
    elif kind in GOP_KINDS:
        line = kind.startswith("gop_line")
        mg = kind.endswith("_mg")
        sg = float(Fraction(case.get("sigma_g", "1/4")))
        em = E.GradientOperatorEmitter(arch, **omit_defaults("GradientOperatorEmitter", dict(
            sigma=sig, sigma_g=sg, x0=x0arg, initial_solutions=init_arg, line_sigma=lsig, measure_gradients=mg,
            normalize_grad=bool(case.get("norm", False)), operator_type="iso_line_dd" if line else "isotropic",
            bounds=barg, batch_size=batch, seed=seed)))
        info.update(shadow=Shadow(seed), scale=sdt(sig), lscale=lsig, gscale=sdt(sg), mg=mg,
                    op="gopline" if line else "gaussian", ek="gopAskDqd")
    elif kind in ES_KINDS:
        holder = []
        cls = {"cma_es": O.CMAEvolutionStrategy, "sep_cma_es": O.SeparableCMAEvolutionStrategy,
               "lm_ma_es": O.LMMAEvolutionStrategy, "openai_es": O.OpenAIEvolutionStrategy,
               "pycma_es": O.PyCMAEvolutionStrategy}[kind]

        def factory(**kw):
            holder.append(cls(**kw))
            return holder[-1]

        kw = {}
        if kind == "openai_es" and not bool(case.get("mirror", False)):
            kw["mirror_sampling"] = False      # the strategy's documented default is mirror_sampling=True
        ranker = "nov" if case["arch"] == "prox" else case.get("ranker", "2imp")
        # `es` is normally a factory so that the strategy object can be held for the resample lock step; with
        # es_default the keyword is left out (documented default "cma_es") and only the observable clauses are read
        es_arg = "cma_es" if (kind == "cma_es" and case.get("es_default")) else factory
        em = E.EvolutionStrategyEmitter(arch, **omit_defaults("EvolutionStrategyEmitter", dict(
            x0=x0, sigma0=sig, es=es_arg, es_kwargs=kw, bounds=barg,
            batch_size=None if batch == default_batch(kind, dim) and kind != "lm_ma_es" else batch, seed=seed,
            ranker=ranker, restart_rule=case.get("restart", "no_improvement"),
            selection_rule=case.get("selection", "filter"))))
        info.update(es=holder[0] if holder else None, ek="evolutionStrategy")
    elif kind in GAE_KINDS:
        ranker = "nov" if case["arch"] == "prox" else case.get("ranker", "2imp")
        em = E.GradientArborescenceEmitter(arch, **omit_defaults("GradientArborescenceEmitter", dict(
            x0=x0, sigma0=sig, lr=float(Fraction(case.get("lr", "1/2"))),
            grad_opt=case.get("grad_opt", "gradient_ascent"),
            batch_size=None if batch == default_batch(kind, dim) else batch, seed=seed, ranker=ranker,
            normalize_grad=bool(case.get("norm", True)), restart_rule=case.get("restart", "no_improvement"),
            selection_rule=case.get("selection", "filter"))))
        info.update(ek="gaeAsk", jdt=np.float32 if kind == "gae_j32" else np.float64)
    else:
        raise ValueError(kind)
    info["em"] = em
    if isinstance(init_arg, np.ndarray):
        # the caller goes on using its own array: what the emitter was configured with must not follow
        init_arg[...] = -987.25
    return info


# --------------------------------------------------------------------------
# oracle: the observable clauses of the property


def oracle_array(where, out, nrows, dim, sd, lo, hi):
    """finite, shape, dtype, bounds — on what ask returned."""
    if not isinstance(out, np.ndarray):
        return Failure("oracle", f"{where}: returned {type(out).__name__}, not an array")
    if out.shape != (nrows, dim):
        return Failure("oracle", f"{where}: shape {out.shape}, expected {(nrows, dim)}")
    if out.dtype != D[sd]:
        return Failure("oracle", f"{where}: dtype {out.dtype}, archive solution dtype is {np.dtype(D[sd])}",
                       key="dtype")
    if not np.all(np.isfinite(out)):
        return Failure("oracle", f"{where}: non-finite value returned")
    for i in range(out.shape[0]):
        for k in range(dim):
            v = fr(out[i, k])
            if lo[k] != -np.inf and v < fr(lo[k]) or hi[k] != np.inf and v > fr(hi[k]):
                return Failure("oracle", f"{where}: row {i} coordinate {k} = {float(out[i, k])!r} outside "
                               f"[{float(lo[k])!r}, {float(hi[k])!r}]", key="bounds")
    return None


def seq_tok(entries, sd):
    """wire form of one per-dimension sequence: S:<entry>:<entry>... (entries rounded to the solution dtype,
    which is the dtype the repaired code creates the bounds arrays in)"""
    return ":".join(["S"] + ["N" if v is None else q(round_frac(Fraction(v), sd)) for v in entries])


def check_bounds_parse(drv, barg, dim, lo, hi, sd, where):
    """parseBounds (model) vs emitter.lower_bounds / upper_bounds; oracle: -inf exactly where None."""
    if lo.shape != (dim,) or hi.shape != (dim,):
        return Failure("oracle", f"{where}: bounds arrays have shapes {lo.shape}, {hi.shape}, expected ({dim},)")
    if barg is None:
        req = f"bounds {dim} none"
        want_lo, want_hi = [None] * dim, [None] * dim
    else:
        toks, want_lo, want_hi = [], [], []
        for b in barg:
            if b is None:
                toks.append("N")
                want_lo.append(None)
                want_hi.append(None)
            else:
                toks.append(seq_tok(b, sd))
                want_lo.append(b[0])
                want_hi.append(b[1])
        req = f"bounds {dim} list " + " ".join(toks)
    for k in range(dim):
        if (want_lo[k] is None) != (lo[k] == -np.inf) or (want_hi[k] is None) != (hi[k] == np.inf):
            return Failure("oracle", f"{where}: dimension {k}: bound is infinite exactly where None was passed "
                           f"violated: configured {(want_lo[k], want_hi[k])}, got {(lo[k], hi[k])}")
        if want_lo[k] is not None and abs(float(lo[k]) - want_lo[k]) > 1e-6 * max(1, abs(want_lo[k])):
            return Failure("oracle", f"{where}: lower bound {k} is {lo[k]}, configured {want_lo[k]}")
        if want_hi[k] is not None and abs(float(hi[k]) - want_hi[k]) > 1e-6 * max(1, abs(want_hi[k])):
            return Failure("oracle", f"{where}: upper bound {k} is {hi[k]}, configured {want_hi[k]}")
    m = drv.ask(req)
    got = "ok lo=" + ",".join(lo_tok(v) for v in lo) + " hi=" + ",".join(hi_tok(v) for v in hi)
    if m != got:
        return Failure("corr", f"{where}: bounds impl={got} model={m}")
    return None


# --------------------------------------------------------------------------
# the clipping emitters (and GradientOperatorEmitter.ask_dqd): exact comparison with the model


def replay_parents(snap, cur_index, n):
    """sample_elites on the pre-ask copy of the archive -> positions in archive.data() order."""
    el = snap.sample_elites(n)
    pos = {int(c): j for j, c in enumerate(cur_index)}
    return [pos[int(c)] for c in el["index"]], el["solution"]


def search_parents(out_rows, cur, noise, lo, hi, sd):
    """Existential reading of the property: find, for every output row, current elites it derives from
    (Gaussian operator only: an exact search)."""
    idx = []
    for i, row in enumerate(out_rows):
        found = None
        for j, elite in enumerate(cur):
            cand = []
            for k in range(len(row)):
                v = round_frac(elite[k] + noise[i][k], sd)
                if lo[k] is not None and v < lo[k]:
                    v = lo[k]
                if hi[k] is not None and v > hi[k]:
                    v = hi[k]
                cand.append(v)
            if cand == row:
                found = j
                break
        if found is None:
            return None, i
        idx.append(found)
    return idx, None


def expected_init_rows(init, sd, flo, fhi):
    """the configured initial_solutions, cast to the solution dtype and clipped to the bounds (exact rationals)"""
    want = []
    for r in init:
        row = []
        for k, v in enumerate(r):
            v = round_frac(Fraction(v), sd)
            if flo[k] is not None and v < flo[k]:
                v = flo[k]
            if fhi[k] is not None and v > fhi[k]:
                v = fhi[k]
            row.append(v)
        want.append(row)
    return want


def scribble(out, ctx):
    """The caller owns the batch ask() handed out and may rewrite it in place (rescale, round, reuse as scratch).
    Returns a private copy for the rest of the iteration and overwrites the original with garbage; whatever the
    emitter is configured with must not follow (checked by every later ask on an empty archive)."""
    keep = np.array(out, copy=True)
    if isinstance(out, np.ndarray) and out.flags.writeable and out.size:
        out[...] = 12345.5
        ctx.count("ask:returned-batch-overwritten")
    return keep


def trash(handed, ctx):
    """The caller reuses the arrays it handed to tell / tell_dqd (solution, objective, measures, jacobian, add_info):
    they are overwritten with garbage; nothing the emitter emits later may depend on them."""
    for a in handed:
        for arr in (a.values() if isinstance(a, dict) else [a]):
            if isinstance(arr, np.ndarray) and arr.flags.writeable and arr.size:
                arr[...] = 777 if arr.dtype.kind in "iu" else -4321.75
    ctx.count("tell:handed-arrays-overwritten")


# --------------------------------------------------------------------------
# calls the emitter must REFUSE, made in the middle of a history (the caller catches the error and goes on): malformed
# arguments to tell_dqd / tell, ask / tell of the gradient arborescence emitter before any gradients.  Nothing is
# demanded of the refused call itself here (that it raises is C11's / C19's business); what C08 reads is every ask()
# that FOLLOWS: finite, shape, dtype, bounds, parents = current elites -- as if the refused call had never been made.

DQD_REJECTS = ["jac_nan", "jac_nan", "jac_inf", "jac_shape", "jac_rows", "obj_len"]
TELL_REJECTS = ["tell_len", "tell_nan", "tell_dim"]


def refused(fn, which, ctx):
    """True when fn() raised (the call was refused)"""
    try:
        fn()
    except Exception as ex:  # pylint: disable=broad-except
        ctx.count(f"rejected-call:{which}:{type(ex).__name__}")
        return True
    ctx.count(f"rejected-call:{which}:ACCEPTED")
    return False


def reject_tell_dqd(em, which, p, obj, meas, add_info, dim, rng, ctx):
    """tell_dqd with one malformed argument (the others are fresh private copies of valid ones)"""
    n = len(p)
    jac = rng.integers(-4, 5, size=(n, 3, dim)).astype(np.float64) / 4
    obj = np.array(obj, dtype=np.float64, copy=True)
    if which in ("jac_nan", "jac_inf"):
        if jac.size == 0:
            return True
        pos = tuple(int(rng.integers(0, s)) for s in jac.shape)
        jac[pos] = np.nan if which == "jac_nan" else (np.inf if rng.random() < 0.5 else -np.inf)
    elif which == "jac_shape":
        jac = rng.integers(-4, 5, size=(n, 3, dim + 1)).astype(np.float64) / 4
    elif which == "jac_rows":
        jac = rng.integers(-4, 5, size=(n, 2, dim)).astype(np.float64) / 4
    elif which == "obj_len":
        obj = np.concatenate([obj, [0.0]])
    else:
        raise ValueError(which)
    if jac.size == 0 and which in ("jac_shape", "jac_rows") and n == 0:
        return True     # an empty batch has no malformed entry
    handed = [np.array(p, copy=True), obj, np.array(meas, copy=True), jac,
              {k: np.array(v, copy=True) for k, v in add_info.items()}]
    return refused(lambda: em.tell_dqd(*handed), "tell_dqd:" + which, ctx)


def reject_tell(em, which, out, obj, meas, add_info, rng, ctx):
    """tell with one malformed argument"""
    out = np.array(out, copy=True)
    obj = np.array(obj, dtype=np.float64, copy=True)
    if len(out) == 0:
        return True
    if which == "tell_len":
        obj = obj[:-1] if rng.random() < 0.5 else np.concatenate([obj, [0.0]])
    elif which == "tell_nan":
        obj[int(rng.integers(0, len(obj)))] = np.nan
    elif which == "tell_dim":
        out = np.concatenate([out, out[:, :1]], axis=1)
    else:
        raise ValueError(which)
    handed = [out, obj, np.array(meas, copy=True), {k: np.array(v, copy=True) for k, v in add_info.items()}]
    return refused(lambda: em.tell(*handed), "tell:" + which, ctx)


def clip_ask_step(info, case, drv, where, ctx, dqd=False):
    """One ask (or ask_dqd of GradientOperatorEmitter) of a clipping emitter, checked against oracle and model."""
    em, arch = info["em"], info["arch"]
    sd, dim, batch = case["sd"], case["dim"], case["batch"]
    lo, hi = em.lower_bounds, em.upper_bounds
    op = info["op"]
    was_empty = bool(arch.empty)
    cur = arch.data("solution")
    cur_index = arch.data("index")
    snap = copy.deepcopy(arch)
    try:
        out = em.ask_dqd() if dqd else em.ask()
    except Exception as ex:  # pylint: disable=broad-except
        return None, Failure("oracle", f"{where}: raised {type(ex).__name__}: {str(ex)[:80]} "
                             f"(archive {'empty' if was_empty else 'non-empty'})",
                             key="D24-gop-line-empty-archive" if (op == "gopline" and was_empty) else None)
    init = info["init"]
    # ---- oracle, part 1: array clauses
    if was_empty and init is not None:
        nrows = 0 if dqd else len(init)
    else:
        nrows = batch
    flo = [None if v == -np.inf else fr(v) for v in lo]
    fhi = [None if v == np.inf else fr(v) for v in hi]
    if was_empty and init is not None and not dqd and isinstance(out, np.ndarray) and out.shape == (nrows, dim) \
            and np.all(np.isfinite(out)) and [frow(r) for r in out] != expected_init_rows(init, sd, flo, fhi):
        return out, Failure("oracle", f"{where}: empty archive: returned rows {out.tolist()} are not the configured "
                            f"initial_solutions {init} (cast to the solution dtype, clipped to the bounds)")
    f = oracle_array(where, out, nrows, dim, sd, lo, hi)
    if f is not None:
        if f.key == "dtype":
            f.key = "D13-askdqd-empty-dtype" if (dqd and was_empty and init is not None) else "D12"
        return out, f
    out_rows = [frow(r) for r in out]
    drv.ask("setb " + ",".join(lo_tok(v) for v in lo) + " " + ",".join(hi_tok(v) for v in hi))
    x0tok = "none" if info["x0"] is None else rowtok(frow(info["x0"]))
    drv.ask(f"cfg kind={op} dim={dim} batch={batch} x0={x0tok} dqd={1 if dqd else 0}")
    if init is None:
        drv.ask("noinit")
    else:
        drv.ask("init " + " ".join(rowtok([round_frac(Fraction(v), sd) for v in r]) for r in init))
    cur_rows = [frow(r) for r in cur]
    drv.ask("arch" + "".join(" " + rowtok(r) for r in cur_rows))
    zero = Fraction(case["sigma"]) == 0 and (op == "gaussian" or Fraction(case.get("line_sigma", "0")) == 0)
    # ---- initial solutions path
    if was_empty and init is not None:
        if not dqd:
            want = expected_init_rows(init, sd, flo, fhi)
            if out_rows != want:
                return out, Failure("oracle", f"{where}: empty archive: returned rows are not the configured "
                                    f"initial_solutions clipped to the bounds: got "
                                    f"{[[float(v) for v in r] for r in out_rows]}, configured (clipped) "
                                    f"{[[float(v) for v in r] for r in want]}")
        m = parse_rows(drv.ask("ask idx=- idx2=- lines=- noise"))
        if m != out_rows:
            return out, Failure("corr", f"{where}: initial_solutions path impl={out_rows} model={m}")
        ctx.count("ask:initial_solutions")
        return out, None
    # ---- reproduce the noise
    sh = info["shadow"]
    noise = sh.normal(info["scale"], (batch, dim), D[sd])
    lines = None
    if op == "isoline":
        lines = sh.normal(info["lscale"], (batch, 1), D[sd])
    noise_rows = [frow(r) for r in noise]
    # ---- parents
    idx, idx2 = [], []
    if not was_empty:
        if op == "gaussian":
            idx, _ = replay_parents(snap, cur_index, batch)
        elif op == "isoline":
            idx, _ = replay_parents(snap, cur_index, 2 * batch)
        else:  # gopline: two sample_elites calls with the noise draw in between
            idx, _ = replay_parents(snap, cur_index, batch)
            idx2, _ = replay_parents(snap, cur_index, batch)
    if op == "gopline":
        lines = sh.normal(info["lscale"], (batch, 1), D[sd])
    line_vals = [] if lines is None else [fr(v) for v in lines[:, 0]]

    def model_rows(idx, idx2):
        return parse_rows(drv.ask(
            "ask idx=" + (",".join(map(str, idx)) or "-") + " idx2=" + (",".join(map(str, idx2)) or "-") +
            " lines=" + (",".join(q(v) for v in line_vals) or "-") + " noise" +
            "".join(" " + rowtok(r) for r in noise_rows)))

    def agree(m):
        """model rows vs implementation rows under the numeric policy"""
        if m is None or len(m) != len(out_rows):
            return False, 0
        worst = Fraction(0)
        for i, (a, b) in enumerate(zip(m, out_rows)):
            if op == "gaussian":
                if [round_frac(v, sd) for v in a] != b:
                    return False, 0
            else:
                scale = max([Fraction(1)] + [abs(v) for v in b] + [abs(v) for v in noise_rows[i]] +
                            [abs(v) for r in cur_rows for v in r] + ([abs(line_vals[i])] if line_vals else []))
                scale = scale * max(1, abs(line_vals[i])) if line_vals else scale
                for x, y in zip(a, b):
                    d = abs(x - y) / (TOL[sd] * scale)
                    worst = max(worst, d)
                    if d > 1:
                        return False, d
        return True, worst

    m = model_rows(idx, idx2)
    ok, worst = agree(m)
    ctx.extra["max_err_over_tol"] = max(ctx.extra.get("max_err_over_tol", 0.0), float(worst))
    # ---- oracle, part 2: zero noise => rows of the current archive (x0 when empty), exactly
    if zero:
        pool = cur_rows if not was_empty else [frow(info["x0"])]
        in_b = lambda r: all((flo[k] is None or r[k] >= flo[k]) and (fhi[k] is None or r[k] <= fhi[k])
                             for k in range(dim))
        if all(in_b(r) for r in pool):
            for i, r in enumerate(out_rows):
                if r not in pool:
                    return out, Failure("oracle", f"{where}: zero noise, yet row {i} = {[float(v) for v in r]} is not "
                                        f"a row of {'archive.data(solution)' if not was_empty else 'x0'}")
            ctx.count("ask:zero-noise-exact")
    if ok:
        ctx.count("ask:empty-x0" if was_empty else "ask:parents-replayed")
        if any(r[k] in (flo[k], fhi[k]) for r in out_rows for k in range(dim)):
            ctx.count("ask:clipped-coordinate")
        return out, None
    # ---- replayed parents do not explain the output: existential search (Gaussian operator)
    if op == "gaussian" and not was_empty:
        found, bad_row = search_parents(out_rows, cur_rows, noise_rows, flo, fhi, sd)
        if found is not None:
            m2 = model_rows(found, [])
            if agree(m2)[0]:
                ctx.count("ask:parents-by-search")
                return out, None
        kind = "oracle" if zero else "corr"
        return out, Failure(kind, f"{where}: row {bad_row} is not clip(elite + noise) for any current elite "
                            f"(noise reproduced from the seed); impl={[float(v) for v in out[bad_row or 0]]}")
    return out, Failure("corr", f"{where}: ask differs from the model: impl={[[float(v) for v in r] for r in out]} "
                        f"model={None if m is None else [[float(v) for v in r] for r in m]}")


# --------------------------------------------------------------------------
# evolution strategies: the resample loop in lock step


def es_ask_step(info, case, drv, where, ctx):
    em, es = info["em"], info["es"]
    sd, dim, batch = case["sd"], case["dim"], case["batch"]
    lo, hi = em.lower_bounds, em.upper_bounds
    native = case["kind"] != "pycma_es" and es is not None
    twin = None
    if native:
        twin = copy.deepcopy(es)
        twin.lower_bounds = np.full_like(twin.lower_bounds, -np.inf)
        twin.upper_bounds = np.full_like(twin.upper_bounds, np.inf)
    try:
        out = timed(em.ask)
    except AskTimeout:
        return None, Failure("oracle", f"{where}: ask() did not return within {ASK_TIMEOUT} s "
                             f"(bounds contain the mean)")
    except Exception as ex:  # pylint: disable=broad-except
        return None, Failure("oracle", f"{where}: ask raised {type(ex).__name__}: {str(ex)[:80]}")
    f = oracle_array(where, out, batch, dim, sd, lo, hi)
    if f is not None:
        return out, f
    if not native:
        return out, None
    # lock step with the model's resample loop
    drv.ask("setb " + ",".join(lo_tok(v) for v in lo) + " " + ",".join(hi_tok(v) for v in hi))
    rem = int(drv.ask(f"rs new {batch}").split("=")[1])
    rounds = 0
    while rem > 0:
        if rounds >= 20000:
            return out, Failure("corr", f"{where}: model still has {rem} rows out of bounds after {rounds} rounds "
                                f"although ask() returned")
        cands = twin.ask(rem)
        r = drv.ask("rs round" + "".join(" " + rowtok(frow(c)) for c in cands))
        if r.startswith("err"):
            return out, Failure("corr", f"{where}: model rejected round {rounds}: {r}")
        rem = int(r.split()[0].split("=")[1])
        rounds += 1
    res = drv.ask(f"rs run {rounds + 1}")
    if not res.startswith("ok"):
        return out, Failure("corr", f"{where}: model resample did not return ({res})")
    mrows = [[Fraction(t) for t in e.split("@")[0].split(",")] for e in res.split()[1:]]
    if mrows != [frow(r) for r in out]:
        return out, Failure("corr", f"{where}: resample result differs: impl={[[float(v) for v in r] for r in out]} "
                            f"model={[[float(v) for v in r] for r in mrows]}")
    ctx.count("es:resample-rounds", rounds)
    if rounds > 1:
        ctx.count("es:ask-with-resampling")
    return out, None


# --------------------------------------------------------------------------
# one case


def dtype_model(drv, ek, sd, md, jd):
    r = drv.ask(f"dtype {ek} {sd} {md} {jd}")
    return dict(t.split("=") for t in r.split())


def ext_rows(op, case, lo, hi):
    """externally added solutions; inside the bounds for the resampling emitters (their restarts re-centre on
    an elite, and bounds that exclude the mean are outside the property's quantifier)"""
    rows = np.array([[float(Fraction(v)) for v in r] for r in op["rows"]], dtype=np.float64).reshape(-1, case["dim"])
    if case["kind"] in ES_KINDS:
        l = np.where(np.isinf(lo), -1.0, lo.astype(np.float64))
        h = np.where(np.isinf(hi), 1.0, hi.astype(np.float64))
        rows = l + (rows + 1.0) / 2.0 * (h - l)
    return rows


def run_case(case, ctx):
    warnings.simplefilter("ignore")
    kind = case["kind"]
    sd, md, dim, batch = case["sd"], case["md"], case["dim"], case["batch"]
    try:
        info = build(case)
    except Exception as ex:  # pylint: disable=broad-except
        return Failure("oracle", f"constructor raised {type(ex).__name__}: {str(ex)[:100]}")
    em, arch = info["em"], info["arch"]
    lo, hi = em.lower_bounds, em.upper_bounds
    drv = Driver("emit")
    try:
        pending = check_bounds_parse(drv, info["barg"], dim, lo, hi, sd, "constructor")
        if pending is not None and pending.kind == "oracle":
            return pending
        jd = "f32" if kind == "gae_j32" else "f64"
        rng_j = np.random.default_rng(case["seed"] + 7)
        rng_r = np.random.default_rng(case["seed"] + 11)    # what the refused calls are malformed with
        gae_told = False
        for step, op in enumerate(case["ops"]):
            o = op["op"]
            where = f"op#{step} {o}"
            if o == "cfg":
                continue
            if o == "ext":
                rows = ext_rows(op, case, lo, hi)
                obj, meas = evaluate(rows)
                arch.add(rows, obj, meas)
                continue
            if o == "clear":
                arch.clear()
                continue
            # ---- one ask/tell iteration
            asks = []
            noadd = bool(op.get("noadd"))   # the evaluation "failed": nothing is inserted, nothing is told
            rej = op.get("reject")          # a call the emitter must refuse is made during this iteration
            if kind in CLIP_KINDS + ISO_KINDS:
                out, f = clip_ask_step(info, case, drv, where + " ask", ctx)
                if f is not None:
                    return f
                out = scribble(out, ctx)
                asks.append((info["ek"], out))
            elif kind in GOP_KINDS:
                p, f = clip_ask_step(info, case, drv, where + " ask_dqd", ctx, dqd=True)
                if f is not None:
                    return f
                asks.append(("gopAskDqd", p))
                obj, meas = evaluate(p)
                if len(p) and not noadd:
                    add_info = arch.add(p, obj, meas)
                else:
                    add_info = {"status": np.zeros(len(p)), "value": np.zeros(len(p))}
                jac = rng_j.integers(-4, 5, size=(len(p), 3, dim)).astype(np.float64) / 4
                handed = [np.array(p, copy=True), np.array(obj, copy=True), np.array(meas, copy=True), jac.copy(),
                          {k: np.array(v, copy=True) for k, v in add_info.items()}]
                em.tell_dqd(*handed)
                trash(handed, ctx)
                if rej in DQD_REJECTS and not reject_tell_dqd(em, rej, p, obj, meas, add_info, dim, rng_r, ctx):
                    return pending      # the malformed call was accepted: the history cannot continue
                was_empty = bool(arch.empty)
                if info["mg"] and not (was_empty and info["init"] is not None):
                    info["shadow"].rng.normal(loc=0.0, scale=info["gscale"], size=(len(p), 3))  # keep in step
                try:
                    out = em.ask()
                except Exception as ex:  # pylint: disable=broad-except
                    return Failure("oracle", f"{where} ask: raised {type(ex).__name__}: {str(ex)[:80]}")
                nrows = len(info["init"]) if (was_empty and info["init"] is not None) else batch
                flo = [None if v == -np.inf else fr(v) for v in lo]
                fhi = [None if v == np.inf else fr(v) for v in hi]
                init_path = was_empty and info["init"] is not None
                if init_path and isinstance(out, np.ndarray) and out.shape == (nrows, dim) and \
                        np.all(np.isfinite(out)) and \
                        [frow(r) for r in out] != expected_init_rows(info["init"], sd, flo, fhi):
                    return Failure("oracle", f"{where} ask: empty archive: returned rows {out.tolist()} are not the "
                                   f"configured initial_solutions {info['init']} (cast to the solution dtype, clipped "
                                   f"to the bounds)")
                f = oracle_array(where + " ask", out, nrows, dim, sd, lo, hi)
                if f is not None:
                    f.key = "D13" if f.key in ("dtype", "bounds") else f.key
                    return f
                if init_path:
                    ctx.count("ask:initial_solutions")
                out = scribble(out, ctx)
                asks.append(("gopAskMeasureGrads" if info["mg"] else "gopAsk", out))
            elif kind in ES_KINDS:
                out, f = es_ask_step(info, case, drv, where + " ask", ctx)
                if f is not None:
                    return f
                asks.append(("evolutionStrategy", out))
            else:  # GradientArborescenceEmitter
                if op.get("early") and not gae_told:
                    # ask / tell before any gradients were supplied: refused, after which the protocol starts properly
                    refused(em.ask, "gae:ask-before-gradients", ctx)
                    z = {"status": np.zeros(batch), "value": np.zeros(batch)}
                    refused(lambda: em.tell(np.zeros((batch, dim)), np.zeros(batch), np.zeros((batch, 2)), z),
                            "gae:tell-before-gradients", ctx)
                p = em.ask_dqd()
                f = oracle_array(where + " ask_dqd", p, 1, dim, sd, lo, hi)
                if f is not None:
                    return f
                asks.append(("gaeAskDqd", p))
                obj, meas = evaluate(p)
                add_info = arch.add(p, obj, meas)
                jac = (rng_j.integers(-4, 5, size=(1, 3, dim)) / 4).astype(info["jdt"])
                handed = [np.array(p, copy=True), np.array(obj, copy=True), np.array(meas, copy=True), jac.copy(),
                          {k: np.array(v, copy=True) for k, v in add_info.items()}]
                em.tell_dqd(*handed)
                trash(handed, ctx)
                gae_told = True
                if rej in DQD_REJECTS and not reject_tell_dqd(em, rej, p, obj, meas, add_info, dim, rng_r, ctx):
                    return pending
                try:
                    out = em.ask()
                except Exception as ex:  # pylint: disable=broad-except
                    return Failure("oracle", f"{where} ask: raised {type(ex).__name__}: {str(ex)[:80]}"
                                   f"{' (after a refused tell_dqd: ' + rej + ')' if rej in DQD_REJECTS else ''}")
                f = oracle_array(where + " ask" + (f" (after a refused tell_dqd: {rej})" if rej in DQD_REJECTS else ""),
                                 out, batch, dim, sd, lo, hi)
                if f is not None:
                    if f.key == "dtype":
                        f.key = "D23-gae-jacobian-dtype"
                    return f
                asks.append(("gaeAsk", out))
                if op.get("regrad"):
                    # gradients are supplied again between ask() and tell() (ask_dqd -> tell_dqd -> ask -> ask_dqd ->
                    # tell_dqd -> tell): what ask_dqd returns is read like every other batch
                    p2 = em.ask_dqd()
                    f = oracle_array(where + " ask_dqd (second of the iteration)", p2, 1, dim, sd, lo, hi)
                    if f is not None:
                        return f
                    obj2, meas2 = evaluate(p2)
                    info2 = arch.add(p2, obj2, meas2)
                    jac2 = (rng_j.integers(-4, 5, size=(1, 3, dim)) / 4).astype(info["jdt"])
                    em.tell_dqd(np.array(p2, copy=True), obj2, meas2, jac2, info2)
                    ctx.count("iter:gradients-resupplied-between-ask-and-tell")
            # dtype algebra: the repaired expression is what the property demands
            for ek, arr in asks:
                dm = dtype_model(drv, ek, sd, md, jd)
                got = "f32" if arr.dtype == np.float32 else "f64"
                if dm["rep"] != got:
                    return Failure("corr", f"{where}: dtype impl={got} model={dm['rep']} for {ek}")
            # evaluate, add, tell
            out = asks[-1][1]
            if op.get("post") and kind in ES_KINDS + GAE_KINDS and len(out):
                # the caller post-processes the batch before evaluating it (projects it into a box of its own) and
                # tells what it evaluated: the solutions told are not bit-identical to what ask() returned
                told = np.clip(out, -0.5, 0.5).astype(out.dtype)
                if not np.array_equal(told, out):
                    ctx.count("tell:told!=asked(caller clipped the batch)")
                out = told
            obj, meas = evaluate(out)
            if noadd:
                ctx.count("iter:nothing-inserted")
            elif len(out):
                add_info = arch.add(out, obj, meas)
                if rej in TELL_REJECTS and not reject_tell(em, rej, out, obj, meas, add_info, rng_r, ctx) and \
                        kind in ES_KINDS + GAE_KINDS:
                    return pending      # (the operator emitters' tell is the inherited no-op: nothing to refuse)
                try:
                    handed = [np.array(out, copy=True), np.array(obj, copy=True), np.array(meas, copy=True),
                              {k: np.array(v, copy=True) for k, v in add_info.items()}]
                    em.tell(*handed)
                    trash(handed, ctx)
                except Exception as ex:  # pylint: disable=broad-except
                    # C08 constrains what ask returns; a raising tell is another property's business (C18: the
                    # bounded non-mirror OpenAI-ES noise bookkeeping).  The history cannot continue: stop here.
                    ctx.count(f"tell-raised:{kind}:{type(ex).__name__}")
                    return pending
            ctx.count(f"iter:{kind}")
        return pending
    finally:
        drv.close()


# --------------------------------------------------------------------------
# generators: walk the lattice


def dy(rng, lo=-8, hi=8, den=8):
    return f"{rng.randint(lo, hi)}/{den}"


def gen_ops(rng, state, dim, n_iter, kind, init=False):
    ops = []
    many = lambda n: {"op": "ext", "rows": [[dy(rng) for _ in range(dim)] for _ in range(n)]}
    clipping = kind in CLIP_KINDS + ISO_KINDS + GOP_KINDS
    if state == "one":
        ops.append(many(1))
    elif state == "many":
        ops.append(many(rng.randint(4, 12)))
    elif state == "cleared":
        ops.append(many(rng.randint(2, 8)))
        ops.append({"op": "clear"})
    if init and state in ("empty", "cleared"):
        # the first batch is not inserted (failed evaluation / retry): the archive is still empty at the next ask
        ops.append({"op": "iter", "noadd": True})
    for _ in range(n_iter):
        r = rng.random()
        if r < 0.12:
            ops.append(many(rng.randint(1, 4)))
        elif r < 0.18:
            ops.append({"op": "clear"})
        if clipping and rng.random() < 0.1:
            ops.append({"op": "iter", "noadd": True})
        else:
            ops.append({"op": "iter"})
        if kind in ES_KINDS + GAE_KINDS and rng.random() < 0.2:
            ops[-1]["post"] = True       # the caller clips the batch before evaluating and telling it
        if kind in GAE_KINDS and rng.random() < 0.2:
            ops[-1]["regrad"] = True     # ask_dqd / tell_dqd once more between ask and tell
        if rng.random() < 0.3:
            # a call the emitter must refuse is made in the middle of this iteration (run_case: reject_*)
            pool = list(TELL_REJECTS)
            if kind in GOP_KINDS + GAE_KINDS:
                pool = DQD_REJECTS + DQD_REJECTS + TELL_REJECTS
            ops[-1]["reject"] = rng.choice(pool)
    if kind in GAE_KINDS and rng.random() < 0.5:
        # ask() / tell() before the first tell_dqd (refused), then the protocol proper
        next(o for o in ops if o["op"] == "iter")["early"] = True
    if init:
        # empty again after clear(): the configured initial solutions must come back, every time
        ops += [{"op": "clear"}, {"op": "iter", "noadd": True}, {"op": "iter"}, {"op": "clear"}, {"op": "iter"}]
    return ops


def lattice(kinds, bounds, quick, offset):
    pts = []
    n = 0
    for kind in kinds:
        for sd, md in DTYPES:
            for b in bounds:
                if quick:
                    # rotate archive kind and state: every (arch, state) pair occurs, every lattice point of the
                    # remaining axes occurs
                    a = ARCHS[(n + offset) % 4]
                    s = STATES[((n + offset) // 4 + n) % 4]
                    pts.append((kind, sd, md, b, a, s))
                    n += 1
                else:
                    for a in ARCHS:
                        for s in STATES:
                            pts.append((kind, sd, md, b, a, s))
    return pts


def make_gen(points, n_iter_lo, n_iter_hi):
    it = {"i": 0}

    def gen(rng):
        kind, sd, md, b, a, s = points[it["i"] % len(points)]
        it["i"] += 1
        dim = rng.choice([2, 3, 4])
        batch = rng.choice([1, 2, 3, 5])
        if kind in CLIP_KINDS + ISO_KINDS + GOP_KINDS and rng.random() < 0.2:
            # one-dimensional solution spaces (the operator emitters and GradientOperatorEmitter only), mostly with
            # several rows: (batch, 1) arrays are where squeezes and broadcasts go wrong
            dim = 1
            batch = rng.choice([2, 3, 5, 1])
        case = {"kind": kind, "sd": sd, "md": md, "bounds": b, "arch": a, "state": s, "dim": dim,
                "seed": rng.randrange(1 << 30), "aseed": rng.randrange(1 << 30)}
        if kind in CLIP_KINDS + ISO_KINDS + GOP_KINDS:
            zero = rng.random() < 0.35
            case["sigma"] = "0" if zero else rng.choice(["1/4", "1/2", "1/64", "3/10", "2"])
            case["line_sigma"] = "0" if zero else rng.choice(["1/2", "1/5", "1"])
            # documented defaults are drawn on purpose (their keywords are then left out of the constructor call):
            # IsoLineEmitter iso_sigma=0.01 / line_sigma=0.2, GradientOperatorEmitter line_sigma=0.0, batch_size=64
            if kind == "iso" and not zero and rng.random() < 0.3:
                case["sigma"], case["line_sigma"] = "1/100", "1/5"
            if kind in GOP_KINDS and rng.random() < 0.3:
                case["line_sigma"] = "0"
            if rng.random() < 0.08:
                batch = 64
            if rng.random() < 0.3:
                case["init"] = [[dy(rng, -12, 12) for _ in range(dim)] for _ in range(rng.randint(1, 4))]
                # handed over as an ndarray of exactly the solution dtype (most often), a list, or an ndarray of
                # the other dtype; ndarrays are overwritten by the "caller" after construction
                case["init_form"] = rng.choice(["same", "same", "same", "list", "other"])
            if kind in GOP_KINDS:
                case["sigma_g"] = rng.choice(["1/4", "1", "8"])
                case["norm"] = rng.random() < 0.5
        elif kind in ES_KINDS:
            if b == "narrow" and kind == "pycma_es":
                b = "tight"     # pycma handles its bounds itself (no resampling loop of ours to exercise)
                case["bounds"] = b
            case["sigma"] = "1/128" if b == "tight" else rng.choice(["1/4", "1/2", "3/10"])
            if b == "narrow":
                case["sigma"] = rng.choice(["1/2", "1"])
            if kind == "lm_ma_es":
                batch = rng.randint(1, dim)
            if kind == "openai_es":
                batch = rng.choice([2, 4, 5] if b != "none" else [2, 4, 6])
                case["mirror"] = (b == "none") and rng.random() < 0.5
                if case["mirror"] and batch % 2:
                    batch += 1
            if kind == "pycma_es":
                batch = max(batch, 2)
            case["restart"] = rng.choice(["no_improvement", "basic", 1, 2, 3])
            case["selection"] = rng.choice(["filter", "mu"])
            case["ranker"] = rng.choice(["2imp", "imp", "obj", "2obj", "rd", "2rd"])
        else:
            case["sigma"] = rng.choice(["1/4", "1/2"])
            case["lr"] = rng.choice(["1/2", "1", "1/8"])
            case["grad_opt"] = rng.choice(["gradient_ascent", "adam"])
            case["norm"] = rng.random() < 0.5
            case["restart"] = rng.choice(["no_improvement", "basic", 1, 2, 3])
            case["selection"] = rng.choice(["filter", "mu"])
            case["ranker"] = rng.choice(["2imp", "imp", "obj"])
        if kind in ES_KINDS and kind != "lm_ma_es" and case["bounds"] not in ("narrow", "tight") and \
                rng.random() < 0.2:
            batch = default_batch(kind, dim)        # batch_size=None: the strategy's documented default
        if kind == "cma_es" and rng.random() < 0.3:
            case["es_default"] = True               # es left out: the documented default "cma_es"
        if kind in GAE_KINDS and rng.random() < 0.25:
            batch = default_batch(kind, dim)
        case["batch"] = batch
        tag = "/".join(str(case[k]) for k in ("kind", "sd", "md", "bounds", "arch", "state", "dim", "batch", "seed"))
        n_iter = rng.randint(n_iter_lo, n_iter_hi)
        if case["bounds"] == "narrow":
            # the mean of the CMA family is a convex combination of in-bounds parents and stays in the slab; the
            # gradient step of OpenAI-ES may leave it, after which ask() legitimately takes arbitrarily long
            n_iter = 1 if kind == "openai_es" else min(n_iter, 3)
        case["ops"] = [{"op": "cfg", "tag": tag}] + gen_ops(rng, s, dim, n_iter, kind, init=bool(case.get("init")))
        return case

    return gen


def nontrivial(case):
    nonempty = False
    asked = False
    for op in case["ops"]:
        if op["op"] == "ext":
            nonempty = True
        elif op["op"] == "clear":
            nonempty = False
        elif op["op"] == "iter":
            if nonempty:
                asked = True
            nonempty = True
    return asked and (case["bounds"] != "none" or case["sd"] != case["md"])


# bounds parsing, including the rejected layouts


def gen_bounds_case(rng):
    dim = rng.randint(1, 5)
    r = rng.random()
    if r < 0.15:
        args = None
    else:
        n = dim if r < 0.75 else rng.choice([max(dim - 1, 0), dim + 1, 0])
        args = []
        for _ in range(n):
            t = rng.random()
            if t < 0.25:
                args.append(None)
            else:
                arity = 2 if t < 0.85 else rng.choice([0, 1, 3])
                vals = sorted(rng.choice([-2.0, -1.0, -0.5, -0.3, 0.0, 0.1, 0.25, 1.0, 3.0]) for _ in range(arity))
                args.append([None if rng.random() < 0.3 else v for v in vals])
    return {"dim": dim, "sd": rng.choice(["f32", "f64"]), "md": rng.choice(["f32", "f64"]), "args": args,
            "ops": [{"op": "cfg", "tag": repr((dim, args))}]}


def run_bounds_case(case, ctx):
    from ribs.emitters import GaussianEmitter
    dim, sd, md, args = case["dim"], case["sd"], case["md"], case["args"]
    arch = mk_archive("grid", dim, sd, md, 1)
    barg = None if args is None else [None if a is None else tuple(a) for a in args]
    err = None
    em = None
    try:
        em = GaussianEmitter(arch, sigma=0.1, x0=[0.0] * dim, bounds=barg, batch_size=2, seed=1)
    except ValueError:
        err = "err value"
    except Exception as ex:  # pylint: disable=broad-except
        err = f"err other:{type(ex).__name__}"
    malformed = args is not None and (len(args) != dim or any(a is not None and len(a) != 2 for a in args))
    if malformed and err is None:
        return Failure("oracle", f"malformed bounds {args} for solution_dim {dim} accepted")
    if not malformed and err is not None:
        return Failure("oracle", f"well-formed bounds {args} for solution_dim {dim} rejected ({err})")
    drv = Driver("emit")
    try:
        if err is not None:
            toks = " ".join("N" if a is None else seq_tok(a, sd) for a in args)
            m = drv.ask(f"bounds {dim} list {toks}".rstrip())
            ctx.count("bounds:rejected")
            if m != err:
                return Failure("corr", f"bounds {args}: impl={err} model={m}")
            return None
        ctx.count("bounds:accepted")
        return check_bounds_parse(drv, barg, dim, em.lower_bounds, em.upper_bounds, sd, "bounds")
    finally:
        drv.close()


class _NoCtx:
    """throw-away counters for the warm-up runs"""

    def __init__(self):
        self.extra = {}

    def count(self, *_a, **_k):
        pass


def warm_up(kinds):
    """Run one tiny case per kind, dtype and archive kind so that everything numba compiles (per process) is
    compiled before the strata start; not part of any budget, results discarded."""
    import random
    for kind in kinds:
        for j, (sd, ak) in enumerate([("f64", "grid"), ("f32", "cvt"), ("f64", "sba"), ("f32", "prox")]):
            bounds = "none" if kind in GAE_KINDS else "box"
            gen = make_gen([(kind, sd, sd, bounds, ak, "one")], 2, 2)
            try:
                run_case(gen(random.Random(j)), _NoCtx())
            except Exception:  # pylint: disable=broad-except
                pass  # whatever is wrong here is reported by the strata themselves


def run_group(ctx, kinds):
    quick = ctx.quick
    lo_it, hi_it = (5, 6) if quick else (6, 30)
    rc = lambda case: run_case(case, ctx)
    warm_up([k for k in kinds if k not in ("bounds", "pycma_shared") and not k.startswith(("long_", "big_"))])
    for kind in kinds:
        if kind == "bounds":
            ctx.explore("bounds", gen_bounds_case, lambda c: run_bounds_case(c, ctx), ctx.n(60, 2000),
                        time_budget=3 if quick else 20)
            continue
        if kind.startswith("big_"):
            es = kind[len("big_"):]
            ctx.explore(kind, make_big_gen(es, quick), lambda c: run_long_linear(c, ctx), ctx.n(4, 8),
                        time_budget=6 if quick else 60)
            continue
        if kind.startswith("long_"):
            es = kind[len("long_"):]
            ctx.explore(kind, make_long_gen(es, quick), lambda c: run_long_linear(c, ctx), ctx.n(1, 4),
                        time_budget=None)
            continue
        if kind == "pycma_shared":
            ctx.explore("pycma_shared", gen_shared_case, lambda c: run_shared_case(c, ctx), ctx.n(12, 400),
                        time_budget=3 if quick else 40)
            continue
        bounds = BOUNDS_ES if kind in ES_KINDS else (["none"] if kind in GAE_KINDS else BOUNDS_CLIP)
        tq, tt = BUDGET[kind]
        pts = lattice([kind], bounds, quick, ctx.seed)
        ctx.extra.setdefault("lattice_points", {})[kind] = len(pts)
        # quick: one pass over the lattice; thorough: three passes (fresh batch sizes, seeds, sigmas and operation
        # lists on every visit of a lattice point), as far as the stratum's time budget allows
        ctx.explore(kind, make_gen(pts, lo_it, hi_it), rc, ctx.n(len(pts), 3 * len(pts)), nontrivial=nontrivial,
                    time_budget=tq if quick else tt)


# (quick, thorough) seconds per stratum; one stratum per emitter kind (stratum name = kind)
BUDGET = {k: (3, 60) for k in CLIP_KINDS + ISO_KINDS}
BUDGET.update({k: (4, 60) for k in GOP_KINDS})
BUDGET.update({k: (2, 30) for k in GAE_KINDS})
BUDGET.update({"cma_es": (6, 200), "sep_cma_es": (6, 200), "lm_ma_es": (4, 110), "openai_es": (3, 90),
               "pycma_es": (4, 110)})
# strata run in forked worker processes (numba's JIT is per process and dominates the quick tier)
GROUPS = [
    ["bounds", "gauss", "ga_gauss", "iso", "ga_iso"],
    ["gop_iso", "gop_iso_mg", "gop_line", "gop_line_mg", "gae_j32", "gae_j64"],
    ["cma_es", "long_cma_es", "big_cma_es"],
    ["sep_cma_es", "long_sep_cma_es", "big_sep_cma_es"],
    ["lm_ma_es", "openai_es", "pycma_es", "pycma_shared", "long_lm_ma_es", "long_openai_es", "long_pycma_es",
     "big_lm_ma_es", "big_openai_es", "big_pycma_es"],
]


# --------------------------------------------------------------------------
# long histories on an objective that keeps improving along one direction (f(x) = x[0]): the search distribution
# stretches without bound, the covariance becomes extremely ill-conditioned -- "finite ... across many iterations"

LONG_ES = ["cma_es", "sep_cma_es", "lm_ma_es", "openai_es", "pycma_es"]
D51_KEY = "D51-sep-cma-es-diverges-to-inf"


def long_linear_case(es, variant):
    """deterministic cases; variant 0 is the one run on every quick run"""
    case = {"kind": "long_linear", "es": es, "sd": "f32", "md": "f32", "dim": 6, "batch": 8, "x0": "1",
            "sigma": "1/2", "ranker": "obj", "selection": "mu", "restart": "basic", "seed": 1, "aseed": 1,
            "iters": 260}
    if es == "sep_cma_es":
        # the reported configuration (D51): diverges to inf on a float32 archive at iteration ~108
        case.update(dim=10, x0="0", iters=400)
    if es == "lm_ma_es":
        case.update(batch=4)      # batch_size <= solution_dim is required; batch == dim is C18's open finding D50
    if variant == 1:
        case.update(sd="f64", md="f64", ranker="2imp", selection="filter", restart="no_improvement", seed=2,
                    iters=320 if es == "cma_es" else 200)
    elif variant == 2:
        case.update(sd="f64", md="f32", seed=3, iters=260 if es != "sep_cma_es" else 400)
    elif variant == 3:
        case.update(ranker="2imp", selection="filter", restart="no_improvement", seed=4,
                    iters=320 if es == "cma_es" else 200)
    case["ops"] = [{"op": "cfg", "tag": f"long_linear/{es}/{variant}"}]
    return case


def run_long_linear(case, ctx):
    from ribs.emitters import EvolutionStrategyEmitter
    warnings.simplefilter("ignore")
    es, sd, md, dim, batch = case["es"], case["sd"], case["md"], case["dim"], case["batch"]
    arch = mk_archive("grid", dim, sd, md, case["aseed"])
    kw = {"mirror_sampling": False} if es == "openai_es" else {}
    kw.update(case.get("es_kwargs") or {})
    sphere = case.get("objective") == "sphere"
    fname = "-|x|^2" if sphere else "x[0]"
    try:
        em = EvolutionStrategyEmitter(arch, es=es, es_kwargs=kw, ranker=case["ranker"],
                                      selection_rule=case["selection"], restart_rule=case["restart"],
                                      batch_size=batch, x0=np.full(dim, float(Fraction(case["x0"]))),
                                      sigma0=float(Fraction(case["sigma"])), seed=case["seed"])
    except Exception as ex:  # pylint: disable=broad-except
        return Failure("oracle", f"constructor raised {type(ex).__name__}: {str(ex)[:100]}")
    lo, hi = em.lower_bounds, em.upper_bounds
    for it in range(case["iters"]):
        where = (f"iteration {it} ask ({es}, solution_dim {dim}, batch_size {batch}"
                 f"{', es_kwargs ' + str(case['es_kwargs']) if case.get('es_kwargs') else ''}, "
                 f"{np.dtype(D[sd]).name} solutions, objective f(x) = {fname})")
        try:
            out = timed(em.ask)
        except AskTimeout:
            return Failure("oracle", f"{where}: ask() did not return within {ASK_TIMEOUT} s")
        except Exception as ex:  # pylint: disable=broad-except
            return Failure("oracle", f"{where}: raised {type(ex).__name__}: {str(ex)[:80]}")
        f = oracle_array(where, out, batch, dim, sd, lo, hi)
        if f is not None:
            if es == "sep_cma_es" and isinstance(out, np.ndarray) and out.shape == (batch, dim) and \
                    not np.any(np.isnan(out)) and np.any(np.isinf(out)):
                f.key = D51_KEY
                f.what += (f" -- {int(np.sum(np.isinf(out)))} inf entries after {em.restarts} restarts: sigma and the "
                           f"diagonal covariance grow without bound on a linear objective and no stop criterion fires")
            return f
        sols = np.asarray(out, dtype=np.float64)
        obj = -np.sum(sols**2, axis=1) if sphere else sols[:, 0]
        meas = np.zeros((len(sols), 2))
        src = sols[:, 1:3] if dim >= 3 else sols[:, :min(dim, 2)]
        meas[:, :src.shape[1]] = np.clip(src, -2.0, 2.0)
        try:
            em.tell(out, obj, meas, arch.add(out, obj, meas))
        except Exception as ex:  # pylint: disable=broad-except
            ctx.count(f"tell-raised:{case.get('profile', 'long_linear')}:{es}:{type(ex).__name__}")
            return None
    ctx.count(f"{case.get('profile', 'long_linear')}:{es}:iterations", case["iters"])
    ctx.count(f"{case.get('profile', 'long_linear')}:{es}:restarts", int(em.restarts))
    return None


# size thresholds: LARGE batches on SMALL dimensions (mueff >> n), many direction vectors, tens of uninterrupted
# generations -- a few deterministic cases per strategy on every run; every ask is read (finite, shape, dtype, bounds)

def big_cases(es, quick):
    base = {"kind": "long_linear", "profile": "big", "es": es, "sd": "f64", "md": "f64", "x0": "1", "sigma": "1/2",
            "ranker": "obj", "selection": "mu", "restart": "basic", "objective": "sphere", "seed": 1, "aseed": 1,
            "iters": 30}
    out = []
    if es == "lm_ma_es":
        # batch_size <= solution_dim is required (batch == dim is C18's open finding D50): large batches need large
        # dimensions; n_vectors (default: batch_size) is also set independently through es_kwargs
        shapes = [dict(dim=40, batch=32, iters=45), dict(dim=6, batch=4, es_kwargs={"n_vectors": 40}, iters=45),
                  dict(dim=64, batch=48, iters=40, sd="f32", md="f32"),
                  dict(dim=8, batch=6, es_kwargs={"n_vectors": 64}, iters=70, ranker="2imp")]
    else:
        shapes = [dict(dim=1, batch=64), dict(dim=2, batch=128), dict(dim=3, batch=256, iters=26),
                  dict(dim=2, batch=96, ranker="2imp", sd="f32", md="f32"),
                  dict(dim=1, batch=200, selection="filter", restart="no_improvement"),
                  dict(dim=3, batch=128, objective="linear", iters=40),
                  dict(dim=2, batch=256, sd="f32", md="f64", seed=5), dict(dim=1, batch=100, ranker="imp", seed=7)]
    for i, sh in enumerate(shapes[:4] if quick else shapes):
        c = dict(base)
        c.update(sh)
        c["ops"] = [{"op": "cfg", "tag": f"big/{es}/{i}"}]
        out.append(c)
    return out


def make_big_gen(es, quick):
    cases = big_cases(es, quick)
    it = {"i": 0}

    def gen(_rng):
        c = dict(cases[it["i"] % len(cases)])
        it["i"] += 1
        return c

    return gen


def make_long_gen(es, quick):
    it = {"i": 0}

    def gen(_rng):
        v = it["i"]
        it["i"] += 1
        return long_linear_case(es, 0 if quick else v % 4)

    return gen


# --------------------------------------------------------------------------
# two pycma emitters configured from ONE es_kwargs dict (shape / bounds / dtype of every ask, past a restart)


def gen_shared_case(rng):
    dim = rng.choice([2, 3])
    b1, b2 = rng.sample(["box", "tight", "none", "onesided", "nondyadic"], 2)
    batch1 = rng.choice([3, 4, 6])
    batch2 = rng.choice([b for b in (2, 5, 7) if b != batch1])
    sd, md = rng.choice(DTYPES)
    case = {"kind": "pycma_shared", "sd": sd, "md": md, "dim": dim, "b": [b1, b2], "batch": [batch1, batch2],
            "seed": [rng.randrange(1 << 30), rng.randrange(1 << 30)], "aseed": rng.randrange(1 << 30),
            "restart": [rng.choice([1, 2, 2]), rng.choice([2, 3, "basic"])],
            "opts": rng.choice([{"verbose": -9}, {"tolx": 1e-12}, {"CMA_active": False, "verbose": -9}])}
    case["ops"] = [{"op": "cfg", "tag": f"shared/{sd}/{md}/{dim}/{b1}/{b2}/{batch1}/{batch2}/{case['seed'][0]}"}] + \
        [{"op": "iter"} for _ in range(rng.randint(4, 7))]
    return case


def run_shared_case(case, ctx):
    from ribs.emitters import EvolutionStrategyEmitter
    warnings.simplefilter("ignore")
    sd, md, dim = case["sd"], case["md"], case["dim"]
    shared = {"opts": dict(case["opts"])}     # one dict object for both emitters, as a caller's config would be
    ems = []
    try:
        for j in range(2):
            arch = mk_archive("grid", dim, sd, md, case["aseed"] + j)
            barg, x0 = bounds_layout(case["b"][j], dim)
            sig = 1 / 128 if case["b"][j] == "tight" else 0.25
            em = EvolutionStrategyEmitter(arch, x0=x0, sigma0=sig, es="pycma_es", es_kwargs=shared, bounds=barg,
                                          batch_size=case["batch"][j], seed=case["seed"][j], ranker="2imp",
                                          restart_rule=case["restart"][j])
            ems.append((em, arch, barg))
    except Exception as ex:  # pylint: disable=broad-except
        return Failure("oracle", f"constructor raised {type(ex).__name__}: {str(ex)[:100]}")
    drv = Driver("emit")
    try:
        for j, (em, arch, barg) in enumerate(ems):
            f = check_bounds_parse(drv, barg, dim, em.lower_bounds, em.upper_bounds, sd, f"emitter {j} constructor")
            if f is not None:
                return f
        for step, op in enumerate(case["ops"]):
            if op["op"] != "iter":
                continue
            for j, (em, arch, barg) in enumerate(ems):
                where = f"op#{step} iter emitter {j} (batch_size {case['batch'][j]}, bounds {case['b'][j]}) ask"
                r0 = em.restarts
                try:
                    out = timed(em.ask)
                except AskTimeout:
                    return Failure("oracle", f"{where}: ask() did not return within {ASK_TIMEOUT} s")
                except Exception as ex:  # pylint: disable=broad-except
                    return Failure("oracle", f"{where}: raised {type(ex).__name__}: {str(ex)[:80]}")
                f = oracle_array(where, out, case["batch"][j], dim, sd, em.lower_bounds, em.upper_bounds)
                if f is not None:
                    return f
                dm = dtype_model(drv, "evolutionStrategy", sd, md, "f64")
                if dm["rep"] != ("f32" if out.dtype == np.float32 else "f64"):
                    return Failure("corr", f"{where}: dtype impl={out.dtype} model={dm['rep']}")
                obj, meas = evaluate(out)
                try:
                    em.tell(out, obj, meas, arch.add(out, obj, meas))
                except Exception as ex:  # pylint: disable=broad-except
                    ctx.count(f"tell-raised:pycma_shared:{type(ex).__name__}")
                    return None
                if em.restarts != r0:
                    ctx.count(f"shared:restart-of-emitter-{j}")
            ctx.count("iter:pycma_shared")
        return None
    finally:
        drv.close()


def run(ctx):
    import os
    import pickle
    import tempfile
    import traceback
    from core import Infra
    import ribs.archives  # noqa: F401  (import before forking: shared by the workers)
    import ribs.emitters  # noqa: F401
    if os.environ.get("VERIF_C08_SERIAL") == "1":
        for g in GROUPS:
            run_group(ctx, g)
        return
    children = []
    for g in GROUPS:
        fd, path = tempfile.mkstemp(prefix="c08_", suffix=".pkl")
        os.close(fd)
        pid = os.fork()
        if pid == 0:
            code = 0
            try:
                # fresh accumulators: the parent merges what this worker adds
                ctx.evaluations = ctx.validated = 0
                ctx.nontrivial, ctx.samples, ctx.dist, ctx.failures = set(), [], {}, []
                ctx.known_hits, ctx.notes, ctx.extra = {}, [], {}
                out = {}
                try:
                    run_group(ctx, g)
                except Infra as e:
                    out["infra"] = str(e)
                except Exception:  # pylint: disable=broad-except
                    out["infra"] = "worker crashed: " + traceback.format_exc()[-1500:]
                out.update(evaluations=ctx.evaluations, validated=ctx.validated, nontrivial=ctx.nontrivial,
                           samples=ctx.samples, dist=ctx.dist, known_hits=ctx.known_hits, notes=ctx.notes,
                           extra=ctx.extra, failures=[(f.kind, f.what, f.detail, f.key, c) for f, c in ctx.failures])
                with open(path, "wb") as fh:
                    pickle.dump(out, fh)
            except BaseException:  # pylint: disable=broad-except
                code = 1
            os._exit(code)
        children.append((pid, path, g))
    problems = []
    for pid, path, g in children:
        _, status = os.waitpid(pid, 0)
        try:
            with open(path, "rb") as fh:
                out = pickle.load(fh)
        except Exception:  # pylint: disable=broad-except
            out = {"infra": f"worker for {g} left no result (exit status {status})"}
        finally:
            try:
                os.remove(path)
            except OSError:
                pass
        if "infra" in out:
            problems.append(out["infra"])
        ctx.evaluations += out.get("evaluations", 0)
        ctx.validated += out.get("validated", 0)
        ctx.nontrivial |= out.get("nontrivial", set())
        for smp in out.get("samples", []):
            if len(ctx.samples) < 3:
                ctx.samples.append(smp)
        for k, v in out.get("dist", {}).items():
            ctx.dist[k] = ctx.dist.get(k, 0) + v
        for k, v in out.get("known_hits", {}).items():
            ctx.known_hits[k] = ctx.known_hits.get(k, 0) + v
        ctx.notes += out.get("notes", [])
        ex = out.get("extra", {})
        ctx.extra.setdefault("lattice_points", {}).update(ex.get("lattice_points", {}))
        ctx.extra["max_err_over_tol"] = max(ctx.extra.get("max_err_over_tol", 0.0), ex.get("max_err_over_tol", 0.0))
        for kind, what, detail, key, c in out.get("failures", []):
            ctx.failures.append((Failure(kind, what, detail, key), c))
    if problems:
        raise Infra("; ".join(problems)[:2000])


def replay(ctx, case):
    if "args" in case:
        return run_bounds_case(case, ctx)
    if case.get("kind") == "pycma_shared":
        return run_shared_case(case, ctx)
    if case.get("kind") == "long_linear":
        return run_long_linear(case, ctx)
    return run_case(case, ctx)
