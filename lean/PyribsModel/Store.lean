import PyribsModel.Util
/-!
# Store — model of `ribs/archives/_array_store.py` (ArrayStore)

A store has a capacity, a partial map from indices to rows (`some` = occupied),
the insertion-ordered list of occupied indices and two update counters.  All the
fields of one index are one row `ρ` (the harness derives every field of a row
from one token, so "all fields written with one shared index vector" is what the
correspondence checks).

Code shape (what mirrors what):
* `rawAdd`      ↔ `ArrayStore.add` after the transform chain (occupancy block +
                  field-write loop; NumPy fancy assignment = last write wins);
* `addWith`     ↔ `ArrayStore.add` including the transform chain, each transform
                  receiving `retrieve(indices)` of the *pre-call* store;
* `clear`, `resize`, `retrieve`, `data`, `Iter.next`, `asRaw` / `fromRaw`.
-/
namespace Pyribs

structure Store (ρ : Type) where
  cap    : Nat
  cells  : Nat → Option ρ
  olist  : List Nat
  adds   : Nat
  clears : Nat

namespace Store
variable {ρ : Type}

def empty (cap : Nat) : Store ρ := ⟨cap, fun _ => none, [], 0, 0⟩

def occupied (s : Store ρ) (i : Nat) : Bool := (s.cells i).isSome
def len (s : Store ρ) : Nat := s.olist.length

/-- last write to index `i` among `ws`, if any (NumPy fancy assignment) -/
def lastWrite (ws : List (Nat × ρ)) (i : Nat) : Option ρ :=
  match ws with
  | [] => none
  | (j, r) :: rest =>
    match lastWrite rest i with
    | some r' => some r'
    | none => if j = i then some r else none

/-- indices named by `ws`, not yet occupied, each once, ascending
    (`np.where(aggregate(indices, 1, func="len") != 0)[0]` filtered by `~occupied`) -/
def newIndices (s : Store ρ) (ws : List (Nat × ρ)) : List Nat :=
  (List.range s.cap).filter (fun i => ws.any (fun w => w.1 == i) && !(s.occupied i))

inductive Err | index | value | runtime | stop
deriving DecidableEq, Repr

/-- every index named by `ws` is below the capacity (otherwise NumPy raises IndexError) -/
def inRange (s : Store ρ) (ws : List (Nat × ρ)) : Bool := ws.all (fun w => decide (w.1 < s.cap))

/-- `ArrayStore.add` after the transforms: `ws` are the final (index, row) pairs.
Returns the state after the call; the call raised IndexError iff `!inRange s ws`
(then only the add counter moved). -/
def rawAdd (s : Store ρ) (ws : List (Nat × ρ)) : Store ρ :=
  if inRange s ws then
    { s with
      cells := fun i => (lastWrite ws i).or (s.cells i)
      olist := s.olist ++ newIndices s ws
      adds := s.adds + 1 }
  else { s with adds := s.adds + 1 }

def clear (s : Store ρ) : Store ρ :=
  { s with cells := fun _ => none, olist := [], clears := s.clears + 1 }

def resize (s : Store ρ) (cap : Nat) : Except Err (Store ρ) :=
  if cap ≤ s.cap then .error .value else .ok { s with cap := cap }

/-- `retrieve(indices)`: occupancy flag and (if occupied) the row, per index -/
def retrieve (s : Store ρ) (idx : List Nat) : List (Option ρ) := idx.map s.cells

/-- `data()`: rows in `occupied_list` order, with their indices -/
def data (s : Store ρ) : List (Nat × Option ρ) := s.olist.map (fun i => (i, s.cells i))

/-! ### parametric transforms (C13: "any transform chain") -/

inductive Xf
  | ident        -- pass through
  | dropOcc      -- keep only rows aimed at currently unoccupied indices
  | keepOcc      -- keep only rows aimed at currently occupied indices
  | rev          -- reverse rows and indices together
  | dupFirst     -- duplicate the first row at the end
  | dropAll      -- nothing to add
deriving DecidableEq, Repr

def applyXf (s : Store ρ) (x : Xf) (ws : List (Nat × ρ)) : List (Nat × ρ) :=
  match x with
  | .ident => ws
  | .dropOcc => ws.filter (fun w => !(s.occupied w.1))
  | .keepOcc => ws.filter (fun w => s.occupied w.1)
  | .rev => ws.reverse
  | .dupFirst => match ws with | [] => [] | w :: _ => ws ++ [w]
  | .dropAll => []

/-- the whole of `ArrayStore.add`: every transform sees the pre-call store `s` -/
def chain (s : Store ρ) (xs : List Xf) (ws : List (Nat × ρ)) : List (Nat × ρ) :=
  xs.foldl (fun acc x => applyXf s x acc) ws

def addWith (s : Store ρ) (xs : List Xf) (ws : List (Nat × ρ)) : Store ρ :=
  rawAdd s (chain s xs ws)

/-- did `add` raise? -/
def addErr (s : Store ρ) (xs : List Xf) (ws : List (Nat × ρ)) : Option Err :=
  if inRange s (chain s xs ws) then none else some .index

/-! ### iterator -/

structure Iter where
  pos    : Nat
  adds   : Nat
  clears : Nat
deriving DecidableEq, Repr

def iter (s : Store ρ) : Iter := ⟨0, s.adds, s.clears⟩

/-- `ArrayStoreIterator.__next__` -/
def Iter.next (it : Iter) (s : Store ρ) : Except Err (Nat × Option ρ) × Iter :=
  if it.adds ≠ s.adds ∨ it.clears ≠ s.clears then (.error .runtime, it)
  else match s.olist[it.pos]? with
    | none => (.error .stop, it)
    | some i => (.ok (i, s.cells i), { it with pos := it.pos + 1 })

/-! ### raw dictionary round trip -/

structure Raw (ρ : Type) where
  cap    : Nat
  occ    : List Bool          -- length cap
  olist  : List Nat           -- the valid prefix of the `occupied_list` array
  adds   : Nat
  clears : Nat
  rows   : List (Option ρ)    -- length cap (contents of unoccupied slots are unspecified)

def asRaw (s : Store ρ) : Raw ρ :=
  ⟨s.cap, (List.range s.cap).map s.occupied, s.olist, s.adds, s.clears,
   (List.range s.cap).map s.cells⟩

def fromRaw (r : Raw ρ) : Store ρ :=
  ⟨r.cap,
   fun i => if r.occ.getD i false then (r.rows.getD i none) else none,
   r.olist, r.adds, r.clears⟩

end Store
end Pyribs
