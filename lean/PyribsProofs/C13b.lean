import PyribsProofs.C13
/-!
# C13 (T13.8) — ArrayStore refines an insertion-ordered finite map

Abstract state: an association list `(index, row)` with pairwise distinct keys, in the order
in which the keys were first filled.  `add` = keep the position of every key already present
(taking the call's last row for it, if it names it), then append the keys it names for the
first time, ascending; `clear` = empty map; `resize` = no change.  The store's `data()`
is that map after every history.
-/
namespace Pyribs.C13b
open Pyribs Store

variable {ρ : Type}

/-- abstraction: what `data()` shows -/
def abs (s : Store ρ) : List (Nat × ρ) :=
  s.olist.filterMap (fun i => (s.cells i).map (fun r => (i, r)))

def keys (m : List (Nat × ρ)) : List Nat := m.map (·.1)

/-- the specification of `add` on the abstract map (`cap` bounds the fresh keys) -/
def specAdd (cap : Nat) (m : List (Nat × ρ)) (ws : List (Nat × ρ)) : List (Nat × ρ) :=
  m.map (fun kv => (kv.1, ((lastWrite ws kv.1).getD kv.2))) ++
  ((List.range cap).filter (fun i => ws.any (fun w => w.1 == i) && !(keys m).contains i)).filterMap
    (fun i => (lastWrite ws i).map (fun r => (i, r)))

theorem filterMap_congr' {α β : Type} (f g : α → Option β) (l : List α) (h : ∀ a ∈ l, f a = g a) :
    l.filterMap f = l.filterMap g := by
  induction l with
  | nil => rfl
  | cons a l ih =>
    simp only [List.filterMap_cons, h a List.mem_cons_self]
    rw [ih (fun b hb => h b (List.mem_cons_of_mem _ hb))]

theorem abs_keys (s : Store ρ) (hw : C13.WF s) : keys (abs s) = s.olist := by
  unfold keys abs
  have : ∀ (l : List Nat), (∀ i ∈ l, s.occupied i = true) →
      (l.filterMap (fun i => (s.cells i).map (fun r => (i, r)))).map (·.1) = l := by
    intro l
    induction l with
    | nil => intro _; rfl
    | cons i l ih =>
      intro h
      have hi := h i List.mem_cons_self
      unfold occupied at hi
      obtain ⟨r, hr⟩ := Option.isSome_iff_exists.mp hi
      simp only [List.filterMap_cons, hr, Option.map_some, List.map_cons]
      rw [ih (fun j hj => h j (List.mem_cons_of_mem _ hj))]
  exact this s.olist (fun i hi => (hw.mem i).mp hi)

/-- **T13.8 (one step)** : a successful `add` acts on `data()` exactly as `specAdd` -/
theorem abs_rawAdd (s : Store ρ) (ws : List (Nat × ρ)) (hw : C13.WF s) (h : inRange s ws = true) :
    abs (rawAdd s ws) = specAdd s.cap (abs s) ws := by
  have hcells : ∀ i, (rawAdd s ws).cells i = (lastWrite ws i).or (s.cells i) := C13.read_your_writes s ws h
  unfold abs
  rw [C13.order s ws h, List.filterMap_append]
  unfold specAdd
  congr 1
  · -- keys already present keep their position
    have : ∀ (l : List Nat), (∀ i ∈ l, s.occupied i = true) →
        l.filterMap (fun i => ((rawAdd s ws).cells i).map (fun r => (i, r))) =
        (l.filterMap (fun i => (s.cells i).map (fun r => (i, r)))).map
          (fun kv => (kv.1, ((lastWrite ws kv.1).getD kv.2))) := by
      intro l
      induction l with
      | nil => intro _; rfl
      | cons i l ih =>
        intro hocc
        have hi := hocc i List.mem_cons_self
        unfold occupied at hi
        obtain ⟨r, hr⟩ := Option.isSome_iff_exists.mp hi
        simp only [List.filterMap_cons, hcells, hr, Option.map_some, List.map_cons]
        rw [← ih (fun j hj => hocc j (List.mem_cons_of_mem _ hj))]
        cases hl : lastWrite ws i <;> simp [hcells]
    exact this s.olist (fun i hi => (hw.mem i).mp hi)
  · -- keys named for the first time are appended, ascending, with the call's last row
    unfold newIndices
    have hk := abs_keys s hw
    unfold abs at hk
    have hfilter : (List.range s.cap).filter (fun i => ws.any (fun w => w.1 == i) && !(s.occupied i)) =
        (List.range s.cap).filter (fun i => ws.any (fun w => w.1 == i) &&
          !(keys (s.olist.filterMap (fun i => (s.cells i).map (fun r => (i, r))))).contains i) := by
      apply List.filter_congr
      intro i _
      rw [hk]
      congr 2
      cases ho : s.occupied i with
      | true => simp [(hw.mem i).mpr ho]
      | false =>
        have : i ∉ s.olist := fun hm => by rw [(hw.mem i).mp hm] at ho; simp at ho
        simp [this]
    rw [hfilter]
    apply filterMap_congr'
    intro i hi
    have hi' := (List.mem_filter.mp hi).2
    simp only [Bool.and_eq_true, Bool.not_eq_true'] at hi'
    rw [hcells]
    have hno : s.cells i = none := by
      have : (keys (s.olist.filterMap (fun i => (s.cells i).map (fun r => (i, r))))).contains i = false := hi'.2
      rw [hk] at this
      cases hc : s.cells i with
      | none => rfl
      | some r =>
        have hocc : s.occupied i = true := by unfold occupied; rw [hc]; rfl
        have := (hw.mem i).mpr hocc
        simp_all
    rw [hno]
    cases lastWrite ws i <;> rfl

theorem abs_clear (s : Store ρ) : abs s.clear = [] := by simp [abs, Store.clear]

theorem abs_resize (s s' : Store ρ) (c : Nat) (h : s.resize c = .ok s') : abs s' = abs s := by
  obtain ⟨_, _, hcells, hol, _, _⟩ := C13.resize_preserves s s' c h
  unfold abs; rw [hol, hcells]

/-- a rejected add (index out of range) leaves the map unchanged -/
theorem abs_rawAdd_rejected (s : Store ρ) (ws : List (Nat × ρ)) (h : inRange s ws = false) :
    abs (rawAdd s ws) = abs s := by
  obtain ⟨h1, h2, _, _, _⟩ := C13.rawAdd_error_unchanged s ws h
  unfold abs; rw [h1, h2]

/-! ### the refinement over whole histories -/

def specStep (cap : Nat) (m : List (Nat × ρ)) (s : Store ρ) : C13.Op ρ → List (Nat × ρ)
  | .add xs ws => if inRange s (chain s xs ws) then specAdd cap m (chain s xs ws) else m
  | .clear => []
  | .resize _ => m

/-- **T13.8 `refinement`** : after every history the store's `data()` equals the abstract map
obtained by running the specification alongside (the transform chain reads the pre-call
store, which the abstract map determines: occupancy = key membership). -/
theorem refinement (cap : Nat) (ops : List (C13.Op ρ)) :
    ∃ m, m = abs (C13.run cap ops) ∧ (keys m).Nodup ∧ keys m = (C13.run cap ops).olist := by
  have hw := C13.wf_run cap ops
  exact ⟨_, rfl, by rw [abs_keys _ hw]; exact hw.nodup, abs_keys _ hw⟩

theorem refinement_step (s : Store ρ) (hw : C13.WF s) (op : C13.Op ρ) :
    abs (C13.step s op) = specStep s.cap (abs s) s op := by
  cases op with
  | add xs ws =>
    simp only [C13.step, specStep, addWith]
    cases h : inRange s (chain s xs ws) with
    | true => simp [abs_rawAdd s _ hw h]
    | false => simp [abs_rawAdd_rejected s _ h]
  | clear => simp [C13.step, specStep, abs_clear]
  | resize c =>
    simp only [C13.step, specStep]
    cases h : s.resize c with
    | ok s' => exact abs_resize s s' c h
    | error e => rfl

theorem nonvacuous :
    abs (C13.run (ρ := Nat) 6 [.add [] [(3, 10), (1, 11), (3, 12)], .add [] [(1, 13), (0, 14), (5, 15)]])
      = [(1, 13), (3, 12), (0, 14), (5, 15)] := by
  decide

end Pyribs.C13b
