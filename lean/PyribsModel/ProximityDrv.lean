import PyribsModel.Proximity
import PyribsModel.ArchDrv
/-! Line-protocol machine "prox". Candidate token: `tok:obj:meas:novelHint:near` (near = index or `-`). -/
namespace Pyribs.ProximityDrv
open Pyribs Prox

structure St where
  p   : Prox
  dim : Nat

def init : St := ⟨Prox.new ⟨1, 0, false, 0⟩ 1, 1⟩

def parseHinted (t : String) : Option Hinted :=
  match t.splitOn ":" with
  | [tok, obj, meas, nov, near] => do
    let tok ← tok.toNat?
    let obj ← parseRat obj
    let meas ← parseRatList meas
    let nov ← if nov = "1" then some true else if nov = "0" then some false else none
    let near ← if near = "-" then some none else near.toNat?.map some
    pure ⟨⟨tok, obj, meas⟩, nov, near⟩
  | _ => none

def showBools (bs : List Bool) : String := showList showBool bs

def dump (st : St) : String :=
  let p := st.p
  let a := p.arch
  let rows := a.store.olist.filterMap (fun i => (a.store.cells i).map (ArchDrv.showElite i))
  let s := a.stats
  let qd := a.qdScore
  let b := match p.bounds st.dim with
    | none => "none"
    | some (lo, hi) => s!"{showRatList lo}|{showRatList hi}"
  s!"len={p.len} cap={p.capacity} olist={showNatList a.store.olist} data={if rows.isEmpty then "-" else String.intercalate ";" rows} " ++
  s!"num={s.numElites} objsum={showRat s.objSum} objmax={showOpt showRat s.objMax} " ++
  s!"best={showOpt (fun (b : Nat × Elite) => ArchDrv.showElite b.1 b.2) s.best} qd={showRat qd} " ++
  s!"cov={if s.numElites = 0 then "0" else "1"} nqd={if s.numElites = 0 then "0" else showRat (qd / (s.numElites : Rat))} " ++
  s!"mean={showOpt showRat a.objMean} bounds={b}"

def step (st : St) (toks : List String) : St × String :=
  match toks with
  | "new" :: rest =>
    let r : Option St := do
      let k ← (kv rest "k") >>= String.toNat?
      let nu ← (kv rest "nu") >>= parseRat
      let lc ← (kv rest "lc") >>= fun s => if s = "1" then some true else if s = "0" then some false else none
      let off ← (kv rest "off") >>= parseRat
      let cap ← (kv rest "cap") >>= String.toNat?
      let dim ← (kv rest "dim") >>= String.toNat?
      pure ⟨Prox.new ⟨k, nu, lc, off⟩ cap, dim⟩
    match r with
    | some s => (s, "ok")
    | none => (st, "bad-op")
  | "add" :: rows =>
    match rows.mapM parseHinted with
    | some hs =>
      match st.p.add hs with
      | .ok (p', fb) =>
        ({ st with p := p' },
         s!"novel={showBools fb.novel} status={showNatList fb.status} value={showRatList fb.value} " ++
         s!"novlo={showRatList fb.novLo} novhi={showRatList fb.novHi} lc={showNatList fb.lc} lctied={showBools fb.lcTied}")
      | .error (.hintNovel t) => (st, s!"reject novel {t} dec={showOpt showBool ((hs.find? (fun h => h.c.tok == t)).bind (fun h => st.p.novelDec h.c.meas))}")
      | .error (.hintNear t) => (st, s!"reject near {t} adm={showNatList ((hs.find? (fun h => h.c.tok == t)).map (fun h => st.p.nearestSet h.c.meas) |>.getD [])}")
    | none => (st, "bad-op")
  | ["clear"] => ({ st with p := st.p.clear }, "ok")
  | ["setcap", c] =>
    -- C11 only: a rejected call may have grown the capacity (not an observable C11 lists); resynchronise
    match c.toNat? with
    | some c => ({ st with p := { st.p with arch := { st.p.arch with store := { st.p.arch.store with cap := c } } } }, "ok")
    | none => (st, "bad-op")
  | ["state"] => (st, dump st)
  | "nearest" :: ms =>
    match ms.mapM parseRatList with
    | some ms => (st, String.intercalate " " (ms.map (fun m => showNatList (st.p.nearestSet m))))
    | none => (st, "bad-op")
  | "novelty" :: ms =>
    match ms.mapM parseRatList with
    | some ms => (st, String.intercalate " " (ms.map (fun m =>
        let (lo, hi) := st.p.noveltyBracket m
        s!"{showRat lo}:{showRat hi}:{showOpt showBool (st.p.novelDec m)}")))
    | none => (st, "bad-op")
  | _ => (st, "bad-op")

end Pyribs.ProximityDrv
