import PyribsModel.Util
/-!
# Ranker — model of `ribs/emitters/rankers.py`

A ranker receives one evaluated batch (`data`, `add_info`, the archive) and
returns `(indices, ranking_values)`: a best-first ordering of the batch
positions `0 … n-1` and the values it ranked by, aligned with the *original*
positions.  The only state a ranker has is the target direction of the two
random-direction rankers.

Ranking keys are pairs `(status, value) : Nat × Rat`; single-stage rankers use
status `0` for every row, so one order serves all eight rankers.

Code shape (what mirrors what):
* `sortBy` / `argsortBy`   ↔ `np.argsort` / `np.lexsort` (a *stable* sort of the
                             positions; the tie order of NumPy's default sort is
                             unspecified and is not part of the property);
* `descending`             ↔ `np.flip(np.argsort(v))`, `np.flip(np.lexsort(...))`;
* `ascending`              ↔ `np.argsort(density)`;
* `stack`                  ↔ `np.stack((status, v), axis=-1)` (ValueError on a
                             shape mismatch);
* `dot`                    ↔ `np.dot(data["measures"], target_measure_dir)`
                             (ValueError when a row and the direction differ in
                             length);
* `ImprovementRanker.rank` … `DensityRanker.rank` ↔ the eight `rank` methods;
* `rank`                   ↔ dispatch on the class;
* `reset`, `setDir`        ↔ `reset(emitter, archive)` and the
                             `target_measure_dir` setter;
* `step` / `run`           ↔ a history of calls on one ranker object.

The standard-normal draws of `reset` are an input (`z`): the harness replays
them from the seed.
-/
namespace Pyribs.Ranker

/-! ## order on keys -/

/-- `a` ranks at least as high as `b`: higher status first, then higher value
    (two-stage: new (2) > improved (1) > not added (0)) -/
def keyGe (a b : Nat × Rat) : Bool :=
  decide (b.1 < a.1) || (a.1 == b.1 && decide (b.2 ≤ a.2))

/-- ascending order (lower is better): `DensityRanker` -/
def keyLe (a b : Nat × Rat) : Bool := keyGe b a

/-! ## stable sort (structural recursion, so that examples evaluate) -/

/-- insert `x`, which precedes every element of `l` in the original order, into
    the sorted list `l`: before the first element it is at least as good as -/
def insertBy {α : Type} (le : α → α → Bool) (x : α) : List α → List α
  | [] => [x]
  | y :: ys => if le x y then x :: y :: ys else y :: insertBy le x ys

/-- stable insertion sort: best (w.r.t. `le`) first, ties in original order -/
def sortBy {α : Type} (le : α → α → Bool) : List α → List α
  | [] => []
  | x :: xs => insertBy le x (sortBy le xs)

/-- positions `0 … n-1` of `ks`, best key first -/
def argsortBy (le : Nat × Rat → Nat × Rat → Bool) (ks : List (Nat × Rat)) : List Nat :=
  (sortBy (fun a b => le a.1 b.1) ks.zipIdx).map (·.2)

/-! ## ranking values -/

/-- the second component of the return value: shape `(n,)` for the single-stage
    rankers, shape `(n, 2)` (`[status, value]` rows) for the two-stage ones -/
inductive Vals
  | one (v : List Rat)
  | two (v : List (Nat × Rat))
deriving DecidableEq, Repr

/-- the keys the positions are ordered by -/
def Vals.keys : Vals → List (Nat × Rat)
  | .one v => v.map (fun x => (0, x))
  | .two v => v

/-- batch size as seen by the ranker -/
def Vals.size (v : Vals) : Nat := v.keys.length

inductive Err
  | runtime    -- RuntimeError: target measure direction not set
  | attribute  -- AttributeError: archive without compute_density
  | value      -- ValueError: shapes do not fit (np.stack / np.dot)
  | key        -- KeyError: add_info lacks the field the ranker reads
deriving DecidableEq, Repr

/-- what a ranker reads of one evaluated batch -/
structure Batch where
  /-- `data["objective"]` -/
  objective : List Rat
  /-- `data["measures"]`, one row per solution -/
  measures  : List (List Rat)
  /-- `add_info["status"]` (0 not added, 1 improved, 2 new) -/
  status    : List Nat
  /-- `add_info["value"]` -/
  value     : List Rat
  /-- `add_info["novelty"]` when the archive's `add` returns that field -/
  novelty   : Option (List Rat)
  /-- `archive.compute_density(data["measures"])` when the archive has that method -/
  density   : Option (List Rat)
deriving DecidableEq, Repr

/-- the ranker object: the direction is `None` until `reset` or the setter -/
structure St where
  dir : Option (List Rat)
deriving DecidableEq, Repr

def init : St := ⟨none⟩

abbrev Result := Except Err (List Nat × Vals)

/-- `np.flip(np.argsort(v))` / `np.flip(np.lexsort(...))`: best = largest first -/
def descending (v : Vals) : List Nat × Vals := (argsortBy keyGe v.keys, v)

/-- `np.argsort(v)`: best = smallest first -/
def ascending (v : Vals) : List Nat × Vals := (argsortBy keyLe v.keys, v)

/-- `np.stack((status, v), axis=-1)` -/
def stack (s : List Nat) (v : List Rat) : Except Err (List (Nat × Rat)) :=
  if s.length = v.length then .ok (s.zip v) else .error .value

/-- one projection `Σ_j m_j d_j` -/
def dot1 (m d : List Rat) : Rat := (List.zipWith (· * ·) m d).foldr (· + ·) 0

/-- `np.dot(measures, direction)` -/
def dot (ms : List (List Rat)) (d : List Rat) : Except Err (List Rat) :=
  if ms.all (fun m => m.length == d.length) then .ok (ms.map (fun m => dot1 m d)) else .error .value

/-- `ImprovementRanker.rank` -/
def ImprovementRanker.rank (b : Batch) : Result :=
  .ok (descending (.one b.value))

/-- `TwoStageImprovementRanker.rank` -/
def TwoStageImprovementRanker.rank (b : Batch) : Result := do
  let rv ← stack b.status b.value
  .ok (descending (.two rv))

/-- `RandomDirectionRanker.rank` -/
def RandomDirectionRanker.rank (st : St) (b : Batch) : Result :=
  match st.dir with
  | none => .error .runtime
  | some d => do
    let p ← dot b.measures d
    .ok (descending (.one p))

/-- `TwoStageRandomDirectionRanker.rank` -/
def TwoStageRandomDirectionRanker.rank (st : St) (b : Batch) : Result :=
  match st.dir with
  | none => .error .runtime
  | some d => do
    let p ← dot b.measures d
    let rv ← stack b.status p
    .ok (descending (.two rv))

/-- `ObjectiveRanker.rank` -/
def ObjectiveRanker.rank (b : Batch) : Result :=
  .ok (descending (.one b.objective))

/-- `TwoStageObjectiveRanker.rank` -/
def TwoStageObjectiveRanker.rank (b : Batch) : Result := do
  let rv ← stack b.status b.objective
  .ok (descending (.two rv))

/-- `NoveltyRanker.rank` -/
def NoveltyRanker.rank (b : Batch) : Result :=
  match b.novelty with
  | none => .error .key
  | some nv => .ok (descending (.one nv))

/-- `DensityRanker.rank` (lower density is better) -/
def DensityRanker.rank (b : Batch) : Result :=
  match b.density with
  | none => .error .attribute
  | some dn => .ok (ascending (.one dn))

/-- the eight ranker classes -/
inductive Kind
  | imp | imp2 | rd | rd2 | obj | obj2 | nov | density
deriving DecidableEq, Repr

/-- classes that carry a direction -/
def Kind.hasDir : Kind → Bool
  | .rd | .rd2 => true
  | _ => false

/-- two-stage classes (status first) -/
def Kind.twoStage : Kind → Bool
  | .imp2 | .rd2 | .obj2 => true
  | _ => false

/-- `ranker.rank(emitter, archive, data, add_info)` -/
def rank (k : Kind) (st : St) (b : Batch) : Result :=
  match k with
  | .imp => ImprovementRanker.rank b
  | .imp2 => TwoStageImprovementRanker.rank b
  | .rd => RandomDirectionRanker.rank st b
  | .rd2 => TwoStageRandomDirectionRanker.rank st b
  | .obj => ObjectiveRanker.rank b
  | .obj2 => TwoStageObjectiveRanker.rank b
  | .nov => NoveltyRanker.rank b
  | .density => DensityRanker.rank b

/-- `unscaled_dir * (archive.upper_bounds - archive.lower_bounds)` -/
def scaleDir (z lo hi : List Rat) : List Rat :=
  List.zipWith (· * ·) z (List.zipWith (· - ·) hi lo)

/-- `reset(emitter, archive)`: `z` are the `measure_dim` standard-normal draws;
    `RankerBase.reset` (all classes without a direction) does nothing -/
def reset (k : Kind) (st : St) (z lo hi : List Rat) : St :=
  if k.hasDir then { dir := some (scaleDir z lo hi) } else st

/-- the `target_measure_dir` setter (random-direction classes only) -/
def setDir (k : Kind) (st : St) (d : List Rat) : St :=
  if k.hasDir then { dir := some d } else st

/-! ## histories -/

inductive Op
  | rank (b : Batch)
  | reset (z lo hi : List Rat)
  | setDir (d : List Rat)

/-- one call on the ranker object: new object state and, for `rank`, the result -/
def step (k : Kind) (st : St) : Op → St × Option Result
  | .rank b => (st, some (rank k st b))
  | .reset z lo hi => (reset k st z lo hi, none)
  | .setDir d => (setDir k st d, none)

def run (k : Kind) (st : St) : List Op → St
  | [] => st
  | op :: ops => run k (step k st op).1 ops

/-! ## spec-shaped reading of the property -/

/-- lexicographic "at least as high": higher status (new > improved > not
    added), or the same status and a value at least as large -/
def KeyGE (a b : Nat × Rat) : Prop := b.1 < a.1 ∨ (a.1 = b.1 ∧ b.2 ≤ a.2)

/-- "`a` is at least as good as `b`" for ranker class `k`: larger key is better,
    except for density, where smaller is better -/
def Better (k : Kind) (a b : Nat × Rat) : Prop :=
  match k with
  | .density => KeyGE b a
  | _ => KeyGE a b

/-- the executable order used by class `k` -/
def Kind.ord : Kind → Nat × Rat → Nat × Rat → Bool
  | .density => keyLe
  | _ => keyGe

/-- projection of row `i` onto the current direction -/
def proj (st : St) (b : Batch) (i : Nat) : Option Rat := do
  let d ← st.dir
  let m ← b.measures[i]?
  pure (dot1 m d)

/-- the documented key of position `i` (status `0` for single-stage rankers) -/
def specKey (k : Kind) (st : St) (b : Batch) (i : Nat) : Option (Nat × Rat) :=
  match k with
  | .imp => b.value[i]?.map (fun v => (0, v))
  | .imp2 => do let s ← b.status[i]?; let v ← b.value[i]?; pure (s, v)
  | .rd => (proj st b i).map (fun v => (0, v))
  | .rd2 => do let s ← b.status[i]?; let v ← proj st b i; pure (s, v)
  | .obj => b.objective[i]?.map (fun v => (0, v))
  | .obj2 => do let s ← b.status[i]?; let v ← b.objective[i]?; pure (s, v)
  | .nov => do let nv ← b.novelty; nv[i]?.map (fun v => (0, v))
  | .density => do let dn ← b.density; dn[i]?.map (fun v => (0, v))

end Pyribs.Ranker
