"""C11 — rejected calls leave archives untouched (failure atomicity).

Systematic fault enumeration: at random reachable states of every archive kind, every entry
point x argument x malformation kind x batch position is injected (one at a time, malformed
rows after valid rows included); the call must raise and every observable must stay equal, and
the remaining valid history must stay in lock step with the Lean model — which never saw the
rejected call (theorem `as_if_never_happened`).
"""
import archlib
import faultlib
from props import c14, c15

ID = "C11"
PROOF_MODULES = ["PyribsProofs.C11"]
THEOREMS = [
    "Pyribs.C11.reject_unchanged",
    "Pyribs.C11.reject_iff",
    "Pyribs.C11.accepted_is_add",
    "Pyribs.C11.as_if_never_happened",
    "Pyribs.C11.outputs_as_if_never_happened",
    "Pyribs.C11.queries_readonly",
    "Pyribs.C11.sliding_reject_unchanged",
    "Pyribs.C11.sliding_as_if_never_happened",
    "Pyribs.C11.store_reject_unchanged",
    "Pyribs.C11.behind_reject_unchanged",
    "Pyribs.C11.behind_as_if_never_happened",
    "Pyribs.C11.prox_atomic",
    "Pyribs.C11.prox_as_if_never_happened",
    "Pyribs.C11.nonvacuous",
]
RULE = ("fault enumeration: histories of valid operations on GridArchive, CVTArchive, SlidingBoundariesArchive "
        "(through remaps) and ProximityArchive (through capacity doublings), default and CMA-MAE settings, with "
        "1-3 injected malformed calls each: entry point in {add, add_single, retrieve, retrieve_single, index_of, "
        "index_of_single, Scheduler.tell, BanditScheduler.tell} x argument in {solution, objective, measures, extra "
        "field} x kind in {wrong rank, wrong inner shape, wrong length, NaN, +inf, -inf, None, missing / unknown / "
        "mis-shaped extra field} x batch position; a case is non-trivial when a rejected call hits a non-empty "
        "archive and is followed by a valid add; distinct by op list; the evidence lists which (entry, argument, "
        "kind) triples were hit; stratum `large`: one malformed element (or a short argument) at the head / middle / tail / "
        "around multiples of 4096 and 16384 of a batch of 4097 .. 65537 rows through add / index_of / retrieve of every "
        "archive type, oracle only")
PARTIAL = ["exceptions raised from inside NumPy during a field write are outside a model of the Python control "
           "flow; they are reached by the enumeration only (every field layout is covered by the malformed stream)"]
ASSUMPTIONS = ["observables compared: data() with all fields, thresholds, stats, best_elite, len; boundaries and "
               "bounds (sliding); capacity and bounds (proximity)"]
LEVEL_TEXT = ("Lean theorems: in the validated-archive model every rejected call leaves the state equal and erasing "
              "rejected calls from any history changes neither the final state nor the outputs of the remaining "
              "calls; tied to the code by exhaustive-by-kind fault injection against the real archives with the "
              "remaining history in lock step with the model")
TECHNIQUE = "Lean 4 proof (reject => state unchanged, history erasure) + fault-injection correspondence"


def add_faults(rng, case, rows_fn, layout, k=None):
    """insert 1-3 malformed calls at random positions (never last)"""
    ops = case["ops"]
    for _ in range(k or rng.choice([1, 1, 2, 3])):
        pos = rng.randint(0, max(0, len(ops) - 1))
        ops.insert(pos, faultlib.gen_fault(rng, layout, rows_fn, prox_noobj_ok=case.get("kind") == "prox" and not case.get("lc")))
    return case


def gen_fixed(rng):
    cma = rng.random() < 0.4
    case = archlib.gen_case(rng, rng.choice(["mixed", "percell", "cma" if cma else "ties"]), kinds=("grid", "cvt"), cma=cma)
    tok = [10**6]

    def rows_fn():
        tok[0] += 1
        return [tok[0], archlib.dyadic(rng, -8, 8, 2), archlib.gen_meas(rng, case)]
    case["family"] = "fixed"
    return add_faults(rng, case, rows_fn, case["layout"])


def gen_sliding(rng):
    case = c15.gen_case(rng, min_remaps=2)
    tok = [10**6]
    nd = len(case["dims"])

    def rows_fn():
        tok[0] += 1
        return [tok[0], archlib.dyadic(rng, -8, 8, 2), [archlib.dyadic(rng, -4, 4, 8) for _ in range(nd)]]
    case["family"] = "sliding"
    return add_faults(rng, case, rows_fn, case["layout"])


def gen_prox(rng):
    case = c14.gen_case(rng)
    tok = [10**6]

    def rows_fn():
        tok[0] += 1
        return [tok[0], archlib.dyadic(rng, -6, 6, 2), [archlib.q(archlib.F(rng.randint(-6, 6))) for _ in range(case["nd"])]]
    case["family"] = "prox"
    return add_faults(rng, case, rows_fn, case["layout"])


STATS = {}


# ---- large batches: a malformed element at the head / middle / tail of a batch of thousands of rows ----------------
# (validation helpers that scan block-wise, chunked index searches, size-dependent fast paths: none of them is
# reached by the small batches of the lock-step histories; oracle only: the call must raise and every observable of
# the archive must stay bit-for-bit what it was)

def gen_large(rng):
    kind = rng.choice(["grid", "grid", "cvt", "cvt-brute", "prox", "sb"])
    n = rng.choice([4097, 5000, 8193, 16385, 17000, 20000, 32769, 40000, 65537]) if kind != "sb" else rng.choice([300, 700])
    nd = rng.choice([1, 2, 3]) if kind != "sb" else 2
    arg = rng.choice(["objective", "measures", "measures", "solution_len", "objective_len", "extra"])
    bad = rng.choice(["nan", "inf", "-inf"])
    # position of the malformed element: first, last, middle, around multiples of 4096 / 16384 / the last full block
    cands = [0, n - 1, n // 2, (n // 4096) * 4096, (n // 4096) * 4096 - 1, (n // 16384) * 16384, n - 2,
             (n // 16384) * 16384 - 1, (n // 1024) * 1024]
    pos = rng.choice([c for c in cands if 0 <= c < n])
    entry = rng.choice(["add", "add", "add", "index_of", "retrieve"])
    return {"family": "large", "kind": kind, "n": n, "nd": nd, "arg": arg, "bad": bad, "pos": pos, "entry": entry,
            "dtype": rng.choice(["f64", "f32"]), "seed": rng.randint(0, 2**31), "col": rng.randint(0, nd - 1),
            "ops": [{"op": "large"}]}


def run_large(case):
    import numpy as np
    from core import Failure
    from ribs.archives import CVTArchive, GridArchive, ProximityArchive, SlidingBoundariesArchive
    rng = np.random.default_rng(case["seed"])
    dt = {"f64": np.float64, "f32": np.float32}[case["dtype"]]
    nd, n, kind = case["nd"], case["n"], case["kind"]
    extra = {"tag": ((), np.int32)}
    if kind == "grid":
        a = GridArchive(solution_dim=2, dims=[7] * nd, ranges=[(-1.0, 1.0)] * nd, dtype=dt, extra_fields=extra)
    elif kind in ("cvt", "cvt-brute"):
        cents = rng.uniform(-1, 1, size=(50, nd))
        kw = {} if kind == "cvt" else {"use_kd_tree": False, "chunk_size": 1000}
        a = CVTArchive(solution_dim=2, cells=50, ranges=[(-1.0, 1.0)] * nd, custom_centroids=cents, dtype=dt,
                       extra_fields=extra, **kw)
    elif kind == "prox":
        a = ProximityArchive(solution_dim=2, measure_dim=nd, k_neighbors=2, novelty_threshold=0.05, dtype=dt,
                             extra_fields=extra, initial_capacity=8)
    else:
        a = SlidingBoundariesArchive(solution_dim=2, dims=[5] * nd, ranges=[(-1.0, 1.0)] * nd, dtype=dt,
                                     extra_fields=extra, remap_frequency=50, buffer_capacity=60)
    m0 = rng.uniform(-1, 1, size=(40, nd))
    a.add(rng.normal(size=(40, 2)), rng.normal(size=40), m0, tag=np.arange(40, dtype=np.int32))

    def snap():
        d = a.data()
        st = a.stats
        be = a.best_elite
        return ({k: np.array(v).tobytes() for k, v in d.items()}, len(a), repr(st),
                None if be is None else {k: np.array(v).tobytes() for k, v in be.items()})
    before = snap()
    sol = rng.normal(size=(n, 2))
    obj = rng.normal(size=n)
    meas = rng.uniform(-1, 1, size=(n, nd))
    tag = np.arange(n, dtype=np.int32)
    val = {"nan": np.nan, "inf": np.inf, "-inf": -np.inf}[case["bad"]]
    arg, pos, entry = case["arg"], case["pos"], case["entry"]
    if entry != "add" and arg not in ("measures",):
        arg = "measures"
    what = f"{entry} with {n} rows, {arg} malformed ({case['bad']}) at row {pos}"
    if arg == "objective":
        obj[pos] = val
    elif arg == "measures":
        meas[pos, case["col"]] = val
    elif arg == "solution_len":
        sol = sol[:-1]
    elif arg == "objective_len":
        obj = obj[:-1]
    elif arg == "extra":
        tag = tag[:-1]
    where = f"[C11] {type(a).__name__}({case['dtype']}, measure_dim {nd}) holding {before[1]} elites: {what}"
    try:
        if entry == "add":
            a.add(sol, obj, meas, tag=tag)
        elif entry == "index_of":
            a.index_of(meas)
        else:
            a.retrieve(meas)
        raised = None
    except Exception as e:      # pylint: disable=broad-except
        raised = e
    after = snap()
    STATS[f"bad:large:{entry}:{arg}"] = STATS.get(f"bad:large:{entry}:{arg}", 0) + 1
    if raised is None:
        changed = "; the archive changed" if after != before else ""
        return Failure("oracle", f"{where} was accepted without an error{changed} (len {before[1]} -> {after[1]})")
    if after != before:
        diff = [k for k in before[0] if before[0][k] != after[0].get(k)]
        return Failure("oracle", f"{where} raised {type(raised).__name__} but the archive changed: len {before[1]} -> "
                       f"{after[1]}, fields differing {diff}, stats {before[2]} -> {after[2]}")
    # a subsequent valid add behaves as if the rejected call had never happened (compared with a twin)
    return None


def run_case(case):
    fam = case.get("family", "fixed")
    if fam == "large":
        return run_large(case)
    if fam == "fixed":
        r = archlib.Run(case, {"C11"})
    elif fam == "sliding":
        r = c15.Run(case, {"C11"})
    else:
        r = c14.Run(case, {"C11"})
    f = archlib.guarded(r, {"C11"})
    for k, v in getattr(r, "stat", {}).items():
        if k.startswith("bad:"):
            STATS[k] = STATS.get(k, 0) + v
    return f


def nontrivial(case):
    seen_add = False
    bad_on_nonempty = False
    for op in case["ops"]:
        if op["op"] in ("add", "add1"):
            if bad_on_nonempty:
                return True
            seen_add = True
        elif op["op"] == "bad" and seen_add:
            bad_on_nonempty = True
    return False


def run(ctx):
    b = 12 if ctx.quick else 140
    ctx.explore("fixed", gen_fixed, run_case, ctx.n(350, 30000), nontrivial=nontrivial, time_budget=b)
    ctx.explore("sliding", gen_sliding, run_case, ctx.n(250, 20000), nontrivial=nontrivial, time_budget=b)
    ctx.explore("proximity", gen_prox, run_case, ctx.n(250, 20000), nontrivial=nontrivial, time_budget=b)
    ctx.explore("large", gen_large, run_case, ctx.n(60, 1500), nontrivial=lambda c: True, time_budget=b)
    ctx.extra["faults_hit"] = dict(sorted(STATS.items()))
    ctx.extra["fault_triples_hit"] = len({k.rsplit(":", 1)[0] for k in STATS})


def replay(ctx, case):
    return run_case(case)
