import PyribsGen.RngSites
