import PyribsModel.Util
/-!
# Cqd — model of `ArchiveBase.cqd_score` (C06)

For each iteration: Σ over penalties, Σ over target points, of the maximum over the
current elites of `objective / (obj_max − obj_min) − penalty · dist(measures, target) / dist_max`
(the implementation's documented computation; L1 and L∞ distances are rational).
-/
namespace Pyribs.Cqd

def absR (x : Rat) : Rat := if x < 0 then -x else x

def distL1 : List Rat → List Rat → Rat
  | a :: as, b :: bs => absR (a - b) + distL1 as bs
  | _, _ => 0

def distLinf : List Rat → List Rat → Rat
  | a :: as, b :: bs => max (absR (a - b)) (distLinf as bs)
  | _, _ => 0

inductive Ord | l1 | linf
deriving DecidableEq, Repr

def dist : Ord → List Rat → List Rat → Rat
  | .l1 => distL1
  | .linf => distLinf

/-- maximum of a list (`np.max`), `none` for the empty list -/
def maxL : List Rat → Option Rat
  | [] => none
  | x :: xs =>
    match maxL xs with
    | none => some x
    | some m => some (max x m)

/-- default `dist_max` of `cqd_score`: the norm — in the *same* order as the distances — of
`upper_bounds − lower_bounds` (`np.linalg.norm(self.upper_bounds - self.lower_bounds, ord=dist_ord)`) -/
def defaultDistMax (ord : Ord) (lo hi : List Rat) : Rat := dist ord hi lo

structure Elite where
  obj  : Rat
  meas : List Rat
deriving DecidableEq, Repr

def valueAt (ord : Ord) (span dmax pen : Rat) (t : List Rat) (e : Elite) : Rat :=
  e.obj / span - pen * (dist ord e.meas t / dmax)

/-- score of one iteration; `none` when there are no elites (`np.max` of an empty axis raises) -/
def scoreIter (ord : Ord) (span dmax : Rat) (pens : List Rat) (elites : List Elite)
    (targets : List (List Rat)) : Option Rat :=
  (pens.mapM (fun pen => (targets.mapM (fun t => maxL (elites.map (valueAt ord span dmax pen t)))).map List.sum)).map List.sum

end Pyribs.Cqd
