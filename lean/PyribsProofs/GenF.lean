import PyribsGen.Formulas
import PyribsModel.Archive
import PyribsModel.GridIndex
import PyribsModel.Sliding
import PyribsModel.Cqd
import Mathlib.Algebra.Order.Field.Rat
import Mathlib.Tactic.Ring
import Mathlib.Tactic.FieldSimp
/-!
# GenF — the model's core formulas are the formulas of the source tree under check

`PyribsGen/Formulas.lean` is regenerated on every run from the Python source
(`harness/translate/formulas.py`).  Each theorem below states that a generated definition — the
operator tree of the Python expression read as a rational function — equals the function the
hand-written model uses, for all arguments (the proofs end in `ring`, so a rewrite of the source
into an algebraically identical expression keeps them; whether it is also numerically the same
is the correspondence's business).  The kernel therefore re-checks on every run that
these parts of the model say what the code says now; if a formula in the source changes to a
different rational function, the corresponding theorem no longer compiles.
-/
namespace Pyribs.GenFProofs
open Pyribs Pyribs.Arch

/-- **G03 `grid_quot_matches`** (C03): `GridArchive.index_of`'s pre-floor quotient is the model's
`gridQuot` (with `interval_size = upper − lower`, as the constructor sets it) -/
theorem grid_quot_matches (d : Nat) (lo hi eps m : Rat) :
    GenF.gridQuot (d : Rat) m lo eps (hi - lo) = Pyribs.gridQuot d lo hi eps m := by
  unfold GenF.gridQuot Pyribs.gridQuot
  ring

/-- the model's cell coordinate is the clipped floor of exactly that quotient -/
theorem grid_coord_from_source (d : Nat) (lo hi eps m : Rat) :
    gridCoord d lo hi eps m = clampIdx (GenF.gridQuot (d : Rat) m lo eps (hi - lo)).floor d := by
  rw [grid_quot_matches]
  rfl

/-- **G05a `batch_threshold_matches`** (C05): `_compute_thresholds` is the model's batch update
`(1−a)^k·t + (Σ/k)·(1−(1−a)^k)` for a finite `threshold_min` -/
theorem batch_threshold_matches (cfg : Cfg) (tm : Rat) (htm : cfg.tmin = some tm) (pre : Option Elite)
    (accI : List Cand) (winner : Cand) :
    newThrBatch cfg pre accI winner =
      GenF.batchThreshold cfg.lr (baseline cfg pre) (objSum accI) accI.length := by
  unfold newThrBatch GenF.batchThreshold
  simp only [htm]
  try ring

/-- **G05b `single_threshold_matches`** (C05): `single_entry_with_threshold`'s update `t·(1−a) + f·a` -/
theorem single_threshold_matches (cfg : Cfg) (pre : Option Elite) (c : Cand) :
    newThrSingle cfg pre c = GenF.singleThreshold cfg.lr (baseline cfg pre) c.obj := by
  unfold newThrSingle GenF.singleThreshold
  ring

/-- **G02 `value_matches`** (C02): the reported improvement value `objective − prior threshold` -/
theorem value_matches (cfg : Cfg) (pre : Option Elite) (c : Cand) :
    (judge cfg pre c).2 = GenF.singleValue (baseline cfg pre) c.obj := by
  unfold judge GenF.singleValue
  show c.obj - baseline cfg pre = _
  ring

/-- the same value on the batch path (`batch_entries_with_threshold`) -/
theorem batch_value_matches (cfg : Cfg) (pre : Option Elite) (c : Cand) :
    (judge cfg pre c).2 = GenF.batchValue (baseline cfg pre) c.obj := by
  unfold judge GenF.batchValue
  show c.obj - baseline cfg pre = _
  ring

/-- **G06 `stats_match`** (C06): the derived statistics of `_stats_update` -/
theorem stats_match (a : Arch) :
    a.qdScore = GenF.qdScore a.stats.objSum (a.stats.numElites : Rat) a.cfg.offset ∧
    a.coverage = GenF.coverage (a.stats.numElites : Rat) (a.store.cap : Rat) ∧
    a.normQd = GenF.normQdScore a.qdScore (a.store.cap : Rat) ∧
    (a.stats.numElites ≠ 0 →
      a.objMean = some (GenF.objMean a.stats.objSum (a.stats.numElites : Rat))) := by
  refine ⟨?_, ?_, ?_, fun h => ?_⟩
  · unfold Arch.qdScore GenF.qdScore; ring
  · unfold Arch.coverage GenF.coverage; ring
  · unfold Arch.normQd GenF.normQdScore; ring
  · unfold objMean GenF.objMean
    simp only [h, if_false, Option.some.injEq]
    try ring

/-- **G06b `cqd_value_matches`** (C06): the value `cqd_score` maximises over the elites —
`objective / (obj_max − obj_min) − penalty · distance / dist_max` — for every norm order, penalty and
target point -/
theorem cqd_value_matches (ord : Cqd.Ord) (omax omin dmax pen : Rat) (t : List Rat) (e : Cqd.Elite) :
    Cqd.valueAt ord (omax - omin) dmax pen t e
      = GenF.cqdValue e.obj omax omin pen (Cqd.dist ord e.meas t) dmax := by
  unfold Cqd.valueAt GenF.cqdValue
  rfl

/-- **G15 `boundaries_from_source`** (C15): the boundaries of a remap are the buffered coordinates at
the ranks `int(j * buffer.size / dims[i])` that `_remap` computes (`j < dims[i]`), followed by the
largest one -/
theorem boundaries_from_source (sorted : List Rat) (d : Nat) :
    remapBoundaries sorted d =
      (List.range d).map (fun j => sorted.getD (GenF.boundaryRank j sorted.length d) 0)
        ++ [sorted.getD (sorted.length - 1) 0] := by
  unfold remapBoundaries GenF.boundaryRank
  rfl

/-- **G15b `sliding_clip_from_source`** (C03, C15): the clip `SlidingBoundariesArchive.index_of` applies
before the boundary search — `clip(m + ε, lower, upper − ε)` — is the model's `sbClip`, hence the
model's coordinate is the boundary count at exactly the value the code searches for -/
theorem sliding_clip_from_source (lo hi eps m : Rat) :
    GenF.sbClip m eps lo hi = Pyribs.sbClip lo hi eps m := rfl

/-- the model's coordinate is the number of boundaries strictly below the value the source computes, minus one -/
theorem sliding_coord_from_source (bs : List Rat) (lo hi eps m : Rat) :
    sbCoord bs lo hi eps m = countBelow bs (GenF.sbClip m eps lo hi) - 1 := rfl

end Pyribs.GenFProofs
