import PyribsModel.Opt
import Mathlib.Tactic.Linarith
import Mathlib.Tactic.Ring
import Mathlib.Tactic.FieldSimp
import Mathlib.Tactic.Positivity
import Mathlib.Tactic.NormNum
import Mathlib.Algebra.Order.Field.Rat
import Mathlib.Algebra.BigOperators.Group.List.Basic
import Mathlib.Algebra.BigOperators.Ring.List
import Mathlib.Algebra.Order.BigOperators.Group.List
import Mathlib.LinearAlgebra.Matrix.PosDef
import Mathlib.Data.Rat.Star
import Mathlib.Algebra.Order.Star.Real
/-!
# Helper lemmas for C18 (model `PyribsModel.Opt`)

List sums, the bracket checks on supplied values, the resampling round, the
geometric sums behind Adam's moments, the learning-rate inequalities of
`_calc_strat_params`, and the link between the model's matrices and Mathlib's.
-/
namespace Pyribs.C18
open Pyribs Opt Matrix

variable {n : Nat}

/-! ## list sums over an ordered field -/
section W
variable {K : Type} [Field K] [LinearOrder K] [IsStrictOrderedRing K]

theorem rawWeights_pos (lh : K) (ls : List K) (h : ∀ l ∈ ls, l < lh) : ∀ r ∈ rawWeights lh ls, 0 < r := by
  intro r hr
  simp only [rawWeights, List.mem_map] at hr
  obtain ⟨l, hl, rfl⟩ := hr
  exact sub_pos.mpr (h l hl)

theorem sum_pos_of_pos : ∀ (l : List K), l ≠ [] → (∀ r ∈ l, 0 < r) → 0 < l.sum
  | [], h, _ => absurd rfl h
  | [a], _, hp => by simpa using hp a (by simp)
  | a :: b :: t, _, hp => by
    have := sum_pos_of_pos (b :: t) (by simp) (fun r hr => hp r (List.mem_cons_of_mem _ hr))
    have ha := hp a (by simp)
    rw [List.sum_cons]; exact add_pos ha this

omit [LinearOrder K] [IsStrictOrderedRing K] in
theorem sum_map_div (l : List K) (t : K) : (l.map fun r => r / t).sum = l.sum / t := by
  induction l with
  | nil => simp
  | cons a l ih => simp [List.sum_cons, ih, add_div]

end W

/-! ## supplied logs -/
theorem increasing_pairwise : ∀ (l : List Rat), increasing l = true → l.Pairwise (· < ·)
  | [], _ => List.Pairwise.nil
  | [a], _ => by simp
  | a :: b :: t, h => by
    simp only [increasing, Bool.and_eq_true, decide_eq_true_eq] at h
    have ih := increasing_pairwise (b :: t) h.2
    refine List.Pairwise.cons ?_ ih
    intro x hx
    rcases List.mem_cons.mp hx with rfl | hx
    · exact h.1
    · exact lt_trans h.1 ((List.pairwise_cons.mp ih).1 x hx)

theorem logsOk_spec {lh : Rat} {ls : List Rat} {mu : Nat} (h : logsOk lh ls mu = true) :
    ls.length = mu ∧ ls.Pairwise (· < ·) ∧ ∀ l ∈ ls, l < lh := by
  simp only [logsOk, Bool.and_eq_true, beq_iff_eq, List.all_eq_true, decide_eq_true_eq] at h
  exact ⟨h.1.1, increasing_pairwise _ h.1.2, h.2⟩

/-! ## weighted sums -/
theorem zipWith_sum_ge (j_lo : Rat) : ∀ (ws vs : List Rat), ws.length ≤ vs.length →
    (∀ w ∈ ws, 0 ≤ w) → (∀ v ∈ vs, j_lo ≤ v) →
    j_lo * ws.sum ≤ (List.zipWith (fun w v => w * v) ws vs).sum
  | [], _, _, _, _ => by simp
  | w :: ws, [], h, _, _ => by simp at h
  | w :: ws, v :: vs, h, hw, hv => by
    have ih := zipWith_sum_ge j_lo ws vs (by simpa using h)
      (fun x hx => hw x (List.mem_cons_of_mem _ hx)) (fun x hx => hv x (List.mem_cons_of_mem _ hx))
    have h1 := hw w (by simp)
    have h2 := hv v (by simp)
    simp only [List.zipWith_cons_cons, List.sum_cons]
    nlinarith

theorem zipWith_sum_le (hi : Rat) : ∀ (ws vs : List Rat), ws.length ≤ vs.length →
    (∀ w ∈ ws, 0 ≤ w) → (∀ v ∈ vs, v ≤ hi) →
    (List.zipWith (fun w v => w * v) ws vs).sum ≤ hi * ws.sum
  | [], _, _, _, _ => by simp
  | w :: ws, [], h, _, _ => by simp at h
  | w :: ws, v :: vs, h, hw, hv => by
    have ih := zipWith_sum_le hi ws vs (by simpa using h)
      (fun x hx => hw x (List.mem_cons_of_mem _ hx)) (fun x hx => hv x (List.mem_cons_of_mem _ hx))
    have h1 := hw w (by simp)
    have h2 := hv v (by simp)
    simp only [List.zipWith_cons_cons, List.sum_cons]
    nlinarith

theorem wsum_eq_zipWith {n : Nat} (ws : List Rat) (xs : List (Vec n)) (j : Fin n) :
    wsum ws xs j = (List.zipWith (fun w v => w * v) ws (xs.map fun x => x j)).sum := by
  simp [wsum, List.zipWith_map_right]

theorem fsum_add {n : Nat} (f g : Fin n → Rat) : fsum (fun i => f i + g i) = fsum f + fsum g := by
  simp [fsum, List.sum_map_add]

theorem fsum_mul_left {n : Nat} (c : Rat) (f : Fin n → Rat) : fsum (fun i => c * f i) = c * fsum f := by
  simp [fsum, List.sum_map_mul_left]

theorem fsum_zero {n : Nat} : fsum (fun _ : Fin n => (0:Rat)) = 0 := by
  simp [fsum]

theorem dot_wsum {n : Nat} (a : Vec n) : ∀ (ws : List Rat) (xs : List (Vec n)),
    dot a (wsum ws xs) = (List.zipWith (fun w v => w * v) ws (xs.map fun x => dot a x)).sum
  | [], _ => by simp [dot, wsum, fsum_zero]
  | _ :: _, [] => by simp [dot, wsum, fsum_zero]
  | w :: ws, x :: xs => by
    have ih := dot_wsum a ws xs
    simp only [List.map_cons, List.zipWith_cons_cons, List.sum_cons, ← ih]
    simp only [dot, wsum, List.zipWith_cons_cons, List.sum_cons]
    rw [← fsum_mul_left, ← fsum_add]
    congr 1; funext i; ring

/-! ## the resampling loop -/
/-- row `i` is in bounds and is the transform of the draw recorded for row `i` -/
def Good (tf : Vec n → Vec n) (inB : Vec n → Bool) (rows : Rows n) (i : Nat) : Prop :=
  ∃ d, rows.draw i = some d ∧ rows.sol i = some (tf d) ∧ inB (tf d) = true

theorem roundStep_spec (tf : Vec n → Vec n) (inB : Vec n → Bool) (r : Nat) :
    ∀ (ps : List (Nat × Vec n)) (k : Nat) (rows : Rows n) (i : Nat),
      i ∉ (roundStep tf inB r k ps rows).2 →
      (i ∈ ps.map Prod.fst → Good tf inB (roundStep tf inB r k ps rows).1 i) ∧
      (i ∉ ps.map Prod.fst → (roundStep tf inB r k ps rows).1.sol i = rows.sol i ∧
        (roundStep tf inB r k ps rows).1.draw i = rows.draw i)
  | [], k, rows, i, _ => by simp [roundStep]
  | (i0, d) :: t, k, rows, i, hout => by
    simp only [roundStep, vget_ofFn] at hout ⊢
    have ih := roundStep_spec tf inB r t (k + 1) (rows.set i0 (tf d) d (r, k)) i
    have hres : i ∉ (roundStep tf inB r (k + 1) t (rows.set i0 (tf d) d (r, k))).2 := by
      intro hmem; apply hout; split <;> simp [hmem]
    obtain ⟨ih1, ih2⟩ := ih hres
    constructor
    · intro hi
      by_cases hit : i ∈ t.map Prod.fst
      · exact ih1 hit
      · have hi0 : i = i0 := by
          simp only [List.map_cons, List.mem_cons] at hi
          rcases hi with h | h
          · exact h
          · exact absurd h hit
        obtain ⟨h1, h2⟩ := ih2 hit
        have hin : inB (tf d) = true := by
          by_contra hne
          apply hout
          simp [hne, hi0]
        refine ⟨d, ?_, ?_, hin⟩
        · rw [h2]; simp [Rows.set, hi0]
        · rw [h1]; simp [Rows.set, hi0]
    · intro hi
      simp only [List.map_cons, List.mem_cons, not_or] at hi
      obtain ⟨h1, h2⟩ := ih2 hi.2
      rw [h1, h2]
      simp [Rows.set, hi.1]

theorem resample_inv (tf : Vec n → Vec n) (inB : Vec n → Bool) (b : Nat) :
    ∀ (stream : List (List (Vec n))) (r : Nat) (rem : List Nat) (rows : Rows n) (res : Rows n × Nat),
      (∀ i < b, i ∈ rem ∨ Good tf inB rows i) →
      resample tf inB stream r rem rows = .ok res → ∀ i < b, Good tf inB res.1 i := by
  intro stream
  induction stream with
  | nil =>
    intro r rem rows res hinv h i hi
    cases rem with
    | nil =>
      simp only [resample, Except.ok.injEq] at h
      subst h
      rcases hinv i hi with h | h
      · simp at h
      · exact h
    | cons a rem => simp [resample] at h
  | cons ds rest ih =>
    intro r rem rows res hinv h i hi
    cases rem with
    | nil =>
      simp only [resample, Except.ok.injEq] at h
      subst h
      rcases hinv i hi with h | h
      · simp at h
      · exact h
    | cons a rem =>
      simp only [resample] at h
      split at h
      · simp at h
      · rename_i hlen
        have hlen' : ds.length = (a :: rem).length := by simpa using hlen
        refine ih _ _ _ _ ?_ h i hi
        intro i hi
        by_cases hout : i ∈ (roundStep tf inB r 0 ((a :: rem).zip ds) rows).2
        · exact Or.inl hout
        · right
          have hspec := roundStep_spec tf inB r ((a :: rem).zip ds) 0 rows i hout
          have hfst : ((a :: rem).zip ds).map Prod.fst = a :: rem :=
            List.map_fst_zip (by omega)
          rw [hfst] at hspec
          by_cases hmem : i ∈ a :: rem
          · exact hspec.1 hmem
          · obtain ⟨h1, h2⟩ := hspec.2 hmem
            rcases hinv i hi with h' | h'
            · exact absurd h' hmem
            · obtain ⟨d, hd1, hd2, hd3⟩ := h'
              exact ⟨d, by rw [h2]; exact hd1, by rw [h1]; exact hd2, hd3⟩

theorem inBounds_spec (lb ub : Fin n → Option Rat) (x : Vec n) :
    inBounds lb ub x = true ↔
      ∀ i, (∀ l, lb i = some l → l ≤ x i) ∧ (∀ u, ub i = some u → x i ≤ u) := by
  simp only [inBounds, List.all_eq_true, List.mem_finRange, forall_const, Bool.and_eq_true]
  constructor
  · intro h i
    obtain ⟨h1, h2⟩ := h i
    constructor
    · intro l hl; rw [hl] at h1; simpa using h1
    · intro u hu; rw [hu] at h2; simpa using h2
  · intro h i
    obtain ⟨h1, h2⟩ := h i
    constructor
    · cases hl : lb i with
      | none => rfl
      | some l => simpa using h1 l hl
    · cases hu : ub i with
      | none => rfl
      | some u => simpa using h2 u hu

/-! ## Adam -/
theorem rpow_eq (x : Rat) (k : Nat) : rpow x k = x ^ k := by
  induction k with
  | zero => simp [rpow]
  | succ k ih => simp [rpow, ih, pow_succ]

/-! ## T18.10 Adam -/

/-- a run of `AdamOpt.step` over (gradient, supplied √(1−β₂ᵗ), supplied √v) triples -/
def adamRun (cfg : AdamCfg) : AdamState n → List (Vec n × Rat × Vec n) → AdamState n
  | st, [] => st
  | st, (g, sB2, sV) :: rest => adamRun cfg (adamStep cfg st g sB2 sV) rest

/-- the effective gradients `−gᵢ + l2·θᵢ₋₁` met along the run, oldest first -/
def effGrads (cfg : AdamCfg) : AdamState n → List (Vec n × Rat × Vec n) → List (Vec n)
  | _, [] => []
  | st, (g, sB2, sV) :: rest =>
    adamEffGrad cfg st.theta g :: effGrads cfg (adamStep cfg st g sB2 sV) rest

/-- Horner form of `Σᵢ βⁱ·xᵢ` (newest first) -/
def geo (β : Rat) : List Rat → Rat
  | [] => 0
  | x :: older => x + β * geo β older

theorem geo_append_singleton (β x : Rat) : ∀ l : List Rat, geo β (l ++ [x]) = geo β l + β ^ l.length * x
  | [] => by simp [geo]
  | y :: l => by
    simp only [List.cons_append, geo, geo_append_singleton β x l, List.length_cons, pow_succ]
    ring

theorem geo_eq_sum (β : Rat) : ∀ (l : List Rat) (k : Nat),
    ((l.zipIdx k).map fun p => β ^ p.2 * p.1).sum = β ^ k * geo β l
  | [], k => by simp [geo]
  | x :: l, k => by
    simp only [List.zipIdx_cons, List.map_cons, List.sum_cons, geo, geo_eq_sum β l (k + 1), pow_succ]
    ring

theorem adamRun_t (cfg : AdamCfg) : ∀ (inp : List (Vec n × Rat × Vec n)) (st : AdamState n),
    (adamRun cfg st inp).t = st.t + inp.length
  | [], st => by simp [adamRun]
  | (g, sB2, sV) :: rest, st => by
    simp only [adamRun, adamRun_t cfg rest, List.length_cons]
    simp only [adamStep]; omega

theorem effGrads_length (cfg : AdamCfg) : ∀ (inp : List (Vec n × Rat × Vec n)) (st : AdamState n),
    (effGrads cfg st inp).length = inp.length
  | [], st => by simp [effGrads]
  | (g, sB2, sV) :: rest, st => by simp [effGrads, effGrads_length cfg rest]

theorem adamRun_m (cfg : AdamCfg) (j : Fin n) : ∀ (inp : List (Vec n × Rat × Vec n)) (st : AdamState n),
    (adamRun cfg st inp).m j = cfg.b1 ^ inp.length * st.m j
      + (1 - cfg.b1) * geo cfg.b1 (((effGrads cfg st inp).reverse).map fun g => g j)
  | [], st => by simp [adamRun, effGrads, geo]
  | (g, sB2, sV) :: rest, st => by
    simp only [adamRun, effGrads, adamRun_m cfg j rest, List.reverse_cons, List.map_append,
      List.map_cons, List.map_nil, geo_append_singleton, List.length_map, List.length_reverse,
      effGrads_length, List.length_cons, pow_succ]
    simp only [adamStep, adamM]
    ring

theorem adamRun_v (cfg : AdamCfg) (j : Fin n) : ∀ (inp : List (Vec n × Rat × Vec n)) (st : AdamState n),
    (adamRun cfg st inp).v j = cfg.b2 ^ inp.length * st.v j
      + (1 - cfg.b2) * geo cfg.b2 (((effGrads cfg st inp).reverse).map fun g => g j * g j)
  | [], st => by simp [adamRun, effGrads, geo]
  | (g, sB2, sV) :: rest, st => by
    simp only [adamRun, effGrads, adamRun_v cfg j rest, List.reverse_cons, List.map_append,
      List.map_cons, List.map_nil, geo_append_singleton, List.length_map, List.length_reverse,
      effGrads_length, List.length_cons, pow_succ]
    simp only [adamStep, adamV]
    ring

/-- with `l2 = 0` the effective gradients are the negated inputs -/
theorem effGrads_no_l2 (cfg : AdamCfg) (h : cfg.l2 = 0) : ∀ (inp : List (Vec n × Rat × Vec n)) (st : AdamState n),
    effGrads cfg st inp = inp.map fun p => fun j => -(p.1 j)
  | [], st => by simp [effGrads]
  | (g, sB2, sV) :: rest, st => by
    simp only [effGrads, effGrads_no_l2 cfg h rest, List.map_cons, List.cons.injEq, and_true]
    funext j; simp [adamEffGrad, h]

/-! ## learning-rate inequalities -/
theorem mueff_pos (w : List Rat) (hne : w ≠ []) (hpos : ∀ x ∈ w, 0 < x) : 0 < mueffOf w := by
  have hs := sum_pos_of_pos w hne hpos
  have hq : 0 < (w.map fun x => x * x).sum := by
    apply sum_pos_of_pos
    · simpa using hne
    · intro r hr
      simp only [List.mem_map] at hr
      obtain ⟨x, hx, rfl⟩ := hr
      exact mul_pos (hpos x hx) (hpos x hx)
  unfold mueffOf
  positivity

theorem rmin_le_left (a b : Rat) : rmin a b ≤ a := by
  unfold rmin; split <;> linarith
theorem rmin_nonneg (a b : Rat) (ha : 0 ≤ a) (hb : 0 ≤ b) : 0 ≤ rmin a b := by
  unfold rmin; split <;> assumption

/-- what the covariance update needs from the learning rates -/
structure CoefOk (p : StratParams) : Prop where
  cc_nonneg : 0 ≤ p.cc
  cc_le : p.cc ≤ 2
  c1_nonneg : 0 ≤ p.c1
  cmu_nonneg : 0 ≤ p.cmu
  cmu_le : p.cmu ≤ 1 - p.c1

theorem recip_sum_ge_two (m : Rat) (hm : 0 < m) : 0 ≤ m - 2 + 1 / m := by
  have : m - 2 + 1 / m = (m - 1) * (m - 1) / m := by field_simp; ring
  rw [this]
  exact div_nonneg (mul_self_nonneg _) hm.le

/-- the coefficient lemma for `CMAEvolutionStrategy._calc_strat_params` -/
theorem cmaParams_ok (n : Nat) (hn : 0 < n) (w : List Rat) (hm : 0 < mueffOf w) :
    CoefOk (cmaParams n w) := by
  have hN : (1 : Rat) ≤ (n : Rat) := by exact_mod_cast hn
  have hN0 : (0 : Rat) < (n : Rat) := by linarith
  have hmN : 0 < mueffOf w / (n : Rat) := div_pos hm hN0
  have hc1le : 2 / (((n : Rat) + 13 / 10) * ((n : Rat) + 13 / 10) + mueffOf w) ≤ 1 := by
    rw [div_le_one (by positivity)]
    nlinarith
  refine ⟨?_, ?_, ?_, ?_, ?_⟩
  · simp only [cmaParams]; positivity
  · simp only [cmaParams]
    have : (4 + mueffOf w / (n : Rat)) / ((n : Rat) + 4 + 2 * mueffOf w / (n : Rat)) ≤ 1 := by
      rw [div_le_one (by positivity)]
      have : 2 * mueffOf w / (n : Rat) = 2 * (mueffOf w / (n : Rat)) := by ring
      rw [this]; linarith
    linarith
  · simp only [cmaParams]; positivity
  · simp only [cmaParams]
    apply rmin_nonneg
    · linarith
    · apply div_nonneg
      · have := recip_sum_ge_two _ hm; linarith
      · positivity
  · simp only [cmaParams]; exact rmin_le_left _ _

theorem hsigOf_cases (l r : Rat) : hsigOf l r = 0 ∨ hsigOf l r = 1 := by
  unfold hsigOf; split <;> simp

theorem decay_nonneg (p : StratParams) (ok : CoefOk p) (hs : Rat) (hhs : hs = 0 ∨ hs = 1)
    (w : List Rat) (hsum : w.sum = 1) : 0 ≤ decayOf (c1aOf p.c1 p.cc hs) p.cmu w := by
  obtain ⟨h1, h2, h3, h4, h5⟩ := ok
  simp only [decayOf, c1aOf, hsum]
  rcases hhs with rfl | rfl
  · have : 0 ≤ p.c1 * (p.cc * (2 - p.cc)) := mul_nonneg h3 (mul_nonneg h1 (by linarith))
    nlinarith
  · nlinarith

/-- `sqrtOk` for an argument ≥ 1 gives a root ≥ ½ -/
theorem sqrtOk_ge_half (a s : Rat) (ha : 1 ≤ a) (h : sqrtOk a s = true) : 1 / 2 ≤ s := by
  simp only [sqrtOk, Bool.and_eq_true, decide_eq_true_eq] at h
  obtain ⟨⟨h0, h1⟩, _⟩ := h
  have ht : a * tolSup ≤ a / 2 := by
    have : tolSup ≤ 1 / 2 := by unfold tolSup; norm_num
    nlinarith
  by_contra hlt
  have hlt := not_le.mp hlt
  nlinarith

/-- the coefficient lemma for `SeparableCMAEvolutionStrategy._calc_strat_params` -/
theorem sepParams_ok (n : Nat) (hn : 0 < n) (w : List Rat) (hm : 0 < mueffOf w) (sN : Rat)
    (hsN : 1 / 2 ≤ sN) : CoefOk (sepParams n w sN) := by
  have hN : (1 : Rat) ≤ (n : Rat) := by exact_mod_cast hn
  have hN0 : (0 : Rat) < (n : Rat) := by linarith
  have hmN : 0 < mueffOf w / (n : Rat) := div_pos hm hN0
  have hiN : 0 < 1 / (n : Rat) := by positivity
  have hs0 : 0 < sN := by linarith
  have hc1le : 2 / (((n : Rat) + 13 / 10) * ((n : Rat) + 13 / 10) + mueffOf w) ≤ 1 := by
    rw [div_le_one (by positivity)]
    nlinarith
  have hc1nn : 0 ≤ 2 / (((n : Rat) + 13 / 10) * ((n : Rat) + 13 / 10) + mueffOf w) := by positivity
  have hcone : 1 / ((n : Rat) + 2 * sN + mueffOf w / (n : Rat)) ≤ 1 := by
    rw [div_le_one (by positivity)]
    linarith
  have hconenn : 0 ≤ 1 / ((n : Rat) + 2 * sN + mueffOf w / (n : Rat)) := by positivity
  have hc1sep : 2 / (((n : Rat) + 13 / 10) * ((n : Rat) + 13 / 10) + mueffOf w)
      * (1 / ((n : Rat) + 2 * sN + mueffOf w / (n : Rat))) ≤ 1 := by
    calc _ ≤ 1 * 1 := mul_le_mul hc1le hcone hconenn (by norm_num)
      _ = 1 := by norm_num
  refine ⟨?_, ?_, ?_, ?_, ?_⟩
  · simp only [sepParams]; positivity
  · simp only [sepParams]
    rw [div_le_iff₀ (by positivity)]
    have : 2 * mueffOf w / (n : Rat) = 2 * (mueffOf w / (n : Rat)) := by ring
    rw [this]; nlinarith
  · simp only [sepParams]; positivity
  · simp only [sepParams]
    apply rmin_nonneg
    · linarith
    · apply div_nonneg
      · have := recip_sum_ge_two _ hm; linarith
      · positivity
  · simp only [sepParams]; exact rmin_le_left _ _

/-! ## matrices -/
/-- the model's matrices are Mathlib matrices -/
def toM (M : Mat n) : Matrix (Fin n) (Fin n) ℚ := Matrix.of M

@[simp] theorem toM_apply (M : Mat n) (i j : Fin n) : toM M i j = M i j := rfl

theorem rankMu_psd : ∀ (ws : List Rat) (ys : List (Vec n)), (∀ w ∈ ws, 0 ≤ w) →
    (toM (rankMu ws ys)).PosSemidef
  | [], ys, _ => by
    have : toM (rankMu [] ys) = 0 := by ext i j; simp [rankMu]
    rw [this]; exact PosSemidef.zero
  | w :: ws, [], _ => by
    have : toM (rankMu (w :: ws) ([] : List (Vec n))) = 0 := by ext i j; simp [rankMu]
    rw [this]; exact PosSemidef.zero
  | w :: ws, y :: ys, hw => by
    have ih := rankMu_psd ws ys (fun x hx => hw x (List.mem_cons_of_mem _ hx))
    have h1 : (w • vecMulVec y y).PosSemidef := by
      have := (posSemidef_vecMulVec_self_star y).smul (hw w (by simp))
      simpa using this
    have : toM (rankMu (w :: ws) (y :: ys)) = w • vecMulVec y y + toM (rankMu ws ys) := by
      ext i j
      simp [rankMu, vecMulVec_apply, mul_assoc]
    rw [this]
    exact h1.add ih

theorem cmaCovUpdate_psd (C : Mat n) (hC : (toM C).PosSemidef) (c1a cmu c1 sigma : Rat) (pc : Vec n)
    (w : List Rat) (ys : List (Vec n)) (hw : ∀ x ∈ w, 0 ≤ x) (hdecay : 0 ≤ decayOf c1a cmu w)
    (hcmu : 0 ≤ cmu) :
    (toM (cmaCovUpdate C c1a cmu c1 pc sigma (rankMu w ys) w)).PosSemidef := by
  have h1 : (vecMulVec pc pc : Matrix (Fin n) (Fin n) ℚ).PosSemidef := by
    simpa using posSemidef_vecMulVec_self_star pc
  have hrm := rankMu_psd w ys hw
  have hco : 0 ≤ cmu / (sigma * sigma) := div_nonneg hcmu (mul_self_nonneg sigma)
  have : toM (cmaCovUpdate C c1a cmu c1 pc sigma (rankMu w ys) w)
      = decayOf c1a cmu w • toM C + (c1 * c1) • vecMulVec pc pc
        + (cmu / (sigma * sigma)) • toM (rankMu w ys) := by
    ext i j
    simp only [cmaCovUpdate, toM_apply, Matrix.add_apply, Matrix.smul_apply, vecMulVec_apply, smul_eq_mul]
    ring
  rw [this]
  exact ((hC.smul hdecay).add (h1.smul (mul_self_nonneg c1))).add (hrm.smul hco)

/-! ## case analysis of a successful `tell` -/
/-- what a successful `tell` did: either zero parents (only the counter moved) or the full update
on the selected parents -/
theorem cmaTell_ok (batch : Nat) (st st' : CmaState n) (sols : List (Vec n)) (perm : List Nat)
    (mu : Nat) (sup : CmaSup n) (d : Diag) (h : cmaTell n batch st sols perm mu sup = .ok (st', d)) :
    ∃ rows, ranked sols perm = .ok rows ∧
      ((mu = 0 ∧ st' = { st with evals := st.evals + perm.length }) ∨
       (0 < mu ∧ mu ≤ rows.length ∧ 0 < n ∧ 0 < st.sigma ∧ logsOk sup.lh sup.ls mu = true ∧
        (st', d) = cmaCore n (2 * (st.evals + perm.length) / batch) (st.evals + perm.length) st
          (rows.take mu) sup)) := by
  unfold cmaTell at h
  split at h
  · simp at h
  · rename_i rows hr
    refine ⟨rows, hr, ?_⟩
    by_cases hmu : mu = 0
    · left
      simp only [hmu, if_true, Except.ok.injEq, Prod.mk.injEq] at h
      exact ⟨hmu, h.1.symm⟩
    · right
      simp only [hmu, if_false] at h
      split at h
      · simp at h
      · split at h
        · simp at h
        · split at h
          · simp at h
          · split at h
            · simp at h
            · split at h
              · simp at h
              · split at h
                · simp at h
                · rename_i h1 h2 h3 h4 h5 h6
                  simp only [Except.ok.injEq] at h
                  refine ⟨by omega, by omega, by omega, by linarith [not_le.mp h5], by simpa using h6, h.symm⟩


end Pyribs.C18
