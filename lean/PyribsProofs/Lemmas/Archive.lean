import PyribsModel.Archive
import PyribsProofs.C13
import Mathlib.Algebra.Order.Field.Rat
import Mathlib.Tactic.Linarith
import Mathlib.Tactic.Ring
/-!
Helper lemmas about the `Arch` model: what a batch / single add does to every
cell (`cellOf_addBatch`, `cellOf_addSingle`), the per-cell reduction of the
code-shaped batch to a strict-improvement fold, and `argmaxFirst`.
-/
namespace Pyribs.Arch
open Pyribs Store

/-! ### lastWrite over the writes of a batch -/

theorem lastWrite_append {ρ : Type} (xs ys : List (Nat × ρ)) (i : Nat) :
    lastWrite (xs ++ ys) i = (lastWrite ys i).or (lastWrite xs i) := by
  induction xs with
  | nil => simp [lastWrite]
  | cons w xs ih =>
    obtain ⟨j, r⟩ := w
    simp only [List.cons_append, lastWrite, ih]
    cases h1 : lastWrite ys i with
    | some r1 => simp
    | none =>
      simp only [Option.none_or]

/-- writes produced cell by cell over `range n` are read back cell by cell -/
theorem lastWrite_filterMap_range {ρ : Type} (g : Nat → Option ρ) (n i : Nat) :
    lastWrite ((List.range n).filterMap (fun j => (g j).map (fun e => (j, e)))) i =
      if i < n then g i else none := by
  induction n with
  | zero => simp [lastWrite]
  | succ n ih =>
    rw [List.range_succ, List.filterMap_append, lastWrite_append, ih]
    simp only [List.filterMap_cons, List.filterMap_nil]
    by_cases hlt : i < n
    · have hne : n ≠ i := by omega
      have : i < n + 1 := by omega
      cases hg : g n with
      | none => simp [lastWrite, hlt, this]
      | some e => simp [lastWrite, hlt, this, hne]
    · by_cases heq : i = n
      · subst heq
        cases hg : g i with
        | none => simp [lastWrite]
        | some e => simp [lastWrite]
      · have : ¬ i < n + 1 := by omega
        have hne : n ≠ i := fun h => heq h.symm
        cases hg : g n with
        | none => simp [lastWrite, hlt, this]
        | some e => simp [lastWrite, hlt, this, hne]

theorem inRange_filterMap_range {ρ : Type} (s : Store ρ) (g : Nat → Option ρ) :
    inRange s ((List.range s.cap).filterMap (fun j => (g j).map (fun e => (j, e)))) = true := by
  rw [C13.inRange_iff]
  intro w hw
  simp only [List.mem_filterMap, List.mem_range, Option.map_eq_some_iff] at hw
  obtain ⟨j, hj, e, _, rfl⟩ := hw
  exact hj

/-! ### what `commit` does to the cells -/

theorem commit_cells (a : Arch) (ws : List (Nat × Elite)) (h : inRange a.store ws = true) (i : Nat) :
    (a.commit ws).cellOf i = (lastWrite ws i).or (a.cellOf i) := by
  unfold commit cellOf
  split <;> exact C13.read_your_writes a.store ws h i

theorem commit_cfg (a : Arch) (ws : List (Nat × Elite)) : (a.commit ws).cfg = a.cfg := by
  unfold commit; split <;> rfl

theorem commit_cap (a : Arch) (ws : List (Nat × Elite)) : (a.commit ws).store.cap = a.store.cap := by
  unfold commit; split <;> exact (C13.add_other_fields a.store ws).1

/-- every cell after a batch add: the batch's write for that cell, else the old content -/
theorem cellOf_addBatch (a : Arch) (rows : List (Nat × Cand)) (i : Nat) :
    (a.addBatch rows).1.cellOf i =
      if i < a.store.cap then
        (cellWrite a.cfg a.store.cells (accRows a.cfg a.store.cells rows) i).or (a.cellOf i)
      else a.cellOf i := by
  unfold addBatch batchWrites
  simp only
  rw [commit_cells _ _ (inRange_filterMap_range _ _), lastWrite_filterMap_range]
  split <;> simp

theorem addBatch_cfg (a : Arch) (rows : List (Nat × Cand)) : (a.addBatch rows).1.cfg = a.cfg :=
  commit_cfg _ _

theorem addBatch_cap (a : Arch) (rows : List (Nat × Cand)) :
    (a.addBatch rows).1.store.cap = a.store.cap := commit_cap _ _

theorem addSingle_cfg (a : Arch) (r : Nat × Cand) : (a.addSingle r).1.cfg = a.cfg := commit_cfg _ _

theorem addSingle_cap (a : Arch) (r : Nat × Cand) :
    (a.addSingle r).1.store.cap = a.store.cap := commit_cap _ _

/-- every cell after a single add -/
theorem cellOf_addSingle (a : Arch) (r : Nat × Cand) (hr : r.1 < a.store.cap) (i : Nat) :
    (a.addSingle r).1.cellOf i =
      if i = r.1 ∧ status a.cfg (a.cellOf r.1) r.2 ≠ 0 then
        some (r.2.withThr (newThrSingle a.cfg (a.cellOf r.1) r.2))
      else a.cellOf i := by
  unfold addSingle
  simp only
  by_cases hs : status a.cfg (a.store.cells r.1) r.2 = 0
  · have : inRange a.store ([] : List (Nat × Elite)) = true := by simp [inRange]
    rw [if_pos hs, commit_cells _ _ this]
    simp [lastWrite, cellOf, hs]
  · have : inRange a.store [(r.1, r.2.withThr (newThrSingle a.cfg (a.store.cells r.1) r.2))] = true := by
      simp [inRange, hr]
    rw [if_neg hs, commit_cells _ _ this]
    by_cases hi : i = r.1
    · subst hi; simp [lastWrite, cellOf, hs]
    · have hne : r.1 ≠ i := fun h => hi h.symm
      simp [lastWrite, cellOf, hi, hne]

/-! ### `cellAcc` of the accepted rows = accepted among the rows routed to the cell -/

/-- candidates of `rows` routed to cell `i`, in batch order -/
def rowsTo (rows : List (Nat × Cand)) (i : Nat) : List Cand :=
  (rows.filter (fun r => r.1 == i)).map (·.2)

theorem cellAcc_accRows (cfg : Cfg) (pre : Nat → Option Elite) (rows : List (Nat × Cand)) (i : Nat) :
    cellAcc (accRows cfg pre rows) i = (rowsTo rows i).filter (fun c => canInsert cfg (pre i) c) := by
  unfold cellAcc accRows rowsTo
  rw [List.filter_map, List.filter_filter, List.filter_filter]
  congr 1
  apply List.filter_congr
  intro r _
  by_cases h : r.1 = i
  · subst h; simp [Bool.and_comm]
  · have : (r.1 == i) = false := by simpa using h
    simp [this]

theorem rowsTo_append (xs ys : List (Nat × Cand)) (i : Nat) :
    rowsTo (xs ++ ys) i = rowsTo xs i ++ rowsTo ys i := by
  simp [rowsTo]

theorem rowsTo_single (r : Nat × Cand) (i : Nat) :
    rowsTo [r] i = if r.1 = i then [r.2] else [] := by
  unfold rowsTo
  by_cases h : r.1 = i <;> simp [h]

theorem mem_rowsTo {rows : List (Nat × Cand)} {i : Nat} {c : Cand} :
    c ∈ rowsTo rows i ↔ (i, c) ∈ rows := by
  unfold rowsTo
  simp only [List.mem_map, List.mem_filter, beq_iff_eq]
  constructor
  · rintro ⟨r, ⟨hr, hi⟩, rfl⟩; rw [← hi]; exact hr
  · intro h; exact ⟨(i, c), ⟨h, rfl⟩, rfl⟩

/-! ### `argmaxFirst` -/

theorem argmaxFirst_none {cs : List Cand} : argmaxFirst cs = none ↔ cs = [] := by
  cases cs with
  | nil => simp [argmaxFirst]
  | cons c cs =>
    simp only [argmaxFirst]
    cases h : argmaxFirst cs with
    | none => simp
    | some m => simp; split <;> simp

/-- the objective of `argmaxFirst` is attained by a member and bounds every member -/
theorem argmaxFirst_spec {cs : List Cand} {m : Cand} (h : argmaxFirst cs = some m) :
    m ∈ cs ∧ ∀ c ∈ cs, c.obj ≤ m.obj := by
  induction cs generalizing m with
  | nil => simp [argmaxFirst] at h
  | cons c cs ih =>
    simp only [argmaxFirst] at h
    cases hm : argmaxFirst cs with
    | none =>
      rw [hm] at h; simp at h; subst h
      have : cs = [] := argmaxFirst_none.mp hm
      subst this; simp
    | some m' =>
      rw [hm] at h
      obtain ⟨hmem, hub⟩ := ih hm
      by_cases h2 : c.obj < m'.obj
      · simp [h2] at h; subst h
        refine ⟨List.mem_cons_of_mem _ hmem, ?_⟩
        intro x hx; rcases List.mem_cons.mp hx with rfl | hx
        · exact le_of_lt h2
        · exact hub x hx
      · simp [h2] at h; subst h
        refine ⟨List.mem_cons_self, ?_⟩
        intro x hx; rcases List.mem_cons.mp hx with rfl | hx
        · exact le_refl _
        · exact le_trans (hub x hx) (not_lt.mp h2)

/-- `argmaxFirst` returns the *earliest* maximiser: nothing strictly before it is as good -/
theorem argmaxFirst_first {cs : List Cand} {m : Cand} (h : argmaxFirst cs = some m) :
    ∃ pre post, cs = pre ++ m :: post ∧ ∀ c ∈ pre, c.obj < m.obj := by
  induction cs generalizing m with
  | nil => simp [argmaxFirst] at h
  | cons c cs ih =>
    simp only [argmaxFirst] at h
    cases hm : argmaxFirst cs with
    | none =>
      rw [hm] at h; simp at h; subst h
      exact ⟨[], cs, rfl, by simp⟩
    | some m' =>
      rw [hm] at h
      by_cases h2 : c.obj < m'.obj
      · simp [h2] at h; subst h
        obtain ⟨pre, post, hcs, hpre⟩ := ih hm
        refine ⟨c :: pre, post, by simp [hcs], ?_⟩
        intro x hx; rcases List.mem_cons.mp hx with rfl | hx
        · exact h2
        · exact hpre x hx
      · simp [h2] at h; subst h
        exact ⟨[], cs, rfl, by simp⟩

/-- filtering by a strict lower bound commutes with first-argmax -/
theorem argmaxFirst_filter (t : Rat) (cs : List Cand) :
    argmaxFirst (cs.filter (fun c => decide (t < c.obj))) =
      match argmaxFirst cs with
      | none => none
      | some m => if t < m.obj then some m else none := by
  induction cs with
  | nil => simp [argmaxFirst]
  | cons c cs ih =>
    simp only [List.filter_cons]
    by_cases hc : t < c.obj
    · simp only [hc, decide_true, ite_true, argmaxFirst]
      rw [ih]
      cases hm : argmaxFirst cs with
      | none => simp [hc]
      | some m =>
        simp only
        by_cases h1 : t < m.obj
        · simp only [h1, ite_true]
          by_cases h2 : c.obj < m.obj
          · simp [h2, h1]
          · simp [h2, hc]
        · simp only [h1, ite_false]
          have h2 : ¬ c.obj < m.obj := fun h => h1 (lt_trans hc h)
          simp [h2, hc]
    · simp only [hc, decide_false, argmaxFirst, Bool.false_eq_true, ite_false]
      rw [ih]
      cases hm : argmaxFirst cs with
      | none => simp [hc]
      | some m =>
        simp only
        by_cases h1 : t < m.obj
        · have h2 : c.obj < m.obj := lt_of_le_of_lt (not_lt.mp hc) h1
          simp [h1, h2]
        · simp only [h1, ite_false]
          by_cases h2 : c.obj < m.obj
          · simp [h2, h1]
          · simp [h2, hc]

/-! ### spec-shaped fold -/

/-- sequential strict-improvement fold starting from an incumbent -/
def bestFrom (inc : Option Cand) (cs : List Cand) : Option Cand := cs.foldl better inc

theorem bestOf_eq_bestFrom (cs : List Cand) : bestOf cs = bestFrom none cs := rfl

theorem bestFrom_append (inc : Option Cand) (xs ys : List Cand) :
    bestFrom inc (xs ++ ys) = bestFrom (bestFrom inc xs) ys := by
  simp [bestFrom, List.foldl_append]

theorem bestFrom_some_eq (i : Cand) (cs : List Cand) :
    bestFrom (some i) cs = some (match argmaxFirst cs with
      | none => i
      | some m => if i.obj < m.obj then m else i) := by
  induction cs generalizing i with
  | nil => simp [bestFrom, argmaxFirst]
  | cons c cs ih =>
    simp only [bestFrom, List.foldl_cons, better] at *
    by_cases h : i.obj < c.obj
    · simp only [h, ite_true]
      rw [ih c]
      simp only [argmaxFirst]
      cases hm : argmaxFirst cs with
      | none => simp [h]
      | some m =>
        simp only
        by_cases h2 : c.obj < m.obj
        · simp [h2, lt_trans h h2]
        · simp [h2, h]
    · simp only [h, ite_false]
      rw [ih i]
      simp only [argmaxFirst]
      cases hm : argmaxFirst cs with
      | none => simp [h]
      | some m =>
        simp only
        by_cases h2 : c.obj < m.obj
        · simp [h2]
        · simp only [h2, ite_false, h]
          have : ¬ i.obj < m.obj := by
            intro h3; exact h (lt_of_lt_of_le h3 (not_lt.mp h2))
          simp [this]

theorem bestFrom_none_eq (cs : List Cand) : bestFrom none cs = argmaxFirst cs := by
  cases cs with
  | nil => simp [bestFrom, argmaxFirst]
  | cons c cs =>
    have := bestFrom_some_eq c cs
    simp only [bestFrom, List.foldl_cons, better] at this ⊢
    rw [this]
    simp only [argmaxFirst]
    cases hm : argmaxFirst cs with
    | none => simp
    | some m => simp only; by_cases h : c.obj < m.obj <;> simp [h]

/-- the code-shaped per-cell batch step ("filter against the pre-call incumbent,
first argmax, write") equals the sequential strict-improvement fold -/
theorem batch_eq_bestFrom (inc : Option Cand) (cs : List Cand) :
    (match argmaxFirst (cs.filter (fun c => match inc with
        | none => true | some i => decide (i.obj < c.obj))) with
      | none => inc
      | some m => some m) = bestFrom inc cs := by
  cases inc with
  | none =>
    have : cs.filter (fun _ => true) = cs := by simp
    simp only [this, bestFrom_none_eq]
    cases argmaxFirst cs <;> rfl
  | some i =>
    simp only [argmaxFirst_filter, bestFrom_some_eq]
    cases hm : argmaxFirst cs with
    | none => simp
    | some m => simp only; by_cases h : i.obj < m.obj <;> simp [h]

theorem bestFrom_isSome (inc : Option Cand) (cs : List Cand) :
    (bestFrom inc cs).isSome = (inc.isSome || !cs.isEmpty) := by
  cases inc with
  | some i => simp [bestFrom_some_eq]
  | none =>
    rw [bestFrom_none_eq]
    cases cs with
    | nil => simp [argmaxFirst]
    | cons c cs =>
      have : argmaxFirst (c :: cs) ≠ none := fun h => by simpa using argmaxFirst_none.mp h
      cases h : argmaxFirst (c :: cs) with
      | none => exact absurd h this
      | some m => simp

/-- the winner of a fold is the incumbent or one of the candidates -/
theorem bestFrom_mem (inc : Option Cand) (cs : List Cand) (m : Cand)
    (h : bestFrom inc cs = some m) : inc = some m ∨ m ∈ cs := by
  cases inc with
  | none =>
    rw [bestFrom_none_eq] at h
    exact Or.inr (argmaxFirst_spec h).1
  | some i =>
    rw [bestFrom_some_eq] at h
    simp only [Option.some.injEq] at h
    cases hm : argmaxFirst cs with
    | none => rw [hm] at h; simp at h; exact Or.inl (by rw [h])
    | some m' =>
      rw [hm] at h
      simp only at h
      by_cases h2 : i.obj < m'.obj
      · simp [h2] at h; subst h; exact Or.inr (argmaxFirst_spec hm).1
      · simp [h2] at h; exact Or.inl (by rw [h])

/-- the winner's objective bounds the incumbent's and every candidate's -/
theorem bestFrom_ge (inc : Option Cand) (cs : List Cand) (m : Cand)
    (h : bestFrom inc cs = some m) :
    (∀ i, inc = some i → i.obj ≤ m.obj) ∧ ∀ c ∈ cs, c.obj ≤ m.obj := by
  cases inc with
  | none =>
    rw [bestFrom_none_eq] at h
    exact ⟨by simp, (argmaxFirst_spec h).2⟩
  | some i =>
    rw [bestFrom_some_eq] at h
    simp only [Option.some.injEq] at h
    cases hm : argmaxFirst cs with
    | none =>
      rw [hm] at h; simp at h; subst h
      have : cs = [] := argmaxFirst_none.mp hm
      subst this; simp
    | some m' =>
      rw [hm] at h
      simp only at h
      have hs := (argmaxFirst_spec hm).2
      by_cases h2 : i.obj < m'.obj
      · simp [h2] at h; subst h
        exact ⟨by intro j hj; simp at hj; subst hj; exact le_of_lt h2, hs⟩
      · simp [h2] at h; subst h
        exact ⟨by intro j hj; simp at hj; subst hj; exact le_refl _,
               fun c hc => le_trans (hs c hc) (not_lt.mp h2)⟩

end Pyribs.Arch
