import numpy as np, warnings
from ribs.archives import GridArchive
from ribs.emitters import EmitterBase, GaussianEmitter, GradientArborescenceEmitter, GradientOperatorEmitter, EvolutionStrategyEmitter, IsoLineEmitter, GeneticAlgorithmEmitter
from ribs.emitters.opt import OpenAIEvolutionStrategy
from ribs.schedulers import BanditScheduler, Scheduler
warnings.simplefilter("ignore")
print("== D10 jacobian mutated by tell_dqd")
arch = GridArchive(solution_dim=3, dims=[4,4], ranges=[(-1,1),(-1,1)])
e = GradientArborescenceEmitter(arch, x0=np.ones(3), sigma0=1.0, lr=0.1, seed=1, batch_size=4, restart_rule="basic")
s = Scheduler(arch,[e])
sol = s.ask_dqd()
jac = np.arange(9, dtype=float).reshape(1,3,3)+1; jac0=jac.copy()
s.tell_dqd(np.array([1.0]), np.array([[0.1,0.1]]), jac)
print("jacobian unchanged:", np.array_equal(jac, jac0))
print("== D11 zero parents moves theta")
print("theta before", e._grad_opt.theta)
sols = s.ask()
# make every solution rejected: objectives far below existing elite in same cell
s.tell(np.full(len(sols), -100.0), np.full((len(sols),2), 0.1))
print("theta after zero-parent tell:", e._grad_opt.theta, "restarts", e.restarts, "itrs", e.itrs)
e2 = GradientArborescenceEmitter(arch, x0=np.ones(3), sigma0=1.0, lr=0.1, seed=1, batch_size=4, restart_rule="basic", grad_opt="gradient_ascent")
s2 = Scheduler(arch,[e2]); s2.ask_dqd(); s2.tell_dqd(np.array([-200.0]), np.array([[0.1,0.1]]), jac0.copy())
sols=s2.ask(); s2.tell(np.full(len(sols), -100.0), np.full((len(sols),2), 0.1))
print("grad-ascent theta after zero-parent tell:", e2._grad_opt.theta)

print("== D12 bounds dtype / solution dtype")
arch32 = GridArchive(solution_dim=2, dims=[4,4], ranges=[(-1,1),(-1,1)], dtype={"solution":np.float32,"objective":np.float64,"measures":np.float64})
for name, em in [("gauss", GaussianEmitter(arch32, sigma=0.1, x0=[0,0], bounds=[(-1,1),(-1,1)], batch_size=3, seed=1)),
                 ("gauss-nobounds", GaussianEmitter(arch32, sigma=0.1, x0=[0,0], batch_size=3, seed=1)),
                 ("iso", IsoLineEmitter(arch32, x0=[0,0], bounds=[(-1,1),(-1,1)], batch_size=3, seed=1)),
                 ("ga", GeneticAlgorithmEmitter(arch32, x0=[0,0], operator="gaussian", operator_kwargs={"sigma":0.1,"seed":1}, bounds=[(-1,1),(-1,1)], batch_size=3)),
                 ("es", EvolutionStrategyEmitter(arch32, x0=[0,0], sigma0=0.1, bounds=[(-1,1),(-1,1)], batch_size=3, seed=1)),
                 ("gauss-init", GaussianEmitter(arch32, sigma=0.1, initial_solutions=[[0,0]], bounds=[(-1,1),(-1,1)], batch_size=3, seed=1)),
                 ]:
    print(name, em.ask().dtype, "expected float32")
print("== D13 GradientOperatorEmitter.ask bounds / dtype")
arch = GridArchive(solution_dim=2, dims=[4,4], ranges=[(-1,1),(-1,1)])
g = GradientOperatorEmitter(arch, sigma=0.0, sigma_g=10.0, x0=[0.5,0.5], bounds=[(-1,1),(-1,1)], batch_size=3, seed=1, measure_gradients=True)
p = g.ask_dqd()
g.tell_dqd(p, np.zeros(3), np.zeros((3,2)), np.ones((3,3,2)), {"status":np.zeros(3),"value":np.zeros(3)})
out = g.ask(); print(out, "in bounds:", np.all((out>=-1)&(out<=1)))
arch32b = GridArchive(solution_dim=2, dims=[4,4], ranges=[(-1,1),(-1,1)], dtype=np.float32)
g = GradientOperatorEmitter(arch32b, sigma=0.1, sigma_g=0.1, x0=[0.5,0.5], batch_size=3, seed=1)
p = g.ask_dqd(); print("ask_dqd dtype", p.dtype)
g.tell_dqd(p, np.zeros(3), np.zeros((3,2)), np.ones((3,3,2)), {"status":np.zeros(3),"value":np.zeros(3)})
print("ask dtype", g.ask().dtype)
print("== D14 OpenAI-ES non-mirror bounded noise bookkeeping")
es = OpenAIEvolutionStrategy(sigma0=1.0, solution_dim=2, batch_size=6, seed=3, lower_bounds=np.array([-0.5,-0.5]), upper_bounds=np.array([0.5,0.5]), mirror_sampling=False)
es.reset(np.zeros(2))
sols = es.ask()
print("noise shape", es.noise.shape, "solutions shape", sols.shape)
try:
    print("noise matches solutions:", np.allclose(es.adam_opt.theta + es.sigma0*es.noise, sols))
except Exception as ex: print("mismatch:", ex)
try:
    es.tell(np.arange(6), np.arange(6.)[::-1], 6); print("tell ok theta", es.adam_opt.theta)
except Exception as ex: print("tell raised", type(ex).__name__, ex)
