"""Fault injection for C11: one malformed call against an archive, built from valid rows.

A fault is {entry, arg, kind, pos, rows}: `rows` are valid candidate rows
[tok, obj, [meas...]]; exactly one malformation is applied to argument `arg`
(at batch position `pos` where that makes sense).
"""
import numpy as np

from archlib import NP, batch_kwargs, fr, solution_of, EXTRA_DESC

ENTRIES = ["add", "add_single", "retrieve", "retrieve_single", "index_of", "index_of_single", "sched_tell",
           "bandit_tell"]

# (arg, kind) per entry point
ADD_FAULTS = [("solution", "rank"), ("solution", "inner"), ("objective", "rank"), ("objective", "length"),
              ("objective", "nan"), ("objective", "inf"), ("objective", "ninf"), ("objective", "none"),
              ("objective", "overflow"), ("measures", "overflow"),
              ("measures", "rank"), ("measures", "inner"), ("measures", "length"), ("measures", "nan"),
              ("measures", "inf"), ("extra", "missing"), ("extra", "unknown"), ("extra", "length"),
              ("extra", "inner"), ("extra", "flat"), ("extra", "text"), ("solution", "text"),
              ("objective", "text"), ("measures", "text"), ("extra", "objseq"), ("extra", "ragged")]
SINGLE_FAULTS = [("solution", "rank"), ("solution", "inner"), ("objective", "rank"), ("objective", "nan"), ("objective", "inf"),
                 ("objective", "none"), ("measures", "rank"), ("measures", "inner"), ("measures", "nan"),
                 ("measures", "ninf"), ("extra", "missing"), ("extra", "unknown"), ("extra", "inner"),
                 ("extra", "text"), ("solution", "text"), ("measures", "text"), ("extra", "objseq")]
QUERY_FAULTS = [("measures", "rank"), ("measures", "inner"), ("measures", "nan"), ("measures", "inf"),
                ("measures", "text")]
TELL_FAULTS = [("objective", "length"), ("objective", "nan"), ("objective", "rank"), ("measures", "inner"),
               ("measures", "length"), ("measures", "inf"), ("extra", "missing"), ("extra", "length"),
               ("extra", "inner"), ("objective", "overflow"), ("extra", "flat"), ("extra", "text"),
               ("objective", "text"), ("extra", "objseq"), ("extra", "ragged")]
# kinds for which NumPy's own semantics may make the call valid (a flat array that happens to broadcast): the call
# is first tried on a deep copy and injected only if that copy rejects it
DRY_RUN_KINDS = {"flat", "text", "ragged"}


def must_raise(fault):
    """C11 names wrong shapes or lengths and non-finite objectives or measures as input the call rejects: for the
    three core arguments an accepted call of these kinds is itself a violation. Extra fields stay lenient (the store
    returns before looking at them when no row would be inserted), and so do the kinds NumPy may make valid."""
    return fault["arg"] in ("solution", "objective", "measures") and fault["kind"] not in DRY_RUN_KINDS


def faults_for(entry):
    if entry == "add":
        return ADD_FAULTS
    if entry == "add_single":
        return SINGLE_FAULTS
    if entry in ("sched_tell", "bandit_tell"):
        return TELL_FAULTS
    return QUERY_FAULTS


def gen_fault(rng, layout, rows_fn, prox_noobj_ok=False):
    entry = rng.choice(ENTRIES)
    while True:
        arg, kind = rng.choice(faults_for(entry))
        if arg == "extra" and not layout:
            if kind != "unknown":
                continue
        if arg == "objective" and kind == "none" and prox_noobj_ok:
            continue
        break
    n = 1 if entry in ("add_single", "retrieve_single", "index_of_single") else rng.choice([1, 2, 3, 5])
    if kind == "flat":
        n = rng.choice([3, 4, 5, 6])
    rows = [rows_fn() for _ in range(n)]
    return {"op": "bad", "entry": entry, "arg": arg, "kind": kind, "pos": rng.randrange(n), "rows": rows,
            "field": rng.randrange(8)}


def build_args(case, fault, dt, sol_dim, nd, layout):
    rows = fault["rows"]
    toks = [r[0] for r in rows]
    sol = np.array([solution_of(t, sol_dim) for t in toks], dtype=NP[dt]).reshape(len(rows), sol_dim)
    obj = np.array([float(fr(r[1])) for r in rows], dtype=np.float64)
    meas = np.array([[float(fr(m)) for m in r[2]] for r in rows], dtype=np.float64).reshape(len(rows), nd)
    extras = batch_kwargs(layout, toks)
    return sol, obj, meas, extras


def _text(arr, where):
    """The array with one element replaced by a value its numeric dtype cannot hold ("text" malformation)."""
    a = np.array(arr, dtype=object)
    if a.ndim == 0:
        return "abc"
    flat = a.reshape(-1)
    flat[where % flat.size] = "abc"
    return flat.reshape(a.shape)


def corrupt(fault, sol, obj, meas, extras, layout, single, dt="f64", mdt=None):
    """Apply the single malformation to the batch-form arguments.

    Returns (sol, obj, meas, extras) in the form the entry point takes (rows for the
    single-entry points), or None when the fault cannot be built for this layout.
    """
    arg, kind, pos = fault["arg"], fault["kind"], fault["pos"]
    # "overflow": finite in float64 but not in a float32 archive (only a malformation there)
    bad = {"nan": np.nan, "inf": np.inf, "ninf": -np.inf, "overflow": 1e39 if pos % 2 else -1e39}
    if kind == "overflow" and (mdt or dt if arg == "measures" else dt) != "f32":
        return None
    if single:
        s1, o1, m1 = sol[0], obj[0], meas[0]
        e1 = {k: v[0] for k, v in extras.items()}
        if arg == "solution":
            if kind == "text":
                s1 = _text(s1, fault["field"])
            else:
                s1 = sol[:1] if kind == "rank" else np.concatenate([s1, s1[:1]])   # (1, d) / (d+1,)
        elif arg == "objective":
            if kind == "rank":
                o1 = [float(o1)] if fault["field"] % 2 else np.array([[o1]])       # (1,) / (1, 1) where a scalar is expected
            else:
                o1 = None if kind == "none" else bad[kind]
        elif arg == "measures":
            if kind == "text":
                m1 = _text(m1, fault["field"])
            elif kind == "rank":
                m1 = meas[:1]                                                       # (1, nd)
            elif kind == "inner":
                m1 = np.concatenate([m1, m1[:1]])
            else:
                m1 = m1.copy()
                m1[fault["field"] % len(m1)] = bad[kind]
        elif arg == "extra":
            names = [EXTRA_DESC[c][0] for c in layout]
            if kind == "objseq":
                # a sequence where a scalar object field (shape ()) expects one object: NumPy unpacks it
                if "o" not in layout:
                    return None
                e1 = dict(e1, ex_o=(7, 8, 9))
            elif kind == "unknown":
                e1 = dict(e1, zz_unknown=0.0)
            else:
                name = names[fault["field"] % len(names)]
                if kind == "missing":
                    e1 = {k: v for k, v in e1.items() if k != name}
                else:
                    others = [n_ for n_ in names if extras[n_].dtype != object]
                    if not others:
                        return None
                    name = name if extras[name].dtype != object else others[0]
                    if kind == "text":
                        e1 = dict(e1, **{name: _text(e1[name], fault["field"])})
                    else:
                        e1 = dict(e1, **{name: np.zeros((7, 3), dtype=extras[name].dtype)})
        return s1, o1, m1, e1
    if kind == "text" and arg != "extra":
        if arg == "solution":
            sol = _text(sol, pos * sol.shape[1] + fault["field"] % sol.shape[1])
        elif arg == "objective":
            obj = _text(obj, pos)
        else:
            meas = _text(meas, pos * meas.shape[1] + fault["field"] % meas.shape[1])
    elif arg == "solution":
        sol = sol.ravel() if kind == "rank" else np.concatenate([sol, sol[:, :1]], axis=1)
    elif arg == "objective":
        if kind == "rank":
            obj = obj[:, None]
        elif kind == "length":
            obj = np.concatenate([obj, obj[:1]])
        elif kind == "none":
            obj = None
        else:
            obj = obj.copy()
            obj[pos] = bad[kind]
    elif arg == "measures":
        if kind == "rank":
            meas = meas.ravel()
        elif kind == "inner":
            meas = np.concatenate([meas, meas[:, :1]], axis=1)
        elif kind == "length":
            meas = np.concatenate([meas, meas[:1]])
        else:
            meas = meas.copy()
            meas[pos, fault["field"] % meas.shape[1]] = bad[kind]
    elif arg == "extra":
        names = [EXTRA_DESC[c][0] for c in layout]
        if kind == "ragged":
            # an object field with pair entries given as an object array of sequences, one of them of another length
            if "t" not in layout or len(obj) < 2:
                return None
            rag = np.empty(len(obj), dtype=object)
            for k in range(len(obj)):
                rag[k] = ["x", k]
            rag[max(1, pos)] = ["x", 1, 2]
            extras = dict(extras, ex_t=rag)
        elif kind == "objseq":
            if "o" not in layout:
                return None
            extras = dict(extras, ex_o=[(t, t + 1, t + 2) for t in range(len(obj))])
        elif kind == "unknown":
            extras = dict(extras, zz_unknown=np.zeros(len(obj)))
        else:
            name = names[fault["field"] % len(names)]
            if kind == "missing":
                extras = {k: v for k, v in extras.items() if k != name}
            elif kind == "length":
                extras = dict(extras, **{name: np.concatenate([extras[name], extras[name][:1]])})
            elif kind == "flat":
                # a vector field passed without its trailing axis (one scalar per row)
                vec = [n_ for n_ in names if extras[n_].ndim == 2 and extras[n_].dtype != object]
                if not vec:
                    return None
                name = vec[fault["field"] % len(vec)]
                extras = dict(extras, **{name: np.ascontiguousarray(extras[name][:, 0])})
            elif kind == "text":
                others = [n_ for n_ in names if extras[n_].dtype != object]
                if not others:
                    return None
                name = name if extras[name].dtype != object else others[0]
                per = int(np.prod(extras[name].shape[1:], dtype=int))
                extras = dict(extras, **{name: _text(extras[name], pos * per + fault["field"] % per)})
            else:   # wrong inner shape
                others = [n_ for n_ in names if extras[n_].dtype != object]
                if not others:
                    return None
                name = name if extras[name].dtype != object else others[0]
                extras = dict(extras, **{name: np.zeros((len(obj), 7, 3), dtype=extras[name].dtype)})
    return sol, obj, meas, extras




def sched_emitters(archive, n, sol_dim):
    """emitters of a fault scheduler: the `n` rows of the malformed tell are split over 1-3 emitters (a malformed row
    in a LATER emitter's slice must not leave the earlier emitters' rows in the archive)"""
    from ribs.emitters import GaussianEmitter
    k = 1 if n < 2 else (2 if n < 4 or n % 2 else 3)
    sizes = [n // k + (1 if j < n % k else 0) for j in range(k)]
    return [GaussianEmitter(archive, sigma=0.5, x0=np.zeros(sol_dim), batch_size=b, seed=1 + j)
            for j, b in enumerate(sizes) if b > 0]


def _twin_sched(archive, entry, n, sol_dim):
    from ribs.schedulers import BanditScheduler, Scheduler
    em = sched_emitters(archive, n, sol_dim)
    return Scheduler(archive, em) if entry == "sched_tell" else BanditScheduler(archive, em, num_active=len(em))


def inject(archive, fault, dt, sol_dim, nd, layout, sched=None, mdt=None):
    """Perform the malformed call. Returns ('raised', exc_name) | ('accepted', None) | ('skip', why)."""
    entry = fault["entry"]
    single = entry in ("add_single", "retrieve_single", "index_of_single")
    sol, obj, meas, extras = build_args(None, fault, dt, sol_dim, nd, layout)
    out = corrupt(fault, sol, obj, meas, extras, layout, single, dt, mdt)
    if out is None:
        return "skip", "fault not applicable to this layout / dtype"
    sol, obj, meas, extras = out
    if fault["kind"] in DRY_RUN_KINDS and not fault.get("_dry"):
        import copy
        twin = copy.deepcopy(archive)
        res, exc = inject(twin, dict(fault, _dry=True), dt, sol_dim, nd, layout, mdt=mdt,
                          sched=(lambda entry, n: _twin_sched(twin, entry, n, sol_dim)) if sched else None)
        if res != "raised":
            return "skip", "NumPy broadcasting makes this call valid in this state"
    try:
        if entry == "add":
            archive.add(sol, obj, meas, **extras)
        elif entry == "add_single":
            archive.add_single(sol, obj, meas, **extras)
        elif entry == "retrieve":
            archive.retrieve(meas)
        elif entry == "retrieve_single":
            archive.retrieve_single(meas)
        elif entry == "index_of":
            archive.index_of(meas)
        elif entry == "index_of_single":
            archive.index_of_single(meas)
        elif entry in ("sched_tell", "bandit_tell"):
            s = sched(entry, len(fault["rows"]))
            if s is None:
                return "skip", "scheduler not available for this archive"
            s.ask()
            s.tell(obj, meas, **extras)
        else:
            return "skip", entry
    except (ValueError, RuntimeError, IndexError, TypeError, KeyError) as e:
        return "raised", type(e).__name__
    return "accepted", None
