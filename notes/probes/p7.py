import numpy as np, warnings, matplotlib
matplotlib.use("Agg")
from ribs.archives import GridArchive
from ribs.visualize import parallel_axes_plot
warnings.simplefilter("ignore")
a = GridArchive(solution_dim=1, dims=[4,4], ranges=[(0,1),(0,1)])
a.add([[0],[1],[2]],[3.,1.,2.],[[.1,.1],[.6,.6],[.9,.1]])
df = a.data(return_type="pandas"); before = df["objective"].tolist()
parallel_axes_plot(a, df=df, sort_archive=True)
print("D15 df objective order before", before, "after", df["objective"].tolist())
