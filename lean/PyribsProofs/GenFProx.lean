import PyribsGen.Control
import PyribsModel.Proximity
import Mathlib.Tactic.Linarith
/-!
# GenFProx — ProximityArchive's admission test, read from the source

`novel_enough = novelty >= self.novelty_threshold` of `ProximityArchive.add`, regenerated into
`GenC.proxNovelEnough`.  The model never computes the novelty (a mean of square roots) exactly; it
brackets it by rationals and decides only when the threshold lies outside the bracket.  The theorem
states that whenever the model decides, its decision is the source's comparison applied to **any**
value inside the bracket — in particular to the true novelty (`C14.bracket_sound`).
-/
namespace Pyribs.GenFProofs
open Pyribs

/-- the comparison of the source on finite values: `threshold ≤ novelty` (not `<`) -/
theorem novel_enough_is_ge (nov thr : Rat) :
    GenC.proxNovelEnough (E.fin nov) (E.fin thr) = decide (thr ≤ nov) := by
  unfold GenC.proxNovelEnough
  simp [E.le]

/-- **GP1** (C14) a decided admission of the model is the source's test on every value in the bracket -/
theorem novel_decision_from_source (p : Prox) (m : List Rat) (hne : p.len ≠ 0) (ν : Rat)
    (hlo : (p.noveltyBracket m).1 ≤ ν) (hhi : ν ≤ (p.noveltyBracket m).2) (b : Bool)
    (h : p.novelDec m = some b) :
    GenC.proxNovelEnough (E.fin ν) (E.fin p.cfg.nu) = b := by
  rw [novel_enough_is_ge]
  unfold Prox.novelDec at h
  simp only [hne, if_false] at h
  by_cases h1 : p.cfg.nu ≤ (p.noveltyBracket m).1
  · simp only [h1, if_true, Option.some.injEq] at h
    subst h
    simp
    linarith
  · simp only [h1, if_false] at h
    by_cases h2 : (p.noveltyBracket m).2 < p.cfg.nu
    · simp only [h2, if_true, Option.some.injEq] at h
      subst h
      simp
      linarith
    · simp [h2] at h

/-- an empty archive admits every candidate, whatever the threshold (the source special-cases the novelty it
reports; the model says `some true`) -/
theorem novel_decision_empty (p : Prox) (m : List Rat) (h : p.len = 0) : p.novelDec m = some true := by
  simp [Prox.novelDec, h]

example : GenC.proxNovelEnough (E.fin (1/2)) (E.fin (1/2)) = true := by decide +kernel
example : GenC.proxNovelEnough (E.fin (1/3)) (E.fin (1/2)) = false := by decide +kernel

end Pyribs.GenFProofs
