import numpy as np, random, warnings
from ribs.archives import GridArchive
from ribs.emitters.rankers import *
from ribs.emitters import EmitterBase
from ribs.schedulers import BanditScheduler
warnings.simplefilter("ignore")
# C17 rankers
arch=GridArchive(solution_dim=1,dims=[4,4],ranges=[(0,1),(0,2)])
bad=0
for seed in range(3000):
    rnd=random.Random(seed); n=rnd.randint(1,8)
    st=np.array([rnd.choice([0,1,2]) for _ in range(n)],dtype=rnd.choice([np.int32,np.int64,np.uint8,np.int8]))
    val=np.array([rnd.choice([-2,-1,0,0.5,1,1,3]) for _ in range(n)],dtype=rnd.choice([np.float32,np.float64]))
    obj=np.array([rnd.choice([-2,-1,0,0.5,1,1,3]) for _ in range(n)],dtype=float)
    meas=np.array([[rnd.choice([0,1,2]),rnd.choice([0,1])] for _ in range(n)],dtype=float)
    nov=np.array([rnd.choice([0,1,2,2.5]) for _ in range(n)],dtype=float)
    data={"solution":np.zeros((n,1)),"objective":obj,"measures":meas}; info={"status":st,"value":val,"novelty":nov}
    c=({k:v.copy() for k,v in data.items()},{k:v.copy() for k,v in info.items()})
    for R,key in [(ImprovementRanker,lambda i:(val[i],)),(TwoStageImprovementRanker,lambda i:(st[i],val[i])),(ObjectiveRanker,lambda i:(obj[i],)),(TwoStageObjectiveRanker,lambda i:(st[i],obj[i])),(NoveltyRanker,lambda i:(nov[i],))]:
        r=R(seed=1); r.reset(None,arch)
        idx,vals=r.rank(None,arch,data,info)
        ks=[key(i) for i in idx]
        if sorted(idx.tolist())!=list(range(n)) or any(ks[i]<ks[i+1] for i in range(n-1)): print("RANK",R.__name__,seed,idx,ks); bad+=1
        if len(vals)!=n: print("VALS"); bad+=1
    for R,two in [(RandomDirectionRanker,False),(TwoStageRandomDirectionRanker,True)]:
        r=R(seed=seed); r.reset(None,arch); d0=r.target_measure_dir.copy()
        idx,vals=r.rank(None,arch,data,info)
        proj=meas@d0
        ks=[((st[i],) if two else ())+(proj[i],) for i in idx]
        if sorted(idx.tolist())!=list(range(n)) or any(ks[i]<ks[i+1] for i in range(n-1)): print("RANKRD",seed); bad+=1
        if not np.array_equal(r.target_measure_dir,d0): print("DIRCHANGED"); bad+=1
        r.reset(None,arch)
        if np.array_equal(r.target_measure_dir,d0): print("DIRSAME after reset"); bad+=1
    for a_,b_ in zip(c[0].values(),data.values()):
        if not np.array_equal(a_,b_): print("MUTATED data"); bad+=1
    for a_,b_ in zip(c[1].values(),info.values()):
        if not np.array_equal(a_,b_): print("MUTATED info"); bad+=1
print("ranker bad",bad)
