"""C04 — Scheduler routes every evaluation back to the emitter that asked for it.

Correspondence: the real `ribs.schedulers.Scheduler` (with spy emitters written
against the public `EmitterBase` API and archives that record the `add` /
`add_single` calls they receive) and the Lean `Scheduler` model
(`PyribsModel/Scheduler.lean`, machine `sched`) are driven in lock step over
random call sequences in which about 30 % of the calls are out of order.

Oracle: the property statement evaluated directly on the spies' and archives'
logs (Python only, no model involved).
"""
import copy
import pickle
import random
import warnings

import numpy as np

from core import Driver, Failure, nl

ID = "C04"
from genf import translate  # noqa: E402,F401  (regenerates lean/PyribsGen/{Formulas,Control}.lean from the tree under check)
PROOF_MODULES = ["PyribsProofs.C04", "PyribsProofs.C04b", "PyribsGen.Control", "PyribsProofs.GenFLoop"]
THEOREMS = [
    "Pyribs.GenFProofs.sched_tell_loop_from_source",
    "Pyribs.GenFProofs.sched_tell_init_from_source",
    "Pyribs.GenFProofs.sched_tell_dqd_loop_from_source",
    "Pyribs.GenFProofs.sched_tell_dqd_init_from_source",
    "Pyribs.GenFProofs.slices_eq_generated",
    "Pyribs.GenFProofs.bandit_tell_loop_from_source",
    "Pyribs.C04.protocol",
    "Pyribs.C04.protocol_unchanged",
    "Pyribs.C04.rejected_untouched",
    "Pyribs.C04.run_erase_rejected",
    "Pyribs.C04.accepted_all_ok",
    "Pyribs.C04.phase_run",
    "Pyribs.C04.tell_follows_matching_ask",
    "Pyribs.C04.slices_partition",
    "Pyribs.C04.slices_getElem",
    "Pyribs.C04.slice_unique",
    "Pyribs.C04.dispatch_flatten",
    "Pyribs.C04.dispatch_map",
    "Pyribs.C04.dispatch_zip",
    "Pyribs.C04.dispatch_positions",
    "Pyribs.C04.ask_concat",
    "Pyribs.C04.wf_run",
    "Pyribs.C04.tell_routes",
    "Pyribs.C04.each_row_once",
    "Pyribs.C04.each_row_once_flat",
    "Pyribs.C04.modes_same_rows",
    "Pyribs.C04b.add_mode_equivalence",
    "Pyribs.C04b.add_mode_equivalence_history",
    "Pyribs.C04b.nonvacuous",
    "Pyribs.C04.archives_before_emitters",
    "Pyribs.C04.told_own",
    "Pyribs.C04.asks_answered",
    "Pyribs.C04.nonvacuous",
]
RULE = ("random sequences of ask / ask_dqd / tell / tell_dqd calls (about 30 % out of order, judged along the run) on "
        "a Scheduler with 1-6 spy emitters (DQD and non-DQD mixed) that emit 0-5 rows each, the sizes changing every "
        "iteration; strata: plain GridArchive, GridArchive with thresholds + plain result archive, ProximityArchive "
        "with objective=None, long sequences; both add modes, with/without result archive, with/without extra "
        "fields; archive dtypes float64 / float32 / dict form chosen independently for archive and result archive "
        "(also the dtypes of the extra fields), evaluation values that are not representable in float32 and "
        "objectives that differ by less than float32 resolution; tells with a malformed argument (wrong length; right "
        "length but NaN / inf in objective, measures or the Jacobian; wrong inner shape of measures, the Jacobian or "
        "an extra field) anywhere in the sequence, followed by calls of either kind; "
        "pickle round trips and deep copies of the scheduler at generated protocol positions (between ask and tell, between ask_dqd and tell_dqd, after tell), the run continuing on the restored object; a stratum with two or three schedulers alive at once (own archives, own spies, own batch sizes) whose calls are interleaved, each judged by its own oracle state and model instance; "
        "tells that forward a whole evaluation record including a `solution` entry of the right length (tell(**record) "
        "with the caller's shifted / reversed / zeroed / rounded copy of what ask returned); a large-batch stratum "
        "(oracle only, no lock step): 1-6 emitters whose batch sizes sum to 4097..20000 rows (also 2^10..2^14 -1/+0/+1, "
        "and small totals) on the 4x4 grid / threshold grid / proximity archives, every emitter's add feedback and both "
        "archives' contents compared with ONE add of the evaluated batch (add_mode='single': the rows one by one, 0..800 "
        "rows) on a deep copy of the archives taken before the call, and tells rejected for one non-finite value at the "
        "head / tail / a block or emitter border / anywhere in the batch, followed by further rounds; "
        "every case is run a second time in the other add mode for the archive-contents comparison. A case "
        "is non-trivial when an accepted tell routes rows of at least two emitters with unequal batch sizes, or "
        "contains a rejected call made after rows were inserted; counted once per distinct op list")
PARTIAL = []
ASSUMPTIONS = [
    "a scheduler restored by pickle.loads(pickle.dumps(s)) or copy.deepcopy(s) must behave exactly like the original "
    "would have (same routing, same RuntimeErrors); spies and recording archives are module-level classes sharing one "
    "log list per scheduler, so they survive the round trip; schedulers alive at the same time must not influence "
    "each other",
    "constructor options whose value equals the documented default (Scheduler add_mode='batch', result_archive=None; "
    "archive dtype float64, extra_fields None) are omitted from the call; model and oracle use the documented value",
    "a solution is the token (emitter, iteration, position); every per-row value handed to tell (objective, "
    "measures, extra fields, Jacobian) is derived injectively from (iteration, row position) by the harness",
    "the archive is observed through a subclass that records the arguments and the return value of add / "
    "add_single (public methods) and through data()",
    "the spy emitters validate what they are told the way library emitters do (finite values, (n,), "
    "(n, measure_dim), (n, measure_dim + 1, solution_dim), the batch dimension of the extra fields) and raise ValueError "
    "otherwise; on valid input emitters and archives do not raise",
    "a tell rejected with ValueError (any malformed argument) must have called neither archive nor emitter and must "
    "leave both archives' contents unchanged. Readings kept: archive and result archive of a case differ only in "
    "dtype, so the accepted reading 'a differently configured result_archive may reject rows the archive has already "
    "accepted' is never exercised; an archive add that changed nothing before the rejection is harmless (one "
    "archive may notice a mis-shaped extra field that the other, inserting no row, did not look at)",
    "accepted reading, not a violation: in add_mode='single' a tell whose row i > 0 is non-finite is rejected when "
    "add_single reaches that row, after rows 0..i-1 were inserted; C11 quantifies the scheduler's atomicity over "
    "batch mode only. The non-finite objective / measures faults of single-mode cases are therefore placed in row 0 "
    "(SINGLE_MODE_LATE_ROW_FAULTS = False)",
    "after a tell / tell_dqd rejected with ValueError (wrong-length array) the property does not say whether the "
    "pending ask is consumed (the code records the call before validating: the next legal call is ask / ask_dqd) or "
    "kept (the tell may be retried); the oracle accepts both readings and tracks the set of protocol states they "
    "allow: a tell is never legal when the last accepted ask was an ask_dqd (or vice versa) or when no ask is "
    "pending in either reading. The Lean model mirrors the code (pending ask consumed)",
    "documented reading, not a violation: in add_mode='single' with zero rows in total the emitters receive "
    "add_info == {} (no keys) while batch mode hands out empty arrays; C04 is about rows and there are none",
    "a `solution` entry among the keyword fields of tell / tell_dqd (right length) does not replace the solutions "
    "handed out by ask: archives and emitters receive the rows the emitters generated",
    "large-batch stratum: 'the archive's add feedback' of a tell is what ONE archive.add of the whole evaluated batch "
    "returns (add_mode='single': what add_single returns row by row) on the archive as it was before the call, "
    "whatever the number of rows; Scheduler.emitters is the caller's list by documentation, so it is not mutated here",
    "dtypes: what an archive is handed is compared with what was told in that archive's own dtype (an early cast to "
    "the receiving archive's dtype is harmless); what an emitter is handed must be exactly what was told, value and "
    "dtype; what an archive stores must be the told value cast once to that archive's dtype",
]
TECHNIQUE = "Lean 4 model + theorems; lock-step correspondence with spy emitters and recording archives; log oracle"
LEVEL_TEXT = ("proof (unbounded: any number of emitters, all batch sizes, both add modes, with/without result archive, "
              "every call sequence legal or not) about the scheduler model; T04.4 composes modes_same_rows (same rows, "
              "same order in both modes) with C04b.add_mode_equivalence (archive model of C01: one batch = the same rows "
              "one by one); every generated case is also executed in both modes on the real archives")
TRUSTED_EXTRA = [
    "the spy emitters (EmitterBase subclasses) and the recording archive subclasses of the harness",
    "the (emitter, iteration, position) / (iteration, row) encodings of solutions and per-row values",
]

SOLDIM = 3
MDIM = 2
STATS = {}
# Accepted reading (DESIGN 7.3): in add_mode="single" a tell whose row i > 0 is non-finite is rejected when add_single
# reaches that row, after rows 0..i-1 were inserted; C11 quantifies the scheduler's atomicity over batch mode only.
# While this is False the non-finite objective / measures faults of single-mode cases are placed in row 0 (True
# would make the check report the row-by-row insertion).
SINGLE_MODE_LATE_ROW_FAULTS = False


def stat(key, k=1):
    STATS[key] = STATS.get(key, 0) + k


# ---------------------------------------------------------------------------
# row encoding: every per-row value identifies (iteration, position)


def make_eval(it, n, seed, with_objective, noise=False):
    """Evaluation arrays for the `n` rows of the batch asked at op index `it`.

    With `noise` every float value carries a perturbation < 3e-4 that is not representable in float32 (nor dyadic),
    and objectives additionally a term of a few 1e-9 (below float32 resolution: equal in a float32 archive,
    different in a float64 one).  Positions are decoded by rounding, so the perturbation does not disturb them."""
    rng = random.Random(seed)
    p = np.arange(n)
    frac = (p + 1) / 64.0  # row position, exact, < 1
    cx = np.array([rng.randrange(4) for _ in range(n)], dtype=float)
    cy = np.array([rng.randrange(4) for _ in range(n)], dtype=float)
    r = np.array([rng.randrange(4) for _ in range(n)], dtype=float)
    if noise:
        eps = lambda j: (((p * 7 + it * 3 + j) % 11) + 1) * 0.1 / 4096.0
        tiny = ((it * 5 + p) % 7) * 1e-9
    else:
        eps = lambda j: np.zeros(n)
        tiny = np.zeros(n)
    ev = {
        "objective": (r + frac + eps(0) + tiny) if with_objective else None,
        "measures": np.stack([cx + frac + eps(1), cy + ((it % 60) + 1) / 64.0 + eps(2)], axis=1).reshape(n, MDIM),
        "tag": (it * 1000 + p).astype(np.int64),
        "vec": np.stack([p.astype(float) + eps(3), np.full(n, float(it)) + eps(4)], axis=1).reshape(n, 2),
        "jacobian": (p[:, None, None] + np.arange((1 + MDIM) * SOLDIM).reshape(1, 1 + MDIM, SOLDIM) / 16.0
                     + it * 64.0),
    }
    return ev


def rows_of(name, arr, it):
    """Decode a (slice of a) per-row array back to row positions; None if it does not decode."""
    arr = np.asarray(arr)

    def near(v):  # nearest integer when within the perturbation of make_eval(noise=True), else the value itself
        return float(round(v)) if abs(v - round(v)) < 0.05 else v

    try:
        if name == "objective":
            out = [near((float(x) % 1.0) * 64 - 1) for x in arr]
        elif name == "measures":
            if arr.ndim != 2 or arr.shape[1] != MDIM:
                return None
            if any(near((float(y) % 1.0) * 64 - 1) != it % 60 for y in arr[:, 1]):
                return None
            out = [near((float(x) % 1.0) * 64 - 1) for x in arr[:, 0]]
        elif name == "tag":
            if any(int(x) // 1000 != it for x in arr):
                return None
            out = [int(x) % 1000 for x in arr]
        elif name == "vec":
            if arr.ndim != 2 or arr.shape[1] != 2 or any(near(float(x)) != it for x in arr[:, 1]):
                return None
            out = [near(float(x)) for x in arr[:, 0]]
        elif name == "jacobian":
            if arr.ndim != 3 or arr.shape[1:] != (1 + MDIM, SOLDIM):
                return None
            base = np.arange((1 + MDIM) * SOLDIM).reshape(1 + MDIM, SOLDIM) / 16.0 + it * 64.0
            out = []
            for m in arr:
                d = m - base
                if not np.all(d == d[0, 0]):
                    return None
                out.append(float(d[0, 0]))
        else:
            return None
    except (TypeError, ValueError, IndexError):
        return None
    if any(x != int(x) or x < 0 for x in out):
        return None
    return [int(x) for x in out]


def sols_of(arr):
    """Decode a solution array to [(emitter, iteration, position)]."""
    arr = np.asarray(arr)
    if arr.ndim != 2 or arr.shape[1] != SOLDIM:
        return None
    return [(int(a), int(b), int(c)) for a, b, c in arr]


# ---------------------------------------------------------------------------
# spies


_CLS = {}


def _classes():
    """Spy emitters and recording archives as module-level classes (created on first use, after `ribs` is importable
    from the tree under test), so that a scheduler holding them survives pickle / deepcopy.  Everything they record
    goes to `self._log`, one list shared by the spies and archives of one scheduler (pickle keeps it shared)."""
    if _CLS:
        return _CLS
    from ribs.archives import GridArchive, ProximityArchive
    from ribs.emitters import EmitterBase

    class Spy(EmitterBase):
        """Non-DQD emitter: generates rows in ask(); inherits ask_dqd (empty) from EmitterBase."""

        def __init__(self, archive, idx, log):
            EmitterBase.__init__(self, archive, solution_dim=SOLDIM, bounds=None)
            self.idx = idx
            self.next_n = 0
            self.cur_it = -1
            self._log = log

        @property
        def batch_size(self):  # a *configured* size that is never the emitted one
            return 7

        def _gen(self, dqd):
            n = self.next_n
            out = np.zeros((n, SOLDIM))
            out[:, 0] = self.idx
            out[:, 1] = self.cur_it
            out[:, 2] = np.arange(n)
            self._log.append({"ev": "ask", "dqd": dqd, "em": self.idx, "out": out.copy()})
            return out

        def ask(self):
            return self._gen(False)

        def _validate(self, entry):
            """what every library emitter does first in tell (validate_batch): shapes and finiteness"""
            n = len(entry["solution"])
            want = {"objective": (n,), "measures": (n, MDIM), "jacobian": (n, 1 + MDIM, SOLDIM)}
            for name, shape in want.items():
                arr = entry[name]
                if arr is None:
                    continue
                if arr.shape != shape:
                    raise ValueError(f"spy emitter {self.idx}: {name} has shape {arr.shape}, expected {shape}")
                if not np.all(np.isfinite(arr)):
                    raise ValueError(f"spy emitter {self.idx}: {name} is not finite")
            for name, arr in entry["fields"].items():  # extra fields: the batch dimension only, as validate_batch
                if arr.shape[:1] != (n,):
                    raise ValueError(f"spy emitter {self.idx}: field {name} has shape {arr.shape} for {n} rows")

        def tell(self, solution, objective, measures, add_info, **fields):
            self._log.append({"ev": "tell", "dqd": False, "em": self.idx, "solution": np.array(solution),
                              "objective": None if objective is None else np.array(objective),
                              "measures": np.array(measures), "jacobian": None,
                              "add_info": {k: np.array(v) for k, v in add_info.items()},
                              "fields": {k: np.array(v) for k, v in fields.items()}})
            self._validate(self._log[-1])

        def tell_dqd(self, solution, objective, measures, jacobian, add_info, **fields):
            self._log.append({"ev": "tell", "dqd": True, "em": self.idx, "solution": np.array(solution),
                              "objective": None if objective is None else np.array(objective),
                              "measures": np.array(measures), "jacobian": np.array(jacobian),
                              "add_info": {k: np.array(v) for k, v in add_info.items()},
                              "fields": {k: np.array(v) for k, v in fields.items()}})
            self._validate(self._log[-1])

    class DqdSpy(Spy):
        """DQD emitter: generates rows in ask_dqd() as well."""

        def ask_dqd(self):
            return self._gen(True)

    class PlainSpy(Spy):

        def ask_dqd(self):
            out = EmitterBase.ask_dqd(self)
            self._log.append({"ev": "ask", "dqd": True, "em": self.idx, "out": np.array(out)})
            return out

    def rec(cls):

        class Rec(cls):
            """Archive that records what add / add_single receive and return."""
            _in_single = False
            _log = None
            _is_result = False

            def add(self, solution, objective, measures, **fields):
                ret = cls.add(self, solution, objective, measures, **fields)
                if not self._in_single:
                    self._log.append({"ev": "add", "result": self._is_result, "single": False,
                                      "solution": np.array(solution), "objective": None if objective is None else
                                      np.array(objective), "measures": np.array(measures),
                                      "fields": {k: np.array(v) for k, v in fields.items()},
                                      "ret": {k: np.array(v) for k, v in ret.items()}})
                return ret

            def add_single(self, solution, objective, measures, **fields):
                self._in_single = True
                try:
                    ret = cls.add_single(self, solution, objective, measures, **fields)
                finally:
                    self._in_single = False
                self._log.append({"ev": "add", "result": self._is_result, "single": True,
                                  "solution": np.array(solution)[None], "objective": None if objective is None else
                                  np.array(objective)[None], "measures": np.array(measures)[None],
                                  "fields": {k: np.array(v)[None] for k, v in fields.items()},
                                  "ret": {k: np.array(v) for k, v in ret.items()}})
                return ret

        return Rec

    found = {"Spy": Spy, "DqdSpy": DqdSpy, "PlainSpy": PlainSpy, "RecGridArchive": rec(GridArchive),
             "RecProximityArchive": rec(ProximityArchive)}
    for name, c in found.items():  # make them importable by name: pickle stores classes by reference
        c.__module__, c.__qualname__, c.__name__ = __name__, name, name
        globals()[name] = c
    _CLS.update(found)
    return _CLS


def make_spies(archive, descr, log):
    cl = _classes()
    return [(cl["DqdSpy"] if d["dqd"] else cl["PlainSpy"])(archive, i, log) for i, d in enumerate(descr)]


def recording(cls, log, is_result):
    """Constructor of an archive of class `cls` that records what add / add_single receive and return."""
    rec_cls = _classes()["Rec" + cls.__name__]

    def make(**kw):
        a = rec_cls(**kw)
        a._log, a._is_result = log, is_result
        return a

    return make


DTYPES = {
    "f64": lambda: np.float64,
    "f32": lambda: np.float32,
    "dict32": lambda: {"solution": np.float32, "objective": np.float32, "measures": np.float32},
    "dictA": lambda: {"solution": np.float32, "objective": np.float64, "measures": np.float32},
    "dictB": lambda: {"solution": np.float64, "objective": np.float32, "measures": np.float64},
}
XDTYPES = {"i64": np.int64, "i32": np.int32, "f64": np.float64, "f32": np.float32}


def build(case, mode):
    from ribs.archives import GridArchive, ProximityArchive
    from ribs.schedulers import Scheduler
    log = []
    kind = case["archive"]
    dts = case.get("dtype", {"main": "f64", "result": "f64"})
    xdts = case.get("xdtype", {"main": ["i64", "f64"], "result": ["i64", "f64"]})

    def cfg(is_result):
        who = "result" if is_result else "main"
        extra = {"tag": ((), XDTYPES[xdts[who][0]]), "vec": ((2,), XDTYPES[xdts[who][1]])} if case["extra"] else None
        # options whose value is the documented default are omitted, so that the defaults themselves are exercised
        out = {}
        if dts[who] != "f64":
            out["dtype"] = DTYPES[dts[who]]()
        if extra is not None:
            out["extra_fields"] = extra
        return out

    def grid(is_result, **kw):
        return recording(GridArchive, log, is_result)(solution_dim=SOLDIM, dims=[4, 4],
                                                      ranges=[(0, 4), (0, 4)], **cfg(is_result), **kw)

    if kind == "proximity":
        mk = lambda r: recording(ProximityArchive, log, r)(solution_dim=SOLDIM, measure_dim=MDIM, k_neighbors=2,
                                                           novelty_threshold=0.75, initial_capacity=4, **cfg(r))
        archive, result = mk(False), (mk(True) if case["result"] else None)
    elif kind == "cmamae":
        archive = grid(False, learning_rate=0.5, threshold_min=1.0)
        result = grid(True) if case["result"] else None
    else:
        archive, result = grid(False), (grid(True) if case["result"] else None)
    spies = make_spies(archive, case["emitters"], log)
    # documented defaults (result_archive=None, add_mode="batch") are left to the constructor; the model and the
    # oracle are told the documented value
    opts = {}
    if result is not None:
        opts["result_archive"] = result
    if mode != "batch":
        opts["add_mode"] = mode
    sched = Scheduler(archive, spies, **opts)
    return sched, archive, result, spies, log


def canon_data(archive):
    d = archive.data()
    order = np.argsort(d["index"], kind="stable")
    out = []
    for j in order:
        out.append(tuple((k, np.asarray(d[k][j]).tolist()) for k in sorted(d)))
    return out


# ---------------------------------------------------------------------------
# generator


def gen_with(kind, rng, long=False):
    k = rng.choice([1, 2, 2, 3, 3, 4, 5, 6])
    emitters = [{"dqd": rng.random() < 0.5} for _ in range(k)]
    case = {
        "archive": kind,
        "mode": rng.choice(["batch", "single"]),
        "result": rng.random() < 0.5 if kind != "cmamae" else rng.random() < 0.8,
        "extra": rng.random() < 0.5,
        "emitters": emitters,
    }
    if rng.random() < 0.65:
        names = ["f64", "f32", "f32", "dict32", "dictA", "dictB"]
        case["dtype"] = {"main": rng.choice(names), "result": rng.choice(names)}
        case["xdtype"] = {w: [rng.choice(["i64", "i32"]), rng.choice(["f64", "f32"])] for w in ("main", "result")}
        case["noise"] = rng.random() < 0.85
    else:
        case["noise"] = rng.random() < 0.3
    nops = rng.randint(20, 40) if long else rng.randint(2, 14)
    ops = []
    phase = "none"
    p_illegal = rng.choice([0.0, 0.3, 0.3, 0.3, 0.5])
    zero_heavy = rng.random() < 0.25
    p_bad = rng.choice([0.0, 0.06, 0.06, 0.15])
    p_snap = rng.choice([0.0, 0.0, 0.1, 0.25])
    after_bad = False

    def bad_op(ph):
        which = ["measures"] + (["objective"] if kind != "proximity" else []) + (["tag"] if case["extra"] else [])
        dq = (ph == "askdqd") if (ph in ("ask", "askdqd") and rng.random() < 0.85) else rng.random() < 0.5
        fault = rng.choice(["length", "nan", "inf", "shape", "shape"])
        if fault in ("nan", "inf"):
            which = ["measures"] + (["objective"] if kind != "proximity" else [])
        elif fault == "shape":
            which = ["measures"] + (["vec"] if case["extra"] and kind != "proximity" else [])
        if dq:
            which = which + ["jacobian", "jacobian"]
        return {"op": "telldqdbad" if dq else "tellbad", "seed": rng.randrange(1 << 30), "fault": fault,
                "which": rng.choice(which), "row": rng.randrange(64)}

    for _ in range(nops):
        legal = {"none": ["ask", "askdqd"], "tell": ["ask", "askdqd"], "telldqd": ["ask", "askdqd"],
                 "ask": ["tell"], "askdqd": ["telldqd"]}[phase]
        if rng.random() < p_bad and phase in ("ask", "askdqd"):
            op = bad_op(phase)
            ops.append(op)
            # the code records the call before validating: an in-order rejected tell consumes the pending ask
            if op["op"] == {"ask": "tellbad", "askdqd": "telldqdbad"}[phase]:
                phase = op["op"][:-3]
            after_bad = True
            continue
        if after_bad and rng.random() < 0.7:
            # what is legal after a rejected tell: any of the four, the other kind of tell in particular
            after_bad = False
            name = rng.choice(["tell", "telldqd", "tell", "telldqd", "ask", "askdqd"])
        elif rng.random() < p_illegal:
            name = rng.choice([o for o in ["ask", "askdqd", "tell", "telldqd"] if o not in legal])
        else:
            name = rng.choice(legal)
        if name in ("ask", "askdqd"):
            sizes = [0, 0, 0, 1, 2] if zero_heavy else [0, 1, 2, 3, 4, 5]
            op = {"op": name, "ns": [rng.choice(sizes) for _ in range(k)]}
        else:
            op = {"op": name, "seed": rng.randrange(1 << 30)}
        ops.append(op)
        if name in legal:
            phase = name
        if rng.random() < p_snap:
            # checkpoint (pickle round trip) or deep copy here -- between an ask and its tell, after a tell, ... --
            # and carry on with the restored scheduler
            ops.append({"op": rng.choice(["pickle", "pickle", "deepcopy"])})
    if rng.random() < 0.12:
        ops.append(bad_op(phase))
    # the caller forwards a complete evaluation record, `scheduler.tell(**record)`, whose keys collide with a name the
    # scheduler owns: a `solution` entry of the right length (the caller's own post-processed copy of what ask
    # returned).  The rows routed to archives and emitters must stay the ones the emitters generated.
    # (drawn from a derived generator after everything else, so that the op lists themselves are unchanged)
    rr = random.Random(rng.randrange(1 << 30))
    p_rec = rr.choice([0.0, 0.0, 0.25, 0.6])
    for op in ops:
        if op["op"] in ("tell", "telldqd") and rr.random() < p_rec:
            op["record"] = rr.choice(["shifted", "reversed", "zeros", "rounded"])
    case["ops"] = ops
    return case


def nontrivial(case):
    phase, ns, inserted = "none", None, False
    for op in case["ops"]:
        name = op["op"]
        if name in ("pickle", "deepcopy"):
            continue
        if name.endswith("bad"):
            if phase == {"tellbad": "ask", "telldqdbad": "askdqd"}[name]:
                phase = name[:-3]
            continue
        if name in ("ask", "askdqd"):
            if phase in ("ask", "askdqd"):
                if inserted:
                    return True
                continue
            phase = name
            ns = [n if (name == "ask" or e["dqd"]) else 0 for n, e in zip(op["ns"], case["emitters"])]
        elif name in ("tell", "telldqd"):
            if phase != {"tell": "ask", "telldqd": "askdqd"}[name]:
                if inserted:
                    return True
                continue
            phase = name
            pos = [n for n in ns if n > 0]
            if sum(ns) > 0:
                inserted = True
            if len(pos) >= 2 and len(set(ns)) >= 2:
                return True
    return False


# ---------------------------------------------------------------------------
# one case


def parse_events(s):
    out = []
    if s == "none":
        return out
    unl = lambda t: [] if t == "-" else [int(x) for x in t.split(",")]
    for e in s.split(";"):
        f = e.split(":")
        if f[0] == "ask":
            out.append(("ask", f[1] == "1", int(f[2]), int(f[3])))
        elif f[0] == "add":
            out.append(("add", f[1] == "1", unl(f[2])))
        else:
            sols = [] if f[3] == "-" else [tuple(int(x) for x in t.split(".")) for t in f[3].split(",")]
            out.append(("tell", f[1] == "1", int(f[2]), sols, unl(f[4])))
    return out


def exc_kind(e):
    if e is None:
        return "ok"
    if isinstance(e, RuntimeError) and not isinstance(e, NotImplementedError):
        return "err runtime"
    if isinstance(e, ValueError):
        return "err value"
    return "err other:" + type(e).__name__


def run_mode(case, mode, drv):
    """Runs the case with the given add mode. With `drv` the Lean model runs in lock step.
    Returns (Failure | None, final archive data, final result archive data)."""
    co = _run_mode_co(case, mode, drv)
    try:
        next(co)
        for it, op in enumerate(case["ops"]):
            co.send((it, op))
        co.send(None)
    except StopIteration as e:
        return e.value
    raise AssertionError("unreachable")


def _run_mode_co(case, mode, drv):
    """One scheduler with its oracle state and (optionally) its model instance, as a coroutine: it is sent
    `(op index, op)` for every call made on this scheduler and `None` at the end, and finishes (StopIteration value)
    with `(Failure | None, final archive data, final result archive data)`.  Several of them run interleaved in the
    multi-scheduler stratum."""
    sched, archive, result, spies, log = build(case, mode)
    k = len(spies)
    with_obj = case["archive"] != "proximity"
    noise = bool(case.get("noise"))
    if drv is not None:
        drv.ask(f"new {mode} {1 if result is not None else 0}")
        stat("dtype:" + "/".join(case.get("dtype", {"main": "f64", "result": "f64"}).values()) if result is not None
             else "dtype:" + case.get("dtype", {"main": "f64"})["main"] + "/-")
    # oracle state (property reading, independent of the model).  `phases` is the set of protocol states the
    # property allows at this point: a singleton except after a tell rejected with ValueError, where both
    # "pending ask consumed" and "pending ask kept" are accepted readings (see ASSUMPTIONS)
    legal = {"none": ("ask", "askdqd"), "tell": ("ask", "askdqd"), "telldqd": ("ask", "askdqd"),
             "ask": ("tell",), "askdqd": ("telldqd",)}
    phases = {"none"}
    pending = None  # (it, [n_e], [generated arrays])
    refs = {}  # per elitist archive: cell -> (objective in the archive's dtype, it, pos)
    meta = {}  # (em, it, k) -> the row as told
    while True:
        nxt = yield
        if nxt is None:
            break
        it, op = nxt
        name = op["op"]
        where = f"op#{it} {name}"
        if name in ("pickle", "deepcopy"):
            # checkpoint / copy at this protocol position; the run continues on the restored object, which must
            # behave exactly like the original would have (the model and the oracle state simply carry on)
            before_a = canon_data(archive)
            before_r = canon_data(result) if result is not None else None
            try:
                with warnings.catch_warnings():
                    warnings.simplefilter("ignore")
                    sched = pickle.loads(pickle.dumps(sched)) if name == "pickle" else copy.deepcopy(sched)
            except Exception as e:  # pylint: disable=broad-except
                return Failure("oracle", f"{where}: the scheduler cannot be restored: {type(e).__name__}: {e}"), \
                    None, None
            archive = sched.archive
            result = None if result is None else sched.result_archive
            spies = list(sched.emitters)
            log = spies[0]._log  # pylint: disable=protected-access
            for a in (archive, result):
                if a is not None:
                    a._log = log  # pylint: disable=protected-access
            if len(spies) != k or canon_data(archive) != before_a or \
                    (result is not None and canon_data(result) != before_r):
                return Failure("oracle", f"{where}: the restored scheduler has other emitters / archive contents "
                               "than the original"), None, None
            if drv is not None:
                stat(f"snapshot:{name}:{'/'.join(sorted(phases))}")
            continue
        base = name.replace("bad", "")
        bad = name.endswith("bad")
        can = {ph for ph in phases if base in legal[ph]}  # states in which this call is in order
        in_order = bool(can)
        must_accept = can == phases
        before_a = canon_data(archive)
        before_r = canon_data(result) if result is not None else None
        mark = len(log)
        exc, ret = None, None
        ev = None
        try:
            if base in ("ask", "askdqd"):
                for s, n in zip(spies, op["ns"]):
                    s.next_n, s.cur_it = n, it
                ret = sched.ask() if base == "ask" else sched.ask_dqd()
            else:
                if pending is not None:
                    n_rows = sum(pending[1])
                    ev = make_eval(pending[0], n_rows, op["seed"], with_obj, noise)
                else:
                    ev = make_eval(0, 0, op["seed"], with_obj, noise)
                args = {"objective": ev["objective"], "measures": ev["measures"]}
                if case["extra"]:
                    args["tag"], args["vec"] = ev["tag"], ev["vec"]
                jac = ev["jacobian"]
                if op.get("record") and not bad:
                    # tell(**record): the record carries the caller's own copy of the solutions under `solution`
                    mine = np.concatenate(pending[2], axis=0).reshape(-1, SOLDIM) if pending is not None and \
                        pending[2] else np.zeros((0, SOLDIM))
                    args["solution"] = {"shifted": mine * 0.5 + 100.0, "reversed": mine[::-1].copy(),
                                        "zeros": np.zeros_like(mine), "rounded": np.round(mine / 3.0, 2)}[op["record"]]
                    if drv is not None:
                        stat(f"tell:record-with-solution-key:{op['record']}")
                if bad:
                    w = op["which"]
                    if w != "jacobian" and (w not in args or args[w] is None):
                        w = "measures"
                    if w in ("vec", "tag") and not with_obj and op.get("fault") == "shape":
                        w = "measures"  # without an objective an insertion cannot be forced (see below)
                    fault = op.get("fault", "length")
                    n_now = len(ev["measures"])
                    if n_now == 0:
                        fault = "length"  # no row to put a bad value into / shapes of empty batches are not looked at
                    target = np.array(jac if w == "jacobian" else args[w], dtype=None)
                    if fault == "length":
                        target = np.concatenate([target, target[:1]]) if len(target) else \
                            np.zeros((1,) + target.shape[1:], target.dtype)
                    elif fault in ("nan", "inf"):
                        row = op.get("row", 0) % n_now
                        if mode == "single" and w != "jacobian" and not SINGLE_MODE_LATE_ROW_FAULTS:
                            row = 0
                        target = target.astype(float)
                        target[(row,) + (0,) * (target.ndim - 1)] = np.nan if fault == "nan" else \
                            (np.inf if op.get("row", 0) % 2 else -np.inf)
                    else:  # wrong inner shape, right length
                        if w in ("vec", "tag"):
                            # C11 reading: an archive that would insert no row does not look at the extra fields (a
                            # mis-shaped field is then silently accepted and changes nothing).  Row 0 gets an objective
                            # above everything stored, so that the archive does insert and must validate the field.
                            args["objective"] = np.array(args["objective"], dtype=float)
                            args["objective"][0] += 1000.0 + it
                        if target.ndim == 1:  # objective / tag: one column too many
                            target = np.stack([target, target], axis=1)
                        elif w == "jacobian":  # (n, measure_dim, solution_dim): the objective gradient is missing
                            target = target[:, 1:, :]
                        else:  # measures / vec: one column too many
                            target = np.concatenate([target, target[:, :1]], axis=1)
                    if drv is not None:
                        stat(f"fault:{fault}:{w}")
                    if w == "jacobian":
                        jac = target
                    else:
                        args[w] = target
                with warnings.catch_warnings():
                    warnings.simplefilter("ignore")
                    if base == "tell":
                        sched.tell(**args)
                    else:
                        sched.tell_dqd(jacobian=jac, **args)
        except Exception as e:  # pylint: disable=broad-except
            exc = e
        got = exc_kind(exc)
        new = log[mark:]
        if drv is not None:
            stat(f"call:{name}:{got}")

        # ---------------- oracle: the property statement on the logs ----------------
        if not in_order:
            if got != "err runtime":
                return Failure("oracle", f"{where}: out-of-order call did not raise RuntimeError ({got}); protocol "
                               f"state(s) allowed by the history: {sorted(phases)}"), None, None
        elif got == "err runtime":
            if must_accept:
                return Failure("oracle", f"{where}: in-order call raised {got}: {exc} (protocol state(s) "
                               f"{sorted(phases)})"), None, None
            phases = phases - can  # the implementation follows the reading in which this call is out of order
        elif bad:
            if got != "err value":
                return Failure("corr", f"{where}: malformed argument ({op.get('fault', 'length')} fault in "
                               f"{op['which']}) gave {got}, expected ValueError"), None, None
            # both readings from here on: pending ask kept (`can`) or consumed (`base`)
            phases = can | {base}
        elif got != "ok":
            return Failure("oracle", f"{where}: in-order call raised {got}: {exc}"), None, None
        if got != "ok":
            # an archive `add` that changed nothing is harmless (C11 reading: the store does not look at the fields
            # when no row would be inserted, so one archive may notice a mis-shaped field that the other did not):
            # what matters is that no emitter was called and that the contents of both archives are unchanged.
            # An out-of-order call must not reach the archives at all.
            if [e for e in new if e["ev"] != "add" or got == "err runtime"]:
                return Failure("oracle", f"{where}: rejected call ({got}) still called "
                               f"{[(e['ev'], e.get('em')) for e in new]}"), None, None
            if canon_data(archive) != before_a or (result is not None and canon_data(result) != before_r):
                return Failure("oracle", f"{where}: rejected call ({got}) changed archive contents"), None, None
        impl_events = []
        if got == "ok" and base in ("ask", "askdqd"):
            dqd = base == "askdqd"
            asks = [e for e in new if e["ev"] == "ask"]
            if len(asks) != len(new) or sorted(e["em"] for e in asks) != list(range(k)) or \
                    any(e["dqd"] != dqd for e in asks):
                return Failure("oracle", f"{where}: emitters not asked exactly once each: "
                               f"{[(e['ev'], e.get('em'), e.get('dqd')) for e in new]}"), None, None
            # (the order of the calls is compared with the model below; the property fixes the order of the rows)
            outs = [e["out"] for e in sorted(asks, key=lambda e: e["em"])]
            want = np.concatenate(outs, axis=0)
            ret = np.asarray(ret)
            if ret.shape != want.shape or not np.array_equal(ret, want):
                return Failure("oracle", f"{where}: ask result is not the concatenation in emitter order: "
                               f"{ret.tolist()} vs {want.tolist()}"), None, None
            pending = (it, [len(o) for o in outs], outs)
            phases = {base}
            impl_events = [("ask", dqd, e["em"], len(e["out"])) for e in asks]
        elif got == "ok":
            dqd = base == "telldqd"
            pit, ns, outs = pending
            total = sum(ns)
            starts = [sum(ns[:e]) for e in range(k)]
            if drv is not None:
                stat(f"tell:{mode}:{'result' if result is not None else 'noresult'}")
                stat("tell:rows=0" if total == 0 else "tell:rows>0")
                stat("tell:rows-routed", total)
                if any(n == 0 for n in ns) and total > 0:
                    stat("tell:some-emitter-empty")
                if len(set(ns)) > 1:
                    stat("tell:unequal-sizes")
            adds = [e for e in new if e["ev"] == "add"]
            tells = [e for e in new if e["ev"] == "tell"]
            # (a) every row exactly once into each archive, before any emitter is told
            if len(adds) + len(tells) != len(new):
                return Failure("oracle", f"{where}: unexpected calls during tell: "
                               f"{[(e['ev'], e.get('em')) for e in new]}"), None, None
            if [id(e) for e in new[:len(adds)]] != [id(e) for e in adds]:
                return Failure("oracle", f"{where}: an emitter was told before all rows were inserted"), None, None
            for is_result in (False, True):
                mine = [e for e in adds if e["result"] == is_result]
                if is_result and result is None:
                    continue
                seen = []
                for e in mine:
                    ss = sols_of(e["solution"])
                    if ss is None:
                        return Failure("oracle", f"{where}: archive received a malformed solution batch"), None, None
                    rows = []
                    for (em, sit, pos) in ss:
                        if sit != pit or not (0 <= em < k) or not (0 <= pos < ns[em]):
                            return Failure("oracle", f"{where}: archive received a solution nobody generated in "
                                           f"this batch: {(em, sit, pos)}"), None, None
                        rows.append(starts[em] + pos)
                    for fname, arr in [("objective", e["objective"]), ("measures", e["measures"])] + \
                            sorted(e["fields"].items()):
                        if arr is None:
                            if fname == "objective" and not with_obj:
                                continue
                            return Failure("oracle", f"{where}: archive received {fname}=None"), None, None
                        if fname == "objective" and not with_obj:
                            return Failure("oracle", f"{where}: archive received an objective though None "
                                           "was told"), None, None
                        if rows_of(fname, arr, pit) != rows:
                            return Failure("oracle", f"{where}: {fname} inserted into the "
                                           f"{'result ' if is_result else ''}archive is not that of rows {rows}: "
                                           f"{np.asarray(arr).tolist()}"), None, None
                        full = np.asarray(ev[fname])
                        dt = (result if is_result else archive).dtypes[fname]
                        want = (full[rows] if rows else full[:0]).astype(dt)
                        if not np.array_equal(np.asarray(arr).astype(dt), want):
                            return Failure("oracle", f"{where}: {fname} handed to the "
                                           f"{'result ' if is_result else ''}archive for rows {rows} is "
                                           f"{np.asarray(arr).astype(dt).tolist()} (dtype {np.asarray(arr).dtype}); "
                                           f"told, in that archive's dtype {np.dtype(dt)}: {want.tolist()}"), \
                                None, None
                    if case["extra"] and sorted(e["fields"]) != ["tag", "vec"]:
                        return Failure("oracle", f"{where}: extra fields {sorted(e['fields'])} reached the "
                                       "archive"), None, None
                    seen += rows
                if sorted(seen) != list(range(total)):
                    return Failure("oracle", f"{where}: rows inserted into the "
                                   f"{'result ' if is_result else ''}archive: {seen}, expected each of "
                                   f"0..{total - 1} exactly once"), None, None
            if result is None and any(e["result"] for e in adds):
                return Failure("oracle", f"{where}: result archive used though none was given"), None, None
            # feedback of the (main) archive per row
            main = [e for e in adds if not e["result"]]
            fb = {}
            fb_rows = []
            for e in main:
                rows = [starts[em] + pos for (em, _, pos) in sols_of(e["solution"])]
                for key, v in e["ret"].items():
                    v = np.asarray(v)
                    if e["single"]:
                        v = v[None]
                    fb.setdefault(key, []).append(v)
                fb_rows += rows
            inv = np.argsort(np.array(fb_rows, dtype=int), kind="stable") if fb_rows else np.array([], dtype=int)
            fb = {key: np.concatenate(v, axis=0)[inv] for key, v in fb.items()}
            # (b) every emitter told once, in order, exactly its own rows of every array
            told = [e["em"] for e in tells]
            if len(told) != len(set(told)) or any(e["dqd"] != dqd for e in tells) or \
                    any(ns[e] > 0 and e not in told for e in range(k)) or any(not 0 <= e < k for e in told):
                return Failure("oracle", f"{where}: emitters not told exactly once each: "
                               f"{[(e['em'], e['dqd']) for e in tells]} (batch sizes {ns})"), None, None
            if told != list(range(k)):
                # an emitter that generated nothing was not told at all: the rows are still all routed, so the
                # property statement holds; the model (= the code's loop over all emitters) says otherwise
                return Failure("corr", f"{where}: emitters told {told}, model tells every emitter "
                               f"(batch sizes {ns})"), None, None
            for e in tells:
                em = e["em"]
                rows = list(range(starts[em], starts[em] + ns[em]))
                if e["solution"].shape != outs[em].shape or not np.array_equal(e["solution"], outs[em]):
                    return Failure("oracle", f"{where}: emitter {em} was told solutions "
                                   f"{sols_of(e['solution'])}, it generated {sols_of(outs[em])}"), None, None
                arrays = [("objective", e["objective"]), ("measures", e["measures"])] + sorted(e["fields"].items())
                if dqd:
                    arrays.append(("jacobian", e["jacobian"]))
                if case["extra"] and sorted(e["fields"]) != ["tag", "vec"]:
                    return Failure("oracle", f"{where}: emitter {em} received extra fields "
                                   f"{sorted(e['fields'])}"), None, None
                for fname, arr in arrays:
                    if fname == "objective" and not with_obj:
                        if arr is not None:
                            return Failure("oracle", f"{where}: emitter {em} received an objective though None "
                                           "was told"), None, None
                        continue
                    if arr is None or rows_of(fname, arr, pit) != rows:
                        return Failure("oracle", f"{where}: emitter {em} received {fname} of rows "
                                       f"{None if arr is None else rows_of(fname, arr, pit)} "
                                       f"(shape {None if arr is None else np.asarray(arr).shape}), its rows are "
                                       f"{rows}"), None, None
                    full = np.asarray(ev[fname])
                    want = full[rows[0]:rows[-1] + 1] if rows else full[:0]
                    if not np.array_equal(np.asarray(arr), want) or np.asarray(arr).dtype != full.dtype:
                        return Failure("oracle", f"{where}: emitter {em} received {fname} = "
                                       f"{np.asarray(arr).tolist()} (dtype {np.asarray(arr).dtype}), told "
                                       f"{want.tolist()} (dtype {full.dtype})"), None, None
                if total == 0:
                    # no rows at all: batch mode hands out empty arrays, single mode a dict without keys
                    if any(len(np.asarray(v)) != 0 for v in e["add_info"].values()):
                        return Failure("oracle", f"{where}: emitter {em} received feedback rows though no row "
                                       "was evaluated"), None, None
                    continue
                if set(e["add_info"]) != set(fb):
                    return Failure("oracle", f"{where}: emitter {em} feedback keys {sorted(e['add_info'])} vs "
                                   f"archive feedback keys {sorted(fb)}"), None, None
                for key, v in e["add_info"].items():
                    # the add feedback is documented as one value per solution ((batch_size,) arrays) in both add
                    # modes: this is the form every emitter validates before it ranks
                    if key in ("status", "value", "novelty", "local_competition") and \
                            np.asarray(v).shape != (len(rows),):
                        return Failure("oracle", f"{where}: emitter {em} received feedback '{key}' of shape "
                                       f"{np.asarray(v).shape} for its {len(rows)} rows (add_mode={mode}); the "
                                       f"archive's add feedback is one value per solution"), None, None
                    want = fb[key][rows[0]:rows[-1] + 1] if rows else fb[key][:0]
                    if np.asarray(v).shape != want.shape or not np.array_equal(np.asarray(v), want):
                        return Failure("oracle", f"{where}: emitter {em} feedback '{key}' = "
                                       f"{np.asarray(v).tolist()}, the archive returned {want.tolist()} for its "
                                       f"rows {rows}"), None, None
            # (c) archive contents against the elitist reference (plain grid archives only)
            for p in range(total):
                m = ev["measures"][p]
                row = {"objective": ev["objective"][p] if with_obj else np.float64(0.0), "measures": m}
                if case["extra"]:
                    row["tag"], row["vec"] = ev["tag"][p], ev["vec"][p]
                em = max(e for e in range(k) if starts[e] <= p and ns[e] > 0 and p < starts[e] + ns[e])
                row["solution"] = np.array([float(em), float(pit), float(p - starts[em])])
                row["id"] = (pit, p)
                meta[(em, pit, p - starts[em])] = row
            for arch, aname in ((archive, "archive"), (result, "result archive")):
                if arch is None:
                    continue
                d = arch.data()
                elitist = case["archive"] == "grid" or (case["archive"] == "cmamae" and arch is result)
                ref = refs.setdefault(aname, {})
                if elitist:
                    # best of history per cell, compared in this archive's own objective / measures dtype
                    for p in range(total):
                        obj = np.asarray(ev["objective"][p]).astype(arch.dtypes["objective"])
                        mc = np.asarray(ev["measures"][p]).astype(arch.dtypes["measures"])
                        cell = int(mc[0]) * 4 + int(mc[1])
                        if cell not in ref or obj > ref[cell][0]:
                            ref[cell] = (obj, pit, p)
                if elitist and sorted(int(i) for i in d["index"]) != sorted(ref):
                    return Failure("oracle", f"{where}: {aname} occupies cells {sorted(int(i) for i in d['index'])}"
                                   f", best-of-history occupies {sorted(ref)}"), None, None
                for j, idx in enumerate(d["index"]):
                    ss = sols_of(d["solution"][j][None])[0]
                    r = meta.get(ss)  # the told row this stored solution belongs to
                    if r is None or r["solution"].tolist() != np.asarray(d["solution"][j]).tolist():
                        return Failure("oracle", f"{where}: {aname} stores a solution that was never told: "
                                       f"{ss}"), None, None
                    for fname in ["objective", "measures"] + (["tag", "vec"] if case["extra"] else []):
                        # stored = the told value cast once to this archive's dtype of the field
                        dt = arch.dtypes[fname]
                        want = np.asarray(r[fname]).astype(dt)
                        if np.asarray(d[fname]).dtype != dt or np.asarray(d[fname][j]).tolist() != want.tolist():
                            return Failure("oracle", f"{where}: {aname} cell {int(idx)}: field {fname} = "
                                           f"{np.asarray(d[fname][j]).tolist()} (dtype {np.asarray(d[fname]).dtype}) "
                                           f"is not the value told for the stored solution {ss} cast to "
                                           f"{np.dtype(dt)}: {want.tolist()} (told {np.asarray(r[fname]).tolist()})"), \
                                None, None
                    if elitist and ref[int(idx)][1:] != r["id"]:
                        return Failure("oracle", f"{where}: {aname} cell {int(idx)} holds row {r['id']}, "
                                       f"best-of-history is {ref[int(idx)][1:]}"), None, None
            phases = {base}
            # events for the model comparison
            for e in adds:
                ss = sols_of(e["solution"])
                impl_events.append(("add", e["result"], [starts[em] + pos for (em, _, pos) in ss]))
            for e in tells:
                impl_events.append(("tell", dqd, e["em"], [(a, c) for (a, _, c) in sols_of(e["solution"])],
                                    rows_of("measures", e["measures"], pit)))
            pending = None

        # ---------------- correspondence with the Lean model ----------------
        if drv is not None:
            if base in ("ask", "askdqd"):
                ns_model = [n if (base == "ask" or d["dqd"]) else 0 for n, d in zip(op["ns"], case["emitters"])]
                m = drv.ask(f"{base} {nl(ns_model)}")
            else:
                m = drv.ask(name)
            mk = m if m.startswith("err") else "ok"
            if mk != got:
                return Failure("corr", f"{where}: outcome impl={got} model={m}"), None, None
            if got == "ok":
                fields = dict(t.split("=", 1) for t in m.split()[1:])
                if "sols" in fields:
                    msols = [] if fields["sols"] == "-" else \
                        [tuple(int(x) for x in t.split(".")) for t in fields["sols"].split(",")]
                    isols = sols_of(np.asarray(ret).reshape(-1, SOLDIM))
                    if [(a, c) for a, _, c in isols] != msols or any(b != it for _, b, _ in isols):
                        return Failure("corr", f"{where}: ask result impl={isols} model={msols}"), None, None
                mev = parse_events(fields["ev"])
                if mev != impl_events:
                    return Failure("corr", f"{where}: calls made impl={impl_events} model={mev}"), None, None
    return None, canon_data(archive), (canon_data(result) if result is not None else None)


def run_case(case):
    drv = Driver("sched")
    try:
        f, data_a, data_r = run_mode(case, case["mode"], drv)
    finally:
        drv.close()
    if f is not None:
        return f
    # T04.4 (correspondence only): the other add mode leaves identical contents in elitist archives
    other = "single" if case["mode"] == "batch" else "batch"
    f2, data_a2, data_r2 = run_mode(case, other, None)
    if f2 is not None:
        return Failure(f2.kind, f"[add_mode={other}] {f2.what}")
    if case["archive"] == "grid" and data_a != data_a2:
        return Failure("oracle", f"add_mode {case['mode']} and {other} leave different archive contents: "
                       f"{data_a} vs {data_a2}")
    if case["archive"] in ("grid", "cmamae") and data_r != data_r2:
        return Failure("oracle", f"add_mode {case['mode']} and {other} leave different result archive contents")
    return None


def gen_multi(rng):
    """Two or three schedulers alive at once -- own archives, own spy emitters, own batch sizes -- whose calls are
    interleaved in a generated order; every scheduler is judged by its own oracle state and its own model instance."""
    m = rng.choice([2, 2, 3])
    subs, streams = [], []
    for i in range(m):
        sub = gen_with(rng.choice(["grid", "grid", "cmamae", "proximity"]), rng)
        streams.append([dict(op, s=i) for op in sub.pop("ops")])
        subs.append(sub)
    ops = []
    while any(streams):
        i = rng.choice([j for j in range(m) if streams[j]])
        for _ in range(rng.choice([1, 1, 1, 2])):  # mostly strict alternation: A.ask B.ask A.tell B.tell
            if streams[i]:
                ops.append(streams[i].pop(0))
    return {"multi": subs, "ops": ops}


def nontrivial_multi(case):
    """at least two of the schedulers complete an ask ... tell cycle each"""
    done = set()
    open_ = {}
    for op in case["ops"]:
        if op["op"] in ("ask", "askdqd"):
            open_.setdefault(op["s"], op["op"])
        elif op["op"] in ("tell", "telldqd") and open_.get(op["s"]) == {"tell": "ask", "telldqd": "askdqd"}[op["op"]]:
            done.add(op["s"])
            del open_[op["s"]]
    return len(done) >= 2


def run_multi(case):
    drvs = [Driver("sched") for _ in case["multi"]]
    cos = [_run_mode_co(dict(sub, ops=[]), sub["mode"], d) for sub, d in zip(case["multi"], drvs)]
    try:
        for co in cos:
            next(co)
        for it, op in enumerate(case["ops"]):
            try:
                cos[op["s"]].send((it, op))
            except StopIteration as e:
                f = e.value[0]
                return None if f is None else Failure(f.kind, f"[scheduler {op['s']} of {len(cos)}] {f.what}")
        for i, co in enumerate(cos):
            try:
                co.send(None)
            except StopIteration as e:
                if e.value[0] is not None:
                    return Failure(e.value[0].kind, f"[scheduler {i} of {len(cos)}] {e.value[0].what}")
        return None
    finally:
        for d in drvs:
            d.close()


# ---------------------------------------------------------------------------
# large batches: oracle only (no lock step).  Every emitter's add feedback and both archives' contents are compared
# with ONE `add` of the whole evaluated batch (add_mode='single': with the rows added one by one) on a deep copy of the
# archive taken just before the call.


def split_total(rng, total, k):
    """`total` rows over `k` emitters, unequal, now and then an emitter without rows"""
    w = [0.0 if (k > 1 and rng.random() < 0.15) else rng.random() + 0.05 for _ in range(k)]
    if sum(w) == 0:
        w[rng.randrange(k)] = 1.0
    ns = [int(total * x / sum(w)) for x in w]
    ns[max(range(k), key=lambda i: w[i])] += total - sum(ns)
    return ns


def gen_large(rng):
    kind = rng.choice(["grid", "grid", "cmamae", "proximity"])
    k = rng.choice([1, 2, 2, 3, 3, 4, 6])
    emitters = [{"dqd": rng.random() < 0.6} for _ in range(k)]
    mode = rng.choice(["batch", "batch", "batch", "single"])
    case = {"archive": kind, "mode": mode, "result": rng.random() < 0.6, "extra": rng.random() < 0.4,
            "emitters": emitters, "large": True}
    if rng.random() < 0.4:
        names = ["f64", "f32", "dict32", "dictA", "dictB"]
        case["dtype"] = {"main": rng.choice(names), "result": rng.choice(names)}
        case["xdtype"] = {w: [rng.choice(["i64", "i32"]), rng.choice(["f64", "f32"])] for w in ("main", "result")}
    ndqd = sum(e["dqd"] for e in emitters)
    ops = []
    for _ in range(rng.randint(2, 3)):
        dqd = ndqd > 0 and rng.random() < 0.4
        if mode == "single":  # row by row: thousands of add_single calls per archive and reference
            total = rng.choice([rng.randint(0, 40), rng.randint(200, 800)])
        else:
            total = rng.choice([rng.randint(4097, 9000), rng.randint(4097, 9000), rng.randint(5000, 20000),
                                2**rng.randint(10, 14) + rng.choice([-1, 0, 1, 1]), rng.randint(1, 300)])
        who = [i for i, e in enumerate(emitters) if e["dqd"]] if dqd else list(range(k))
        part = split_total(rng, total, len(who))
        ns = [0] * k
        for i, n in zip(who, part):
            ns[i] = n
        if dqd:  # what a non-DQD emitter is configured to emit does not matter in ask_dqd
            ns = [n if e["dqd"] else rng.randint(0, 50) for n, e in zip(ns, emitters)]
        ops.append({"op": "askdqd" if dqd else "ask", "ns": ns})
        if rng.random() < 0.3:
            # a rejected tell in between: one non-finite value anywhere in the batch (head, tail, past the rows of the
            # first emitter, around block borders); the run goes on afterwards
            ops.append({"op": "telldqdbad" if dqd else "tellbad", "seed": rng.randrange(1 << 30),
                        "fault": rng.choice(["nan", "inf"]),
                        "which": rng.choice(["measures", "objective"] + (["jacobian"] if dqd else [])),
                        "rowsel": rng.choice(["head", "tail", "any", "any", "border"]), "u": rng.random()})
            ops.append({"op": "askdqd" if dqd else "ask", "ns": ns})
        ops.append({"op": "telldqd" if dqd else "tell", "seed": rng.randrange(1 << 30)})
    case["ops"] = ops
    return case


def nontrivial_large(case):
    """an accepted tell with more rows than any power-of-two block up to 4096, routed to at least two emitters"""
    for op in case["ops"]:
        if op["op"] in ("ask", "askdqd"):
            ns = [n for n, e in zip(op["ns"], case["emitters"]) if op["op"] == "ask" or e["dqd"]]
            if sum(ns) > 4096 and sum(1 for n in ns if n > 0) >= 2:
                return True
    return False


def large_eval(seed, it, n, with_obj):
    r = np.random.default_rng(seed)
    return {
        # objectives drift upwards along the batch: late rows tend to beat early rows of the same cell
        "objective": (r.random(n) * 3.0 + np.linspace(0.0, 1.0, n)) if with_obj else None,
        "measures": r.uniform(0.0, 4.0, size=(n, MDIM)),
        "tag": (np.arange(n) + it * 100000).astype(np.int64),
        "vec": r.normal(size=(n, 2)),
        "jacobian": r.normal(size=(n, 1 + MDIM, SOLDIM)),
    }


def _same(a, b, dtype=True):
    a, b = np.asarray(a), np.asarray(b)
    if a.shape != b.shape or (dtype and a.dtype != b.dtype):
        return False
    if a.dtype.kind == "f":
        return bool(np.all((a == b) | (np.isnan(a) & np.isnan(b))))
    return bool(np.array_equal(a, b))


def _contents(arch):
    d = arch.data()
    order = np.argsort(d["index"], kind="stable")
    return {k_: np.asarray(v)[order] for k_, v in d.items()}


def _same_contents(a, b):
    return sorted(a) == sorted(b) and all(_same(a[k_], b[k_]) for k_ in a)


def _bucket(n):
    for hi in (0, 64, 1024, 4096, 8192):
        if n <= hi:
            return f"<={hi}"
    return ">8192"


def run_large(case):
    mode = case["mode"]
    sched, archive, result, spies, log = build(case, mode)
    k = len(spies)
    with_obj = case["archive"] != "proximity"
    legal = {"none": ("ask", "askdqd"), "tell": ("ask", "askdqd"), "telldqd": ("ask", "askdqd"),
             "ask": ("tell",), "askdqd": ("telldqd",)}
    phases = {"none"}  # protocol states the property allows (two readings after a tell rejected with ValueError)
    pending = None  # (it, ns, outs) of the last accepted ask
    for it, op in enumerate(case["ops"]):
        name = op["op"]
        where = f"op#{it} {name}"
        base = name.replace("bad", "")
        bad = name.endswith("bad")
        can = {ph for ph in phases if base in legal[ph]}
        mark = len(log)
        before_a = _contents(archive)
        before_r = _contents(result) if result is not None else None
        exc, ret = None, None
        ref_a = ref_r = None
        row = w = None
        if base in ("ask", "askdqd"):
            for s, n in zip(spies, op["ns"]):
                s.next_n, s.cur_it = n, it
            try:
                ret = sched.ask() if base == "ask" else sched.ask_dqd()
            except Exception as e:  # pylint: disable=broad-except
                exc = e
        else:
            pit, ns, outs = pending if pending is not None else (0, [0] * k, [np.zeros((0, SOLDIM))] * k)
            dqd = base == "telldqd"
            total = sum(ns)
            starts = np.concatenate([[0], np.cumsum(ns)]).astype(int)
            full = np.concatenate(outs, axis=0).reshape(-1, SOLDIM)
            ev = large_eval(op["seed"], pit, total, with_obj)
            args = {"objective": ev["objective"], "measures": ev["measures"]}
            if case["extra"]:
                args["tag"], args["vec"] = ev["tag"], ev["vec"]
            jac = ev["jacobian"]
            if bad and total == 0:
                continue  # no row to put a bad value into
            if bad:
                w = op["which"] if (op["which"] == "jacobian" and dqd or args.get(op["which"]) is not None) \
                    else "measures"
                border = [b_ for b_ in (64, 256, 1024, 4096, 8192, 16384) if b_ < total] + \
                    [int(x) for x in starts[1:-1]]
                row = {"head": 0, "tail": total - 1, "any": int(op["u"] * total),
                       "border": (border[int(op["u"] * len(border))] if border else total - 1)}[op["rowsel"]]
                row = min(max(row, 0), total - 1)
                if mode == "single" and w != "jacobian" and not SINGLE_MODE_LATE_ROW_FAULTS:
                    row = 0
                target = np.array(jac if w == "jacobian" else args[w], dtype=float)
                target[(row,) + (0,) * (target.ndim - 1)] = np.nan if op["fault"] == "nan" else np.inf
                if w == "jacobian":
                    jac = target
                else:
                    args[w] = target
            elif can:
                # reference for an accepted tell: copies of the archives as they are before the call
                memo = {id(log): log}
                ref_a = copy.deepcopy(archive, memo)
                ref_r = copy.deepcopy(result, memo) if result is not None else None
                scratch = []
                for a_ in (ref_a, ref_r):
                    if a_ is not None:
                        a_._log = scratch  # pylint: disable=protected-access
            try:
                with warnings.catch_warnings():
                    warnings.simplefilter("ignore")
                    if dqd:
                        sched.tell_dqd(jacobian=jac, **args)
                    else:
                        sched.tell(**args)
            except Exception as e:  # pylint: disable=broad-except
                exc = e
        got = exc_kind(exc)
        new = log[mark:]
        stat(f"large:call:{name}:{got}")
        # ---- protocol (same readings as the lock-step strata) ----
        if not can:
            if got != "err runtime":
                return Failure("oracle", f"{where}: out-of-order call did not raise RuntimeError ({got}); protocol "
                               f"state(s) allowed by the history: {sorted(phases)}")
        elif got == "err runtime":
            if can == phases:
                return Failure("oracle", f"{where}: in-order call raised {got}: {exc} (protocol state(s) "
                               f"{sorted(phases)})")
            phases = phases - can
        elif bad:
            if got != "err value":
                return Failure("oracle", f"{where}: {op['fault']} in row {row} of {w} ({total} rows, batch sizes "
                               f"{ns}) gave {got}, expected ValueError")
            phases = can | {base}
            stat(f"large:rejected-tell:{mode}:row{_bucket(row)}-of-{_bucket(total)}")
        elif got != "ok":
            return Failure("oracle", f"{where}: in-order call raised {got}: {exc}")
        if got != "ok":
            if [e for e in new if e["ev"] != "add" or got == "err runtime"]:
                return Failure("oracle", f"{where}: rejected call ({got}"
                               + (f"; {op['fault']} in row {row} of {w}, batch sizes {ns}" if bad else "")
                               + ") still called "
                               f"{sorted({(e['ev'], -1 if e.get('em') is None else e['em']) for e in new})}")
            if not _same_contents(_contents(archive), before_a) or \
                    (result is not None and not _same_contents(_contents(result), before_r)):
                return Failure("oracle", f"{where}: rejected call ({got}"
                               + (f"; {op['fault']} in row {row} of {w}, {total} rows, batch sizes {ns}" if bad else "")
                               + ") changed archive contents")
            continue
        phases = {base}
        if base in ("ask", "askdqd"):
            asks = new
            if [e["ev"] for e in asks] != ["ask"] * k or sorted(e["em"] for e in asks) != list(range(k)) or \
                    any(e["dqd"] != (base == "askdqd") for e in asks):
                return Failure("oracle", f"{where}: emitters not asked exactly once each: "
                               f"{[(e['ev'], e.get('em')) for e in asks]}")
            outs = [e["out"] for e in sorted(asks, key=lambda e: e["em"])]
            want = np.concatenate(outs, axis=0)
            if np.asarray(ret).shape != want.shape or not np.array_equal(ret, want):
                return Failure("oracle", f"{where}: ask result ({np.asarray(ret).shape[0]} rows) is not the "
                               f"concatenation, in emitter order, of what the emitters generated "
                               f"({[len(o) for o in outs]} rows)")
            pending = (it, [len(o) for o in outs], outs)
            continue

        # ---- an accepted tell: reference = one add of the whole batch on the copies of the archives ----
        pending = None
        stat(f"large:tell:{mode}:rows{_bucket(total)}")
        stat("large:tell:rows-routed", total)
        stat(f"large:tell:{'dqd' if dqd else 'plain'}:{'result' if result is not None else 'noresult'}")
        told = dict(args)
        with warnings.catch_warnings():
            warnings.simplefilter("ignore")
            if mode == "batch":
                exp = {key: np.asarray(v) for key, v in ref_a.add(full, **told).items()}
                if ref_r is not None:
                    ref_r.add(full, **told)
            else:
                rets = []
                for p in range(total):
                    rowargs = {key: (None if v is None else v[p]) for key, v in told.items()}
                    rets.append(ref_a.add_single(full[p], **rowargs))
                    if ref_r is not None:
                        ref_r.add_single(full[p], **rowargs)
                exp = {key: np.asarray([r[key] for r in rets]) for key in (rets[0] if rets else {})}
        adds = [e for e in new if e["ev"] == "add"]
        tells = [e for e in new if e["ev"] == "tell"]
        if len(adds) + len(tells) != len(new) or [id(e) for e in new[:len(adds)]] != [id(e) for e in adds]:
            return Failure("oracle", f"{where}: an emitter was told before all rows were inserted")
        if result is None and any(e["result"] for e in adds):
            return Failure("oracle", f"{where}: result archive used though none was given")
        # (a) every evaluated row exactly once into each archive, with its own values
        for is_result, arch in ((False, archive), (True, result)):
            if arch is None:
                continue
            mine = [e for e in adds if e["result"] == is_result]
            got_s = np.concatenate([e["solution"].reshape(-1, SOLDIM) for e in mine], axis=0) if mine else full[:0]
            aname = "result archive" if is_result else "archive"
            em, pos = got_s[:, 0].astype(int), got_s[:, 2].astype(int)
            ok = got_s.shape[0] == total and bool(np.all((em >= 0) & (em < k))) and bool(np.all(got_s[:, 1] == pit))
            rows = (starts[np.clip(em, 0, k - 1)] + pos) if got_s.shape[0] else np.zeros(0, dtype=int)
            if not ok or not np.array_equal(np.sort(rows), np.arange(total)) or \
                    not np.array_equal(full[rows], got_s):
                return Failure("oracle", f"{where}: the {aname} received {got_s.shape[0]} rows in {len(mine)} add "
                               f"call(s); expected each of the {total} evaluated rows (the solutions the emitters "
                               f"generated) exactly once")
            for fname, fullv in told.items():
                if fullv is None:
                    if any(e["objective"] is not None for e in mine):
                        return Failure("oracle", f"{where}: the {aname} received an objective though None was told")
                    continue
                vals = [e["objective"] if fname == "objective" else e["measures"] if fname == "measures" else
                        e["fields"].get(fname) for e in mine]
                if any(v is None for v in vals):
                    return Failure("oracle", f"{where}: the {aname} did not receive {fname}")
                dt = arch.dtypes[fname]
                vals = np.concatenate([np.asarray(v).astype(dt) for v in vals], axis=0) if vals else \
                    fullv[:0].astype(dt)
                if vals.shape != fullv.shape or not np.array_equal(vals, fullv[rows].astype(dt)):
                    return Failure("oracle", f"{where}: {fname} handed to the {aname} is not that of the rows it "
                                   f"came with")
        # (b) every emitter exactly its own rows of every array, and the feedback of the one add of the batch
        who = [e["em"] for e in tells]
        if len(who) != len(set(who)) or any(e["dqd"] != dqd for e in tells) or \
                any(ns[e] > 0 and e not in who for e in range(k)) or any(not 0 <= e < k for e in who):
            return Failure("oracle", f"{where}: emitters not told exactly once each: {who} (batch sizes {ns})")
        for e in tells:
            em = e["em"]
            lo, hi = int(starts[em]), int(starts[em + 1])
            if e["solution"].shape != outs[em].shape or not np.array_equal(e["solution"], outs[em]):
                return Failure("oracle", f"{where}: emitter {em} was told {len(e['solution'])} solutions that are "
                               f"not the {len(outs[em])} it generated")
            arrays = [("objective", e["objective"]), ("measures", e["measures"])] + sorted(e["fields"].items())
            if dqd:
                arrays.append(("jacobian", e["jacobian"]))
            if sorted(e["fields"]) != (["tag", "vec"] if case["extra"] else []):
                return Failure("oracle", f"{where}: emitter {em} received extra fields {sorted(e['fields'])}")
            for fname, arr in arrays:
                fullv = jac if fname == "jacobian" else told[fname]
                if fullv is None:
                    if arr is not None:
                        return Failure("oracle", f"{where}: emitter {em} received an objective though None was told")
                    continue
                if arr is None or not _same(arr, fullv[lo:hi]):
                    return Failure("oracle", f"{where}: emitter {em} received {fname} that is not rows {lo}..{hi - 1} "
                                   f"of what was told (batch sizes {ns})")
            if total == 0:
                if any(len(np.asarray(v)) != 0 for v in e["add_info"].values()):
                    return Failure("oracle", f"{where}: emitter {em} received feedback rows though no row was "
                                   "evaluated")
                continue
            if set(e["add_info"]) != set(exp):
                return Failure("oracle", f"{where}: emitter {em} feedback keys {sorted(e['add_info'])} vs archive "
                               f"feedback keys {sorted(exp)}")
            for key, v in e["add_info"].items():
                want = exp[key][lo:hi]
                v = np.asarray(v)
                if not _same(v, want, dtype=(mode == "batch")):
                    nd = int(np.count_nonzero(v != want)) if v.shape == want.shape else -1
                    first = int(np.flatnonzero((v != want).reshape(len(want), -1).any(axis=1))[0]) + lo \
                        if nd > 0 else None
                    return Failure("oracle", f"{where}: emitter {em} (rows {lo}..{hi - 1} of {total}, batch sizes "
                                   f"{ns}, add_mode={mode}) received feedback '{key}' that is not the archive's add "
                                   f"feedback for the evaluated batch (one add of the {total} rows on a copy of the "
                                   f"archive as it was before the call): shape {v.shape} dtype {v.dtype} vs "
                                   f"{want.shape} {want.dtype}, {nd} entries differ, first at batch row {first}")
        # (c) contents of both archives = those after the one add
        for arch, ref, aname in ((archive, ref_a, "archive"), (result, ref_r, "result archive")):
            if arch is not None and not _same_contents(_contents(arch), _contents(ref)):
                return Failure("oracle", f"{where}: contents of the {aname} after the call differ from those after "
                               f"one add of the evaluated batch ({total} rows, batch sizes {ns}, add_mode={mode}) on "
                               f"a copy of the {aname} as it was before the call")
    return None


def run(ctx):
    q = ctx.quick
    STATS.clear()
    try:
        _run(ctx, q)
    finally:
        for key, v in sorted(STATS.items()):
            ctx.count(key, v)


def _run(ctx, q):
    ctx.explore("grid", lambda r: gen_with("grid", r), run_case, ctx.n(220, 9000), nontrivial=nontrivial,
                time_budget=8 if q else 120)
    ctx.explore("cmamae-result", lambda r: gen_with("cmamae", r), run_case, ctx.n(100, 4000),
                nontrivial=nontrivial, time_budget=5 if q else 70)
    ctx.explore("proximity-objective-none", lambda r: gen_with("proximity", r), run_case, ctx.n(100, 4000),
                nontrivial=nontrivial, time_budget=5 if q else 70)
    ctx.explore("long", lambda r: gen_with(r.choice(["grid", "grid", "cmamae", "proximity"]), r, long=True),
                run_case, ctx.n(40, 3000), nontrivial=nontrivial, time_budget=5 if q else 90)
    # BanditScheduler routes rows "as Scheduler does" (its tell is its own code): the C16 runner, judged here
    # only on the routing clauses (which emitter is asked / told which rows)
    ctx.explore("bandit-routing", _bandit_gen, _bandit_run, ctx.n(60, 3000), time_budget=4 if q else 60)
    ctx.explore("several-schedulers", gen_multi, run_multi, ctx.n(60, 3000), nontrivial=nontrivial_multi,
                time_budget=4 if q else 60)
    ctx.explore("large-batch", gen_large, run_large, ctx.n(14, 400), nontrivial=nontrivial_large,
                time_budget=10 if q else 90)


def _bandit_gen(rng):
    from props import c16
    # (restart-heavy histories re-activate low-index emitters late: the order of the rows in ask matters then)
    case = c16.gen_with("some", rng, style=rng.choice(["plain", "restarts"]))
    case["bandit"] = True
    return case


def _bandit_run(case):
    from props import c16
    f = c16.run_case(case)
    if f is not None and f.kind == "oracle" and (" was told " in f.what or " was asked " in f.what or "ask returned" in f.what
                                                 or "ask result" in f.what or "asked [" in f.what
                                                 or "a solution nobody generated" in f.what):
        return Failure("oracle", "[BanditScheduler routing] " + f.what)
    return None


def replay(ctx, case):
    if case.get("multi"):
        return run_multi(case)
    if case.get("large"):
        return run_large(case)
    return _bandit_run(case) if case.get("bandit") else run_case(case)
