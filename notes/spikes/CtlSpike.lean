/-! spike: ES-emitter control automaton (C10) and remap boundary sortedness (C15), core Lean only -/
inductive Rule | basic | noImprovement | every (n : Nat)
inductive Sel | mu | filter
structure Ctl where
  itrs : Nat
  restarts : Nat
structure TellIn where
  statuses : List Nat
  stop : Bool
  batch : Nat

def newSols (t : TellIn) : Nat := (t.statuses.filter (· ≠ 0)).length
def numParents (sel : Sel) (t : TellIn) : Nat := match sel with | .filter => newSols t | .mu => t.batch / 2
def ruleFires (r : Rule) (itrs' : Nat) (t : TellIn) : Bool :=
  match r with
  | .basic => false
  | .noImprovement => newSols t == 0
  | .every n => itrs' % n == 0
def restartNow (r : Rule) (c : Ctl) (t : TellIn) : Bool := t.stop || ruleFires r (c.itrs + 1) t
def tell (r : Rule) (c : Ctl) (t : TellIn) : Ctl :=
  { itrs := c.itrs + 1, restarts := c.restarts + (if restartNow r c t then 1 else 0) }

/-- restart decisions along a history, computed from the iteration number alone -/
def decisions (r : Rule) : Nat → List TellIn → List Bool
  | _, [] => []
  | k, t :: ts => (t.stop || ruleFires r (k + 1) t) :: decisions r (k + 1) ts

theorem history_counts (r : Rule) (c : Ctl) (ts : List TellIn) :
    (ts.foldl (tell r) c).itrs = c.itrs + ts.length ∧
    (ts.foldl (tell r) c).restarts = c.restarts + ((decisions r c.itrs ts).filter id).length := by
  induction ts generalizing c with
  | nil => simp [decisions]
  | cons t ts ih =>
    have ih' := ih (tell r c t)
    have e1 : (tell r c t).itrs = c.itrs + 1 := rfl
    have e2 : (tell r c t).restarts = c.restarts + (if restartNow r c t then 1 else 0) := rfl
    rw [e1, e2] at ih'
    simp only [List.foldl_cons, decisions, List.length_cons]
    refine ⟨by omega, ?_⟩
    rw [ih'.2]
    unfold restartNow
    by_cases h : (t.stop || ruleFires r (c.itrs + 1) t) = true
    · simp [h]; omega
    · simp [h]

/-- 'basic' never restarts on its own; integer rule N restarts exactly on tells N, 2N, … -/
theorem basic_iff (c : Ctl) (t : TellIn) : restartNow .basic c t = t.stop := by simp [restartNow, ruleFires]
theorem every_iff (n : Nat) (c : Ctl) (t : TellIn) (h : t.stop = false) :
    restartNow (.every n) c t = true ↔ (c.itrs + 1) % n = 0 := by simp [restartNow, ruleFires, h]
theorem noImp_iff (c : Ctl) (t : TellIn) (h : t.stop = false) :
    restartNow .noImprovement c t = true ↔ ∀ s ∈ t.statuses, s = 0 := by
  simp [restartNow, ruleFires, h, newSols, List.filter_eq_nil_iff]

/-! remap boundaries: b_j = sorted[⌊j·n/d⌋] -/
def rankIdx (n d j : Nat) : Nat := j * n / d
theorem rankIdx_lt (n d j : Nat) (hd : 0 < d) (hj : j < d) (hn : 0 < n) : rankIdx n d j < n := by
  unfold rankIdx
  rw [Nat.div_lt_iff_lt_mul hd]
  calc j * n < d * n := Nat.mul_lt_mul_of_pos_right hj hn
    _ = n * d := Nat.mul_comm _ _
theorem rankIdx_mono (n d j k : Nat) (h : j ≤ k) : rankIdx n d j ≤ rankIdx n d k :=
  Nat.div_le_div_right (Nat.mul_le_mul_right n h)

/-- a nondecreasing list read at nondecreasing positions is nondecreasing -/
theorem sorted_get_mono (l : List Int) (hs : l.Pairwise (· ≤ ·)) (a b : Nat) (hab : a ≤ b) (hb : b < l.length) :
    l[a]'(by omega) ≤ l[b] := by
  rcases Nat.lt_or_eq_of_le hab with h | h
  · exact List.pairwise_iff_getElem.mp hs a b (by omega) hb h
  · subst h; exact Int.le_refl _

theorem boundaries_sorted (l : List Int) (hs : l.Pairwise (· ≤ ·)) (d j k : Nat) (hd : 0 < d)
    (hjk : j ≤ k) (hk : k < d) (hn : 0 < l.length) :
    l[rankIdx l.length d j]'(rankIdx_lt _ _ _ hd (by omega) hn) ≤ l[rankIdx l.length d k]'(rankIdx_lt _ _ _ hd hk hn) :=
  sorted_get_mono l hs _ _ (rankIdx_mono _ _ _ _ hjk) _
#print axioms boundaries_sorted
#print axioms history_counts
