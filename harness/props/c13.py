"""C13 — ArrayStore occupancy bookkeeping stays exact under add, clear and resize.

Correspondence: the real `ribs.archives.ArrayStore` and the Lean `Store` model
(`PyribsModel/Store.lean`) are driven in lock step over generated histories.
Oracle: a direct reading of the property on the implementation's own
observations (insertion-ordered dictionary semantics kept by the harness).
"""
import copy
import io
import pickle

import numpy as np

from core import Driver, Failure, nl

ID = "C13"
PROOF_MODULES = ["PyribsProofs.C13", "PyribsProofs.C13b"]
THEOREMS = [
    "Pyribs.C13.wf_run",
    "Pyribs.C13.wf_add",
    "Pyribs.C13.wf_rawAdd",
    "Pyribs.C13.wf_clear",
    "Pyribs.C13.wf_resize",
    "Pyribs.C13.len_eq_count",
    "Pyribs.C13.data_spec",
    "Pyribs.C13.order",
    "Pyribs.C13.newIndices_sorted",
    "Pyribs.C13.add_prefix",
    "Pyribs.C13.read_your_writes",
    "Pyribs.C13.lastWrite_last",
    "Pyribs.C13.rawAdd_error_unchanged",
    "Pyribs.C13.never_written_unoccupied",
    "Pyribs.C13.resize_preserves",
    "Pyribs.C13.resize_reject_iff",
    "Pyribs.C13.raw_roundtrip",
    "Pyribs.C13.equiv_eq",
    "Pyribs.C13.iterator_stale_iff",
    "Pyribs.C13.iterator_yields",
    "Pyribs.C13.add_invalidates",
    "Pyribs.C13.clear_invalidates",
    "Pyribs.C13.nonvacuous",
    "Pyribs.C13b.abs_keys",
    "Pyribs.C13b.abs_rawAdd",
    "Pyribs.C13b.abs_rawAdd_rejected",
    "Pyribs.C13b.abs_clear",
    "Pyribs.C13b.abs_resize",
    "Pyribs.C13b.refinement_step",
    "Pyribs.C13b.refinement",
    "Pyribs.C13b.nonvacuous",
]
RULE = ("random histories of add (random index lists with repeats, random transform chains, out-of-range "
        "and malformed adds), clear, resize (legal/illegal), retrieve (random index lists, field selections, "
        "return types), raw round trips (direct and via np.savez), copies of the store (pickle round trip, "
        "copy.deepcopy, both chained, taken at a random point after every read-only property has been read; the copy "
        "and the original are both driven on with the rest of the history) and iterators over 8 field layouts and "
        "capacities 0..8; a case is non-trivial when it contains an add naming an index twice or an add onto an "
        "occupied index, and is counted once per distinct op list")
PARTIAL = []
ASSUMPTIONS = [
    "rows are tokens; every field value of a row is derived injectively from its token by the harness",
    "NumPy fancy assignment with repeated indices is last-write-wins (observed, part of the property)",
]

LAYOUTS = {
    "a": ["a"],
    "ab": ["a", "b"],
    "abc": ["a", "b", "c"],
    "ad": ["a", "d"],
    "bcd": ["b", "c", "d"],
    # declared in an order that is not alphabetical (the declared order is part of the store)
    "ba": ["b", "a"],
    "dca": ["d", "c", "a"],
    "cab": ["c", "a", "b"],
}
FIELD_DESC = {
    "a": ((), np.float64),
    "b": ((3,), np.int32),
    "c": ((2, 2), np.float32),
    "d": ((), object),
}
XFS = ["ident", "dropOcc", "keepOcc", "rev", "dupFirst", "dropAll", "revIn", "scribble"]
# transforms written in another style but with the semantics of a modelled one: `revIn` reverses the index array it
# was handed IN PLACE and returns that same object, `scribble` uses the `occupied` / `cur_data` arrays it was handed as
# scratch space and returns its inputs (both are legal: the arrays belong to the call)
XF_MODEL = {"revIn": "rev", "scribble": "ident"}


class Tok:
    """Object-field payload (never a tuple/list: NumPy would unpack those)."""

    def __init__(self, t):
        self.t = t

    def __eq__(self, o):
        return isinstance(o, Tok) and o.t == self.t

    def __repr__(self):
        return f"Tok({self.t})"


def field_value(name, t):
    if name == "a":
        return float(t)
    if name == "b":
        return np.array([t, t + 1, 2 * t], dtype=np.int32)
    if name == "c":
        return np.array([[t, 2 * t], [3 * t, 4 * t]], dtype=np.float32)
    # arbitrary Python objects: a user class, a dict, a list (the store hands back the object that was stored --
    # NumPy would wrap a dict into a 0-d array and turn a list into an array when asked to copy them)
    return Tok(t) if t % 3 == 0 else ({"t": t} if t % 3 == 1 else [t, "x"])


def make_rows(fields, toks):
    out = {}
    for name in fields:
        shape, dtype = FIELD_DESC[name]
        arr = np.empty((len(toks),) + shape, dtype=dtype)
        for k, t in enumerate(toks):
            arr[k] = field_value(name, t)
        out[name] = arr
    return out


def decode_row(fields, get):
    """token of a row if every field agrees with one token, else None."""
    toks = set()
    for name in fields:
        v = get(name)
        if name == "a":
            t = int(v)
        elif name == "b":
            t = int(v[0])
        elif name == "c":
            t = int(v[0, 0])
        else:
            t = v.t if isinstance(v, Tok) else (v.get("t") if type(v) is dict else
                                                (v[0] if type(v) is list and len(v) == 2 else None))
        if t is None:
            return None
        exp = field_value(name, t)
        same = (type(exp) is type(v) and exp == v) if name == "d" else np.array_equal(np.asarray(exp), np.asarray(v))
        if not same:
            return None
        toks.add(t)
    return toks.pop() if len(toks) == 1 else None


# transforms (Python side of Lean `Store.Xf`)


def xf_ident(indices, new_data, add_info, extra_args, occupied, cur_data):
    return indices, new_data, add_info


def xf_drop_occ(indices, new_data, add_info, extra_args, occupied, cur_data):
    keep = ~occupied
    return indices[keep], {k: v[keep] for k, v in new_data.items()}, add_info


def xf_keep_occ(indices, new_data, add_info, extra_args, occupied, cur_data):
    keep = occupied
    return indices[keep], {k: v[keep] for k, v in new_data.items()}, add_info


def xf_rev(indices, new_data, add_info, extra_args, occupied, cur_data):
    return indices[::-1], {k: v[::-1] for k, v in new_data.items()}, add_info


def xf_dup_first(indices, new_data, add_info, extra_args, occupied, cur_data):
    if len(indices) == 0:
        return indices, new_data, add_info
    return (np.concatenate([indices, indices[:1]]),
            {k: np.concatenate([v, v[:1]]) for k, v in new_data.items()}, add_info)


def xf_drop_all(indices, new_data, add_info, extra_args, occupied, cur_data):
    return np.array([], dtype=np.int32), {}, add_info


def with_oform(fn, form):
    """the same transform, returning its indices as a list / tuple / int64 array ("indices (array-like)")"""
    def wrapped(indices, new_data, add_info, extra_args, occupied, cur_data):
        i2, d2, a2 = fn(indices, new_data, add_info, extra_args, occupied, cur_data)
        i2 = {"list": lambda: [int(i) for i in i2], "tuple": lambda: tuple(int(i) for i in i2),
              "nd64": lambda: np.asarray(i2, dtype=np.int64)}[form]()
        return i2, d2, a2
    return wrapped


def xf_rev_inplace(indices, new_data, add_info, extra_args, occupied, cur_data):
    indices[...] = indices[::-1].copy()
    return indices, {k: v[::-1] for k, v in new_data.items()}, add_info


def xf_scribble(indices, new_data, add_info, extra_args, occupied, cur_data):
    occupied[...] = ~occupied
    for v in cur_data.values():
        if isinstance(v, np.ndarray) and v.dtype != object and v.size:
            v[...] = v[::-1].copy()
    return indices, new_data, add_info


XF = {"revIn": xf_rev_inplace, "scribble": xf_scribble, "ident": xf_ident, "dropOcc": xf_drop_occ, "keepOcc": xf_keep_occ, "rev": xf_rev,
      "dupFirst": xf_dup_first, "dropAll": xf_drop_all}


def ref_chain(ref, xfs, ws):
    """Reference semantics of the transform chain on the oracle's dictionary."""
    for x in xfs:
        if x == "dropOcc":
            ws = [w for w in ws if w[0] not in ref]
        elif x == "keepOcc":
            ws = [w for w in ws if w[0] in ref]
        elif x == "rev":
            ws = ws[::-1]
        elif x == "dupFirst":
            ws = ws + ws[:1] if ws else ws
        elif x == "dropAll":
            ws = []
    return ws


def gen_case(rng):
    cap = rng.choice([0, 1, 2, 5, 8])
    layout = rng.choice(list(LAYOUTS))
    nops = rng.randint(3, 25)
    ops = []
    cur_cap = cap
    tok = [0]

    def fresh():
        tok[0] += 1
        return tok[0]

    iters = 0
    for _ in range(nops):
        r = rng.random()
        if r < 0.45:
            n = rng.choice([0, 1, 1, 2, 3, 4, 6])
            hi = max(cur_cap, 1)
            if cur_cap == 0:
                rows = []
            else:
                pool = [rng.randrange(hi) for _ in range(max(1, n // 2 + 1))]
                rows = [[rng.choice(pool) if rng.random() < 0.6 else rng.randrange(hi), fresh()]
                        for _ in range(n)]
            xfs = [rng.choice(XFS) for _ in range(rng.choice([0, 0, 1, 1, 2, 3]))]
            ops.append({"op": "add", "xfs": xfs, "rows": rows})
            if not xfs:
                # the index list in another array-like form (the harness' transforms index it as an ndarray)
                ops[-1]["iform"] = rng.choice(["nd32", "nd64", "list", "tuple"])
            elif rng.random() < 0.35:
                # the LAST transform hands its indices back in another documented array-like form
                ops[-1]["oform"] = rng.choice(["list", "tuple", "nd64"])
        elif r < 0.50:
            # out-of-range index among valid ones
            hi = max(cur_cap, 1)
            rows = [[rng.randrange(hi), fresh()] for _ in range(rng.randint(0, 2))] if cur_cap else []
            rows.insert(rng.randint(0, len(rows)), [cur_cap + rng.randint(0, 3), fresh()])
            ops.append({"op": "add", "xfs": [], "rows": rows})
        elif r < 0.54:
            ops.append({"op": "badadd", "kind": rng.choice(["length", "missing", "extra", "text", "inner", "negative", "negative"]),
                        "rows": [[rng.randrange(max(cur_cap, 1)), fresh()] for _ in range(2)] if cur_cap else []})
        elif r < 0.56:
            ops.append({"op": "badresize", "extra": rng.randint(1, 4)})
        elif r < 0.60:
            ops.append({"op": "clear"})
        elif r < 0.70:
            c = rng.choice([cur_cap + 1, cur_cap + 3, cur_cap * 2 + 1, cur_cap, max(cur_cap - 1, 0)])
            ops.append({"op": "resize", "cap": c})
            if c > cur_cap:
                cur_cap = c
        elif r < 0.80:
            idx = [rng.randrange(max(cur_cap, 1)) for _ in range(rng.randint(0, 5))] if cur_cap else []
            ops.append({"op": "retrieve", "idx": idx, "rt": rng.choice(["dict", "tuple", "pandas"]),
                        "sel": rng.choice(["all", "one", "some", "dup"])})
        elif r < 0.86:
            ops.append({"op": "raw", "npz": rng.random() < 0.5})
        elif r < 0.92:
            iters += 1
            ops.append({"op": "iternew", "k": iters})
        else:
            if iters:
                ops.append({"op": "iternext", "k": rng.randint(1, iters)})
    sprinkle_ckpt(rng, ops, 0.55)
    return {"cap": cap, "layout": layout, "ops": ops}


CKPT_HOW = ["pickle", "deepcopy", "pickle+deepcopy", "deepcopy+pickle"]


def sprinkle_ckpt(rng, ops, p):
    """the history CONTINUES ON A COPY of the store: at a random point (also before the first operation) the store is
    copied (pickle round trip, copy.deepcopy, both chained); `main` says which of the two objects carries the rest of
    the history in lock step with the model (with the iterators, retrievals, raw round trips), the other one is driven
    on with the same modifying calls and compared after every one.  `warm`: every public read-only property is read
    first (and what it returned is still alive while the copy is made); `probe`: straight after the copy one row is
    added to one of the two only, which must not show in the other."""
    if rng.random() >= p:
        return
    for _ in range(rng.choice([1, 1, 2])):
        ops.insert(rng.randint(0, len(ops)),
                   {"op": "ckpt", "how": rng.choice(CKPT_HOW), "main": rng.choice(["copy", "copy", "orig"]),
                    "warm": rng.random() < 0.85, "probe": rng.random() < 0.5, "proto": rng.choice([None, None, 2, 5])})


def copy_store(store, how, proto=None):
    for step in how.split("+"):
        if step == "pickle":
            store = pickle.loads(pickle.dumps(store) if proto is None else pickle.dumps(store, protocol=proto))
        else:
            store = copy.deepcopy(store)
    return store


def read_everything(store):
    """every public read-only property / view of the store; the results are returned so that they stay alive"""
    return [store.occupied, store.occupied_list, store.capacity, len(store), store.field_list, store.field_desc,
            store.dtypes, store.data(), store.data(return_type="tuple"), store.as_raw_dict(), iter(store),
            store.retrieve(list(range(store.capacity)))]


def nontrivial(case):
    seen = set()
    for op in case["ops"]:
        if op["op"] == "add":
            idx = [r[0] for r in op["rows"]]
            if len(set(idx)) < len(idx) or seen & set(idx):
                return True
            seen |= set(idx)
        elif op["op"] == "clear":
            seen = set()
    return False


def impl_state(store, fields):
    """Canonical observation of the real store + field integrity check."""
    occ = np.asarray(store.occupied)
    olist = [int(i) for i in store.occupied_list]
    data = store.data()
    rows = []
    bad = None
    for k, i in enumerate(data["index"]):
        t = decode_row(fields, lambda name, k=k: data[name][k])
        if t is None:
            bad = f"row at index {int(i)} does not decode to one token"
        rows.append((int(i), t))
    # every other form of data() presents the same rows in the same order as the dict of all fields: a single field
    # name (the form cqd_score and ProximityArchive use), a list of names, the tuple form
    def same(x, y):
        x, y = np.asarray(x), np.asarray(y)
        if x.shape != y.shape or x.dtype != y.dtype:
            return False
        return x.tobytes() == y.tobytes() if x.dtype != object else all(a is b or a == b for a, b in zip(x.ravel(), y.ravel()))
    for name in list(fields) + ["index"]:
        one = store.data(name)
        if not same(one, data[name]):
            bad = bad or (f"data({name!r}) = {np.asarray(one).tolist()!r:.120} but data()[{name!r}] = "
                          f"{np.asarray(data[name]).tolist()!r:.120} (same rows, same order expected)")
    sel = [fields[-1], "index"]
    tup = store.data(sel, "tuple")
    dic = store.data(sel)
    if len(tup) != 2 or any(not same(t, data[n]) for t, n in zip(tup, sel)) or any(not same(dic[n], data[n]) for n in sel):
        bad = bad or f"data({sel}) in tuple / dict form differs from data() of all fields"
    return {
        "cap": int(store.capacity),
        "len": len(store),
        "olist": olist,
        "occ": [int(i) for i in np.nonzero(occ)[0]],
        "data": rows,
        "bad": bad,
    }


def model_state(drv):
    line = drv.ask("state")
    d = dict(t.split("=", 1) for t in line.split())
    rows = []
    if d["data"] != "-":
        for p in d["data"].split(","):
            i, t = p.split(":")
            rows.append((int(i), None if t == "none" else int(t)))
    unl = lambda s: [] if s == "-" else [int(x) for x in s.split(",")]
    return {"cap": int(d["cap"]), "len": int(d["len"]), "olist": unl(d["olist"]), "occ": unl(d["occ"]),
            "data": rows}


def run_case(case, ctx=None):
    from ribs.archives import ArrayStore
    fields = LAYOUTS[case["layout"]]
    store = ArrayStore({f: FIELD_DESC[f] for f in fields}, case["cap"])
    drv = Driver("store")
    cnt = (lambda k, n=1: ctx.count(k, n)) if ctx is not None else (lambda k, n=1: None)
    try:
        drv.ask(f"new {case['cap']}")
        ref = {}  # oracle: insertion-ordered dict index -> token
        gsizes = []  # number of indices first filled by each add since the last clear
        # the other objects that hold the same store: the original a copy was taken from (or the copy, when the history
        # goes on with the original), the store a raw dict was exported from.  [label, store]; every modifying call of
        # the history is made on each of them too and every observable compared after every operation
        mirrors = []
        lineage = [""]  # what `store` is, for the messages

        def keep_mirror(label, m):
            mirrors.append([label, m])
            del mirrors[:-3]

        def mirror_do(fn, want, where, invalidates):
            """the same modifying call on every mirror: same outcome, and an iterator opened on the mirror before an add
            / clear is stale afterwards"""
            for label, m in mirrors:
                it = iter(m) if invalidates else None
                got = fn(m)
                if got != want:
                    return Failure("oracle", f"{where}: {label} answered {got or 'ok'} to a call that the store carrying "
                                   f"the history{lineage[0]} answered with {want or 'ok'} (same state, same call)")
                if it is not None:
                    try:
                        next(it)
                        stale = False
                    except RuntimeError:
                        stale = True
                    except StopIteration:
                        stale = False
                    if not stale:
                        return Failure("oracle", f"{where}: {label}: an iterator opened before the call did not raise "
                                       "RuntimeError after it")
                cnt("mirror:modifying-calls")
            return None

        def probe_add(where):
            """one more row (token 999) on `store` only; returns (target index, Failure | None)"""
            free = [i for i in range(ref_cap) if i not in ref]
            tgt = free[0] if free else next(iter(ref))
            try:
                store.add(np.array([tgt], dtype=np.int32), make_rows(fields, [999]), {}, [])
            except Exception as e:  # pylint: disable=broad-except
                return tgt, Failure("oracle", f"{where}: a valid add on the store{lineage[0]} raised "
                                    f"{type(e).__name__}: {e}")
            drv.ask(f"add - {tgt}:999")
            version[0] += 1
            gsizes.append(0 if tgt in ref else 1)
            ref[tgt] = 999
            return tgt, None

        def add999(m, tgt):
            m.add(np.array([tgt], dtype=np.int32), make_rows(fields, [999]), {}, [])

        def canon(olist):
            """order inside one call's group is not fixed by the property: sort each group"""
            out, pos = [], 0
            for g in gsizes:
                out += sorted(olist[pos:pos + g])
                pos += g
            return out + list(olist[pos:])
        ref_cap = case["cap"]
        its = {}  # k -> (python iterator, oracle (pos, version))
        version = [0]
        for step, op in enumerate(case["ops"]):
            kind = op["op"]
            where = f"op#{step} {kind}{lineage[0]}"
            if kind == "add":
                ws = [tuple(r) for r in op["rows"]]
                idx = np.array([w[0] for w in ws], dtype=np.int32)
                iform = op.get("iform", "nd32")

                def do_add(s_):
                    # fresh arguments for every store (a transform may use what it was handed as scratch space)
                    idx_arg = {"nd32": idx.copy(), "nd64": idx.astype(np.int64), "list": [int(i) for i in idx],
                               "tuple": tuple(int(i) for i in idx)}[iform]
                    rows = make_rows(fields, [w[1] for w in ws])
                    try:
                        chain = [XF[x] for x in op["xfs"]]
                        if chain and op.get("oform"):
                            chain[-1] = with_oform(chain[-1], op["oform"])
                        s_.add(idx_arg, rows, {}, chain)
                    except IndexError:
                        return "err index"
                    except ValueError:
                        return "err value"
                    return None
                err = do_add(store)
                f_ = mirror_do(do_add, err, where, True)
                if f_:
                    return f_
                mxfs = [XF_MODEL.get(x, x) for x in op["xfs"]]
                m = drv.ask("add " + (",".join(mxfs) or "-") + " " + " ".join(f"{i}:{t}" for i, t in ws))
                version[0] += 1
                # oracle
                final = ref_chain(ref, mxfs, ws)
                if any(i >= ref_cap for i, _ in final):
                    if err is None:
                        return Failure("oracle", f"{where}: out-of-range index accepted")
                else:
                    if err is not None:
                        return Failure("oracle", f"{where}: valid add raised {err}")
                    new = sorted({i for i, _ in final if i not in ref})
                    gsizes.append(len(new))
                    for i in new:
                        ref[i] = None
                    for i, t in final:
                        ref[i] = t
                if (err or "ok") != m:
                    return Failure("corr", f"{where}: outcome impl={err or 'ok'} model={m}")
            elif kind == "badadd":
                ws = [tuple(r) for r in op["rows"]]
                idx = np.array([w[0] for w in ws], dtype=np.int32)
                rows = make_rows(fields, [w[1] for w in ws])
                if not ws:
                    continue
                if op["kind"] == "length":
                    first = fields[0]
                    rows[first] = rows[first][:-1]
                elif op["kind"] == "missing":
                    if len(fields) < 2:
                        continue
                    del rows[fields[-1]]
                elif op["kind"] == "text":
                    # a value the field's dtype cannot hold
                    num = [f for f in fields if FIELD_DESC[f][1] != object]
                    if not num:
                        continue
                    bad_arr = np.array(rows[num[-1]], dtype=object)
                    bad_arr.reshape(-1)[-1] = "abc"
                    rows[num[-1]] = bad_arr
                elif op["kind"] == "negative":
                    # a negative index among valid ones: rejected like any other index outside [0, capacity) -- it
                    # must not wrap around to the last slots (-1, -capacity, one beyond: by position in the batch)
                    idx = idx.copy()
                    idx[len(idx) // 2] = [-1, -ref_cap, -ref_cap - 1, -1][ws[0][1] % 4] if ref_cap else -1
                elif op["kind"] == "inner":
                    # wrong inner shape (also for an object field, whose declared shape is ())
                    f_ = fields[-1]
                    rows[f_] = [(1, 2, 3)] * len(ws) if FIELD_DESC[f_][1] == object else \
                        np.zeros((len(ws), 7, 3), dtype=FIELD_DESC[f_][1])
                else:
                    rows["zzz"] = np.zeros(len(ws))
                try:
                    store.add(idx, rows, {}, [])
                    return Failure("oracle", f"{where}: malformed add ({op['kind']}"
                                   f"{', indices ' + str(idx.tolist()) if op['kind'] == 'negative' else ''}) accepted")
                except (ValueError, IndexError) as e:
                    if isinstance(e, IndexError) and op["kind"] != "negative":
                        raise
                    ename = "raised " + type(e).__name__

                def do_bad(s_):
                    try:
                        s_.add(idx, rows, {}, [])
                        return "accepted"
                    except (ValueError, IndexError) as e:
                        return "raised " + type(e).__name__
                f_ = mirror_do(do_bad, ename, where, True)
                if f_:
                    return f_
                drv.ask("badadd")
                version[0] += 1
            elif kind == "clear":
                store.clear()
                f_ = mirror_do(lambda s_: s_.clear(), None, where, True)
                if f_:
                    return f_
                drv.ask("clear")
                ref.clear()
                del gsizes[:]
                version[0] += 1
            elif kind == "resize":
                def do_resize(s_):
                    try:
                        s_.resize(op["cap"])
                    except ValueError:
                        return "err value"
                    return None
                err = do_resize(store)
                f_ = mirror_do(do_resize, err, where, False)
                if f_:
                    return f_
                m = drv.ask(f"resize {op['cap']}")
                if op["cap"] > ref_cap:
                    if err:
                        return Failure("oracle", f"{where}: legal resize rejected")
                    ref_cap = op["cap"]
                elif not err:
                    return Failure("oracle", f"{where}: illegal resize accepted")
                if (err or "ok") != m:
                    return Failure("corr", f"{where}: outcome impl={err} model={m}")
            elif kind == "badresize":
                # a capacity that cannot be allocated (not an integer): whatever is raised, the store stays as it was
                # (the full-state comparison below sees a half-applied resize)
                try:
                    store.resize(ref_cap + op["extra"] + 0.5)
                    return Failure("oracle", f"{where}: resize to a non-integer capacity accepted")
                except (TypeError, ValueError) as e:
                    ename = "raised " + type(e).__name__

                def do_badresize(s_):
                    try:
                        s_.resize(ref_cap + op["extra"] + 0.5)
                        return "accepted"
                    except (TypeError, ValueError) as e:
                        return "raised " + type(e).__name__
                f_ = mirror_do(do_badresize, ename, where, False)
                if f_:
                    return f_
            elif kind == "retrieve":
                idx = op["idx"]
                sel = {"all": None, "one": fields[0], "some": [fields[-1], "index"],
                       "dup": [fields[0], "index", fields[0], fields[-1]]}[op["sel"]]
                rt = op["rt"]
                if op["sel"] == "dup":
                    # a field list that names a field twice: the tuple form is documented as one array per requested
                    # name, in order, so the repeats matter there
                    rt = "tuple"
                if rt == "pandas" and "c" in (fields if sel is None else sel):
                    rt = "dict"  # rank-2 fields are documented as unsupported by the pandas view
                if op["sel"] == "one":
                    # documented: return_type is ignored for a single field name (the code wraps the array
                    # in a tuple / DataFrame anyway; contents are the same, not claimed as a violation)
                    rt = "dict"
                occ, data = store.retrieve(idx, sel, rt)
                m = drv.ask("retrieve " + nl(idx))
                mrows = [] if m == "-" else [None if t == "none" else int(t) for t in m.split(",")]
                got = []
                # normalise every return shape to {field: array}
                if op["sel"] == "one":
                    cols = {fields[0]: data}
                elif rt == "tuple":
                    names = (fields + ["index"]) if sel is None else sel
                    if len(data) != len(names):
                        return Failure("oracle", f"{where}: retrieve(fields={names}, return_type='tuple') returned "
                                       f"{len(data)} arrays, one per requested field is {len(names)}")
                    for a_, b_ in zip(names, data):
                        first = data[names.index(a_)]
                        if a_ != "d" and np.asarray(first).tobytes() != np.asarray(b_).tobytes():
                            return Failure("oracle", f"{where}: the arrays returned for the repeated field {a_} differ")
                    cols = dict(zip(names, data))
                elif rt == "pandas":
                    cols = {}
                    for name in (fields if sel is None else [f for f in sel if f != "index"]):
                        if name == "b":
                            cols[name] = np.stack([data[f"b_{j}"].to_numpy() for j in range(3)], axis=1) \
                                if len(idx) else np.zeros((0, 3), dtype=np.int32)
                        elif name != "c":
                            cols[name] = data[name].to_numpy()
                    if "index" in data:
                        cols["index"] = data["index"].to_numpy()
                else:
                    cols = dict(data)
                if "index" in cols and [int(x) for x in cols["index"]] != list(idx):
                    return Failure("oracle", f"{where}: retrieve index column {cols['index']} != {idx}")
                present = [f for f in fields if f in cols]
                for k, i in enumerate(idx):
                    if not occ[k]:
                        got.append(None)
                    else:
                        got.append(decode_row(present, lambda name, k=k: cols[name][k]))
                want = [ref.get(i) for i in idx]
                if got != want:
                    return Failure("oracle", f"{where}: retrieve returned {got}, written {want}")
                if got != mrows:
                    return Failure("corr", f"{where}: retrieve impl={got} model={mrows}")
                for label, m_ in mirrors:
                    occ2, d2 = m_.retrieve(idx)
                    got2 = [decode_row(fields, lambda name, k=k: d2[name][k]) if occ2[k] else None
                            for k in range(len(idx))]
                    if got2 != want or [int(x) for x in d2["index"]] != list(idx):
                        return Failure("oracle", f"{where}: {label}: retrieve({idx}) returned {got2}, written {want}")
            elif kind == "raw":
                raw = store.as_raw_dict()
                if op["npz"] and "d" not in fields:
                    buf = io.BytesIO()
                    np.savez(buf, **raw)
                    buf.seek(0)
                    loaded = np.load(buf)
                    raw = {}
                    for k in loaded.files:
                        v = loaded[k]
                        raw[k] = v if v.ndim > 0 or k.startswith("fields.") else v[()]
                    raw["props.capacity"] = int(raw["props.capacity"])
                    raw["props.n_occupied"] = int(raw["props.n_occupied"])
                    # a loaded checkpoint (writable arrays) is a value: every store built from it starts from the
                    # checkpointed state, whatever happened to the stores built from it before
                    snap0 = impl_state(store, fields)
                    old_store = store
                    store = ArrayStore.from_raw_dict(raw)
                    its = {}  # iterators belong to the old object
                    twin = ArrayStore.from_raw_dict(raw)
                    if ref_cap > 0:
                        free = [i for i in range(ref_cap) if i not in ref]
                        tgt = free[0] if free else next(iter(ref))
                        store.add(np.array([tgt], dtype=np.int32), make_rows(fields, [999]), {}, [])
                        drv.ask(f"add - {tgt}:999")
                        version[0] += 1
                        gsizes.append(0 if tgt in ref else 1)
                        ref[tgt] = 999
                        if impl_state(twin, fields) != snap0:
                            return Failure("oracle", f"{where}: two stores were built from one loaded raw dict; adding to the "
                                           "first changed the second")
                        if impl_state(ArrayStore.from_raw_dict(raw), fields) != snap0:
                            return Failure("oracle", f"{where}: a store built from a loaded raw dict after another store "
                                           "built from the same dict was modified does not reproduce the checkpointed "
                                           "store (the dict is not treated as a value)")
                        if impl_state(old_store, fields) != snap0:
                            return Failure("oracle", f"{where}: writing to a store rebuilt from the saved raw dict changed "
                                           "the store that was exported")
                        for _, m_ in mirrors:
                            add999(m_, tgt)
                        add999(old_store, tgt)
                        add999(twin, tgt)
                    # the exported store and a second store built from the same checkpoint are driven on as well
                    keep_mirror(f"the store exported at op#{step} (np.savez)", old_store)
                    keep_mirror(f"a second store built from the raw dict loaded at op#{step}", twin)
                    lineage[0] = f" [the store rebuilt from the raw dict saved at op#{step}]"
                    where = f"op#{step} {kind}{lineage[0]}"
                    cnt("raw:npz:both-driven-on")
                else:
                    # direct round trip: an equivalent store, on which the rest of the history runs
                    other = ArrayStore.from_raw_dict(raw)
                    a, b = impl_state(store, fields), impl_state(other, fields)
                    if a != b:
                        return Failure("oracle", f"{where}: from_raw_dict(as_raw_dict()) differs: {a} vs {b}")
                    # ... and an independent one: what is written to it later must not show in the original
                    old_store, old_state = store, a
                    store = other
                    its = {}
                    probe = [k for k, v in raw.items() if isinstance(v, np.ndarray) and v.flags.writeable and v.size]
                    if ref_cap > 0:
                        free = [i for i in range(ref_cap) if i not in ref]
                        tgt = free[0] if free else next(iter(ref))
                        try:
                            store.add(np.array([tgt], dtype=np.int32), make_rows(fields, [999]), {}, [])
                        except Exception as e:  # pylint: disable=broad-except
                            return Failure("oracle", f"{where}: the store rebuilt by from_raw_dict(as_raw_dict()) is not "
                                           f"equivalent: a valid add raised {type(e).__name__}: {e}")
                        drv.ask(f"add - {tgt}:999")
                        version[0] += 1
                        gsizes.append(0 if tgt in ref else 1)
                        ref[tgt] = 999
                        if impl_state(old_store, fields) != old_state:
                            return Failure("oracle", f"{where}: writing to the store rebuilt by from_raw_dict changed the "
                                           "store it was exported from")
                        for _, m_ in mirrors:
                            add999(m_, tgt)
                        add999(old_store, tgt)
                    # the exported store is driven on as well
                    keep_mirror(f"the store exported at op#{step} (as_raw_dict)", old_store)
                    lineage[0] = f" [the store rebuilt by from_raw_dict at op#{step}]"
                    where = f"op#{step} {kind}{lineage[0]}"
                    cnt("raw:direct:both-driven-on")
                drv.ask("raw")
            elif kind == "ckpt":
                how = op["how"]
                alive = read_everything(store) if op.get("warm", True) else None
                try:
                    cp = copy_store(store, how, op.get("proto"))
                except Exception as e:  # pylint: disable=broad-except
                    return Failure("oracle", f"{where}: a {how} copy of the store could not be made: "
                                   f"{type(e).__name__}: {e}")
                a0, b0 = impl_state(store, fields), impl_state(cp, fields)
                if a0 != b0:
                    return Failure("oracle", f"{where}: the {how} copy of the store differs from it: {b0} vs {a0}")
                del alive
                if op.get("main", "copy") == "copy":
                    other, olabel = store, f"the original of the {how} copy taken at op#{step}"
                    store = cp
                    its = {}  # iterators belong to the old object
                    lineage[0] = f" [the {how} copy taken at op#{step}]"
                    where = f"op#{step} {kind}{lineage[0]}"
                else:
                    other, olabel = cp, f"the {how} copy taken at op#{step}"
                cnt(f"ckpt:{how}:history-continues-on-{op.get('main', 'copy')}")
                cnt("ckpt:after-every-property-was-read" if op.get("warm", True) else "ckpt:no-extra-reads-before-copy")
                if step == 0:
                    cnt("ckpt:of-a-fresh-store")
                if op.get("probe") and ref_cap > 0:
                    # independent objects: a row added to one does not show in the other
                    tgt, f_ = probe_add(where)
                    if f_:
                        return f_
                    if impl_state(other, fields) != a0:
                        return Failure("oracle", f"{where}: a row was added to the store{lineage[0]}; {olabel} changed")
                    for _, m_ in mirrors:
                        add999(m_, tgt)
                    add999(other, tgt)
                    cnt("ckpt:independence-probe")
                keep_mirror(olabel, other)
            elif kind == "iterall":
                # a complete pass over the store (oracle only): each occupied index exactly once, in occupied_list
                # order, each entry the row written at its index -- at any size (a block-wise iterator must not lose
                # track beyond its first block)
                got_all = [(int(e["index"]), decode_row(fields, lambda name, e=e: e[name])) for e in store]
                want_all = [(int(i), ref[int(i)]) for i in store.occupied_list]
                if got_all != want_all:
                    k_ = next((k for k, (g, w) in enumerate(zip(got_all, want_all)) if g != w), min(len(got_all), len(want_all)))
                    return Failure("oracle", f"{where}: a full iteration over {len(want_all)} entries differs from "
                                   f"occupied_list / retrieve at position {k_}: got "
                                   f"{got_all[k_] if k_ < len(got_all) else None}, expected "
                                   f"{want_all[k_] if k_ < len(want_all) else None}")
            elif kind == "iternew":
                its[op["k"]] = [iter(store), 0, version[0], list(ref.items())]
                drv.ask(f"iter new {op['k']}")
            elif kind == "iternext":
                if op["k"] not in its:
                    continue
                it = its[op["k"]]
                try:
                    e = next(it[0])
                    t = decode_row(fields, lambda name, e=e: e[name])
                    got = f"{int(e['index'])}:{t}"
                except RuntimeError:
                    got = "err runtime"
                except StopIteration:
                    got = "err stop"
                m = drv.ask(f"iter next {op['k']}")
                if it[2] != version[0]:
                    want = "err runtime"
                elif it[1] >= len(it[3]):
                    want = "err stop"
                else:
                    i, t = it[3][it[1]]
                    want = f"{i}:{t}"
                    it[1] += 1
                if got != want:
                    return Failure("oracle", f"{where}: iterator gave {got}, expected {want}")
                if got != m:
                    return Failure("corr", f"{where}: iterator impl={got} model={m}")
            # observe full state after every op
            a = impl_state(store, fields)
            if a["bad"]:
                return Failure("oracle", f"{where}: {a['bad']}")
            # the field layout is part of the store (a store rebuilt from a raw dict is *equivalent*): the declared
            # order is the order of field_list and of the arrays in the tuple form of data()
            if list(store.field_list) != list(fields):
                return Failure("oracle", f"{where}: field_list {list(store.field_list)} != declared order {list(fields)}")
            tup = store.data(return_type="tuple")
            dall = store.data()
            names = list(fields) + ["index"]
            if len(tup) != len(names) or any(np.asarray(t).shape != np.asarray(dall[n]).shape
                                             or np.asarray(t).dtype != np.asarray(dall[n]).dtype
                                             for t, n in zip(tup, names)):
                return Failure("oracle", f"{where}: data(return_type='tuple') does not list the fields in declared order "
                               f"{names}: shapes / dtypes {[(np.asarray(t).shape, str(np.asarray(t).dtype)) for t in tup]}")
            want_data = list(ref.items())
            if not (a["len"] == len(ref) == len(a["occ"]) and sorted(a["olist"]) == a["occ"] == sorted(ref)
                    and len(set(a["olist"])) == len(a["olist"])):
                return Failure("oracle", f"{where}: bookkeeping inconsistent: {a} vs written {want_data}")
            if dict(a["data"]) != ref:
                return Failure("oracle", f"{where}: data {a['data']} != written {want_data}")
            if a["cap"] != ref_cap:
                return Failure("oracle", f"{where}: capacity {a['cap']} != {ref_cap}")
            if canon(a["olist"]) != list(ref):
                return Failure("oracle", f"{where}: occupied_list order {a['olist']} != first-fill order {list(ref)}")
            b = model_state(drv)
            a.pop("bad")
            for st in (a, b):
                st["olist"] = canon(st["olist"])
                st["data"] = sorted(st["data"])
            if a != b:
                return Failure("corr", f"{where}: state impl={a} model={b}")
            for label, m_ in mirrors:
                am = impl_state(m_, fields)
                if am["bad"]:
                    return Failure("oracle", f"{where}: {label}: {am['bad']}")
                am.pop("bad")
                if not (am["len"] == len(am["occ"]) == len(am["olist"]) == len(am["data"])
                        and sorted(am["olist"]) == am["occ"]):
                    return Failure("oracle", f"{where}: {label}: bookkeeping inconsistent: {am} vs written {want_data}")
                am["olist"] = canon(am["olist"])
                am["data"] = sorted(am["data"])
                if am != a:
                    return Failure("oracle", f"{where}: {label} was driven with the same calls as the store carrying the "
                                   f"history{lineage[0]} and differs from it (and from what was written): {am} vs {a}")
                if list(m_.field_list) != list(fields):
                    return Failure("oracle", f"{where}: {label}: field_list {list(m_.field_list)} != declared order "
                                   f"{list(fields)}")
                cnt("mirror:states-compared")
        # a complete pass over every store that is still around: each occupied index once, in occupied_list order
        for label, m_ in [["the store carrying the history" + lineage[0], store]] + mirrors:
            got_all = [(int(e["index"]), decode_row(fields, lambda name, e=e: e[name])) for e in m_]
            want_all = [(int(i), ref.get(int(i))) for i in m_.occupied_list]
            if got_all != want_all or len(got_all) != len(ref):
                return Failure("oracle", f"end of history: {label}: a full iteration gave {got_all!r:.200}, "
                               f"occupied_list / written rows give {want_all!r:.200}")
        return None
    finally:
        drv.close()


def gen_large(rng):
    """stores of several hundred to a few thousand entries (sizes around powers of two): few operations, complete
    passes"""
    cap = cap0 = rng.choice([300, 513, 700, 1025, 2100])
    layout = rng.choice(["a", "ab", "ba", "ad"])
    tok = [0]

    def fresh():
        tok[0] += 1
        return tok[0]

    ops = []
    for _ in range(rng.randint(2, 4)):
        n = rng.choice([cap // 3, 255, 256, 257, 511, 512, 513, cap - 1, cap])
        idx = rng.sample(range(cap), min(n, cap))
        if rng.random() < 0.3:
            idx = idx + idx[: len(idx) // 10]                    # some indices named twice
        ops.append({"op": "add", "xfs": [], "rows": [[i, fresh()] for i in idx]})
        ops.append({"op": "iterall"})
        if rng.random() < 0.3:
            ops.append({"op": "clear"})
        elif rng.random() < 0.3:
            ops.append({"op": "resize", "cap": cap * 2 + 1})
            cap = cap * 2 + 1
    ops.append({"op": "raw", "npz": False})
    ops.append({"op": "iterall"})
    sprinkle_ckpt(rng, ops, 0.7)
    return {"cap": cap0, "layout": layout, "ops": ops}


def run(ctx):
    runner = lambda case: run_case(case, ctx)
    ctx.explore("histories", gen_case, runner, ctx.n(600, 30000), nontrivial=nontrivial,
                time_budget=40 if ctx.quick else 500)
    ctx.explore("large", gen_large, runner, ctx.n(3, 60), time_budget=20 if ctx.quick else 200)


def replay(ctx, case):
    return run_case(case, ctx)
