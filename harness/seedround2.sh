#!/bin/bash
# import + confirm + test round-2 seeds of the given property ids
for p in "$@"; do
  /venv/bin/python /verif/harness/seedimport.py $p /tmp/seed2 2 >/dev/null
  for k in 3 4; do
    [ -d /verif/seeded/$p-$k ] || continue
    echo "== $p-$k: $(python3 -c "import json;print(str(json.load(open('/verif/seeded/$p-$k/meta.json')).get('summary'))[:200])")"
    /venv/bin/python /verif/harness/seedtest.py /verif/seeded/$p-$k --demo --tests --seeds 0,1 2>&1 | grep "^CAUGHT\|^MISSED\|^INFRA\|^demo\|^tests" | cut -c1-300
  done
done
