"""C05 — CMA-MAE thresholds follow the documented update rule and only ever rise."""
import archlib

ID = "C05"
from genf import translate  # noqa: E402,F401  (regenerates lean/PyribsGen/Formulas.lean from the tree under check)
PROOF_MODULES = ["PyribsProofs.C05", "PyribsGen.Formulas", "PyribsProofs.GenF", "PyribsGen.Control",
                 "PyribsProofs.GenFArch"]
THEOREMS = [
    "Pyribs.GenFProofs.single_newthr_from_source",
    "Pyribs.GenFProofs.single_threshold_bracket_from_source",
    "Pyribs.GenFProofs.batch_newthr_from_source",
    "Pyribs.GenFProofs.batch_threshold_matches",
    "Pyribs.GenFProofs.single_threshold_matches",
    "Pyribs.C05.thr_update",
    "Pyribs.C05.thr_update_single",
    "Pyribs.C05.baseline_empty",
    "Pyribs.C05.canInsert_iff",
    "Pyribs.C05.never_stored_at_or_below",
    "Pyribs.C05.closedForm_ge",
    "Pyribs.C05.closedForm_le",
    "Pyribs.C05.a_zero",
    "Pyribs.C05.a_one",
    "Pyribs.C05.batch_thr_mono",
    "Pyribs.C05.single_thr_mono",
    "Pyribs.C05.thr_monotone",
    "Pyribs.C05.config_coupling",
    "Pyribs.C05.nonvacuous",
]
RULE = ("lock-step histories on GridArchive and CVTArchive with finite threshold_min in {0,-4,2,-1/2} and learning "
        "rates {0,1/4,1/2,3/4,1,1/10,3/10,9/10,1/100}, float32/float64; after every call the oracle recomputes the "
        "closed form from the thresholds observed before the call and the accepted rows; exact stream (dyadic "
        "learning rates: bit-exact comparison unless rounding occurs) and rounded stream (tolerance, model "
        "resynchronised to the implementation's rounded thresholds); constructor coupling of learning_rate / "
        "threshold_min enumerated for every archive class; non-trivial when a cell receives two or more candidates")
PARTIAL = ["float rounding of the threshold recurrence: thresholds are compared with relative tolerance 2^-40 "
           "(float64) / 2^-18 (float32); acceptance decisions are compared exactly against the implementation's "
           "own (rounded) pre-call thresholds"]
ASSUMPTIONS = list(__import__("props.c01", fromlist=["x"]).ASSUMPTIONS)
PROPS = {"C05"}


def gen(profile, **kw):
    def g(rng):
        case = archlib.gen_case(rng, profile, kinds=("grid", "cvt"), cma=True, **kw)
        case["profile"] = profile
        return case
    return g


def run_case(case):
    if case.get("op") == "ctor":
        return ctor_case(case)
    if case.get("kind") == "scale":
        return archlib.run_scale(case, PROPS)
    return archlib.run_case(case, PROPS)


def ctor_case(case):
    """T05.8: the constructor accepts exactly the documented couplings."""
    import numpy as np
    from ribs.archives import CVTArchive, GridArchive
    from core import Driver, Failure
    drv = Driver("arch")
    try:
        for cls, dt in (("grid", np.float64), ("cvt", np.float64), ("grid", np.float32), ("cvt", np.float32)):
            for lr in (None, 1.0, 0.5, 0.0):
                # -1e39 is finite, but not in a float32 archive: the archive keeps threshold_min in its own dtype
                for tmin in (-np.inf, 0.0, -3.5, -1e39):
                    kw = {}
                    if lr is not None:
                        kw["learning_rate"] = lr
                    kw["threshold_min"] = tmin
                    arch = None
                    try:
                        with np.errstate(all="ignore"), __import__("warnings").catch_warnings():
                            __import__("warnings").simplefilter("ignore")
                            if cls == "grid":
                                arch = GridArchive(solution_dim=1, dims=[2], ranges=[(0, 1)], dtype=dt, **kw)
                            else:
                                arch = CVTArchive(solution_dim=1, cells=2, ranges=[(0, 1)], dtype=dt,
                                                  custom_centroids=np.array([[0.25], [0.75]]), **kw)
                        impl = "ok"
                    except ValueError:
                        impl = "err value"
                    with np.errstate(all="ignore"):
                        stored = float(dt(tmin))        # what an archive of this dtype can hold
                    lr_s = "none" if lr is None else archlib.q(archlib.F(lr))
                    # (the first coupling is about the argument as given, the second about the value the archive holds)
                    seen = tmin if lr is None else stored
                    t_s = "-inf" if seen == -np.inf else archlib.q(archlib.F(seen))
                    m = drv.ask(f"new kind=grid dims=2 lo=0 hi=1 eps=0 lr={lr_s} tmin={t_s} off=0")
                    m = "ok" if m.startswith("ok") else m
                    want = "err value" if ((lr is None and tmin != -np.inf) or
                                           (lr is not None and lr != 1.0 and stored == -np.inf)) else "ok"
                    what = f"{cls}(dtype={np.dtype(dt).name}, learning_rate={lr}, threshold_min={tmin})"
                    if impl == "ok" and lr is not None and lr != 1.0 and tmin != -np.inf and \
                            not np.isfinite(arch.threshold_min):
                        return Failure("oracle", f"[C05] constructor {what} accepted a finite threshold_min but every "
                                       f"cell's threshold starts at {arch.threshold_min}, not at a finite threshold_min")
                    if impl != want:
                        return Failure("oracle", f"[C05] constructor {what} "
                                       f"-> {impl}, documented coupling says {want}")
                    if impl != m:
                        return Failure("corr", f"[C05] constructor coupling impl={impl} model={m} for {what}")
        return None
    finally:
        drv.close()


def run(ctx):
    budget = 8 if ctx.quick else 100
    ctx.explore("ctor", lambda rng: {"op": "ctor", "ops": []}, run_case, 1)
    for name, prof, n in [("cma", "cma", ctx.n(220, 15000)), ("cma-percell", "percell", ctx.n(120, 8000)),
                          ("cma-ties", "ties", ctx.n(100, 7000)), ("cma-gap", "gap", ctx.n(100, 7000)),
                          ("cma-tmin-edge", "tminedge", ctx.n(80, 6000)),
                          ("cma-mixed-magnitudes", "xmag", ctx.n(80, 6000))]:
        ctx.explore(name, gen(prof), run_case, n, nontrivial=archlib.nontrivial_c01, time_budget=budget)
    ctx.explore("scale", archlib.gen_scale, run_case, ctx.n(3, 120), time_budget=10 if ctx.quick else 100)


def replay(ctx, case):
    return run_case(case)
