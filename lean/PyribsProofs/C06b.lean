import PyribsProofs.C06
/-!
# C06 (T06.2, elitist clause) — in elitist archives `obj_max` is the current maximum

Combines the running-maximum invariant of C06 with the per-cell monotonicity of C01: every
row ever written since the last clear is dominated by what its cell holds now, and everything
a cell holds now was written; hence the maximum over the written rows is the maximum over the
current contents, and it is attained by a current elite.
-/
namespace Pyribs.C06b
open Pyribs Arch Store

theorem lastWrite_mem {ρ : Type} (ws : List (Nat × ρ)) (i : Nat) (r : ρ) (h : lastWrite ws i = some r) :
    (i, r) ∈ ws := by
  induction ws with
  | nil => simp [lastWrite] at h
  | cons w ws ih =>
    obtain ⟨j, r'⟩ := w
    simp only [lastWrite] at h
    cases hl : lastWrite ws i with
    | some r'' =>
      rw [hl] at h; simp at h; subst h
      exact List.mem_cons_of_mem _ (ih hl)
    | none =>
      rw [hl] at h
      by_cases hj : j = i
      · simp [hj] at h; subst h; subst hj; exact List.mem_cons_self
      · simp [hj] at h

theorem lastWrite_of_nodup {ρ : Type} (ws : List (Nat × ρ)) (hnd : (ws.map (·.1)).Nodup)
    (w : Nat × ρ) (hw : w ∈ ws) : lastWrite ws w.1 = some w.2 := by
  induction ws with
  | nil => simp at hw
  | cons x xs ih =>
    obtain ⟨j, r⟩ := x
    rw [List.map_cons, List.nodup_cons] at hnd
    simp only [lastWrite]
    rcases List.mem_cons.mp hw with rfl | hw'
    · have : lastWrite xs j = none := by
        apply C13.lastWrite_not_named
        intro y hy hyj
        exact hnd.1 (by rw [← hyj]; exact List.mem_map_of_mem (f := (·.1)) hy)
      simp [this]
    · rw [ih hnd.2 hw']

/-- an `add_single` names a cell below the capacity -/
def OpOk (cap : Nat) : C01.Op → Prop
  | .add1 r => r.1 < cap
  | _ => True

theorem opOk_of_wellRouted {cells : Nat} {ops : List C01.Op} (hw : C01.WellRouted cells ops)
    (op : C01.Op) (h : op ∈ ops) : OpOk cells op := by
  have := hw op h
  cases op <;> simpa [OpOk] using this

/-- the ghost list carries the index of every written row -/
def stepW (s : Arch × List (Nat × Elite)) (op : C01.Op) : Arch × List (Nat × Elite) :=
  (C01.step s.1 op,
   match op with
   | .clear => []
   | _ => s.2 ++ C06.writesOf s.1 op)

structure DomInv (cfg : Cfg) (cells : Nat) (a : Arch) (L : List (Nat × Elite)) : Prop where
  cfg_eq : a.cfg = cfg
  cap_eq : a.store.cap = cells
  thr : C01.ThrObj a
  dom : ∀ w ∈ L, ∃ e', a.cellOf w.1 = some e' ∧ w.2.obj ≤ e'.obj
  mem : ∀ i e, a.cellOf i = some e → (i, e) ∈ L
  maxi : C06.MaxInv a.stats (L.map (·.2))

theorem writesOf_nodup (a : Arch) (op : C01.Op) : ((C06.writesOf a op).map (·.1)).Nodup := by
  cases op with
  | add rows => exact C06.batchWrites_nodup _ _ _ _
  | add1 r => simp only [C06.writesOf]; split <;> simp
  | clear => simp [C06.writesOf]

theorem writesOf_lt (a : Arch) (op : C01.Op) (hop : OpOk a.store.cap op) :
    ∀ w ∈ C06.writesOf a op, w.1 < a.store.cap := by
  cases op with
  | add rows => exact C06.batchWrites_lt _ _ _ _
  | add1 r =>
    intro w hw
    simp only [C06.writesOf] at hw
    split at hw
    · simp at hw
    · simp at hw; subst hw; exact hop
  | clear => simp [C06.writesOf]

/-- one elitist step never empties a cell and never lowers its objective -/
theorem step_monotone (a : Arch) (he : C01.Elitist a.cfg) (ht : C01.ThrObj a) (op : C01.Op)
    (hnc : op ≠ .clear) (hop : OpOk a.store.cap op)
    (i : Nat) (e : Elite) (h : a.cellOf i = some e) :
    ∃ e', (C01.step a op).cellOf i = some e' ∧ e.obj ≤ e'.obj := by
  by_cases hi : i < a.store.cap
  · have key : ∃ extra, C01.absCell ((C01.step a op).cellOf i) = bestFrom (C01.absCell (a.cellOf i)) extra := by
      cases op with
      | add rows => exact ⟨_, C01.cell_addBatch a he ht rows i hi⟩
      | add1 r => exact ⟨_, C01.cell_addSingle a he ht r hop i hi⟩
      | clear => exact absurd rfl hnc
    obtain ⟨extra, hk⟩ := key
    rw [h] at hk
    simp only [C01.absCell, Option.map_some] at hk
    cases hc : (C01.step a op).cellOf i with
    | none =>
      rw [hc] at hk
      have := bestFrom_isSome (some e.toCand) extra
      rw [← hk] at this
      simp at this
    | some e' =>
      refine ⟨e', rfl, ?_⟩
      rw [hc] at hk
      simp only [Option.map_some] at hk
      exact (bestFrom_ge (some e.toCand) extra e'.toCand hk.symm).1 e.toCand rfl
  · -- indices at or above the capacity are never written
    refine ⟨e, ?_, le_refl _⟩
    rw [C06.step_eq_commit a op hnc]
    have hin : inRange a.store (C06.writesOf a op) = true :=
      (C13.inRange_iff _ _).mpr (writesOf_lt a op hop)
    rw [commit_cells _ _ hin]
    have : lastWrite (C06.writesOf a op) i = none := by
      apply C13.lastWrite_not_named
      intro w hw hwi
      have := writesOf_lt a op hop w hw
      omega
    rw [this, h]; rfl

theorem inv_stepW (cfg : Cfg) (he : C01.Elitist cfg) (cells : Nat) (a : Arch) (L : List (Nat × Elite))
    (h : DomInv cfg cells a L) (op : C01.Op) (hop : OpOk cells op) :
    DomInv cfg cells (stepW (a, L) op).1 (stepW (a, L) op).2 := by
  have he' : C01.Elitist a.cfg := h.cfg_eq ▸ he
  have hop' : OpOk a.store.cap op := by rw [h.cap_eq]; exact hop
  by_cases hc : op = .clear
  · subst hc
    simp only [stepW, C01.step]
    exact ⟨h.cfg_eq, h.cap_eq, by intro i e hh; simp [Arch.clear, cellOf, Store.clear] at hh,
           by simp, by intro i e hh; simp [Arch.clear, cellOf, Store.clear] at hh,
           ⟨by simp [Arch.clear, Stats.zero], by simp [Arch.clear, Stats.zero],
            by simp [Arch.clear, Stats.zero]⟩⟩
  · have hL : (stepW (a, L) op).2 = L ++ C06.writesOf a op := by
      cases op with
      | add rows => rfl
      | add1 r => rfl
      | clear => exact absurd rfl hc
    have hin : inRange a.store (C06.writesOf a op) = true :=
      (C13.inRange_iff _ _).mpr (writesOf_lt a op hop')
    have hcells : ∀ i, (C01.step a op).cellOf i = (lastWrite (C06.writesOf a op) i).or (a.cellOf i) := by
      intro i; rw [C06.step_eq_commit a op hc, commit_cells _ _ hin]
    have hthr : C01.ThrObj (C01.step a op) := by
      cases op with
      | add rows => exact C01.thrObj_addBatch a he' h.thr rows
      | add1 r => exact C01.thrObj_addSingle a he' h.thr r hop'
      | clear => exact absurd rfl hc
    have hcfg : (C01.step a op).cfg = cfg := by
      cases op with
      | add rows => simp [C01.step, addBatch_cfg, h.cfg_eq]
      | add1 r => simp [C01.step, addSingle_cfg, h.cfg_eq]
      | clear => exact absurd rfl hc
    have hcap : (C01.step a op).store.cap = cells := by
      cases op with
      | add rows => simp [C01.step, addBatch_cap, h.cap_eq]
      | add1 r => simp [C01.step, addSingle_cap, h.cap_eq]
      | clear => exact absurd rfl hc
    refine ⟨hcfg, hcap, hthr, ?_, ?_, ?_⟩
    · intro w hw
      rw [hL] at hw
      rcases List.mem_append.mp hw with hw | hw
      · obtain ⟨e', he1, hle⟩ := h.dom w hw
        obtain ⟨e'', he2, hle2⟩ := step_monotone a he' h.thr op hc hop' w.1 e' he1
        exact ⟨e'', he2, le_trans hle hle2⟩
      · refine ⟨w.2, ?_, le_refl _⟩
        simp only [stepW]
        rw [hcells, lastWrite_of_nodup _ (writesOf_nodup a op) w hw]; rfl
    · intro i e hh
      simp only [stepW] at hh
      rw [hL]
      rw [hcells] at hh
      cases hl : lastWrite (C06.writesOf a op) i with
      | some r =>
        rw [hl] at hh; simp at hh; subst hh
        exact List.mem_append_right _ (lastWrite_mem _ _ _ hl)
      | none =>
        rw [hl] at hh; simp at hh
        exact List.mem_append_left _ (h.mem i e hh)
    · rw [hL]
      simp only [stepW]
      rw [List.map_append, C06.step_eq_commit a op hc, C06.commit_stats]
      by_cases hw : C06.writesOf a op = []
      · simp [hw]; exact h.maxi
      · simp only [hw, if_false]
        exact C06.maxInv_update a.stats (L.map (·.2)) h.maxi _ hw _ _

/-- **T06.2 (elitist clause)** : after any history on an elitist archive, `obj_max` is the
maximum objective over the *current* contents and is attained by a current elite; `best_elite`
has that objective. -/
theorem obj_max_is_current_max (cfg : Cfg) (he : C01.Elitist cfg) (cells : Nat) (ops : List C01.Op)
    (hw : C01.WellRouted cells ops) :
    let a := C01.run cfg cells ops
    (a.stats.objMax = none ↔ ∀ i, a.cellOf i = none) ∧
    ∀ m, a.stats.objMax = some m →
      (∀ i e, a.cellOf i = some e → e.obj ≤ m) ∧ (∃ i e, a.cellOf i = some e ∧ e.obj = m) ∧
      ∃ b, a.stats.best = some b ∧ b.2.obj = m := by
  have hinv : ∀ (ops : List C01.Op) (a : Arch) (L : List (Nat × Elite)), C01.WellRouted cells ops →
      DomInv cfg cells a L →
      ∃ L', DomInv cfg cells (ops.foldl C01.step a) L' := by
    intro ops
    induction ops with
    | nil => intro a L _ h; exact ⟨L, h⟩
    | cons op ops ih =>
      intro a L hw h
      simp only [List.foldl_cons]
      have := inv_stepW cfg he cells a L h op (opOk_of_wellRouted hw op List.mem_cons_self)
      exact ih _ _ (fun o ho => hw o (List.mem_cons_of_mem _ ho)) this
  have h0 : DomInv cfg cells (Arch.new cfg cells) [] :=
    ⟨rfl, rfl, by intro i e h; simp [Arch.new, cellOf, Store.empty] at h, by simp,
     by intro i e h; simp [Arch.new, cellOf, Store.empty] at h,
     ⟨by simp [Arch.new, Stats.zero], by simp [Arch.new, Stats.zero], by simp [Arch.new, Stats.zero]⟩⟩
  obtain ⟨L, hL⟩ := hinv ops _ _ hw h0
  have hrun : C01.run cfg cells ops = ops.foldl C01.step (Arch.new cfg cells) := rfl
  simp only [hrun]
  constructor
  · rw [hL.maxi.none_iff]
    constructor
    · intro hnil i
      cases hc : (ops.foldl C01.step (Arch.new cfg cells)).cellOf i with
      | none => rfl
      | some e =>
        have := hL.mem i e hc
        simp only [List.map_eq_nil_iff] at hnil
        rw [hnil] at this; simp at this
    · intro hall
      simp only [List.map_eq_nil_iff]
      cases hLl : L with
      | nil => rfl
      | cons w ws =>
        obtain ⟨e', he', _⟩ := hL.dom w (by rw [hLl]; exact List.mem_cons_self)
        rw [hall w.1] at he'; simp at he'
  · intro m hm
    obtain ⟨hub, b, hb, hbL, hbm⟩ := hL.maxi.spec m hm
    refine ⟨?_, ?_, b, hb, hbm⟩
    · intro i e hc
      exact hub e (List.mem_map_of_mem (f := (·.2)) (hL.mem i e hc))
    · obtain ⟨w, hwL, hwb⟩ := List.mem_map.mp hbL
      obtain ⟨e', he', hle⟩ := hL.dom w hwL
      refine ⟨w.1, e', he', le_antisymm ?_ ?_⟩
      · exact hub e' (List.mem_map_of_mem (f := (·.2)) (hL.mem _ _ he'))
      · rw [← hbm, ← hwb]; exact hle

theorem nonvacuous :
    let a := C01.run ⟨1, none, 0⟩ 3
      [.add [(0, ⟨1, 4, []⟩), (1, ⟨2, 8, []⟩)], .add1 (1, ⟨3, 9, []⟩), .add1 (0, ⟨4, 1, []⟩)]
    a.stats.objMax = some 9 ∧ (a.cellOf 1).map (·.obj) = some 9 ∧ a.stats.best.map (fun b => b.2.tok) = some 3 := by
  decide +kernel

end Pyribs.C06b
