import Mathlib.Algebra.Order.Field.Rat
import Mathlib.Tactic.Linarith
import Mathlib.Tactic.FieldSimp
import Mathlib.Tactic.Positivity
import Mathlib.Tactic.Ring
/-! spike: CMA-MAE batch threshold rule on the code-shaped definition (C05) -/
def mean (l : List ℚ) : ℚ := l.sum / l.length
/-- `_compute_thresholds`: ratio^k · t + mean · (1 − ratio^k), k = number of accepted candidates of the cell -/
def newThr (a t : ℚ) (acc : List ℚ) : ℚ :=
  if acc = [] then t else (1 - a) ^ acc.length * t + mean acc * (1 - (1 - a) ^ acc.length)

theorem sum_gt (t : ℚ) (l : List ℚ) (h : ∀ x ∈ l, t < x) (hne : l ≠ []) : l.length * t < l.sum := by
  induction l with
  | nil => exact absurd rfl hne
  | cons x xs ih =>
    simp only [List.sum_cons, List.length_cons, Nat.cast_add, Nat.cast_one]
    have hx := h x (by simp)
    by_cases hxs : xs = []
    · subst hxs; simp; linarith
    · have := ih (fun y hy => h y (by simp [hy])) hxs
      linarith

theorem sum_le_max (M : ℚ) (l : List ℚ) (h : ∀ x ∈ l, x ≤ M) : l.sum ≤ l.length * M := by
  induction l with
  | nil => simp
  | cons x xs ih =>
    simp only [List.sum_cons, List.length_cons, Nat.cast_add, Nat.cast_one]
    have := ih (fun y hy => h y (by simp [hy])); have := h x (by simp); linarith

theorem mean_gt (t : ℚ) (l : List ℚ) (h : ∀ x ∈ l, t < x) (hne : l ≠ []) : t < mean l := by
  have hl : (0:ℚ) < l.length := by exact_mod_cast List.length_pos_iff.mpr hne
  unfold mean; rw [lt_div_iff₀ hl]; linarith [sum_gt t l h hne]

theorem mean_le (M : ℚ) (l : List ℚ) (h : ∀ x ∈ l, x ≤ M) (hne : l ≠ []) : mean l ≤ M := by
  have hl : (0:ℚ) < l.length := by exact_mod_cast List.length_pos_iff.mpr hne
  unfold mean; rw [div_le_iff₀ hl]; linarith [sum_le_max M l h]

variable (a t : ℚ) (acc : List ℚ)

/-- T05.3: thresholds never decrease (accepted candidates all exceed the prior threshold) -/
theorem thr_monotone (h0 : 0 ≤ a) (h1 : a ≤ 1) (hacc : ∀ x ∈ acc, t < x) : t ≤ newThr a t acc := by
  unfold newThr; split
  · exact le_refl _
  · rename_i hne
    have hm := mean_gt t acc hacc hne
    have hr0 : 0 ≤ (1 - a) ^ acc.length := pow_nonneg (by linarith) _
    have hr1 : (1 - a) ^ acc.length ≤ 1 := pow_le_one₀ (by linarith) (by linarith)
    nlinarith [mul_nonneg (sub_nonneg.mpr hr1) (le_of_lt (sub_pos.mpr hm))]

/-- T05.4: the new threshold never exceeds the best objective accepted in the call -/
theorem thr_le_best (h0 : 0 ≤ a) (h1 : a ≤ 1) (hacc : ∀ x ∈ acc, t < x) (M : ℚ) (hM : ∀ x ∈ acc, x ≤ M)
    (hne : acc ≠ []) : newThr a t acc ≤ M := by
  unfold newThr; rw [if_neg hne]
  have hm := mean_le M acc hM hne
  have hm' := mean_gt t acc hacc hne
  have hr0 : 0 ≤ (1 - a) ^ acc.length := pow_nonneg (by linarith) _
  have hr1 : (1 - a) ^ acc.length ≤ 1 := pow_le_one₀ (by linarith) (by linarith)
  nlinarith [mul_nonneg hr0 (sub_nonneg.mpr (le_trans (le_of_lt hm') hm)), mul_nonneg (sub_nonneg.mpr hr1) (sub_nonneg.mpr hm)]

/-- T05.6: with learning rate 0 thresholds never move -/
theorem thr_a_zero : newThr 0 t acc = t := by unfold newThr; split <;> simp

/-- single add is the k = 1 case: (1−a)·t + a·f -/
theorem thr_single (f : ℚ) : newThr a t [f] = (1 - a) * t + a * f := by
  simp [newThr, mean]; ring

/-- a = 1 (and finite t): the threshold becomes the mean of the accepted objectives -/
theorem thr_a_one (hne : acc ≠ []) : newThr 1 t acc = mean acc := by
  have : acc.length ≠ 0 := by simpa [List.length_eq_zero_iff] using hne
  simp [newThr, hne, this]
#print axioms thr_le_best
